/-
  C17 — arbitrary LLM output never breaks a turn and is treated as data.          (PARTIAL by design)

  What is proved here (for ALL completions, all configurations of predefined messages, all contexts):
    * every text post-processing step that the generation actions apply to a raw completion is total:
      it yields a well-formed result (non-empty intent / non-empty BotMessage text) or an exception that
      is raised INSIDE the action, which the dispatcher turns into the internal-error reply;
    * only PREDEFINED bot messages flow into `_render_string`; the text produced from an LLM completion
      reaches `BotMessage.text` without passing through the renderer (parametricity in `render`).

  What is NOT carried by a theorem (search territory of the check, see design_notes/C17.md):
    * code outside actions that consumes LLM-derived text: Colang 1.0 `_process_start_flow` (multi-step
      generation), Colang 2.x `AddFlowsAction` and the execution of generated flows, `literal_eval`;
    * the full statement
        ∀ mode cfg history (outs : List Str), ∃ reply, generate cfg mode history outs = .ok reply ∧ WellFormed reply
          ∧ ∀ sentinel ∈ templateSyntax outs, Literal sentinel reply
      over the real runtimes.  It is FALSE on the current tree (open findings: multi-step mode lets an
      exception escape / never returns; `bot $var` as an LLM-predicted intent is dereferenced; generated 2.x
      flows interpolate `{…}`), and is examined end-to-end with the hostile corpus.
-/
import NemoVerif.Lemmas.LlmText

namespace NemoVerif.C17
open NemoVerif.Py NemoVerif.Py.Str NemoVerif.LlmText

/-! ## Python primitives the code relies on never raising -/

/-- `s.split(sep)[0]` cannot raise: `split` never returns an empty list. -/
theorem split_first_total (sep : Char) (s : Str) : ∃ x, first (splitOn sep s) = .ok x := first_splitOn_ok sep s

/-- `sep.join(s.split(sep)) == s`, and no piece contains the separator. -/
theorem split_join_roundtrip (sep : Char) (s : Str) :
    join [sep] (splitOn sep s) = s ∧ ∀ x ∈ splitOn sep s, sep ∉ x :=
  ⟨join_splitOn sep s, splitOn_no_sep sep s⟩

/-- `strip()` is idempotent, yields "" exactly on all-whitespace input, and its result has no whitespace at either end. -/
theorem strip_spec (s : Str) :
    strip (strip s) = strip s ∧ (strip s = [] ↔ ∀ c ∈ s, isWs c = true) ∧
    (∀ c t, strip s = c :: t → isWs c = false) ∧ (∀ c, (strip s).getLast? = some c → isWs c = false) :=
  ⟨strip_idem s, strip_eq_nil_iff s, strip_head_not_ws s, strip_last_not_ws s⟩

/-! ## utils.py helpers -/

/-- `get_first_nonempty_line` returns the first line whose strip is non-empty (stripped) … -/
theorem firstNonemptyLine_spec (s l : Str) (h : getFirstNonemptyLine s = some l) :
    l ≠ [] ∧ ∃ pre x post, splitOn '\n' s = pre ++ x :: post ∧ (∀ p ∈ pre, strip p = []) ∧ l = strip x :=
  first_line_some s l h

/-- … or `None` exactly when every line is blank. -/
theorem firstNonemptyLine_none (s : Str) (h : getFirstNonemptyLine s = none) :
    ∀ x ∈ splitOn '\n' s, strip x = [] := first_line_none s h

/-- the returned line is a single stripped line: no newline inside, stripping it again changes nothing -/
theorem firstNonemptyLine_wellformed (s l : Str) (h : getFirstNonemptyLine s = some l) :
    '\n' ∉ l ∧ strip l = l := by
  obtain ⟨_, pre, x, post, hsplit, _, hx⟩ := first_line_some s l h
  subst hx
  refine ⟨?_, strip_idem x⟩
  intro hmem
  have hx : x ∈ splitOn '\n' s := by rw [hsplit]; simp
  exact splitOn_no_sep '\n' s x hx (stripBy_mem _ _ _ hmem)

example : getFirstNonemptyLine (lit " \n\t\n  bot hi  \nrest") = some (lit "bot hi") := by decide

/-- `strip_quotes` never raises (its `s[0]` / `s[-1]` are guarded by `s and …`) and never grows the text. -/
theorem stripQuotes_total (s : Str) : ∃ r, stripQuotes s = .ok r ∧ r.length ≤ s.length := stripQuotes_ok s

/-- `get_top_k_nonempty_lines` never raises (`line[0]` is guarded by `len(line) > 0`); `None` iff the text is empty;
    otherwise at most `k` non-empty stripped lines. -/
theorem topK_total (s : Str) (k : Nat) :
    ∃ r, getTopKNonemptyLines s k = .ok r ∧ (r = none ↔ s = []) ∧
      ∀ ls, r = some ls → ls.length ≤ k ∧ ∀ l ∈ ls, l ≠ [] ∧ ∃ x, l = strip x := topK_ok s k

/-- `get_multiline_response` never raises (`s.split("\nuser")[0]`). -/
theorem multilineResponse_total (s : Str) : ∃ r, getMultilineResponse s = .ok r := multiline_ok s

/-! ## post-processing inside the generation actions -/

/-- `generate_user_intent`: for every completion and every configured output parser the `UserIntent` is a non-empty string. -/
theorem postUserIntent_total (p : Parser) (out : Str) : postUserIntent p out ≠ [] := postUserIntent_ne_nil p out

/-- `generate_next_step` (single step): always returns a `BotIntent`, never raises … -/
theorem postNextStep_total (p : Parser) (out : Str) : ∃ i, postNextStep p out = .ok i := postNextStep_ok p out

/-- … but the intent can be the EMPTY string (finite witness, by evaluation): completion `bot ,`. -/
theorem postNextStep_may_be_empty : postNextStep .none ['b', 'o', 't', ' ', ','] = .ok [] := by rfl

/-- `generate_bot_message`, LLM branch: never raises, and the BotMessage text is non-empty. -/
theorem postBotMessage_total (p : Parser) (out : Str) : ∃ t, postBotMessage p out = .ok t ∧ t ≠ [] := postBotMessage_ok p out

/-- `generate_value`: the string handed to `literal_eval` always exists (`result.strip().split("\n")[0]`). -/
theorem postValue_total (p : Parser) (out : Str) : ∃ v, postValue p out = .ok v := postValue_ok p out

/-- `generate_intent_steps_message` (single-call mode): whenever the parsed completion is non-empty, all three
    results are non-empty strings … -/
theorem postSingleCall_total (p : Parser) (out : Str) (hne : p.apply out ≠ []) :
    ∃ r, postSingleCall p out = .ok r ∧ r.userIntent ≠ [] ∧ r.botIntent ≠ [] ∧ r.botMessage ≠ [] :=
  singleCall_fields p out hne

example : (Parser.none).apply (lit "  ask\nbot x\n  \"hi\"") ≠ [] := by decide

/-- … and on an empty completion `len(None)` raises a TypeError inside the action (contained, see below). -/
theorem postSingleCall_empty_contained (p : Parser) (out : Str) (h : p.apply out = []) :
    postSingleCall p out = .error .typeError := singleCall_empty p out h

/-- Colang 2.x `GenerateUserIntentAction`: the returned flow id is never empty. -/
theorem postUserIntentV2_total (p : Parser) (out : Str) : postUserIntentV2 p out ≠ [] := postUserIntentV2_ne_nil p out

/-! ## generate_bot_message: containment and dataflow into the renderer -/

/-- The empty bot intent (reachable: `postNextStep_may_be_empty`) makes `bot_intent[0]` raise IndexError inside the
    action; the dispatcher converts it into the internal-error reply — it does not escape. -/
theorem empty_bot_intent_contained (render : Str → Str) (bms : List (Str × List Str)) (ctx : List (Str × CtxVal))
    (pick : Nat) (t : Except PyErr Str) (h : lookup [] bms = none) :
    generateBotMessage render bms ctx [] pick t = .error .indexError ∧
    dispatch (generateBotMessage render bms ctx [] pick t) = .internalError := by
  simp [generateBotMessage, h, idx0, dispatch]

/-- When `generate_bot_message` returns, the BotMessage text is non-empty — for every branch. -/
theorem botMessage_text_nonempty (render : Str → Str) (bms : List (Str × List Str)) (ctx : List (Str × CtxVal))
    (bi : Str) (pick : Nat) (t : Except PyErr Str) (o : BotMsgOut)
    (h : generateBotMessage render bms ctx bi pick t = .ok o) : o.text ≠ [] :=
  generateBotMessage_text_ne_nil render bms ctx bi pick t o h

/-- `generate_bot_message` raises only in the three listed situations; otherwise it returns. -/
theorem generateBotMessage_total (render : Str → Str) (bms : List (Str × List Str)) (ctx : List (Str × CtxVal))
    (bi : Str) (pick : Nat) (tx : Str)
    (hbi : bi ≠ [])
    (hpick : ∀ msgs, lookup bi bms = some msgs → pick < msgs.length)
    (hctx : ∀ v, lookup (bi.drop 1) ctx = some v → ∃ s, v = .str s) :
    ∃ o, generateBotMessage render bms ctx bi pick (.ok tx) = .ok o := by
  unfold generateBotMessage
  cases hl : lookup bi bms with
  | some msgs =>
    simp only
    have := hpick msgs hl
    cases hm : msgs[pick]? with
    | none => simp at hm; omega
    | some m => exact ⟨_, rfl⟩
  | none =>
    simp only
    cases bi with
    | nil => exact absurd rfl hbi
    | cons c rest =>
      simp only [idx0]
      by_cases hc : (c == '$') = true
      · rw [if_pos hc]
        cases hv : lookup ((c :: rest).drop 1) ctx with
        | none => exact ⟨_, rfl⟩
        | some v =>
          obtain ⟨s, hs⟩ := hctx v hv
          subst hs
          exact ⟨_, rfl⟩
      · rw [if_neg hc]; exact ⟨_, rfl⟩

example : ∃ o, generateBotMessage id [(lit "greet", [lit "Hello"])] [(lit "v", .str (lit "V"))] (lit "inform") 0 (.ok (lit "text")) = .ok o :=
  generateBotMessage_total id _ _ (lit "inform") 0 (lit "text") (by decide) (by decide)
    (by
      intro v hv
      have hn : lookup (List.drop 1 (lit "inform")) [(lit "v", CtxVal.str (lit "V"))] = none := by decide
      rw [hn] at hv; cases hv)

/-- **LLM text is not rendered (1)**: every string handed to `_render_string` is one of the predefined
    utterances of the configuration, for the intent at hand. -/
theorem only_predefined_rendered (render : Str → Str) (bms : List (Str × List Str)) (ctx : List (Str × CtxVal))
    (bi : Str) (pick : Nat) (t : Except PyErr Str) (o : BotMsgOut)
    (h : generateBotMessage render bms ctx bi pick t = .ok o) :
    ∀ r ∈ o.rendered, ∃ msgs, (bi, msgs) ∈ bms ∧ r ∈ msgs :=
  generateBotMessage_rendered render bms ctx bi pick t o h

/-- **LLM text is not rendered (2)**: when the intent has no predefined message, the outcome — in particular
    the BotMessage text built from the completion — is the same for every renderer, and nothing is rendered. -/
theorem llm_text_not_rendered (r1 r2 : Str → Str) (bms : List (Str × List Str)) (ctx : List (Str × CtxVal))
    (bi : Str) (pick : Nat) (t : Except PyErr Str) (h : lookup bi bms = none) :
    generateBotMessage r1 bms ctx bi pick t = generateBotMessage r2 bms ctx bi pick t ∧
    ∀ o, generateBotMessage r1 bms ctx bi pick t = .ok o → o.rendered = [] := by
  refine ⟨generateBotMessage_render_irrelevant r1 r2 bms ctx bi pick t h, ?_⟩
  intro o ho
  have := generateBotMessage_rendered r1 bms ctx bi pick t o ho
  cases hr : o.rendered with
  | nil => rfl
  | cons a rest =>
    obtain ⟨msgs, hmem, _⟩ := this a (by simp [hr])
    -- (bi, msgs) ∈ bms contradicts lookup = none
    exfalso
    clear this hr ho
    induction bms with
    | nil => simp at hmem
    | cons kv tl ih =>
      obtain ⟨k, v⟩ := kv
      simp only [lookup] at h
      split at h
      · simp at h
      · rename_i hk
        simp at hmem
        rcases hmem with ⟨rfl, _⟩ | hmem
        · simp at hk
        · exact ih h hmem

example : lookup (lit "inform") [(lit "greet", [lit "Hello"])] = none := by decide

/-- Steps 2+3 of the dialog pipeline for an LLM-predicted bot intent: whatever the two completions are, the turn
    ends with a non-empty bot message or the internal-error reply. -/
theorem turn_reply_wellformed (render : Str → Str) (bms : List (Str × List Str)) (ctx : List (Str × CtxVal))
    (p2 p3 : Parser) (pick : Nat) (out2 out3 : Str) :
    (nextStepThenMessage render bms ctx p2 p3 pick out2 out3).text ≠ [] := by
  unfold nextStepThenMessage
  split
  · simp [Reply.text, internalErrorText, lit]
  · rename_i bi _
    unfold dispatch
    split
    · simp [Reply.text, internalErrorText, lit]
    · rename_i o ho
      exact generateBotMessage_text_ne_nil render bms ctx bi pick _ o ho

end NemoVerif.C17
