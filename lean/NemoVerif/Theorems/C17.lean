/-
  C17 — arbitrary LLM output never breaks a turn and is treated as data.          (PARTIAL by design)

  What is proved here (for ALL completions, all configurations of predefined messages, all contexts):
    * every text post-processing step that the generation actions apply to a raw completion is total:
      it yields a well-formed result (non-empty intent / non-empty BotMessage text) or an exception that
      is raised INSIDE the action, which the dispatcher turns into the internal-error reply;
    * only PREDEFINED bot messages flow into `_render_string`; the text produced from an LLM completion
      reaches `BotMessage.text` without passing through the renderer (parametricity in `render`).

    * (phase 2/4) dataflow over an IR regenerated from the source: no template sink receives LLM text, a context value
      (= stored LLM text) or history text — in particular inside `_render_string` the template SOURCE depends on the
      `template_str` parameter and literals only (`llm_text_not_rendered_ir`);
    * (phase 4) the multi-step turn with the try/except structure of `_process_start_flow` and the `generate_events` loop, the
      parser being an oracle that may raise anything: no parser behaviour makes the turn raise; full strength for the repaired
      runtime (`multi_step_never_raises_repaired`), partial + counterexamples as is;
    * (phase 4) `literal_eval` as an oracle: the wrapper of 2.x GenerateValueAction (`generate_value_v2_total`, repaired).

    * (phase 5) the response assembly of `LLMRails.generate_async` (the loops over `new_events` that run after the runtime
      returned, outside every try/except), literals and the shape of the removing statement regenerated from the source:
      total for every event list (`assemble_total`), equal to a stack specification (`assemble_spec`), LLM-written scripts are
      joined literally when none of them is the control script (`assemble_literal`); 2.x loop `assembleV2_total`.

  What is NOT carried by a theorem (search territory of the check, see design_notes/C17.md):
    * Jinja, `literal_eval`, the Colang parsers, `compute_next_steps` (oracles here), Colang 2.x `AddFlowsAction` and the
      execution of generated flows, `eval_expression`;
    * the full statement
        ∀ mode cfg history (outs : List Str), ∃ reply, generate cfg mode history outs = .ok reply ∧ WellFormed reply
          ∧ ∀ sentinel ∈ templateSyntax outs, Literal sentinel reply
      over the real runtimes.  It is FALSE on the current tree (open findings: in multi-step mode an expression error of an
      LLM-written flow and the 100-event valve leave `generate`; `bot $var` as an LLM-predicted intent is dereferenced;
      generated 2.x flows interpolate `{…}`; non-plain literals break the 2.x state serialisation), and is examined end-to-end
      with the hostile corpus, incl. the stored-then-quoted conversations.
-/
import NemoVerif.Lemmas.LlmText
import NemoVerif.Lemmas.LlmGen
import NemoVerif.Lemmas.DataflowIR
import NemoVerif.Generated.C17Dataflow
import NemoVerif.Lemmas.LlmAssemble
import NemoVerif.Generated.C17Assembly

namespace NemoVerif.C17
open NemoVerif.Py NemoVerif.Py.Str NemoVerif.LlmText

/-! ## Python primitives the code relies on never raising -/

/-- `s.split(sep)[0]` cannot raise: `split` never returns an empty list. -/
theorem split_first_total (sep : Char) (s : Str) : ∃ x, first (splitOn sep s) = .ok x := first_splitOn_ok sep s

/-- `sep.join(s.split(sep)) == s`, and no piece contains the separator. -/
theorem split_join_roundtrip (sep : Char) (s : Str) :
    join [sep] (splitOn sep s) = s ∧ ∀ x ∈ splitOn sep s, sep ∉ x :=
  ⟨join_splitOn sep s, splitOn_no_sep sep s⟩

/-- `strip()` is idempotent, yields "" exactly on all-whitespace input, and its result has no whitespace at either end. -/
theorem strip_spec (s : Str) :
    strip (strip s) = strip s ∧ (strip s = [] ↔ ∀ c ∈ s, isWs c = true) ∧
    (∀ c t, strip s = c :: t → isWs c = false) ∧ (∀ c, (strip s).getLast? = some c → isWs c = false) :=
  ⟨strip_idem s, strip_eq_nil_iff s, strip_head_not_ws s, strip_last_not_ws s⟩

/-! ## utils.py helpers -/

/-- `get_first_nonempty_line` returns the first line whose strip is non-empty (stripped) … -/
theorem firstNonemptyLine_spec (s l : Str) (h : getFirstNonemptyLine s = some l) :
    l ≠ [] ∧ ∃ pre x post, splitOn '\n' s = pre ++ x :: post ∧ (∀ p ∈ pre, strip p = []) ∧ l = strip x :=
  first_line_some s l h

/-- … or `None` exactly when every line is blank. -/
theorem firstNonemptyLine_none (s : Str) (h : getFirstNonemptyLine s = none) :
    ∀ x ∈ splitOn '\n' s, strip x = [] := first_line_none s h

/-- the returned line is a single stripped line: no newline inside, stripping it again changes nothing -/
theorem firstNonemptyLine_wellformed (s l : Str) (h : getFirstNonemptyLine s = some l) :
    '\n' ∉ l ∧ strip l = l := by
  obtain ⟨_, pre, x, post, hsplit, _, hx⟩ := first_line_some s l h
  subst hx
  refine ⟨?_, strip_idem x⟩
  intro hmem
  have hx : x ∈ splitOn '\n' s := by rw [hsplit]; simp
  exact splitOn_no_sep '\n' s x hx (stripBy_mem _ _ _ hmem)

example : getFirstNonemptyLine (lit " \n\t\n  bot hi  \nrest") = some (lit "bot hi") := by decide

/-- `strip_quotes` never raises (its `s[0]` / `s[-1]` are guarded by `s and …`) and never grows the text. -/
theorem stripQuotes_total (s : Str) : ∃ r, stripQuotes s = .ok r ∧ r.length ≤ s.length := stripQuotes_ok s

/-- `get_top_k_nonempty_lines` never raises (`line[0]` is guarded by `len(line) > 0`); `None` iff the text is empty;
    otherwise at most `k` non-empty stripped lines. -/
theorem topK_total (s : Str) (k : Nat) :
    ∃ r, getTopKNonemptyLines s k = .ok r ∧ (r = none ↔ s = []) ∧
      ∀ ls, r = some ls → ls.length ≤ k ∧ ∀ l ∈ ls, l ≠ [] ∧ ∃ x, l = strip x := topK_ok s k

/-- `get_multiline_response` never raises (`s.split("\nuser")[0]`). -/
theorem multilineResponse_total (s : Str) : ∃ r, getMultilineResponse s = .ok r := multiline_ok s

/-! ## post-processing inside the generation actions -/

/-- `generate_user_intent`: for every completion and every configured output parser the `UserIntent` is a non-empty string. -/
theorem postUserIntent_total (p : Parser) (out : Str) : postUserIntent p out ≠ [] := postUserIntent_ne_nil p out

/-- `generate_next_step` (single step): always returns a `BotIntent`, never raises … -/
theorem postNextStep_total (p : Parser) (out : Str) : ∃ i, postNextStep p out = .ok i := postNextStep_ok p out

/-- … but the intent can be the EMPTY string (finite witness, by evaluation): completion `bot ,`. -/
theorem postNextStep_may_be_empty : postNextStep .none ['b', 'o', 't', ' ', ','] = .ok [] := by rfl

/-- `generate_bot_message`, LLM branch: never raises, and the BotMessage text is non-empty. -/
theorem postBotMessage_total (p : Parser) (out : Str) : ∃ t, postBotMessage p out = .ok t ∧ t ≠ [] := postBotMessage_ok p out

/-- `generate_value`: the string handed to `literal_eval` always exists (`result.strip().split("\n")[0]`). -/
theorem postValue_total (p : Parser) (out : Str) : ∃ v, postValue p out = .ok v := postValue_ok p out

/-- `generate_intent_steps_message` (single-call mode): whenever the parsed completion is non-empty, all three
    results are non-empty strings … -/
theorem postSingleCall_total (p : Parser) (out : Str) (hne : p.apply out ≠ []) :
    ∃ r, postSingleCall p out = .ok r ∧ r.userIntent ≠ [] ∧ r.botIntent ≠ [] ∧ r.botMessage ≠ [] :=
  singleCall_fields p out hne

example : (Parser.none).apply (lit "  ask\nbot x\n  \"hi\"") ≠ [] := by decide

/-- … and on an empty completion `len(None)` raises a TypeError inside the action (contained, see below). -/
theorem postSingleCall_empty_contained (p : Parser) (out : Str) (h : p.apply out = []) :
    postSingleCall p out = .error .typeError := singleCall_empty p out h

/-- Colang 2.x `GenerateUserIntentAction`: the returned flow id is never empty. -/
theorem postUserIntentV2_total (p : Parser) (out : Str) : postUserIntentV2 p out ≠ [] := postUserIntentV2_ne_nil p out

/-! ## generate_bot_message: containment and dataflow into the renderer -/

/-- The empty bot intent (reachable: `postNextStep_may_be_empty`) makes `bot_intent[0]` raise IndexError inside the
    action; the dispatcher converts it into the internal-error reply — it does not escape. -/
theorem empty_bot_intent_contained (render : Str → Str) (bms : List (Str × List Str)) (ctx : List (Str × CtxVal))
    (pick : Nat) (t : Except PyErr Str) (h : lookup [] bms = none) :
    generateBotMessage render bms ctx [] pick t = .error .indexError ∧
    dispatch (generateBotMessage render bms ctx [] pick t) = .internalError := by
  simp [generateBotMessage, h, idx0, dispatch]

/-- When `generate_bot_message` returns, the BotMessage text is non-empty — for every branch. -/
theorem botMessage_text_nonempty (render : Str → Str) (bms : List (Str × List Str)) (ctx : List (Str × CtxVal))
    (bi : Str) (pick : Nat) (t : Except PyErr Str) (o : BotMsgOut)
    (h : generateBotMessage render bms ctx bi pick t = .ok o) : o.text ≠ [] :=
  generateBotMessage_text_ne_nil render bms ctx bi pick t o h

/-- `generate_bot_message` raises only in the three listed situations; otherwise it returns. -/
theorem generateBotMessage_total (render : Str → Str) (bms : List (Str × List Str)) (ctx : List (Str × CtxVal))
    (bi : Str) (pick : Nat) (tx : Str)
    (hbi : bi ≠ [])
    (hpick : ∀ msgs, lookup bi bms = some msgs → pick < msgs.length)
    (hctx : ∀ v, lookup (bi.drop 1) ctx = some v → ∃ s, v = .str s) :
    ∃ o, generateBotMessage render bms ctx bi pick (.ok tx) = .ok o := by
  unfold generateBotMessage
  cases hl : lookup bi bms with
  | some msgs =>
    simp only
    have := hpick msgs hl
    cases hm : msgs[pick]? with
    | none => simp at hm; omega
    | some m => exact ⟨_, rfl⟩
  | none =>
    simp only
    cases bi with
    | nil => exact absurd rfl hbi
    | cons c rest =>
      simp only [idx0]
      by_cases hc : (c == '$') = true
      · rw [if_pos hc]
        cases hv : lookup ((c :: rest).drop 1) ctx with
        | none => exact ⟨_, rfl⟩
        | some v =>
          obtain ⟨s, hs⟩ := hctx v hv
          subst hs
          exact ⟨_, rfl⟩
      · rw [if_neg hc]; exact ⟨_, rfl⟩

example : ∃ o, generateBotMessage id [(lit "greet", [lit "Hello"])] [(lit "v", .str (lit "V"))] (lit "inform") 0 (.ok (lit "text")) = .ok o :=
  generateBotMessage_total id _ _ (lit "inform") 0 (lit "text") (by decide) (by decide)
    (by
      intro v hv
      have hn : lookup (List.drop 1 (lit "inform")) [(lit "v", CtxVal.str (lit "V"))] = none := by decide
      rw [hn] at hv; cases hv)

/-- **LLM text is not rendered (1)**: every string handed to `_render_string` is one of the predefined
    utterances of the configuration, for the intent at hand. -/
theorem only_predefined_rendered (render : Str → Str) (bms : List (Str × List Str)) (ctx : List (Str × CtxVal))
    (bi : Str) (pick : Nat) (t : Except PyErr Str) (o : BotMsgOut)
    (h : generateBotMessage render bms ctx bi pick t = .ok o) :
    ∀ r ∈ o.rendered, ∃ msgs, (bi, msgs) ∈ bms ∧ r ∈ msgs :=
  generateBotMessage_rendered render bms ctx bi pick t o h

/-- **LLM text is not rendered (2)**: when the intent has no predefined message, the outcome — in particular
    the BotMessage text built from the completion — is the same for every renderer, and nothing is rendered. -/
theorem llm_text_not_rendered (r1 r2 : Str → Str) (bms : List (Str × List Str)) (ctx : List (Str × CtxVal))
    (bi : Str) (pick : Nat) (t : Except PyErr Str) (h : lookup bi bms = none) :
    generateBotMessage r1 bms ctx bi pick t = generateBotMessage r2 bms ctx bi pick t ∧
    ∀ o, generateBotMessage r1 bms ctx bi pick t = .ok o → o.rendered = [] := by
  refine ⟨generateBotMessage_render_irrelevant r1 r2 bms ctx bi pick t h, ?_⟩
  intro o ho
  have := generateBotMessage_rendered r1 bms ctx bi pick t o ho
  cases hr : o.rendered with
  | nil => rfl
  | cons a rest =>
    obtain ⟨msgs, hmem, _⟩ := this a (by simp [hr])
    -- (bi, msgs) ∈ bms contradicts lookup = none
    exfalso
    clear this hr ho
    induction bms with
    | nil => simp at hmem
    | cons kv tl ih =>
      obtain ⟨k, v⟩ := kv
      simp only [lookup] at h
      split at h
      · simp at h
      · rename_i hk
        simp at hmem
        rcases hmem with ⟨rfl, _⟩ | hmem
        · simp at hk
        · exact ih h hmem

example : lookup (lit "inform") [(lit "greet", [lit "Hello"])] = none := by decide

/-- Steps 2+3 of the dialog pipeline for an LLM-predicted bot intent: whatever the two completions are, the turn
    ends with a non-empty bot message or the internal-error reply. -/
theorem turn_reply_wellformed (render : Str → Str) (bms : List (Str × List Str)) (ctx : List (Str × CtxVal))
    (p2 p3 : Parser) (pick : Nat) (out2 out3 : Str) :
    (nextStepThenMessage render bms ctx p2 p3 pick out2 out3).text ≠ [] := by
  unfold nextStepThenMessage
  split
  · simp [Reply.text, internalErrorText, lit]
  · rename_i bi _
    unfold dispatch
    split
    · simp [Reply.text, internalErrorText, lit]
    · rename_i o ho
      exact generateBotMessage_text_ne_nil render bms ctx bi pick _ o ho

/-! ## Phase 2 — multi-step generation (generate_next_step + repaired _process_start_flow + generate_events guard)

The two Colang parsers are oracles (`parsesTop`: the completion prefix parses as a top-level file; `parsesFlow`: the wrapped
`define flow <id>:` source parses into exactly one flow with that id), `nextSteps` is the opaque `compute_next_steps`. -/

/-- **multistep_total**: for every completion, every pair of parser oracles and every next-step function, the events that
    the multi-step path appends are a non-empty list (so `next_events[-1]` is defined) of one of three shapes:
    the `general response` fallback; or `start_flow body` with `body` accepted by the top-level parse, followed by the
    fallback / a `Listen` / the (non-empty) next steps of the started flow. -/
theorem multistep_total (parsesTop parsesFlow : Str → Bool) (nextSteps : Str → List Ev) (p : Parser) (flowId out : Str) :
    multiStep parsesTop parsesFlow nextSteps p flowId out = [.botIntent generalResponse] ∨
    ∃ body rest, multiStep parsesTop parsesFlow nextSteps p flowId out = .startFlow body :: rest ∧ parsesTop body = true ∧ rest ≠ [] ∧
      (rest = [.botIntent generalResponse] ∧ parsesFlow (dynamicFlowSource flowId body) = false ∨
       rest = [.listen] ∧ nextSteps (dynamicFlowSource flowId body) = [] ∨
       rest = nextSteps (dynamicFlowSource flowId body) ∧ parsesFlow (dynamicFlowSource flowId body) = true) := by
  unfold multiStep
  rcases multiStepNextStep_cases parsesTop p out with h | ⟨body, h, hp⟩
  · left; rw [h]
  · right
    rw [h]
    refine ⟨body, _, rfl, hp, orListen_ne_nil _, ?_⟩
    unfold processStartFlow
    simp only
    by_cases hf : parsesFlow (dynamicFlowSource flowId body) = true
    · rw [if_pos hf]
      rcases orListen_cases (nextSteps (dynamicFlowSource flowId body)) with ⟨h1, h2⟩ | ⟨_, h2⟩
      · exact Or.inr (Or.inl ⟨h2, h1⟩)
      · exact Or.inr (Or.inr ⟨h2, hf⟩)
    · rw [if_neg hf]
      left
      exact ⟨by simp [orListen], by simpa using hf⟩

example : multiStep (fun _ => true) (fun _ => false) (fun _ => []) .none (lit "id") (lit "bot x") =
    [.startFlow (lit "bot x"), .botIntent generalResponse] := by decide

/-- the flow body that is started is the LONGEST prefix of the completion's lines that parses … -/
theorem multistep_body_is_longest_parsing_prefix (parsesTop : Str → Bool) (p : Parser) (out body : Str)
    (h : multiStepNextStep parsesTop p out = .startFlow body) :
    ∃ k, 1 ≤ k ∧ k ≤ (splitOn '\n' (p.apply out)).length ∧ body = join ['\n'] ((splitOn '\n' (p.apply out)).take k) ∧
      ∀ j, k < j → j ≤ (splitOn '\n' (p.apply out)).length → parsesTop (join ['\n'] ((splitOn '\n' (p.apply out)).take j)) = false := by
  unfold multiStepNextStep at h
  simp only at h
  cases hs : shrink parsesTop (splitOn '\n' (p.apply out)) (splitOn '\n' (p.apply out)).length with
  | none => rw [hs] at h; cases h
  | some b =>
    rw [hs] at h
    cases h
    exact (shrink_some _ _ _ _ hs).2

/-- … and the fallback is taken only when no non-empty prefix parses. -/
theorem multistep_fallback_only_if_nothing_parses (parsesTop : Str → Bool) (p : Parser) (out : Str)
    (h : ∀ body, multiStepNextStep parsesTop p out ≠ .startFlow body) :
    ∀ j, 1 ≤ j → j ≤ (splitOn '\n' (p.apply out)).length → parsesTop (join ['\n'] ((splitOn '\n' (p.apply out)).take j)) = false := by
  unfold multiStepNextStep at h
  simp only at h
  cases hs : shrink parsesTop (splitOn '\n' (p.apply out)) (splitOn '\n' (p.apply out)).length with
  | none => exact shrink_none _ _ _ hs
  | some b => rw [hs] at h; exact absurd rfl (h b)

/-! ## Phase 2 — single-call mode in full -/

/-- whatever the single completion (and the optional second one) is, a single-call turn ends with a non-empty bot message or
    the internal-error reply; this includes the empty completion (TypeError), the empty predicted intent (IndexError) and a
    message that imitates the streaming marker (KeyError) -/
theorem singleCall_turn_wellformed (render : Str → Str) (bms : List (Str × List Str)) (ctx : List (Str × CtxVal))
    (p p3 : Parser) (pick : Nat) (chosen : Option Str) (out out2 : Str) :
    (singleCallTurn render bms ctx p p3 pick chosen out out2).text ≠ [] := by
  unfold singleCallTurn
  cases hsc : postSingleCall p out with
  | error e => simp [Reply.text, internalErrorText, lit]
  | ok r =>
    simp only
    have hne : p.apply out ≠ [] := by
      intro hn
      rw [singleCall_empty p out hn] at hsc
      cases hsc
    obtain ⟨r', hr', _, _, hbm⟩ := singleCall_fields p out hne
    rw [hsc] at hr'
    cases hr'
    unfold dispatch
    split
    · simp [Reply.text, internalErrorText, lit]
    · rename_i o ho
      exact generateBotMessageSC_text_ne_nil _ _ _ _ _ _ _ hbm _ o ho

/-- a pre-computed message that starts with the streaming marker raises KeyError inside the action when no streaming
    handler is registered (contained) -/
theorem singleCall_streaming_marker_contained (render : Str → Str) (bms : List (Str × List Str)) (ctx : List (Str × CtxVal))
    (bi bm : Str) (pick : Nat) (t : Except PyErr Str)
    (hreach : reachesLlmBranch bms ctx bi = .ok true) (hm : startsWith bm streamingPrefix = true) :
    generateBotMessageSC render bms ctx bi pick (some (bi, bm)) t = .error .keyError := by
  unfold generateBotMessageSC
  rw [hreach]
  simp [hm]

/-- only predefined messages are rendered — also on the single-call path -/
theorem only_predefined_rendered_sc (render : Str → Str) (bms : List (Str × List Str)) (ctx : List (Str × CtxVal))
    (bi : Str) (pick : Nat) (sc : Option (Str × Str)) (t : Except PyErr Str) (o : BotMsgOut)
    (h : generateBotMessageSC render bms ctx bi pick sc t = .ok o) :
    ∀ r ∈ o.rendered, ∃ msgs, (bi, msgs) ∈ bms ∧ r ∈ msgs :=
  generateBotMessageSC_rendered render bms ctx bi pick sc t o h

/-! ## Phase 2 — Colang 2.x flow / value generation bodies never raise -/

theorem flowFromInstructions_total (flowName result : Str) : ∃ o, flowFromInstructions flowName result = .ok o :=
  flowFromInstructions_ok flowName result

theorem flowFromName_total (name result : Str) : ∃ o, flowFromName name result = .ok o ∧ startsWith o (lit "flow ") = true :=
  flowFromName_ok name result

theorem flowContinuation_total (escape : Str → Str) (uuid result : Str) : ∃ o, flowContinuation escape uuid result = .ok o :=
  flowContinuation_ok escape uuid result

theorem flowFromNld_total (p : Parser) (uuid out : Str) : ∃ o, flowFromNld p uuid out = .ok o := flowFromNld_ok p uuid out

/-- every body line produced by `generate_flow` is indented (the generated text stays inside the flow) -/
theorem flowFromNld_lines_indented (l : Str) : startsWith (indentLine l) (lit "  ") = true := indentLine_starts l

theorem postValueV2_total (p : Parser) (lastPromptLine out : Str) : ∃ v, postValueV2 p lastPromptLine out = .ok v :=
  postValueV2_ok p lastPromptLine out

/-! ## Phase 4 — multi-step generation with the try/except structure: the parser is an oracle that may raise ANYTHING

FULL statement (not provable, false of the code — see the two counterexamples):
  `∀ parse nextSteps cont p flowId out history, ∃ l, multiStepTurn parse nextSteps cont p flowId out history = .ok l ∧ lastEv l = some .listen`
What is proved: no behaviour of the PARSER can make the turn raise (`…_contains_parser`, `multi_step_error_sources`); the turn
raises only when `compute_next_steps` / a later step raises or the 100-event safety valve fires; if the step oracles are total the
outcome is a non-empty event list ending in `Listen` or the safety valve (`multi_step_never_raises_partial`). -/

/-- `_process_start_flow`: an exception can leave only when the parser RETURNED exactly the one expected flow and
    `_compute_next_steps` raised it; whatever the parser raises is contained. -/
theorem process_start_flow_contains_parser {ε δ : Type} (parse : ParseOracle ε) (nextSteps : Str → Except δ (List Ev))
    (flowId body : Str) (d : δ) (h : processStartFlowE parse nextSteps flowId body = .error d) :
    parse (dynamicFlowSource flowId body) = .ok [flowId] ∧ nextSteps (dynamicFlowSource flowId body) = .error d :=
  processStartFlowE_error parse nextSteps flowId body d h

/-- … and in every other case (parser raised anything, returned no flow, several flows, a flow with another id) the result is the
    fallback `BotIntent general response`. -/
theorem process_start_flow_fallback {ε δ : Type} (parse : ParseOracle ε) (nextSteps : Str → Except δ (List Ev))
    (flowId body : Str) (h : parse (dynamicFlowSource flowId body) ≠ .ok [flowId]) :
    processStartFlowE parse nextSteps flowId body = .ok [.botIntent generalResponse] := by
  rcases processStartFlowE_cases parse nextSteps flowId body with ⟨hp, _⟩ | ⟨_, he⟩
  · exact absurd ((tryPassed_iff parse flowId _).1 hp) h
  · exact he

example : (fun (_ : Str) => (Except.error PyErr.indexError : Except PyErr (List Str))) (lit "x") ≠ .ok [lit "f"] := by simp

/-- the repaired function refines the phase-2 model (`parsesFlow` := "the try block passed") when the step oracle is total -/
theorem process_start_flow_refines {ε : Type} (parse : ParseOracle ε) (nextSteps : Str → List Ev) (flowId body : Str) :
    processStartFlowE (δ := Empty) parse (fun s => .ok (nextSteps s)) flowId body =
      .ok (processStartFlow (fun src => match processStartFlowTry parse flowId src with | .passed => true | _ => false)
            nextSteps flowId body) := by
  unfold processStartFlowE processStartFlow
  cases h : processStartFlowTry parse flowId (dynamicFlowSource flowId body) <;> simp [h]

/-- `generate_events`: every way the loop can end -/
theorem generate_events_outcomes {δ : Type} (step : List Ev → Except δ (List Ev)) (events : List Ev) :
    (∃ l, generateEvents step events = .ok l ∧ l ≠ [] ∧ lastEv l = some .listen)
    ∨ generateEvents step events = .error .tooManyEvents
    ∨ (∃ evs e, step evs = .error e ∧ generateEvents step events = .error (.raised e)) :=
  genLoop_spec step 102 events []

/-- the fuel of the model is not an artefact: `tooManyEvents` is reported only when more than 100 events were appended -/
theorem generate_events_too_many_is_real {δ : Type} (step : List Ev → Except δ (List Ev)) (events : List Ev)
    (h : generateEvents step events = .error .tooManyEvents) : ∃ appended : List Ev, appended.length > 100 := by
  obtain ⟨extra, hx⟩ := genLoop_tooMany_real step 102 events [] (by simp) h
  exact ⟨extra, by simpa using hx⟩

/-- **multi_step_error_sources**: for EVERY parser behaviour, an exception that leaves the multi-step turn is the safety valve or
    was raised by `compute_next_steps` on a flow the parser accepted, or by a later step — never by the parser. -/
theorem multi_step_error_sources {ε δ : Type} (parse : ParseOracle ε) (nextSteps : Str → Except δ (List Ev))
    (cont : List Ev → Except δ (List Ev)) (p : Parser) (flowId out : Str) (history : List Ev) (x : GenErr δ)
    (h : multiStepTurn parse nextSteps cont p flowId out history = .error x) :
    x = .tooManyEvents ∨ ∃ d, x = .raised d ∧ ((∃ s, parse s = .ok [flowId] ∧ nextSteps s = .error d) ∨ ∃ evs, cont evs = .error d) := by
  unfold multiStepTurn at h
  rcases generate_events_outcomes (stepMS parse nextSteps cont flowId) (history ++ [multiStepNextStep (parsesTopOf parse) p out])
    with ⟨l, hl, _⟩ | ht | ⟨evs, e, hs, hr⟩
  · rw [hl] at h; cases h
  · rw [ht] at h; left; cases h; rfl
  · rw [hr] at h; right; cases h
    refine ⟨e, rfl, ?_⟩
    rcases stepMS_error parse nextSteps cont flowId evs e hs with hns | hc
    · exact Or.inl hns
    · exact Or.inr ⟨evs, hc⟩

/-- **multi_step_never_raises (partial)**: hypotheses = the two step oracles are total (excludes exactly the open finding
    `escape:multi_step:generated-flow-expression`); conclusion for EVERY parser behaviour and every completion: the turn ends
    with a non-empty list of events whose last one is `Listen`, or with the safety valve (open finding
    `escape:multi_step:generate_events:too-many-events`). -/
theorem multi_step_never_raises_partial {ε δ : Type} (parse : ParseOracle ε) (nextSteps : Str → Except δ (List Ev))
    (cont : List Ev → Except δ (List Ev)) (hns : ∀ s, ∃ l, nextSteps s = .ok l) (hc : ∀ evs, ∃ l, cont evs = .ok l)
    (p : Parser) (flowId out : Str) (history : List Ev) :
    (∃ l, multiStepTurn parse nextSteps cont p flowId out history = .ok l ∧ l ≠ [] ∧ lastEv l = some .listen)
    ∨ multiStepTurn parse nextSteps cont p flowId out history = .error .tooManyEvents := by
  rcases generate_events_outcomes (stepMS parse nextSteps cont flowId) (history ++ [multiStepNextStep (parsesTopOf parse) p out])
    with h | h | ⟨evs, e, hs, _⟩
  · exact Or.inl h
  · exact Or.inr h
  · rcases stepMS_error parse nextSteps cont flowId evs e hs with ⟨s, _, h1⟩ | h2
    · obtain ⟨l, hl⟩ := hns s; rw [hl] at h1; cases h1
    · obtain ⟨l, hl⟩ := hc evs; rw [hl] at h2; cases h2

/-- non-vacuity: total step oracles exist, and with them a raising parser gives the fallback turn `[BotIntent general response]`
    followed by what `cont` does -/
example : multiStepTurn (ε := Unit) (δ := Empty) (fun _ => .error ()) (fun _ => .ok []) (fun _ => .ok [.listen])
    .none (lit "f") (lit "bot x") [] = .ok [.listen] := by rfl

/-- counterexample 1 (open finding `escape:multi_step:generated-flow-expression`): the parser accepts `$x = x`, the evaluation
    of the expression raises inside `compute_next_steps`, outside every try: the exception leaves `generate_events`. -/
theorem multi_step_expression_error_as_is_counterexample :
    multiStepTurn (ε := Unit) (δ := Unit) (fun _ => .ok [lit "f"]) (fun _ => .error ()) (fun _ => .ok [])
      .none (lit "f") (lit "$x = x") [] = .error (.raised ()) := by rfl

/-- counterexample 2 (open finding `escape:multi_step:generate_events:too-many-events`): steps that never reach `Listen`. -/
theorem multi_step_too_many_events_as_is_counterexample :
    (match multiStepTurn (ε := Unit) (δ := Unit) (fun _ => .error ()) (fun _ => .ok []) (fun _ => .ok [.step 0])
      .none (lit "f") (lit "bot x") [] with | .error .tooManyEvents => true | _ => false) = true := by decide +kernel

/-! ### … and at FULL strength for the repaired runtime (fixes/C17-v1-flow-error-ends-turn.diff) -/

/-- **multi_step_never_raises (repaired runtime, full strength)**: for EVERY behaviour of the parser, of `compute_next_steps` (both
    may raise anything, at any iteration) and of the actions, and for every completion, the multi-step turn yields a non-empty
    list of events whose last one is `Listen`.  (The result type is a plain list: in the repaired code no `raise` is left on this
    path; what the theorem adds is that the loop always ENDS with `Listen`, also through the 100-event valve.) -/
theorem multi_step_never_raises_repaired {ε δ : Type} (parse : ParseOracle ε) (nextSteps : Str → Except δ (List Ev))
    (cont : List Ev → Except δ (List Ev)) (act : List Ev → Option (List Ev)) (p : Parser) (flowId out : Str) (history : List Ev) :
    multiStepTurnR parse nextSteps cont act p flowId out history ≠ []
      ∧ lastEv (multiStepTurnR parse nextSteps cont act p flowId out history) = some .listen :=
  genLoopR_spec _ 102 _ []

/-- the two counterexamples of the as-is runtime end with the internal-error events and `Listen` once repaired -/
theorem multi_step_expression_error_repaired :
    multiStepTurnR (ε := Unit) (δ := Unit) (fun _ => .ok [lit "f"]) (fun _ => .error ()) (fun _ => .ok []) (fun _ => none)
      .none (lit "f") (lit "$x = x") [] = internalErrorEvents ++ [.listen] := by rfl

/-! ## Phase 4 — `literal_eval` is an oracle; the wrapper of 2.x `GenerateValueAction`

FULL statement: whatever `literal_eval` does (raises anything, returns any Python literal) the action either returns a value that
a flow variable / the serialised state can hold, or raises the fixed `Invalid LLM response` (contained by the action dispatcher).
True of the wrapper as it is since /repo 98bf321 (`generate_value_v2_total`; model `generateValueV2R`); false before
(`generate_value_v2_nonstorable_as_is_counterexample`, finding `escape:v2_value:serialization.py:encode_to_dict:Exception`, fixed). -/

theorem generate_value_v2_total {ε : Type} (literalEval : Str → Except ε Lit) (p : Parser) (lastPromptLine out : Str) :
    (∃ x, generateValueV2R literalEval p lastPromptLine out = .ok x ∧ x.isPlain = true)
    ∨ ∃ v, generateValueV2R literalEval p lastPromptLine out = .error (.invalidLlmResponse v) :=
  generateValueV2R_spec literalEval p lastPromptLine out

/-- before 98bf321: only the exception class is controlled (`…_partial`: nothing is said about the returned value) -/
theorem generate_value_v2_total_partial {ε : Type} (literalEval : Str → Except ε Lit) (p : Parser) (lastPromptLine out : Str) :
    (∃ x, generateValueV2 literalEval p lastPromptLine out = .ok x)
    ∨ ∃ v, generateValueV2 literalEval p lastPromptLine out = .error (.invalidLlmResponse v) :=
  generateValueV2_spec literalEval p lastPromptLine out

/-- before 98bf321, `...` (Ellipsis) reaches the flow variable: a value the state serialisation cannot store -/
theorem generate_value_v2_nonstorable_as_is_counterexample :
    ∃ x, generateValueV2 (ε := Unit) (fun _ => .ok .ellipsis) .none (lit "$v =") (lit "...") = .ok x ∧ x.isPlain = false :=
  ⟨.ellipsis, by
    obtain ⟨v, hv⟩ := postValueV2_ok .none (lit "$v =") (lit "...")
    simp [generateValueV2, hv], rfl⟩

/-! ## Phase 6 — the guard `_is_plain_value` against the END of the turn (`state_to_json`)

FULL statement: whatever `literal_eval` returns — any Python literal, with any atom kind at ANY position: element, dict value, dict
KEY, inside a tuple that is a key, nested — a value that `GenerateValueAction` returns is accepted by `state_to_json`
(= `json.dumps ∘ encode_to_dict`), so the turn that stores it ends with a serialised state.
`encode_to_dict` half: true as is (`generate_value_v2_encodable`).  `json.dumps` half: false as is — an int beyond CPython's
int→str limit is plain data for the guard (`generate_value_v2_hugeint_as_is_counterexample`, open finding
`escape:v2_value:serialization.py:state_to_json:ValueError`); true under the hypothesis that `literal_eval` returned no such int
(`generate_value_v2_storable_partial`) and, without hypothesis, of the repaired guard (`generate_value_v2_storable_repaired`,
fixes/C17-v2-generated-value-printable-int.diff).
Tie: `Lit.isPlain` vs the real `_is_plain_value`, `Lit.storable` vs the real `state_to_json`, `generateValueV2R` vs the real action,
on every literal the generator produces (every atom kind × every position, random trees). -/

/-- the guard accepts EXACTLY what `encode_to_dict` accepts (dict keys included) -/
theorem plain_iff_encodable (x : Lit) : x.isPlain = x.encodable := Lit.isPlain_eq_encodable x

/-- the guard looks at the KEYS of a dict as well as at its values … -/
theorem isPlain_checks_dict_keys (kvs : List (Lit × Lit)) (h : (Lit.dict kvs).isPlain = true) :
    ∀ kv ∈ kvs, kv.1.isPlain = true ∧ kv.2.isPlain = true :=
  Lit.allPlainKV_mem kvs (by simpa [Lit.isPlain] using h)

example : (Lit.dict [(.str (lit "item"), .int 2), (.tuple [.int 1, .int 2], .str (lit "pizza"))]).isPlain = true := by decide

/-- … and at every element of a list / tuple / set (so also at the members of a tuple that is a key) -/
theorem isPlain_checks_elements (l : List Lit) :
    ((Lit.list l).isPlain = true → ∀ x ∈ l, x.isPlain = true) ∧ ((Lit.tuple l).isPlain = true → ∀ x ∈ l, x.isPlain = true)
    ∧ ((Lit.set l).isPlain = true → ∀ x ∈ l, x.isPlain = true) :=
  ⟨fun h => Lit.allPlain_mem l (by simpa [Lit.isPlain] using h), fun h => Lit.allPlain_mem l (by simpa [Lit.isPlain] using h),
   fun h => Lit.allPlain_mem l (by simpa [Lit.isPlain] using h)⟩

/-- the four literals of the seeded change `plain-value-ignores-dict-keys` (and a plain neighbour of each shape) -/
theorem nonplain_key_witnesses :
    (Lit.dict [(.ellipsis, .str (lit "pizza"))]).isPlain = false
    ∧ (Lit.dict [(.bytes (lit "item"), .str (lit "pizza"))]).isPlain = false
    ∧ (Lit.dict [(.str (lit "order"), .dict [(.complex (lit "2j"), .str (lit "pizza"))])]).isPlain = false
    ∧ (Lit.list [.dict [(.tuple [.int 1, .ellipsis], .str (lit "pizza"))]]).isPlain = false
    ∧ (Lit.list [.dict [(.tuple [.int 1, .int 2], .str (lit "pizza"))]]).isPlain = true := by decide

/-- as is: a returned value never makes `encode_to_dict` raise — ∀ behaviour of `literal_eval`, ∀ completion -/
theorem generate_value_v2_encodable {ε : Type} (literalEval : Str → Except ε Lit) (p : Parser) (lastPromptLine out : Str) (x : Lit)
    (h : generateValueV2R literalEval p lastPromptLine out = .ok x) : x.encodable = true := by
  rw [← plain_iff_encodable]; exact generateValueV2R_ok_plain literalEval p lastPromptLine out x h

example : ∃ x, generateValueV2R (ε := Unit) (fun _ => .ok (.dict [(.tuple [.int 1, .int 2], .str (lit "pizza"))])) .none (lit "$v =") (lit "{(1, 2): 'pizza'}") = .ok x := by
  obtain ⟨v, hv⟩ := postValueV2_ok .none (lit "$v =") (lit "{(1, 2): 'pizza'}")
  exact ⟨_, by simp only [generateValueV2R, hv]; rfl⟩

/-- as is, under the hypothesis that `literal_eval` returns no unprintable int: the returned value is accepted by `state_to_json` -/
theorem generate_value_v2_storable_partial {ε : Type} (literalEval : Str → Except ε Lit) (p : Parser) (lastPromptLine out : Str) (x : Lit)
    (hint : ∀ v y, literalEval v = .ok y → y.printable = true)
    (h : generateValueV2R literalEval p lastPromptLine out = .ok x) : x.storable = true := by
  have he := generate_value_v2_encodable literalEval p lastPromptLine out x h
  have hp : x.printable = true := by
    unfold generateValueV2R at h
    split at h
    · simp at h
    · split at h
      · simp at h
      · rename_i v _ y hy
        split at h
        · simp only [Except.ok.injEq] at h; subst h; exact hint _ _ hy
        · simp at h
  simp [Lit.storable, he, hp]

/-- non-vacuity of `hint` (an oracle that returns a dict with an int key) -/
example : ∀ (v : Str) y, (fun (_ : Str) => (Except.ok (Lit.dict [(.int 1, .str [])]) : Except Unit Lit)) v = .ok y → y.printable = true := by
  intro v y h
  simp only [Except.ok.injEq] at h
  subst h
  decide +kernel

/-- the hypothesis is needed: `0x1` followed by 3600 zeros is an int for `literal_eval`, plain data for the guard, and refused by `json.dumps` -/
theorem generate_value_v2_hugeint_as_is_counterexample :
    ∃ x, generateValueV2R (ε := Unit) (fun _ => .ok (.list [.int (Int.ofNat (16 ^ 3600))])) .none (lit "$v =") (lit "[0x1…]") = .ok x
      ∧ x.isPlain = true ∧ x.storable = false := by
  obtain ⟨v, hv⟩ := postValueV2_ok .none (lit "$v =") (lit "[0x1…]")
  exact ⟨.list [.int (Int.ofNat (16 ^ 3600))], by simp only [generateValueV2R, hv]; rfl, by decide +kernel, by decide +kernel⟩

/-- repaired guard, full strength: ∀ behaviour of `literal_eval`, ∀ completion — a value `state_to_json` accepts, or the fixed
    `Invalid LLM response` -/
theorem generate_value_v2_storable_repaired {ε : Type} (literalEval : Str → Except ε Lit) (p : Parser) (lastPromptLine out : Str) :
    (∃ x, generateValueV2S literalEval p lastPromptLine out = .ok x ∧ x.storable = true)
    ∨ ∃ v, generateValueV2S literalEval p lastPromptLine out = .error (.invalidLlmResponse v) := by
  rcases generateValueV2S_spec literalEval p lastPromptLine out with ⟨x, hx⟩ | h
  · have := generateValueV2S_ok literalEval p lastPromptLine out x hx
    exact .inl ⟨x, hx, by simp [Lit.storable, ← plain_iff_encodable, this.1, this.2]⟩
  · exact .inr h

/-! ## Phase 2 — the dataflow theorem over GENERATED data

`Generated/C17Dataflow.lean` is the IR of every function of generation.py (1.0), generation.py (2.x) and taskmanager.py that
contains a template sink, rewritten from the working tree before every build. -/

open NemoVerif.DataflowIR in
/-- the provenance classes of *conversation data*: text the LLM produced (`llm`), values stored in the context (`context`: the
    previous bot message, generated values, action results) and the event history (`history`).  None of them may reach the
    SOURCE of a template. -/
def dataOrigins : List Origin := [.llm, .context, .history]

open NemoVerif.DataflowIR in
/-- (finite fact about generated data, kernel evaluation) the abstract interpreter is conclusive on every generated function
    and reports no sink whose template expression may carry conversation data of any of the three classes -/
theorem generated_sinks_checked :
    NemoVerif.Generated.C17Dataflow.funcs.all (fun f => dataOrigins.all (fun o => safe o f.prog f.initLlm)) = true := by
  decide +kernel

open NemoVerif.DataflowIR in
/-- **llm_text_not_rendered (IR)**: in every function of the three modules, on EVERY run (any branch choices, any loop counts)
    started with conversation data at most in `events` / `context` / the 2.x `state`, no template sink (`_render_string`,
    `from_string`, `Template`, `render_task_prompt(task=…)`) receives a template expression that may carry LLM text, a context
    value or history text.  For `_render_string` itself (phase 4) this is: the source given to `from_string` depends on the
    `template_str` parameter and literals only; a context value enters the rendering only as a binding of `render(...)`. -/
theorem llm_text_not_rendered_ir :
    ∀ f ∈ NemoVerif.Generated.C17Dataflow.funcs, ∀ o ∈ dataOrigins, ∀ (e e' : Env) (l : List (Nat × Bool)),
      Run o f.prog e e' l → Abstracts e f.initLlm → ∀ s ∈ l, s.2 = false := by
  intro f hf o ho e e' l hrun hinit
  have h := List.all_eq_true.1 (List.all_eq_true.1 generated_sinks_checked f hf) o ho
  exact safe_sound o f.prog f.initLlm h e e' l hrun hinit

open NemoVerif.DataflowIR in
/-- (finite fact about generated data) the theorem above is not vacuous about the renderer of predefined bot messages:
    `LLMGenerationActions._render_string` is among the generated functions, its template-engine sink `from_string` is listed,
    and `context` is one of the variables assumed to carry conversation data on entry. -/
theorem render_string_is_modelled :
    NemoVerif.Generated.C17Dataflow.funcs.any (fun f =>
      f.file == "nemoguardrails/actions/llm/generation.py" && f.name == "_render_string"
        && f.sinks.any (fun s => s.2.1 == "from_string") && !f.initLlm.isEmpty) = true := by decide +kernel

open NemoVerif.DataflowIR in
/-- non-vacuity: the analysis does flag the mutant "render what the LLM returned" and that sink is reachable in the semantics -/
example : safe .llm (.seq (.assign 0 [] [.llm]) (.ite (.render 0 [1] [.config]) (.render 1 [0] []))) [] = false := by decide

open NemoVerif.DataflowIR in
example : ∃ e' l, Run .llm (.seq (.assign 0 [] [.llm]) (.render 1 [0] [])) (fun _ => false) e' l ∧ (1, true) ∈ l :=
  ⟨_, _, .seq (.assign _ 0 [] [.llm]) (.render _ 1 [0] []), by simp [carries, Env.set]⟩

open NemoVerif.DataflowIR in
/-- non-vacuity (phase 4): the shape "a callback that reads `context` (variable 2) is handed to `re.sub` whose result becomes
    the template source" is flagged, both through the entry variable and through the `context` class itself; the unchanged
    shape (the loop rewrites `$x` to `{{x}}` from the template alone, `context` only feeds `render_context`) is accepted. -/
example : safe .llm (.seq (.assign 3 [2] [.context, .lit]) (.seq (.assign 1 [1, 3] [.lit]) (.render 0 [1] []))) [2] = false
    ∧ safe .context (.seq (.assign 3 [2] [.context, .lit]) (.seq (.assign 1 [1, 3] [.lit]) (.render 0 [1] []))) [2] = false
    ∧ dataOrigins.all (fun o => safe o (.seq (.loop (.seq (.assign 4 [1] [.lit]) (.assign 1 [1, 4] [.lit])))
        (.seq (.render 0 [1] []) (.assign 9 [2, 9] [.context]))) [2]) = true := by decide

/-! ## Witnesses for the parts of the second sentence of C17 that are NOT claimed (open findings, by design)

"Template and variable syntax inside LLM-produced message text is passed through literally, never evaluated" is claimed for the
Colang 1.0 message paths (theorems above + end-to-end sentinel).  It is not claimed where the product treats LLM output as a
*reference* or as *code*: -/

/-- (1.0) an LLM-predicted bot intent `$name` is answered with the value of the context variable — for every value. -/
theorem llm_bot_intent_dereferences_context (render : Str → Str) (v : Str) (t : Except PyErr Str) :
    generateBotMessage render [] [(lit "secret", .str v)] (lit "$secret") 0 t =
      .ok { rendered := [], text := finishBotMessage v, src := .contextVar } := by
  simp [generateBotMessage, lookup, idx0, lit]

/-- (2.x) the LLM's `bot action:` line is copied verbatim into the SOURCE of a flow that `AddFlowsAction` then parses and
    runs: interpolation syntax written by the LLM is code there (kernel-evaluated witness). -/
theorem v2_generated_flow_embeds_llm_text_as_code :
    (match flowContinuation id (lit "u") (lit "bot action: bot say \"{191*7}\"") with
      | .ok o => endsWith o.body (lit "\n  bot say \"{191*7}\"") && startsWith o.name (lit "_dynamic_u ")
      | .error _ => false) = true := by decide +kernel


/-! ## Phase 5 — the response assembly of `LLMRails.generate_async` (after the runtime returned, outside every try/except)

`Generated.C17Assembly.spec` is regenerated from llmrails.py on every run: the literals (`StartUtteranceBotAction`,
`(remove last message)`, `Exception`, the join separator …) and the SHAPE of the statement that removes the last message
(`responses = responses[0:-1]` = `.sliceDropLast`; `responses.pop()` / `del responses[-1]` = `.pop`). -/

section Assembly
open NemoVerif.LlmAssemble NemoVerif.Generated.C17Assembly

/-- the source removes the last message with the total slice (this is the fact a `pop()` rewrite falsifies) -/
theorem generated_remove_is_slice : spec.removeOp = .sliceDropLast := by decide

/-- the assembly is not wrapped in a try: what it raises leaves `generate` (so totality is what matters) -/
theorem generated_assembly_unguarded : spec.guarded = false := by decide

/-- general form: with the slice the 1.0 assembly never raises, for EVERY list of events whose utterance events carry their
    script, whatever the scripts (LLM text) are -/
theorem assemble_total_of_slice (sp : Spec) (h : sp.removeOp = .sliceDropLast) (evs : List LlmAssemble.Ev) (hp : scriptsPresent sp evs) :
    ∃ m, assembleResponses sp evs = .ok m := by
  unfold assembleResponses
  rw [loop1_slice sp h evs {} hp]
  exact ⟨_, rfl⟩

/-- **the response assembly of the current source is total**: for every list of new events (every script text, every event
    type, first or later utterance of the call) `generate_async` builds a message and does not raise -/
theorem assemble_total (evs : List LlmAssemble.Ev) (hp : scriptsPresent spec evs) : ∃ m, assembleResponses spec evs = .ok m :=
  assemble_total_of_slice spec generated_remove_is_slice evs hp

/-- non-vacuity of `assemble_total`: the control script as the FIRST utterance of the call (the case the `pop()` rewrite breaks) -/
example : scriptsPresent spec [{ id := 0, type := spec.utterType, script := some spec.removeScript }, { id := 1, type := "Listen".toList }] := by
  intro e he h
  simp at he
  rcases he with rfl | rfl
  · rfl
  · revert h; decide

/-- full strength without the key hypothesis: the only exception the assembly can raise is the KeyError of `event["script"]`
    on an utterance event without script (never an IndexError) -/
theorem assemble_only_key_error (evs : List LlmAssemble.Ev) (x : PyErr) (h : assembleResponses spec evs = .error x) : x = .keyError := by
  unfold assembleResponses at h
  split at h
  · cases h
  · rename_i y hy
    cases h
    exact loop1_slice_err spec generated_remove_is_slice evs {} _ hy

/-- **specification**: the message is the exception event that came last, else the join of the STACK of scripts
    (push a script, the control script pops if there is something to pop) -/
theorem assemble_spec (evs : List LlmAssemble.Ev) (hp : scriptsPresent spec evs) :
    assembleResponses spec evs = .ok (match specException spec evs with
      | some e => .exception e
      | none => .assistant (join spec.joinSep (specResponses spec evs))) := by
  unfold assembleResponses
  rw [loop1_slice spec generated_remove_is_slice evs {} hp]
  simp only [messageOf, specException, specResponses]
  split <;> simp_all

/-- **well-formed**: an assistant message with a string content, or an exception message whose content is one of the new events
    with a type ending in `Exception` -/
theorem assemble_wellformed (evs : List LlmAssemble.Ev) (hp : scriptsPresent spec evs) :
    (∃ c, assembleResponses spec evs = .ok (.assistant c)) ∨
    (∃ e, assembleResponses spec evs = .ok (.exception e) ∧ e ∈ evs ∧ endsWith e.type spec.excSuffix = true) := by
  rw [assemble_spec evs hp]
  cases hx : specException spec evs with
  | none => left; exact ⟨_, rfl⟩
  | some e =>
    right
    refine ⟨e, rfl, ?_⟩
    rcases foldl_specExc_mem spec evs none e hx with h | ⟨hm, _, hend⟩
    · cases h
    · exact ⟨hm, hend⟩

/-- **LLM text is data**: if no utterance script is the control script and no rail exception was raised, the reply is exactly the
    scripts of the utterance events joined in order — nothing in a script is interpreted -/
theorem assemble_literal (evs : List LlmAssemble.Ev) (hp : scriptsPresent spec evs)
    (hn : ∀ e ∈ evs, e.type = spec.utterType → e.script ≠ some spec.removeScript)
    (hx : ∀ e ∈ evs, e.type ≠ spec.utterType → endsWith e.type spec.excSuffix = false) :
    assembleResponses spec evs = .ok (.assistant (join spec.joinSep (utterScripts spec evs))) := by
  rw [assemble_spec evs hp]
  have h1 : specException spec evs = none := foldl_specExc_none spec evs hx
  have h2 : specResponses spec evs = utterScripts spec evs := by
    have := foldl_specStep_no_control spec evs [] hn
    simpa [specResponses] using this
  simp [h1, h2]

/-- non-vacuity of `assemble_literal`: template syntax in a script, a near miss of the control script as second utterance -/
example : assembleResponses spec [{ id := 0, type := spec.utterType, script := some "{{ 191*7 }} $secret".toList },
      { id := 1, type := spec.utterType, script := some "(remove last message) ".toList }, { id := 2, type := "Listen".toList }]
    = .ok (.assistant "{{ 191*7 }} $secret\n(remove last message) ".toList) := by decide +kernel

/-- the control script as first utterance / after a message: an empty reply, not an exception (finite witnesses) -/
theorem assemble_control_first :
    assembleResponses spec [{ id := 0, type := spec.utterType, script := some spec.removeScript }] = .ok (.assistant [])
    ∧ assembleResponses spec [{ id := 0, type := spec.utterType, script := some "Hi".toList },
        { id := 1, type := spec.utterType, script := some spec.removeScript }] = .ok (.assistant []) := by decide +kernel

/-- why the SHAPE is part of the tie: the same loop with `responses.pop()` raises IndexError on the control script as first
    utterance (so `assemble_total_of_slice` needs its hypothesis, and the `pop()` rewrite is a real counterexample) -/
theorem assemble_pop_raises :
    assembleResponses { spec with removeOp := .pop } [{ id := 0, type := spec.utterType, script := some spec.removeScript }]
      = .error .indexError := by decide +kernel

/-- 2.x loop: total when `Start…Action` events carry `action_uid` and finished utterances `final_script` -/
theorem assembleV2_total (evs : List LlmAssemble.Ev) (hk : keysPresent spec evs) : ∃ m, assembleResponsesV2 spec evs = .ok m := by
  unfold assembleResponsesV2
  obtain ⟨st, hst⟩ := loop2_ok spec evs {} hk
  rw [hst]
  exact ⟨_, rfl⟩

/-- non-vacuity of `assembleV2_total` -/
example : keysPresent spec [{ id := 0, type := "StartUtteranceBotAction".toList, actionUid := some "u".toList, keys := ["script".toList, "uid".toList] },
    { id := 1, type := spec.finishedType, finalScript := some "{191*7}".toList }, { id := 2, type := "Start\nAction".toList }] := by
  intro e he
  simp at he
  rcases he with rfl | rfl | rfl <;> decide +kernel

/-- 2.x full strength without the hypothesis: only the KeyError of `event["action_uid"]` / `event["final_script"]` -/
theorem assembleV2_only_key_error (evs : List LlmAssemble.Ev) (x : PyErr) (h : assembleResponsesV2 spec evs = .error x) : x = .keyError := by
  unfold assembleResponsesV2 at h
  split at h
  · cases h
  · rename_i y hy
    cases h
    exact loop2_err spec evs {} _ hy

/-- the `Start(.*Action)` match (finite witnesses: greedy, stops at a newline, needs the prefix) -/
theorem startActionName_witnesses :
    startActionName "StartUtteranceBotAction".toList = some "UtteranceBotAction".toList
    ∧ startActionName "StartActionActionX".toList = some "ActionAction".toList
    ∧ startActionName "Start\nAction".toList = none
    ∧ startActionName "UtteranceBotActionFinished".toList = none
    ∧ startActionName "StartAction".toList = some "Action".toList := by decide +kernel

/-- **`startActionName` is the greedy match of the source's pattern `Start(.*Action)`** (tied to CPython `re` by the `fn`
    differential on every run): the name follows `Start` literally, ends with `Action`, has no newline; it is the longest such
    name on the first line; and when there is no match no prefix of the rest of the first line ends with `Action` -/
theorem startActionName_spec (t n : Str) (h : startActionName t = some n) :
    (("Start".toList ++ n) <+: t ∧ "Action".toList <:+ n ∧ '\n' ∉ n) ∧
    (∀ q, q <+: (t.drop 5).takeWhile (· != '\n') → "Action".toList <:+ q → q.length ≤ n.length) :=
  ⟨startActionName_sound t n h, fun q hq hs => startActionName_greedy t n q h hq hs⟩

theorem startActionName_none_spec (t : Str) (h : startActionName t = none) (hp : "Start".toList <+: t) :
    ∀ q, q <+: (t.drop 5).takeWhile (· != '\n') → ¬ "Action".toList <:+ q :=
  fun q hq => startActionName_none t q h hp hq

/-- non-vacuity of `startActionName_none_spec`: a `Start…` type without `Action` on its first line -/
example : startActionName "Start\nAction".toList = none ∧ "Start".toList <+: "Start\nAction".toList := by decide +kernel

end Assembly

end NemoVerif.C17
