import NemoVerif.Models.Conflict
namespace NemoVerif.C05
open NemoVerif.Conflict

theorem single_head_shortcut (one : Int) (h : HeadInfo) (cs : List Nat) :
    resolveFates one [h] cs = [(h, .picked)] := rfl

end NemoVerif.C05
