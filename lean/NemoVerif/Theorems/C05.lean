/-
  C05 — competing flows: exactly one most-specific action wins per interaction loop.
  Property theorems only (helper lemmas: Lemmas/Conflict.lean) about `Conflict.resolveFates`, the model of
  `_resolve_action_conflicts`.  Every theorem holds for EVERY list of heads (any number of flows, loops, score
  vectors of any lengths), EVERY sequence `cs` of `random.choice` outcomes and every padding value `one`.
-/
import NemoVerif.Lemmas.Conflict
import NemoVerif.Lemmas.ConflictLink
import NemoVerif.Lemmas.ConflictPhaseVM
import NemoVerif.Lemmas.ConflictChain
import NemoVerif.Lemmas.ConflictOrderVM
import NemoVerif.Lemmas.ConflictGroupVM
import NemoVerif.Lemmas.ConflictRound
import NemoVerif.Models.Match
import NemoVerif.Models.MatchBranch
namespace NemoVerif.C05
open NemoVerif.Conflict List

/-- The `len(actionable_heads) == 1` shortcut is the general path on a one-element group. -/
theorem single_head_shortcut_consistent (one : Int) (hs : List HeadInfo) (cs : List Nat) :
    resolveFates one hs cs = resolveGroups one (groupsOf hs) cs :=
  resolveFates_eq one hs cs

/-- `one_action_per_loop`: for every loop that has a competing head exactly one head is picked (= exactly one
    action event is generated for the group), and all heads of that loop that advance as winner / co-winner carry
    the same action event. -/
theorem one_action_per_loop (one : Int) (hs : List HeadInfo) (cs : List Nat) (l : Nat) (hl : ∃ h ∈ hs, h.loop = l) :
    (((resolveFates one hs cs).filter (fun p => p.1.loop == l)).filter (fun p => p.2 == Fate.picked)).length = 1 ∧
    ∀ p ∈ resolveFates one hs cs, ∀ q ∈ resolveFates one hs cs, p.1.loop = l → q.1.loop = l →
      (p.2 = Fate.picked ∨ p.2 = Fate.cowin) → (q.2 = Fate.picked ∨ q.2 = Fate.cowin) → p.1.ev = q.1.ev := by
  have hne := filter_same_loop_ne_nil hl
  rw [fates_of_loop one hs cs l hl]
  constructor
  · obtain ⟨w, hw⟩ := resolveGroup_picked one _ (cs.getD (loopIndex hs l) 0) hne
    rw [hw]; rfl
  · obtain ⟨w, _, hall, _⟩ := resolveGroup_cases one _ (cs.getD (loopIndex hs l) 0) hne
    have key : ∀ p ∈ resolveFates one hs cs, p.1.loop = l → (p.2 = Fate.picked ∨ p.2 = Fate.cowin) → p.1.ev = w.ev := by
      intro p hp hpl hf
      have hp' : p ∈ (resolveFates one hs cs).filter (fun p => p.1.loop == l) := mem_filter.2 ⟨hp, by simpa using hpl⟩
      rw [fates_of_loop one hs cs l hl] at hp'
      rcases hall p hp' with e | ⟨_, e⟩
      · rw [e]
      · rcases hf with hf | hf
        · rw [hf] at e; exact absurd e.symm (fateOf_ne_picked w p.1)
        · rw [hf] at e; exact sameEv_ev (fateOf_cowin.1 e.symm)
    intro p hp q hq hpl hql hpf hqf
    rw [key p hp hpl hpf, key q hq hql hqf]

/-- The generated events are exactly those of the picked heads, one per group (definition of `generated`). -/
theorem generated_are_picked (fs : List (HeadInfo × Fate)) :
    generated fs = (fs.filter (fun p => p.2 == Fate.picked)).map (fun p => (p.1.uid, p.1.ev)) := rfl

/-- `winner_is_max`: the picked head's score vector, padded with `one` to the longest vector of its loop group,
    is lexicographically ≥ the padded vector of every head of the same loop. -/
theorem winner_is_max (one : Int) (hs : List HeadInfo) (cs : List Nat) (w : HeadInfo)
    (hw : (w, Fate.picked) ∈ resolveFates one hs cs) (h : HeadInfo) (hh : h ∈ hs) (hl : h.loop = w.loop) :
    lexLe (padTo one (maxLen (hs.filter (fun x => x.loop == w.loop))) h.scores)
          (padTo one (maxLen (hs.filter (fun x => x.loop == w.loop))) w.scores) = true := by
  have hex : ∃ x ∈ hs, x.loop = w.loop := ⟨h, hh, hl⟩
  have hw' : (w, Fate.picked) ∈ (resolveFates one hs cs).filter (fun p => p.1.loop == w.loop) :=
    mem_filter.2 ⟨hw, by simp⟩
  rw [fates_of_loop one hs cs w.loop hex] at hw'
  exact resolveGroup_max one _ _ w hw' h (mem_filter.2 ⟨hh, by simpa using hl⟩)

/-- All padded vectors of a group have the same length, so `lexLe` on them is the documented left-to-right
    comparison (no "shorter list is smaller" case). -/
theorem padded_length (one : Int) (g : List HeadInfo) (h : HeadInfo) (hh : h ∈ g) :
    (padTo one (maxLen g) h.scores).length = maxLen g := by
  have hle : h.scores.length ≤ maxLen g := by
    induction g with
    | nil => simp at hh
    | cons x xs ih =>
      simp only [maxLen]
      rcases mem_cons.1 hh with rfl | hh
      · exact Nat.le_max_left _ _
      · exact Nat.le_trans (ih hh) (Nat.le_max_right _ _)
  simp [padTo]; omega

/-- The tie-break only chooses among heads whose (unpadded) vector equals that of the first head in the stable
    descending order — and every such head is chosen by some outcome of `random.choice`. -/
theorem picked_among_exact_ties (one : Int) (hs : List HeadInfo) (cs : List Nat) (w : HeadInfo)
    (hw : (w, Fate.picked) ∈ resolveFates one hs cs) :
    w ∈ tieSet (ordered one (hs.filter (fun x => x.loop == w.loop))) := by
  have hwm : w ∈ hs := mem_fates_fst hw
  have hex : ∃ x ∈ hs, x.loop = w.loop := ⟨w, hwm, rfl⟩
  have hw' : (w, Fate.picked) ∈ (resolveFates one hs cs).filter (fun p => p.1.loop == w.loop) :=
    mem_filter.2 ⟨hw, by simp⟩
  rw [fates_of_loop one hs cs w.loop hex] at hw'
  obtain ⟨w0, _, hw0, hr⟩ := resolveGroup_shape one _ (cs.getD (loopIndex hs w.loop) 0) (filter_same_loop_ne_nil hex)
  have : (w0, Fate.picked) ∈ resolveGroup one (hs.filter (fun x => x.loop == w.loop)) (cs.getD (loopIndex hs w.loop) 0) := by
    rw [hr]; exact mem_cons_self
  have e : w0 = w := (picked_unique_in_group hw' this).symm
  rw [e] at hw0
  exact hw0

/-- `partition`: every input head gets exactly one fate — none is dropped, none is duplicated
    (heads have pairwise distinct uids, as `FlowHead.__eq__` assumes). -/
theorem partition (one : Int) (hs : List HeadInfo) (cs : List Nat) (hn : (hs.map (·.uid)).Nodup) :
    (resolveFates one hs cs).map (·.1) ~ hs :=
  fates_perm one hs cs hn

/-- … and the fate is a function of the head: advancing (picked / co-winner / caught) and aborted are disjoint. -/
theorem fate_unique (one : Int) (hs : List HeadInfo) (cs : List Nat) (hn : (hs.map (·.uid)).Nodup)
    (h : HeadInfo) (f f' : Fate) (h1 : (h, f) ∈ resolveFates one hs cs) (h2 : (h, f') ∈ resolveFates one hs cs) : f = f' := by
  have hp := fates_perm one hs cs hn
  have hnd : hs.Nodup := Pairwise.of_map (·.uid) (fun a b hab e => hab (by rw [e])) hn
  exact pair_unique_of_nodup_fst (hp.nodup_iff.2 hnd) h1 h2

example : ([⟨1, 1, 1, [3], 1, some 10, 1, true, false, true⟩, ⟨2, 2, 1, [3], 2, none, 0, false, false, true⟩] : List HeadInfo).map (·.uid) |>.Nodup := by
  decide

/-- `loops_independent`: what happens to the heads of loop `l` is what `resolve` does on these heads alone, given
    the choice that the group of `l` consumes (`loopIndex` = position of `l` in `head_groups`). Heads of other
    loops — their number, scores, events — have no influence. -/
theorem loops_independent (one : Int) (hs : List HeadInfo) (cs : List Nat) (l : Nat) (hl : ∃ h ∈ hs, h.loop = l) :
    (resolveFates one hs cs).filter (fun p => p.1.loop == l) =
      resolveFates one (hs.filter (fun h => h.loop == l)) [cs.getD (loopIndex hs l) 0] := by
  rw [fates_of_loop one hs cs l hl, resolveFates_eq]
  have hne := filter_same_loop_ne_nil hl
  cases e : hs.filter (fun h => h.loop == l) with
  | nil => exact absurd e hne
  | cons x xs =>
    have hall : ∀ y ∈ x :: xs, y.loop = l := by
      intro y hy; rw [← e] at hy; simpa using (mem_filter.1 hy).2
    rw [groupsOf_same l x xs hall]
    simp [resolveGroups]

/-- `identical_cowin`: a head of the winner's loop whose action event is the same as the winner's (`sameEv`: equal name
    and arguments; for two different action instances only the Start event) advances as co-winner, whatever its
    score vector. -/
theorem identical_cowin (one : Int) (hs : List HeadInfo) (cs : List Nat) (w h : HeadInfo)
    (hw : (w, Fate.picked) ∈ resolveFates one hs cs) (hh : h ∈ hs) (hl : h.loop = w.loop) (hu : h.uid ≠ w.uid)
    (he : sameEv w h = true) : (h, Fate.cowin) ∈ resolveFates one hs cs := by
  have hex : ∃ x ∈ hs, x.loop = w.loop := ⟨h, hh, hl⟩
  have hw' : (w, Fate.picked) ∈ (resolveFates one hs cs).filter (fun p => p.1.loop == w.loop) :=
    mem_filter.2 ⟨hw, by simp⟩
  rw [fates_of_loop one hs cs w.loop hex] at hw'
  obtain ⟨w0, hw0, _, hcov⟩ := resolveGroup_cases one _ (cs.getD (loopIndex hs w.loop) 0) (filter_same_loop_ne_nil hex)
  have hww := picked_unique_in_group hw' hw0
  subst hww
  have := hcov h (mem_filter.2 ⟨hh, by simpa using hl⟩) hu
  rw [fateOf_cowin.2 he, ← fates_of_loop one hs cs w.loop hex] at this
  exact (mem_filter.1 this).1

/-- the property's case: flows that try to START an identical action (equal name and arguments) all proceed -/
theorem identical_start_cowin (one : Int) (hs : List HeadInfo) (cs : List Nat) (w h : HeadInfo)
    (hw : (w, Fate.picked) ∈ resolveFates one hs cs) (hh : h ∈ hs) (hl : h.loop = w.loop) (hu : h.uid ≠ w.uid)
    (he : h.ev = w.ev) (hst : w.isStart = true) : (h, Fate.cowin) ∈ resolveFates one hs cs :=
  identical_cowin one hs cs w h hw hh hl hu (sameEv_of_start he hst)

/-- … and every other head of the winner's loop loses: it is forwarded to its catch label if it has one, otherwise
    its flow is aborted ("all the others fail"). -/
theorem losers_fail (one : Int) (hs : List HeadInfo) (cs : List Nat) (w h : HeadInfo)
    (hw : (w, Fate.picked) ∈ resolveFates one hs cs) (hh : h ∈ hs) (hl : h.loop = w.loop) (hu : h.uid ≠ w.uid)
    (he : sameEv w h = false) :
    (h, if h.catchLbl then Fate.caught else Fate.aborted) ∈ resolveFates one hs cs := by
  have hex : ∃ x ∈ hs, x.loop = w.loop := ⟨h, hh, hl⟩
  have hw' : (w, Fate.picked) ∈ (resolveFates one hs cs).filter (fun p => p.1.loop == w.loop) :=
    mem_filter.2 ⟨hw, by simp⟩
  rw [fates_of_loop one hs cs w.loop hex] at hw'
  obtain ⟨w0, hw0, _, hcov⟩ := resolveGroup_cases one _ (cs.getD (loopIndex hs w.loop) 0) (filter_same_loop_ne_nil hex)
  have hww := picked_unique_in_group hw' hw0
  subst hww
  have := hcov h (mem_filter.2 ⟨hh, by simpa using hl⟩) hu
  rw [← fates_of_loop one hs cs w.loop hex] at this
  have hf : fateOf w h = if h.catchLbl then Fate.caught else Fate.aborted := by simp [fateOf, he]
  rw [hf] at this
  exact (mem_filter.1 this).1

/-- `identical_cowin`, action part (one group iteration, any action table `t`): when the picked head starts an
    action `b` and no other head of the group already holds `b`, then after the iteration `b` is still present and its
    `flow_scope_count` is 1 (set by the generated Start event) plus the number of re-pointed references of the
    co-winners — the action exists once, is started once and is shared by all co-winners. -/
theorem cowin_action_shared_once (one : Int) (g : List HeadInfo) (c : Nat) (t : ActTbl) (w : HeadInfo) (b : Nat)
    (hw : (w, Fate.picked) ∈ resolveGroup one g c) (hb : w.act = some b) (hst : w.isStart = true)
    (hin : (scopeOf b t).isSome = true) (hd : ∀ h ∈ g, h.uid ≠ w.uid → h.act ≠ some b) :
    scopeOf b (applyFates none (resolveGroup one g c) t) = some (1 + cowinRefs (resolveGroup one g c)) :=
  group_scope_count one g c t w b hw hb hst hin hd

/-- … which is "number of co-winners + 1" when every co-winner OWNS its action and holds it through exactly one reference
    (what `start Action(...)` produces). -/
theorem cowin_scope_is_number_of_cowinners (one : Int) (g : List HeadInfo) (c : Nat) (t : ActTbl) (w : HeadInfo) (b : Nat)
    (hw : (w, Fate.picked) ∈ resolveGroup one g c) (hb : w.act = some b) (hst : w.isStart = true)
    (hin : (scopeOf b t).isSome = true) (hd : ∀ h ∈ g, h.uid ≠ w.uid → h.act ≠ some b)
    (h1 : ∀ p ∈ resolveGroup one g c, p.2 = Fate.cowin → p.1.act.isSome = true ∧ p.1.nrefs = 1 ∧ p.1.owns = true) :
    scopeOf b (applyFates none (resolveGroup one g c) t) =
      some (1 + ((resolveGroup one g c).filter (fun p => p.2 == Fate.cowin)).length) := by
  rw [group_scope_count one g c t w b hw hb hst hin hd, cowinRefs_eq_count _ h1]

/-- The same for the WHOLE call (all loop groups, the action table threaded through them in processing order): if the
    picked head `w` starts action `b` and no other input head holds `b`, then after `_resolve_action_conflicts` the
    action `b` is present exactly with `flow_scope_count` = 1 + the references re-pointed by the co-winners of `w`'s
    loop; the groups of other loops do not touch it. -/
theorem cowin_action_shared_once_whole_call (one : Int) (hs : List HeadInfo) (cs : List Nat) (t : ActTbl) (w : HeadInfo) (b : Nat)
    (hw : (w, Fate.picked) ∈ resolveFates one hs cs) (hb : w.act = some b) (hst : w.isStart = true)
    (hin : (scopeOf b t).isSome = true) (hd : ∀ h ∈ hs, h ≠ w → h.act ≠ some b) :
    scopeOf b (applyFates none (resolveFates one hs cs) t) =
      some (1 + cowinRefs ((resolveFates one hs cs).filter (fun p => p.1.loop == w.loop))) := by
  rw [resolveFates_eq] at hw ⊢
  refine groups_scope_count one w b hb hst (groupsOf hs) cs t (groupsOf_keys_nodup hs) (groupsOf_loopsOk hs) hw hin ?_
  intro q hq h hh
  rw [groupsOf_mem hs q hq] at hh
  exact hd h (mem_filter.1 hh).1

/-- non-vacuity of the hypotheses of the theorems above: winner 2 (action 11), co-winner 1 (action 10). -/
example : (⟨2, 2, 1, [3], 1, some 11, 1, true, false, true⟩, Fate.picked) ∈
    resolveGroup 5 [⟨1, 1, 1, [3], 1, some 10, 1, true, false, true⟩, ⟨2, 2, 1, [3], 1, some 11, 1, true, false, true⟩] 1 := by decide

/-- The co-winner branch of the UNPATCHED source deletes the winning action when both heads already share it
    (open finding `cowin-on-shared-action`); the repaired branch (`cowinEffect`, fixes/C05-shared-action-cowin.diff)
    leaves it alone.  Finite witness, by evaluation. -/
theorem shared_action_cowin_as_is_counterexample :
    scopeOf 10 (cowinEffectAsIs ⟨1, 1, 1, [5], 1, some 10, 1, false, false, true⟩ ⟨2, 2, 1, [5], 1, some 10, 1, false, false, true⟩ [(10, 2)]) = none ∧
    scopeOf 10 (cowinEffect ⟨1, 1, 1, [5], 1, some 10, 1, false, false, true⟩ ⟨2, 2, 1, [5], 1, some 10, 1, false, false, true⟩ [(10, 2)]) = some 2 := by
  decide

/-- The co-winner test of the UNPATCHED source (`Event.is_equal` alone) lets the Stop events of two DIFFERENT action
    instances co-win (open finding `identical-event-of-different-actions`): head 2 stops action 11 while the picked head 1
    stops action 10 — as is: co-winner (action 11 is dropped, never stopped); repaired (`sameEv`): a loser, its flow is
    aborted.  Finite witness, by evaluation. -/
theorem identical_event_of_different_actions_as_is_counterexample :
    fateOfAsIs ⟨1, 1, 1, [5], 1, some 10, 1, false, false, true⟩ ⟨2, 2, 1, [5], 1, some 11, 1, false, false, true⟩ = Fate.cowin ∧
    fateOf ⟨1, 1, 1, [5], 1, some 10, 1, false, false, true⟩ ⟨2, 2, 1, [5], 1, some 11, 1, false, false, true⟩ = Fate.aborted ∧
    fateOf ⟨1, 1, 1, [5], 1, some 10, 1, true, false, true⟩ ⟨2, 2, 1, [5], 1, some 11, 1, true, false, true⟩ = Fate.cowin := by
  decide

/-! ### The look-ups of the co-winner branch (`list.index`, `del`, `state.actions[...]`)

  What guarantees that they succeed: the competing flow OWNS its action (`owns`: the uid is in `action_uids` — true for every
  action the flow created itself with `start … as $r` / `await`), and both action uids are in `state.actions` (`scopeOf … ≠
  none`).  Then the source as it is does exactly what the model (`cowinEffect`) does.  Each hypothesis is checked at run time
  on every recorded call (`in_uids`, `tbl`); each one fails on real histories — the two findings below. -/

theorem cowin_lookups_succeed (w h : HeadInfo) (t : ActTbl) (hown : h.owns = true)
    (hin : ∀ a, h.act = some a → (scopeOf a t).isSome = true) (hwin : ∀ b, w.act = some b → (scopeOf b t).isSome = true) :
    cowinStepAsIs w h t = .ok (cowinEffect w h t) := by
  unfold cowinStepAsIs cowinEffect
  cases hb : w.act with
  | none => rfl
  | some b =>
    cases ha : h.act with
    | none => rfl
    | some a =>
      have h1 := hin a ha
      have h2 := hwin b hb
      simp only
      split
      · rfl
      · have e1 : (scopeOf b t).isNone = false := by
          cases hs : scopeOf b t with
          | none => rw [hs] at h2; cases h2
          | some _ => rfl
        have e2 : (scopeOf a t).isNone = false := by
          cases hs : scopeOf a t with
          | none => rw [hs] at h1; cases h1
          | some _ => rfl
        simp [hown, e1, e2]

/-- non-vacuity: winner 2 (action 11) and co-winner 1 (owns action 10), both actions in the table -/
example : cowinStepAsIs ⟨2, 2, 1, [3], 1, some 11, 1, true, false, true⟩ ⟨1, 1, 1, [3], 1, some 10, 1, true, false, true⟩ [(10, 1), (11, 1)]
    = .ok [(11, 2)] := by decide

/-- Finding `cowin-on-borrowed-action`: head 1 sends the Start event of action 10, which it holds by reference only
    (`owns = false`: created by its parent flow), head 2 is picked with the identical Start event of its own action 11.
    Head 1 co-wins; the source as it is raises `ValueError` in `action_uids.index(...)`; the repaired branch leaves the table
    alone (the flow keeps its reference).  Finite witness, by evaluation. -/
theorem cowin_on_borrowed_action_as_is_counterexample :
    fateOf ⟨2, 2, 1, [5], 1, some 11, 1, true, false, true⟩ ⟨1, 1, 1, [5], 1, some 10, 1, true, false, false⟩ = Fate.cowin ∧
    cowinStepAsIs ⟨2, 2, 1, [5], 1, some 11, 1, true, false, true⟩ ⟨1, 1, 1, [5], 1, some 10, 1, true, false, false⟩ [(10, 1), (11, 1)]
      = .valueError ∧
    cowinEffect ⟨2, 2, 1, [5], 1, some 11, 1, true, false, true⟩ ⟨1, 1, 1, [5], 1, some 10, 1, true, false, false⟩ [(10, 1), (11, 1)]
      = [(10, 1), (11, 1)] := by decide

/-- Finding `cowin-double-delete`: heads 1 and 3 share action 10 (co-winners of an earlier round), head 2 is picked with the
    identical Start event of a new action 11.  Both sharers co-win; after the first one the source as it is has deleted
    action 10, the second `del state.actions[10]` raises `KeyError`; the repaired branch (`pop`) drops it once and re-points
    both (`flow_scope_count` 1 + 1 + 1).  Finite witness, by evaluation. -/
theorem cowin_double_delete_as_is_counterexample :
    cowinStepAsIs ⟨2, 2, 1, [5], 1, some 11, 1, true, false, true⟩ ⟨1, 1, 1, [5], 1, some 10, 1, true, false, true⟩ [(10, 2), (11, 1)]
      = .ok [(11, 2)] ∧
    cowinStepAsIs ⟨2, 2, 1, [5], 1, some 11, 1, true, false, true⟩ ⟨3, 3, 1, [5], 1, some 10, 1, true, false, true⟩ [(11, 2)]
      = .keyError ∧
    cowinEffect ⟨2, 2, 1, [5], 1, some 11, 1, true, false, true⟩ ⟨3, 3, 1, [5], 1, some 10, 1, true, false, true⟩ [(11, 2)] = [(11, 3)] := by
  decide

/-- A head that is not in the input (its match did not fit: score 0, never actionable) has no fate: the function
    touches only its input heads. -/
theorem only_input_heads (one : Int) (hs : List HeadInfo) (cs : List Nat) (p : HeadInfo × Fate)
    (hp : p ∈ resolveFates one hs cs) : p.1 ∈ hs :=
  mem_fates_fst hp

/-! ### The ranks are the matcher's scores

  The harness hands `resolve` the RANK of every float of a call.  The theorems below tie that order to the matcher
  (`Match.eventScore`, C04): an entry of `matching_scores` is `prio · (num/den)^k`; `mlt` compares such numbers exactly
  (integers, cross-multiplied).  `r` is any rank function that respects the exact order (`hr`; checked on every run: the
  driver's `mcmp` against the floats the real `_compute_event_comparison_score` returns). -/

/-- the fuzzy-match base of the CURRENT source (translator-generated constants) is a proper fraction
    (same fact as `C04.base_lt_one`, re-checked here against `Generated.C04`) -/
theorem base_lt_one : 0 < Generated.C04.scoreBaseNum ∧ Generated.C04.scoreBaseNum < Generated.C04.scoreBaseDen := by decide

abbrev bnum := Generated.C04.scoreBaseNum
abbrev bden := Generated.C04.scoreBaseDen

/-- `better_score_wins`: if, at the first position where the score vectors of two heads of one loop differ, head A's
    score is exactly greater than head B's, then B is not the picked head of their loop — for every tie-break.
    `S` = the (finitely many) scores that occur in the call; `r` ranks them in their exact order (`hr`: checked on every run).
    (Phase 4: `hr` used to quantify over ALL scores — no integer ranking of a dense set exists, the theorem was vacuous.) -/
theorem better_score_wins (S : List MScore) (r : MScore → Int) (hr : ∀ x ∈ S, ∀ y ∈ S, mlt bnum bden x y → r x < r y)
    (one : Int) (hs : List HeadInfo) (cs : List Nat) (A B : HeadInfo) (hA : A ∈ hs) (hl : A.loop = B.loop)
    (pre : List Int) (a b : MScore) (ha : a ∈ S) (hb : b ∈ S) (ta tb : List Int)
    (hsa : A.scores = pre ++ r a :: ta) (hsb : B.scores = pre ++ r b :: tb) (hab : mlt bnum bden b a) :
    (B, Fate.picked) ∉ resolveFates one hs cs := by
  intro hB
  have hmax := winner_is_max one hs cs B hB A hA hl
  rw [hsa, hsb, padTo_split, padTo_split, lexLe_prefix_lt pre (hr b hb a ha hab)] at hmax
  exact Bool.false_ne_true hmax

/-- `more_specific_wins`: both flows matched the same event under the same flow priority; at the first differing
    position of the score vectors A's match statement left FEWER parameters of the event unmentioned
    (`Match.eventScore`'s exponent: kA < kB).  Then B is not picked: the most specific match wins. -/
theorem more_specific_wins (rx : Match.Rx) (sa : String → Option (List (String × Val))) (ev refA refB : Match.Ev)
    (p pA pB : Option (Int × Nat)) (kA kB : Int)
    (hEA : Match.eventScore rx sa ev refA p = .pos kA pA) (hEB : Match.eventScore rx sa ev refB p = .pos kB pB)
    (hk0 : 0 ≤ kA) (hlt : kA < kB) (hp : 0 < (MScore.mk 0 p).pnum)
    (S : List MScore) (r : MScore → Int) (hr : ∀ x ∈ S, ∀ y ∈ S, mlt bnum bden x y → r x < r y)
    (hSA : ⟨kA.toNat, pA⟩ ∈ S) (hSB : ⟨kB.toNat, pB⟩ ∈ S)
    (one : Int) (hs : List HeadInfo) (cs : List Nat) (A B : HeadInfo) (hA : A ∈ hs) (hl : A.loop = B.loop)
    (pre ta tb : List Int)
    (hsa : A.scores = pre ++ r ⟨kA.toNat, pA⟩ :: ta) (hsb : B.scores = pre ++ r ⟨kB.toNat, pB⟩ :: tb) :
    (B, Fate.picked) ∉ resolveFates one hs cs := by
  have hprio : ∀ (ref : Match.Ev) (k : Int) (q : Option (Int × Nat)), Match.eventScore rx sa ev ref p = .pos k q → q = p := by
    intro ref k q h
    unfold Match.eventScore at h
    split at h
    · injection h with _ h2; exact h2.symm
    · rename_i hne; exact absurd h (by intro e; exact hne k q e)
  have e1 := hprio refA kA pA hEA
  have e2 := hprio refB kB pB hEB
  rw [e1] at hsa hSA; rw [e2] at hsb hSB
  refine better_score_wins S r hr one hs cs A B hA hl pre ⟨kA.toNat, p⟩ ⟨kB.toNat, p⟩ hSA hSB ta tb hsa hsb ?_
  exact mlt_of_more_unmentioned base_lt_one.1 base_lt_one.2 ⟨kA.toNat, p⟩ ⟨kB.toNat, p⟩ rfl hp (by simp only; omega)

/-- the scores of the non-vacuity examples: 1.0, 0.9, 0.5 (priority 1/2), 0.45, 0.81 -/
def exScores : List MScore := [⟨0, none⟩, ⟨1, none⟩, ⟨0, some (1, 1)⟩, ⟨1, some (1, 1)⟩, ⟨2, none⟩]
/-- their ranks in the exact order 0.45 < 0.5 < 0.81 < 0.9 < 1.0 -/
def exRank (x : MScore) : Int :=
  if x = ⟨0, none⟩ then 4 else if x = ⟨1, none⟩ then 3 else if x = ⟨2, none⟩ then 2 else if x = ⟨0, some (1, 1)⟩ then 1 else 0

/-- non-vacuity of `hr` (both directions): a finite set of scores has an exact ranking.  Finite fact, by evaluation. -/
example : ∀ x ∈ exScores, ∀ y ∈ exScores, (mlt bnum bden x y ↔ exRank x < exRank y) := by decide

/-- non-vacuity of `hr` and of the exact order: 0.9^1 < 1.0·0.9^0, and priority 1/2 on a perfect match loses against
    an unscaled match with one unmentioned parameter (5/10 < 9/10).  Finite facts, by evaluation. -/
example : mlt bnum bden ⟨1, none⟩ ⟨0, none⟩ ∧ mlt bnum bden ⟨0, some (1, 1)⟩ ⟨1, none⟩ ∧ ¬ mlt bnum bden ⟨2, none⟩ ⟨2, none⟩ := by decide

/-- A vector that ends is padded with the perfect score: a head whose vector is a proper prefix of another head's beats
    it as soon as the other head's next match is not perfect ([0.9] beats [0.9, 0.5]). -/
theorem shorter_chain_beats_imperfect_continuation (S : List MScore) (r : MScore → Int)
    (hr : ∀ x ∈ S, ∀ y ∈ S, mlt bnum bden x y → r x < r y) (hpS : MScore.perfect ∈ S)
    (hs : List HeadInfo) (cs : List Nat) (A B : HeadInfo) (hA : A ∈ hs) (hBm : B ∈ hs) (hl : A.loop = B.loop)
    (pre : List Int) (b : MScore) (hbS : b ∈ S) (tb : List Int)
    (hsa : A.scores = pre) (hsb : B.scores = pre ++ r b :: tb) (hb : mlt bnum bden b MScore.perfect) :
    (B, Fate.picked) ∉ resolveFates (r MScore.perfect) hs cs := by
  intro hB
  have hmax := winner_is_max (r MScore.perfect) hs cs B hB A hA hl
  have hlen : pre.length < maxLen (hs.filter (fun x => x.loop == B.loop)) := by
    have := mem_maxLen_le (g := hs.filter (fun x => x.loop == B.loop)) (h := B) (mem_filter.2 ⟨hBm, by simp⟩)
    rw [hsb] at this; simp at this; omega
  rw [hsa, hsb, padTo_short _ _ pre hlen, padTo_split, lexLe_prefix_lt pre (hr b hbS _ hpS hb)] at hmax
  exact Bool.false_ne_true hmax

/-! ### Chains of matches: the exact order of the padded score chains

  `head.matching_scores` = one matcher score per match since the external event (`W`, `H` … : `List MScore`), the model works
  with their ranks (`scores = W.map r`).  `chainLt` = exact (integer cross-multiplied) strict lexicographic order,
  `padM n` = padding with the perfect score 1.0. -/

/-- `winner_chain_is_max`: the picked head's chain of exact scores, padded with 1.0 to the longest chain of its loop, is not
    exactly smaller than the padded chain of any head of its loop — chains of ANY lengths. -/
theorem winner_chain_is_max (S : List MScore) (r : MScore → Int) (hr : ∀ x ∈ S, ∀ y ∈ S, (mlt bnum bden x y ↔ r x < r y))
    (hpS : MScore.perfect ∈ S) (hs : List HeadInfo) (cs : List Nat) (w : HeadInfo)
    (hw : (w, Fate.picked) ∈ resolveFates (r MScore.perfect) hs cs) (h : HeadInfo) (hh : h ∈ hs) (hl : h.loop = w.loop)
    (W H : List MScore) (hWS : ∀ x ∈ W, x ∈ S) (hHS : ∀ x ∈ H, x ∈ S) (hW : w.scores = W.map r) (hH : h.scores = H.map r) :
    ¬ chainLt bnum bden (padM (maxLen (hs.filter (fun x => x.loop == w.loop))) W)
                        (padM (maxLen (hs.filter (fun x => x.loop == w.loop))) H) := by
  have hmax := winner_is_max (r MScore.perfect) hs cs w hw h hh hl
  have hwm : w ∈ hs.filter (fun x => x.loop == w.loop) := mem_filter.2 ⟨mem_fates_fst hw, by simp⟩
  have hhm : h ∈ hs.filter (fun x => x.loop == w.loop) := mem_filter.2 ⟨hh, by simpa using hl⟩
  have lw := mem_maxLen_le hwm
  have lh := mem_maxLen_le hhm
  rw [hW, length_map] at lw
  rw [hH, length_map] at lh
  rw [hW, hH, padTo_map, padTo_map] at hmax
  exact (lexLe_iff_not_chainLt bnum bden S r hr _ _ (by rw [padM_length _ _ lw, padM_length _ _ lh])
    (mem_padM hpS hWS) (mem_padM hpS hHS)).1 hmax

/-- `more_specific_chain_wins`: "most specific = fewest unmentioned parameters, scaled by the flow priority" for CHAINS, in
    terms of the matcher's exponent (`Match.eventScore`, C04): two heads A, B of one loop whose chains `CA`, `CB` (any
    lengths) agree exactly on the positions before `i` (missing entries count as the perfect score 1.0), and at position `i`
    both entries are the matcher's scores of the SAME event under the SAME priority with `kA < kB` — A's match statement
    left fewer parameters unmentioned (A's entry may be a padded one: `kA = 0`).  Then B is not picked, for every tie-break. -/
theorem more_specific_chain_wins (rx : Match.Rx) (sa : String → Option (List (String × Val))) (ev refA refB : Match.Ev)
    (p pA pB : Option (Int × Nat)) (kA kB : Int)
    (hEA : Match.eventScore rx sa ev refA p = .pos kA pA) (hEB : Match.eventScore rx sa ev refB p = .pos kB pB)
    (hk0 : 0 ≤ kA) (hlt : kA < kB) (hp : 0 < (MScore.mk 0 p).pnum)
    (S : List MScore) (r : MScore → Int) (hr : ∀ x ∈ S, ∀ y ∈ S, (mlt bnum bden x y ↔ r x < r y)) (hpS : MScore.perfect ∈ S)
    (hs : List HeadInfo) (cs : List Nat) (A B : HeadInfo) (hA : A ∈ hs) (hBm : B ∈ hs) (hl : A.loop = B.loop)
    (CA CB : List MScore) (hAS : ∀ x ∈ CA, x ∈ S) (hBS : ∀ x ∈ CB, x ∈ S) (hsa : A.scores = CA.map r) (hsb : B.scores = CB.map r)
    (i : Nat) (hpre : ∀ j, j < i → meq bnum bden (CB.getD j MScore.perfect) (CA.getD j MScore.perfect))
    (hiA : CA.getD i MScore.perfect = ⟨kA.toNat, pA⟩) (hiB : CB.getD i MScore.perfect = ⟨kB.toNat, pB⟩) :
    (B, Fate.picked) ∉ resolveFates (r MScore.perfect) hs cs := by
  intro hB
  have hprio : ∀ (ref : Match.Ev) (k : Int) (q : Option (Int × Nat)), Match.eventScore rx sa ev ref p = .pos k q → q = p := by
    intro ref k q h
    unfold Match.eventScore at h
    split at h
    · injection h with _ h2; exact h2.symm
    · rename_i hne; exact absurd h (by intro e; exact hne k q e)
  have e1 := hprio refA kA pA hEA
  have e2 := hprio refB kB pB hEB
  rw [e1] at hiA; rw [e2] at hiB
  have hnot := winner_chain_is_max S r hr hpS hs cs B hB A hA hl CB CA hBS hAS hsb hsa
  apply hnot
  have hBf : B ∈ hs.filter (fun x => x.loop == B.loop) := mem_filter.2 ⟨hBm, by simp⟩
  have hAf : A ∈ hs.filter (fun x => x.loop == B.loop) := mem_filter.2 ⟨hA, by simpa using hl⟩
  have lb := mem_maxLen_le hBf
  have la := mem_maxLen_le hAf
  rw [hsb, length_map] at lb
  rw [hsa, length_map] at la
  -- position i is a real entry of B's chain: a padded entry has exponent 0
  have hiB' : i < CB.length := by
    rcases Nat.lt_or_ge i CB.length with h | hge
    · exact h
    · exfalso
      have hn : CB.getD i MScore.perfect = MScore.perfect := by
        simp only [getD_eq_getElem?_getD, getElem?_eq_none hge, Option.getD_none]
      rw [hn] at hiB
      have : (0 : Nat) = kB.toNat := congrArg MScore.k hiB
      omega
  refine chainLt_of_first_diff bnum bden i _ _ (by rw [padM_length _ _ lb, padM_length _ _ la])
    (by rw [padM_length _ _ lb]; omega) (fun j hj => by rw [getD_padM, getD_padM]; exact hpre j hj) ?_
  rw [getD_padM, getD_padM, hiA, hiB]
  exact mlt_of_more_unmentioned base_lt_one.1 base_lt_one.2 ⟨kA.toNat, p⟩ ⟨kB.toNat, p⟩ rfl hp (by simp only; omega)

/-- witnesses (finite facts, by evaluation): [0.9] against [0.9, 0.5] — the padded chains are [0.9, 1.0] and [0.9, 0.5], the
    second is exactly smaller; [1.0, 0.9] against [0.9] — decided at the first position, the longer chain wins. -/
example : chainLt bnum bden (padM 2 [⟨1, none⟩, ⟨0, some (1, 1)⟩]) (padM 2 [⟨1, none⟩]) ∧
    chainLt bnum bden (padM 2 [⟨1, none⟩]) (padM 2 [⟨0, none⟩, ⟨1, none⟩]) ∧
    ¬ chainLt bnum bden (padM 2 [⟨1, none⟩]) (padM 2 [⟨1, none⟩, ⟨0, none⟩]) := by decide

/-! ### `nonmatching_untouched`

  Matching phase of one internal event = C10's model of the repaired tree (`ErrContain.scanLookup false`, proved there to
  compute `matchPhaseRepaired`), followed by the post-scan aborts (`ConflictLink.postScan`).  The whole-interpreter model
  `CoreVM.processEvent` is a monadic loop nest without frame lemmas yet; this fragment is the part of it the statement
  needs (the three result lists and the writes to instance records). -/

open NemoVerif.ErrContain NemoVerif.ConflictLink in
/-- A head whose match score for the event is 0 ("did not fit"):
    (i) the candidate scan changes NO instance record (only `ColangError` events are queued);
    (ii) the head is in none of `heads_matching / heads_failing / heads_erroring`, so it is not handed to
         `_advance_head_front`;
    (iii) every head that `_resolve_action_conflicts` receives from this event — hence every fate it assigns — belongs to
          a candidate with a NON-zero score;
    (iv) the aborts after the scan leave every instance whose flow is not one of the aborted (failing / erroring) flows
         unchanged except, possibly, for its list of child flows (when a child failed). -/
theorem nonmatching_untouched (caught : Cand → Bool) (info : Cand → Option HeadInfo) (s : St) (cands : List Cand)
    (hp : ∀ c ∈ cands, headPresent s c = true) (c : Cand) (hz : c.score = .zero) :
    ∃ s1 out, scanLookup false s cands = some (s1, out) ∧
      s1.insts = s.insts ∧
      (c ∉ advancedHeads caught out ∧ c ∉ out.failing ∧ c ∉ out.erroring) ∧
      (∀ (one : Int) (cs : List Nat) (p : HeadInfo × Fate), p ∈ resolveFates one (conflictInputs info caught out) cs →
          ∃ c' ∈ cands, c'.score ≠ .zero ∧ info c' = some p.1) ∧
      Upd (KeepsButChildren (abortedByPhase caught out)) s (postScan caught s1 out) := by
  obtain ⟨s1, h1, h2, _⟩ := scanLookup_safe cands s hp
  obtain ⟨z1, z2, z3⟩ := zero_not_selected cands c hz
  refine ⟨s1, matchPhaseRepaired cands, h1, h2, ⟨?_, z2, z3⟩, ?_, upd_of_insts_eq h2 (postScan_upd caught s1 _)⟩
  · simp only [advancedHeads, mem_append, not_or]
    exact ⟨z1, fun h => z2 (mem_filter.1 h).1⟩
  · intro one cs p hp'
    have hin := mem_fates_fst hp'
    simp only [conflictInputs, mem_filterMap] at hin
    obtain ⟨c', hc', hi⟩ := hin
    have hsel : c' ∈ (matchPhaseRepaired cands).matching ∨ c' ∈ (matchPhaseRepaired cands).failing ∨
        c' ∈ (matchPhaseRepaired cands).erroring := by
      simp only [advancedHeads, mem_append] at hc'
      rcases hc' with h | h
      · exact Or.inl h
      · exact Or.inr (Or.inl (mem_filter.1 h).1)
    obtain ⟨hm, hnz⟩ := selected_nonzero cands c' hsel
    exact ⟨c', hm, hnz, hi⟩

open NemoVerif.ErrContain NemoVerif.ConflictLink in
/-- … in particular the instance record of a flow none of whose heads failed or raised is, after the whole matching
    phase, the record it was before the event up to its child list. -/
theorem nonmatching_instance_kept (caught : Cand → Bool) (s : St) (cands : List Cand)
    (hp : ∀ c ∈ cands, headPresent s c = true) (k : Nat) (i : Inst) (hi : s.insts[k]? = some i)
    (hno : i.uid ∉ abortedByPhase caught (matchPhaseRepaired cands)) :
    ∃ s1, scanLookup false s cands = some (s1, matchPhaseRepaired cands) ∧
      ∃ i', (postScan caught s1 (matchPhaseRepaired cands)).insts[k]? = some i' ∧ i' = ({ i with children := i'.children } : Inst) := by
  obtain ⟨s1, h1, h2, _⟩ := scanLookup_safe cands s hp
  have hu := upd_of_insts_eq h2 (postScan_upd caught s1 (matchPhaseRepaired cands))
  obtain ⟨i', hk, hr⟩ := hu.2 k i hi
  exact ⟨s1, h1, i', hk, hr.2 hno⟩

/-! non-vacuity: two flows wait for the event, flow 1 matches, flow 2 has score 0 — finite facts, by evaluation. -/
def exInst (u h : Nat) : NemoVerif.ErrContain.Inst :=
  { uid := u, flowId := u, status := .started, activated := 0, newInstanceStarted := false, parent := none, children := [],
    heads := [{ uid := h, pos := 1, status := .active, cstack := [] }] }
def exState : NemoVerif.ErrContain.St := { insts := [exInst 1 7, exInst 2 8], queue := [] }
def exCands : List NemoVerif.ErrContain.Cand := [{ fuid := 1, huid := 7, score := .pos 1 }, { fuid := 2, huid := 8, score := .zero }]

example : (∀ c ∈ exCands, NemoVerif.ErrContain.headPresent exState c = true) ∧
    (NemoVerif.ErrContain.matchPhaseRepaired exCands).matching = [{ fuid := 1, huid := 7, score := .pos 1 }] := by
  decide


/-! ### On the whole-interpreter model `CoreVM` (phase 4)

  `G` is a family of flow instances that is `Closed` (contains the child and scope flows of its members, no member borrows
  its context dict) — the flows an event may concern.  "Untouched" for an instance `g` outside `G`: the same index entry
  (`findInst`: flow status, heads, head positions, head statuses), the same head extras (`hx`: matching scores, catch
  labels, scopes) and the same instance record (`fx`: context, arguments, priority, loop, action uids, scopes, parent …)
  up to its list of child flows (`_start_flow` appends to `parent.child_flow_uids`, `_abort_flow` removes from it). -/

section vm
open NemoVerif.CoreVM NemoVerif.CoreIndex

/-- what the frame theorems say about an instance `g` between two interpreter states -/
def UntouchedVM (s s' : VM) (g : FUid) : Prop :=
  findInst s'.ixs.ix g = findInst s.ixs.ix g ∧
  (∀ h, OMap.lookup (g, h) s'.r.hx = OMap.lookup (g, h) s.r.hx) ∧
  (OMap.lookup g s'.r.fx).map dropKids = (OMap.lookup g s.r.fx).map dropKids

theorem untouched_of_frameM {G : FUid → Prop} {s s' : VM} (h : FrameM G s s') (g : FUid) (hg : ¬ G g) : UntouchedVM s s' g :=
  ⟨h.ix g hg, fun hh => h.hx g hh hg, h.fx g hg⟩

/-- `nonmatching_untouched` on `CoreVM.processEvent` (the body of `while state.internal_events` of `run_to_completion`):
    whenever the processing of an internal event returns normally it decomposes into the prelude (`eventPrelude`: active
    loops, ContextUpdate, `_process_internal_events_without_default_matchers`, candidate look-up), the candidate scan and
    the tail (`_handle_event_matching`, failing / erroring heads, `_advance_head_front`), and there are three lists of heads
    `res` = (matching, failing, erroring) such that
    (i)  every head in them is a candidate whose match statement WAS evaluated against the event and did NOT answer
         "no match" (`Fit`: score ≠ 0) — a head whose match did not fit is in none of them;
    (ii) the scan itself changed no index entry, no instance record and only the matching scores of the MATCHING heads;
    (iii) for every closed family `G` that contains the flows of these heads (and the source flow named by the event, which
         `_handle_event_matching` registers in open scopes), every instance outside `G` is untouched from the state after the
         prelude to the end of the event's processing — for every state, event and program. -/
theorem nonmatching_untouched_vm (fuel : Nat) (event : Event) (actionable : List Key) (s s' : VM) (r : List Key)
    (h : processEvent fuel event actionable s = .ok r s') :
    ∃ (p : List (Option String) × Event × List String × List Key) (s0 : VM) (res : ScanAcc) (s1 : VM),
      eventPrelude fuel event s = .ok p s0 ∧ scanCands p.2.1 p.2.2.2 p.2.2.1 s0 = .ok res s1 ∧
      (∀ k, (k ∈ res.2.1 ∨ k ∈ res.2.2.1 ∨ k ∈ res.2.2.2) → k ∈ p.2.2.2 ∧ Fit p.2.1 k) ∧
      (s1.ixs = s0.ixs ∧ s1.r.fx = s0.r.fx ∧ ∀ key, key ∉ res.2.1 → OMap.lookup key s1.r.hx = OMap.lookup key s0.r.hx) ∧
      ∀ G : FUid → Prop, Closed G s0 → (∀ k, (k ∈ res.2.1 ∨ k ∈ res.2.2.1 ∨ k ∈ res.2.2.2) → G k.1) →
        (∀ u, lookupArg "source_flow_instance_uid" p.2.1.ev.args = some (.str u) → G u) →
        Closed G s' ∧ ∀ g, ¬ G g → UntouchedVM s0 s' g := by
  obtain ⟨p, s0, res, s1, h0, h1, inv, hall⟩ := processEvent_frame fuel event actionable s s' r h
  refine ⟨p, s0, res, s1, h0, h1, inv.sub, ⟨inv.ix, inv.fx, inv.hx⟩, fun G hc hM hsrc => ?_⟩
  obtain ⟨c, f⟩ := hall G hc hM hsrc
  exact ⟨c, fun g hg => untouched_of_frameM f g hg⟩

/-- `_handle_event_matching` alone (every exit, exceptions included): only the flows of the matching heads (and, through
    `_start_flow`, the child list of the parent) are written. -/
theorem handle_event_matching_frame_vm (G : FUid → Prop) (event : Event) (heads : List Key) (hH : ∀ k ∈ heads, G k.1)
    (hsrc : ∀ u, lookupArg "source_flow_instance_uid" event.ev.args = some (.str u) → G u) (s : VM) (hc : Closed G s) :
    Closed G (outState (handleEventMatching event heads s)) ∧
      ∀ g, ¬ G g → UntouchedVM s (outState (handleEventMatching event heads s)) g := by
  obtain ⟨c, f⟩ := (FrM.handleEventMatching event heads hH hsrc).app s hc
  exact ⟨c, fun g hg => untouched_of_frameM f g hg⟩

/-- `only_input_heads` / `loops_independent` on the whole-interpreter model: `_resolve_action_conflicts` (grouping, order,
    tie-break, event generation, co-winner re-pointing, catch labels, `_abort_flow` with all its descendants) writes only to
    the flows of the actionable heads it is handed and to their child / scope flows — every other instance, in particular
    every flow of another interaction loop that is not among the actionable heads, is untouched.  Every exit. -/
theorem conflict_resolution_frame_vm (G : FUid → Prop) (fuel : Nat) (actionable : List Key) (hH : ∀ k ∈ actionable, G k.1)
    (s : VM) (hc : Closed G s) :
    Closed G (outState (resolveActionConflicts fuel actionable s)) ∧
      ∀ g, ¬ G g → UntouchedVM s (outState (resolveActionConflicts fuel actionable s)) g := by
  obtain ⟨c, f⟩ := (FrM.resolveActionConflicts fuel actionable hH).app s hc
  exact ⟨c, fun g hg => untouched_of_frameM f g hg⟩


/-! `winner_is_max` / `better_score_wins` / `more_specific_wins` on the terms of `CoreVM.resolveActionConflicts`.
    `scoresOf`, `group`, `maxLen`, `ordered`, `nEq`, `picked` are the let-bindings of one group iteration of the interpreter model
    (`picked := ordered[c]!` with `c < nEq` — `pickChoice_lt`); `vmPicked` spells that term out.  The comparison is EXACT:
    `scoresLt` is the lexicographic order of the rational values `prio · 0.9^k` (`CoreVM.scoresLt_iff`, `Score.lt_iff`). -/

/-- the head one group iteration of `CoreVM.resolveActionConflicts` binds to `picked` when the tie-break answers `c` -/
def vmPicked (scoresOf : Key → List CoreVM.Score) (group : List Key) (c : Nat) : Key :=
  (sortDesc (fun kk => padScores (scoresOf kk) (group.foldl (fun m kk => max m (scoresOf kk).length) 0)) group)[c]!

/-- the number of tie-break candidates of that iteration (`nEq`) -/
def vmTies (scoresOf : Key → List CoreVM.Score) (group : List Key) : Nat :=
  equalPrefixLen scoresOf (sortDesc (fun kk => padScores (scoresOf kk) (group.foldl (fun m kk => max m (scoresOf kk).length) 0)) group)

/-- `winner_is_max` on CoreVM: the picked head's score vector, padded with 1.0 to the longest vector of its loop group, is not
    smaller than the padded vector of any head of the group — for every group, every score table, every tie-break outcome. -/
theorem winner_is_max_vm (scoresOf : Key → List CoreVM.Score) (group : List Key) (c : Nat) (hc : c < vmTies scoresOf group) :
    ∀ z ∈ group, ¬ ((padScores (scoresOf z) (group.foldl (fun m kk => max m (scoresOf kk).length) 0)).map CoreVM.Score.val >
                    (padScores (scoresOf (vmPicked scoresOf group c)) (group.foldl (fun m kk => max m (scoresOf kk).length) 0)).map CoreVM.Score.val) := by
  intro z hz
  have h := corevm_picked_is_max scoresOf group c hc z hz
  exact (scoresLt_false_iff _ _).1 h

/-- `picked_among_exact_ties` on CoreVM: whatever the tie-break answers, the picked head's (unpadded) score vector is exactly
    equal — same length, same values — to the vector of the first head of the descending order; and every such candidate index is a
    possible answer (`pickChoice` accepts every `c < nEq`). -/
theorem picked_among_exact_ties_vm (scoresOf : Key → List CoreVM.Score) (group : List Key) (c : Nat) (hc : c < vmTies scoresOf group) :
    (scoresOf (vmPicked scoresOf group c)).map CoreVM.Score.val = (scoresOf (vmPicked scoresOf group 0)).map CoreVM.Score.val :=
  scoresEq_val (corevm_picked_among_exact_ties scoresOf _ c hc)

/-- `better_score_wins` on CoreVM -/
theorem better_score_wins_vm (scoresOf : Key → List CoreVM.Score) (group : List Key) (c : Nat) (hc : c < vmTies scoresOf group)
    (A B : Key) (hA : A ∈ group) (pre : List CoreVM.Score) (a b : CoreVM.Score) (ta tb : List CoreVM.Score)
    (hsa : scoresOf A = pre ++ a :: ta) (hsb : scoresOf B = pre ++ b :: tb) (hab : b.val < a.val) :
    vmPicked scoresOf group c ≠ B :=
  corevm_better_score_wins scoresOf group c hc A B hA pre a b ta tb hsa hsb ((CoreVM.Score.lt_iff b a).2 hab)

/-- `more_specific_wins` on CoreVM: same (positive) priority, A's match left fewer parameters unmentioned (`0 ≤ kA < kB`, the
    exponent of C04's matcher) at the first position where the vectors differ ⇒ B is not picked. -/
theorem more_specific_wins_vm (scoresOf : Key → List CoreVM.Score) (group : List Key) (c : Nat) (hc : c < vmTies scoresOf group)
    (A B : Key) (hA : A ∈ group) (pre : List CoreVM.Score) (a b : CoreVM.Score) (ta tb : List CoreVM.Score)
    (hsa : scoresOf A = pre ++ a :: ta) (hsb : scoresOf B = pre ++ b :: tb)
    (hp : a.prio = b.prio) (hpos : 0 < a.num.1) (hk0 : 0 ≤ a.k) (hk : a.k < b.k) :
    vmPicked scoresOf group c ≠ B :=
  corevm_better_score_wins scoresOf group c hc A B hA pre a b ta tb hsa hsb (CoreVM.Score.lt_of_more_unmentioned a b hp hpos hk0 hk)

/-- non-vacuity: two heads, [0.9] against [0.9, 0.5] — one tie-break candidate, the shorter vector is picked (padding with 1.0).
    Finite facts, by evaluation. -/
example : vmTies (fun k => if k = ("f1", "h1") then [⟨1, none⟩] else [⟨1, none⟩, ⟨0, some (1, 1)⟩]) [("f2", "h2"), ("f1", "h1")] = 1 ∧
    vmPicked (fun k => if k = ("f1", "h1") then [⟨1, none⟩] else [⟨1, none⟩, ⟨0, some (1, 1)⟩]) [("f2", "h2"), ("f1", "h1")] 0 = ("f1", "h1") := by
  decide


/-- `loops_independent`, grouping half, on CoreVM: `resolveActionConflicts` on two or more heads IS `groupHeads` (the `head_groups`
    loop) followed by the per-group loop; `groupHeads` does not change the state, every group consists of input heads whose flow
    instances all carry the interaction loop the group is keyed by, and every input head is in a group.  Hence two heads of
    different interaction loops are never in one group (they never compete), whatever the state and the list of heads. -/
theorem loops_never_compete_vm (fuel : Nat) (a b : Key) (t : List Key) :
    (∃ rest : List (String × List Key) → M (List Key),
        resolveActionConflicts fuel (a :: b :: t) = groupHeads (a :: b :: t) >>= rest) ∧
    ∀ (s s' : VM) (groups : List (String × List Key)), groupHeads (a :: b :: t) s = .ok groups s' →
      s' = s ∧
      (∀ k ∈ a :: b :: t, ∃ lg ∈ groups, k ∈ lg.2) ∧
      ∀ lg ∈ groups, ∀ k1 ∈ lg.2, ∀ k2 ∈ lg.2, k1 ∈ a :: b :: t ∧ k2 ∈ a :: b :: t ∧
        ∃ x1 x2, OMap.lookup k1.1 s.r.fx = some x1 ∧ OMap.lookup k2.1 s.r.fx = some x2 ∧
          x1.loopId = some lg.1 ∧ x2.loopId = some lg.1 := by
  refine ⟨resolveActionConflicts_groups fuel a b t, fun s s' groups h => ?_⟩
  obtain ⟨hs, hok⟩ := groupHeads_spec _ s s' groups h
  refine ⟨hs, hok.complete, fun lg hlg k1 hk1 k2 hk2 => ?_⟩
  obtain ⟨m1, x1, l1, e1⟩ := hok.sound lg hlg k1 hk1
  obtain ⟨m2, x2, l2, e2⟩ := hok.sound lg hlg k2 hk2
  exact ⟨m1, m2, x1, x2, l1, l2, e1, e2⟩

/-! non-vacuity of `Closed G` with something outside `G`: two instances, `G` = {f1}; f1 has no child / scope flows and owns
    its context — f2 is outside. -/
def exVM : VM :=
  { r := { prog := ⟨[]⟩,
           fx := [("f1", { flowId := "a", loopId := some "L", hierPos := "0" }),
                  ("f2", { flowId := "b", loopId := some "L", hierPos := "1" })] } }

example : Closed (fun g => g = "f1") exVM ∧ ¬ (fun g => g = "f1") "f2" ∧ (∀ k ∈ [(("f1", "h1") : Key)], (fun g => g = "f1") k.1) := by
  refine ⟨?_, by decide, by simp⟩
  intro g x hg hl
  have hg' : g = "f1" := hg
  subst hg'
  simp [exVM, OMap.lookup] at hl
  subst hl
  simp [kids, scopeFlows]

/-- non-vacuity of the hypothesis of `nonmatching_untouched_vm` (an event is processed and returns normally) and of
    `loops_never_compete_vm` (the grouping loop returns: both heads in the group of loop "L").  Finite facts, by evaluation. -/
def exEvent : Event := { ev := { kind := .plain, name := "E", args := [] } }
example : ∃ r s', processEvent 5 exEvent [] exVM = .ok r s' := ⟨_, _, rfl⟩
example : groupHeads [("f1", "h1"), ("f2", "h2")] exVM = .ok [("L", [("f1", "h1"), ("f2", "h2")])] exVM := rfl

end vm

/-- The sort of the model is the core library's stable merge sort with the same comparator (stability of Python's
    `sorted(..., reverse=True)` is the modelled assumption). -/
theorem ordered_is_stable_mergeSort (one : Int) (g : List HeadInfo) :
    ordered one g = g.mergeSort (keyGe one (maxLen g)) :=
  sortStable_eq_mergeSort _ (keyGe_total one _) (keyGe_trans one _) g

/-! Concrete witnesses (finite facts, by evaluation): a 4-head call with a tie, a co-winner, a loser and a second loop. -/
def exHeads : List HeadInfo :=
  [⟨1, 1, 1, [3], 1, some 10, 1, true, false, true⟩, ⟨2, 2, 1, [3], 1, some 11, 1, true, false, true⟩,
   ⟨3, 3, 1, [2], 2, none, 0, false, false, true⟩, ⟨4, 4, 2, [1, 5], 3, some 13, 1, true, false, true⟩]

example : (resolveFates 5 exHeads [1, 0]).map (fun p => (p.1.uid, p.2)) =
    [(2, .picked), (1, .cowin), (3, .aborted), (4, .picked)] := by decide
example : advancing (resolveFates 5 exHeads [1, 0]) = [2, 1, 4] ∧ abortedFlows (resolveFates 5 exHeads [1, 0]) = [3] := by decide
example : applyFates none (resolveFates 5 exHeads [1, 0]) [(10, 0), (11, 0), (13, 0)] = [(11, 2), (13, 1)] := by decide
/-- padding matters: [0.9] (rank 3) against [0.9, 0.5] (ranks 3, 1) — the shorter vector wins when padded with 1.0 (rank 5) -/
example : (resolveFates 5 [⟨1, 1, 1, [3, 1], 1, none, 0, false, false, true⟩, ⟨2, 2, 1, [3], 2, none, 0, false, false, true⟩] []).map
    (fun p => (p.1.uid, p.2)) = [(2, .picked), (1, .aborted)] := by decide


/-! ## Phase 5 — the round structure of `run_to_completion` (`Models/ConflictRound.lean`)

  `ConflictRound.run` mirrors the main processing loop (drain ALL internal events, advance the MERGING heads, drain again …,
  only then `_resolve_action_conflicts`, then advance the winners and start over).  The theorems hold for every `World`
  (= everything the loop does not decide itself), every fuel and every start state. -/

section Round
open NemoVerif.ConflictRound

/-- `round_drains_before_resolve`: whenever `_resolve_action_conflicts` is called, no internal event is queued.
    Hypothesis `hnil` (law of the world): `_advance_head_front(state, [])` pushes nothing.  (The loop leaves its inner loops
    only through a merge pass on NO merging head that was entered with an empty queue — `CallOk.queue`.) -/
theorem round_drains_before_resolve {σ : Type} (W : World σ) (hnil : ∀ s, (W.advMerging s []).2.1 = 0)
    (fuel : Nat) (s : σ) : ∀ c ∈ (run W fuel s).1, c.queue = 0 := by
  intro c hc
  obtain ⟨s1, h⟩ := (rounds_calls W fuel s 1 [] [] (by simp) c hc).queue
  rw [h, hnil]

/-- non-vacuity of `hnil`, and the theorem's conclusion on the witness world -/
example : ∀ s, (exWorld.advMerging s []).2.1 = 0 := by intro s; simp [exWorld]
example : summary (run exWorld 20 exStart).1 = [(0, [1, 3], [3]), (0, [], [])] := by decide

/-- `nothing_deferred`: every head that `_advance_head_front` returned to the loop since the previous resolution takes part
    in THIS resolution — unless it was handed to a merge pass (it was MERGING) or is dead when the resolution starts (flow no
    longer active / head not ACTIVE); and the resolution sees no other heads. -/
theorem nothing_deferred {σ : Type} (W : World σ) (fuel : Nat) (s : σ) :
    ∀ c ∈ (run W fuel s).1, (∀ u ∈ c.emitted, u ∈ c.input ∨ u ∈ c.merged ∨ u ∈ c.dead) ∧ (∀ u ∈ c.input, u ∈ c.emitted ∧ u ∉ c.dead) := by
  intro c hc
  have h := rounds_calls W fuel s 1 [] [] (by simp) c hc
  exact ⟨h.conserve, fun u hu => ⟨h.sound u hu, h.live u hu⟩⟩

/-- `same_event_one_resolution`: all heads made actionable between two resolutions of one `run_to_completion` call (i.e. by the
    same external event, through any chain of internal events and head merges) compete in ONE call of
    `_resolve_action_conflicts`: two such heads `u`, `v` (not merged away, not dead) are both in the input of that call, and in
    that call exactly one head of their interaction loop is picked; every head of the loop that advances as winner / co-winner
    carries the picked head's event (`info` = what the resolution reads of a head, any choice sequence `cs`). -/
theorem same_event_one_resolution {σ : Type} (W : World σ) (fuel : Nat) (s : σ) (info : Nat → HeadInfo) (one : Int) (cs : List Nat) :
    ∀ c ∈ (run W fuel s).1, ∀ u ∈ c.emitted, ∀ v ∈ c.emitted, u ∉ c.merged → u ∉ c.dead → v ∉ c.merged → v ∉ c.dead →
      u ∈ c.input ∧ v ∈ c.input ∧
      (((resolveFates one (c.input.map info) cs).filter (fun p => p.1.loop == (info u).loop)).filter (fun p => p.2 == Fate.picked)).length = 1 ∧
      ∀ p ∈ resolveFates one (c.input.map info) cs, ∀ q ∈ resolveFates one (c.input.map info) cs,
        p.1.loop = (info u).loop → q.1.loop = (info u).loop →
        (p.2 = Fate.picked ∨ p.2 = Fate.cowin) → (q.2 = Fate.picked ∨ q.2 = Fate.cowin) → p.1.ev = q.1.ev := by
  intro c hc u hu v hv hum hud hvm hvd
  have h := (nothing_deferred W fuel s c hc).1
  have hu' : u ∈ c.input := by
    rcases h u hu with h1 | h1 | h1
    · exact h1
    · exact absurd h1 hum
    · exact absurd h1 hud
  have hv' : v ∈ c.input := by
    rcases h v hv with h1 | h1 | h1
    · exact h1
    · exact absurd h1 hvm
    · exact absurd h1 hvd
  have hl : ∃ h ∈ c.input.map info, h.loop = (info u).loop := ⟨info u, List.mem_map.2 ⟨u, hu', rfl⟩, rfl⟩
  obtain ⟨h1, h2⟩ := one_action_per_loop one (c.input.map info) cs (info u).loop hl
  exact ⟨hu', hv', h1, h2⟩

/-- non-vacuity: on the witness world heads 1 (flow A, direct action) and 3 (flow B, behind an or-group merge and a wrapper
    flow) are emitted in the first phase, neither merged nor dead -/
example : ∃ c ∈ (run exWorld 20 exStart).1, 1 ∈ c.emitted ∧ 3 ∈ c.emitted ∧ 1 ∉ c.merged ∧ 3 ∉ c.merged ∧ 1 ∉ c.dead ∧ 3 ∉ c.dead ∧
    c.advancing = [3] := by decide

/-- The scheduling of seed C05-e (inner loop left as soon as no head is MERGING, pending internal events processed after the
    resolution) is NOT the modelled loop: on the witness world it resolves with an internal event still queued, head 1 and
    head 3 are each alone in a resolution of their own and BOTH advance with different events — where the modelled loop lets
    them compete once and only the more specific head 3 advances. -/
theorem deferred_scheduling_counterexample :
    summary (runDeferred exWorld 20 exStart).1 = [(1, [1], [1]), (0, [3], [3]), (0, [], [])] ∧
    summary (run exWorld 20 exStart).1 = [(0, [1, 3], [3]), (0, [], [])] ∧
    (exInfo 1).loop = (exInfo 3).loop ∧ (exInfo 1).ev ≠ (exInfo 3).ev := by decide

end Round

/-! ### Phase 6: the declared priority scales the score in EVERY branch of the score computation

  `_compute_event_comparison_score` has one branch per kind of triggering event (`MatchBranch.scoreBranch`: StartFlow
  matched by flow id, StartFlow of any flow, the other internal events, external / action events).  The property
  quantifies over all triggering events: whatever the branch, the score is `declared priority × specificity`.
  Tie: `C05.bscore` (every run: the real function with and without the priority against `eventScore`, per branch) and
  the in-run clause of the oracle (every positive score computed under a priority inside a program run is re-computed
  without it). -/
section Priority
open NemoVerif.Match NemoVerif.MatchBranch

/-- `priority_scales_every_branch`: for every event kind (every branch `b` of the score computation) the score under
    the declared priority `p` is the unscaled specificity of that branch with the priority factor `p` — the same
    exponent `k` (number of unmentioned parameters), nothing else; a pair that does not match (`0.0`), fails (`-1.0`)
    or raises does so under every priority. -/
theorem priority_scales_every_branch (rx : Rx) (sa : String → Option (List (String × Val))) (ev ref : Ev)
    (p : Option (Int × Nat)) (b : ScoreBranch) (_hb : scoreBranch ev ref = b) :
    eventScore rx sa ev ref p = scaleBy p (eventScore rx sa ev ref none) ∧
    (∀ k, eventScore rx sa ev ref none = .pos k none → eventScore rx sa ev ref p = .pos k p) ∧
    (∀ k q, eventScore rx sa ev ref p = .pos k q → q = p ∧ eventScore rx sa ev ref none = .pos k none) ∧
    (∀ r, (∀ k q, r ≠ .pos k q) → (eventScore rx sa ev ref p = r ↔ eventScore rx sa ev ref none = r)) := by
  unfold eventScore
  cases hc : eventCore rx sa ev ref with
  | pos k q =>
    refine ⟨rfl, ?_, ?_, ?_⟩
    · intro k' h
      have h1 : k = k' := by injection h
      rw [h1]
    · intro k' q' h
      have h1 : k = k' ∧ p = q' := by injection h with a b; exact ⟨a, b⟩
      rw [h1.1]; exact ⟨h1.2.symm, rfl⟩
    · intro r hr
      constructor <;> intro h <;> exact absurd h.symm (hr _ _)
  | err => exact ⟨rfl, fun k h => (by cases h), fun k q h => (by cases h), fun r _ => Iff.rfl⟩
  | mismatch => exact ⟨rfl, fun k h => (by cases h), fun k q h => (by cases h), fun r _ => Iff.rfl⟩
  | zero => exact ⟨rfl, fun k h => (by cases h), fun k q h => (by cases h), fun r _ => Iff.rfl⟩

/-- every (event, reference) pair falls into one of the four branches (the quantifier of the theorem above is total) -/
theorem score_branch_total (ev ref : Ev) : scoreBranch ev ref ∈ ScoreBranch.all := by
  cases h : scoreBranch ev ref <;> simp [ScoreBranch.all]

/-- `higher_priority_wins`: two flows matched the SAME event — of any kind, in any branch — equally specifically (the
    same unscaled score `k`), under declared priorities `pA`, `pB` with `pB < pA` as exact numbers.  If these matches are
    the first position where their score vectors differ, then B is not picked, for every tie-break: among equally
    specific matches the declared priority decides, never `random.choice`. -/
theorem higher_priority_wins (rx : Rx) (sa : String → Option (List (String × Val))) (ev refA refB : Ev)
    (pA pB : Option (Int × Nat)) (k : Int)
    (hEA : eventScore rx sa ev refA none = .pos k none) (hEB : eventScore rx sa ev refB none = .pos k none)
    (hp : mlt bnum bden ⟨k.toNat, pB⟩ ⟨k.toNat, pA⟩)
    (S : List MScore) (r : MScore → Int) (hr : ∀ x ∈ S, ∀ y ∈ S, mlt bnum bden x y → r x < r y)
    (hSA : ⟨k.toNat, pA⟩ ∈ S) (hSB : ⟨k.toNat, pB⟩ ∈ S)
    (one : Int) (hs : List HeadInfo) (cs : List Nat) (A B : HeadInfo) (hA : A ∈ hs) (hl : A.loop = B.loop)
    (pre ta tb : List Int) (kA kB : Int) (qA qB : Option (Int × Nat))
    (hsA : eventScore rx sa ev refA pA = .pos kA qA) (hsB : eventScore rx sa ev refB pB = .pos kB qB)
    (hsa : A.scores = pre ++ r ⟨kA.toNat, qA⟩ :: ta) (hsb : B.scores = pre ++ r ⟨kB.toNat, qB⟩ :: tb) :
    (B, Fate.picked) ∉ resolveFates one hs cs := by
  have eA := (priority_scales_every_branch rx sa ev refA pA _ rfl).2.1 k hEA
  have eB := (priority_scales_every_branch rx sa ev refB pB _ rfl).2.1 k hEB
  rw [eA] at hsA; rw [eB] at hsB
  injection hsA with h1 h2; injection hsB with h3 h4
  subst h1 h2 h3 h4
  exact better_score_wins S r hr one hs cs A B hA hl pre ⟨k.toNat, pA⟩ ⟨k.toNat, pB⟩ hSA hSB ta tb hsa hsb hp

/-- witnesses, one per branch: an observer's match statement against the event it reacts to, priority 1/2 -/
def exStartFlow : Ev := { kind := .internal, name := "StartFlow", args := [("flow_id", .str "helper"), ("flow_instance_uid", .str "u1")] }
def exRefStartId : Ev := { kind := .internal, name := "StartFlow", args := [("flow_id", .str "helper")] }
def exRefStartAny : Ev := { kind := .internal, name := "StartFlow", args := [("flow_instance_uid", .str "u1")] }
def exFlowFinished : Ev := { kind := .internal, name := "FlowFinished", args := [("flow_id", .str "helper"), ("flow_instance_uid", .str "u1")] }
def exRefFinished : Ev := { kind := .internal, name := "FlowFinished", args := [("flow_id", .str "helper")] }
def exUmim : Ev := { kind := .plain, name := "E", args := [("a", .int 1), ("b", .int 2)] }
def exRefUmim : Ev := { kind := .plain, name := "E", args := [("a", .int 1)] }

/-- non-vacuity, branch by branch: each branch is inhabited by a pair with a POSITIVE score, and the priority 1/2 shows
    in the result of each (flow-id match 1.0·½, start of any flow 0.9²·½, FlowFinished 0.9·½, external event 0.9·½).
    Finite facts, by evaluation. -/
example :
    (scoreBranch exStartFlow exRefStartId = .startFlowId ∧ eventScore (fun _ _ => false) (fun _ => none) exStartFlow exRefStartId (some (1, 1)) = .pos 0 (some (1, 1))) ∧
    (scoreBranch exStartFlow exRefStartAny = .startFlowAny ∧ eventScore (fun _ _ => false) (fun _ => none) exStartFlow exRefStartAny (some (1, 1)) = .pos 2 (some (1, 1))) ∧
    (scoreBranch exFlowFinished exRefFinished = .internal ∧ eventScore (fun _ _ => false) (fun _ => none) exFlowFinished exRefFinished (some (1, 1)) = .pos 1 (some (1, 1))) ∧
    (scoreBranch exUmim exRefUmim = .umim ∧ eventScore (fun _ _ => false) (fun _ => none) exUmim exRefUmim (some (1, 1)) = .pos 1 (some (1, 1))) := by
  decide +kernel

/-- non-vacuity of `higher_priority_wins` (its hypotheses are jointly satisfiable): two observers of the start of flow
    `helper` with priorities 1/2 and none (= 1.0), equal specificity `k = 0`, ranks 0 and 1; the observer with priority
    1/2 is not picked. -/
example : (⟨2, 2, 1, [0], 2, none, 0, false, false, true⟩, Fate.picked) ∉
    resolveFates 1 [⟨1, 1, 1, [1], 1, none, 0, false, false, true⟩, ⟨2, 2, 1, [0], 2, none, 0, false, false, true⟩] [0] :=
  higher_priority_wins (fun _ _ => false) (fun _ => none) exStartFlow exRefStartId exRefStartId none (some (1, 1)) 0
    (by decide +kernel) (by decide +kernel) (by decide)
    [⟨0, none⟩, ⟨0, some (1, 1)⟩] (fun x => if x = ⟨0, none⟩ then 1 else 0) (by decide) (by decide) (by decide)
    1 _ [0] ⟨1, 1, 1, [1], 1, none, 0, false, false, true⟩ ⟨2, 2, 1, [0], 2, none, 0, false, false, true⟩ (by decide) rfl
    [] [] [] 0 0 none (some (1, 1)) (by decide +kernel) (by decide +kernel) (by decide) (by decide)

/-- The statement is about THIS function, not about every function with the same values under priority 1.0: with an exit
    from the flow-id path before the last step (`eventScoreEarlyExit`) the flow-id branch returns the unscaled 1.0 under
    priority 1/2 — two observers with priorities 1/2 and 1.0 get the same score, an exact tie left to `random.choice`. -/
theorem early_exit_skips_priority_counterexample :
    scoreBranch exStartFlow exRefStartId = .startFlowId ∧
    eventScoreEarlyExit (fun _ _ => false) (fun _ => none) exStartFlow exRefStartId (some (1, 1)) = .pos 0 none ∧
    eventScoreEarlyExit (fun _ _ => false) (fun _ => none) exStartFlow exRefStartId (some (1, 1)) ≠
      scaleBy (some (1, 1)) (eventScoreEarlyExit (fun _ _ => false) (fun _ => none) exStartFlow exRefStartId none) ∧
    eventScoreEarlyExit (fun _ _ => false) (fun _ => none) exStartFlow exRefStartId (some (1, 1)) =
      eventScoreEarlyExit (fun _ _ => false) (fun _ => none) exStartFlow exRefStartId none := by
  decide +kernel

end Priority

end NemoVerif.C05
