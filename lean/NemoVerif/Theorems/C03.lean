/-
  C03 — failing actions are contained and rails fail closed.

  Property theorems only (models `Models/Dispatch.lean`, `Models/Pipeline.lean`; lemmas
  `Lemmas/Pipeline.lean`; tie tests `Lemmas/PipelineTie.lean`).  A fault is a verdict `fault` of a rail
  at some call (`t.vin` / `t.vout` are arbitrary functions, so any number of faults at any call
  sites of any turn is covered), or `t.actFault` / `t.retrFault` for the dialog-side actions.
-/
import NemoVerif.Lemmas.Pipeline
import NemoVerif.Lemmas.PipelineV2
import NemoVerif.Lemmas.PipelineTie
import NemoVerif.Lemmas.PipelineCtx
import NemoVerif.Lemmas.PipelineCall

set_option linter.unusedSimpArgs false

namespace NemoVerif.C03
open NemoVerif NemoVerif.Pipeline

/-! ### the dispatcher -/

/-- `execute_action` never lets an action's exception escape — whatever the exception VALUE is (any
    message: empty, multi-line, …; `Outcome.raise e` for every `e`) — the only thing it forwards is
    `LLMCallException`. -/
theorem execute_never_raises {α : Type} (o : Option (Dispatch.Outcome α)) (h : o ≠ some .llmRaise) :
    ∃ r, Dispatch.execute o = .ok r :=
  Pipeline.execute_contains o h

/-- A raising action is answered with `(None, "failed")`, for every exception value. -/
theorem execute_raise_is_failed {α : Type} (e : Dispatch.Exn) :
    Dispatch.execute (some (Dispatch.Outcome.raise e : Dispatch.Outcome α)) = .ok (none, .failed) := rfl

/-- … in particular for an exception whose `str()` is empty (`TimeoutError()`, a bare `assert`). -/
example : Dispatch.execute (some (Dispatch.Outcome.raise ⟨""⟩ : Dispatch.Outcome Nat)) = .ok (none, .failed) := rfl

/-- … which both runtimes turn into the internal-error result, and a rail flow into the verdict `fault`. -/
theorem raise_is_fault (e : Dispatch.Exn) :
    verdictOf (Dispatch.run (some (Dispatch.Outcome.raise e : Dispatch.Outcome RailRet))) = .fault := rfl

/-! ### Colang 1.0 -/

/-- `generate_total`: if no action forwards an `LLMCallException`, the turn produces a reply — for
    every fault oracle (any number of raising rails / dialog actions). -/
theorem generate_total_v1 (cfg : Cfg) (h : HistV1) (t : Turn) (hi : WF cfg .input) (ho : WF cfg .output) (hs : h.skip = false)
    (hin : ∀ r x, t.vin r x ≠ .escape) (hout : ∀ r x, t.vout r x ≠ .escape) :
    (turnV1 cfg h t).2.1.raised = false := by
  rw [turnV1_eq_spec cfg h t hi ho hs]
  unfold turnSpecV1
  have hne : ∀ (v : Nat → Text → Verdict) rails x, (∀ r y, v r y ≠ .escape) → gateStop v rails x ≠ some .escape := by
    intro v rails x hv hg
    obtain ⟨r, y, _, hvy⟩ := Pipeline.gateStop_is_verdict v rails x _ hg
    exact hv r y hvy
  cases hg : gateStop t.vin cfg.inRails t.user with
  | some w =>
    cases w with
    | escape => exact absurd hg (hne _ _ _ hin)
    | accept => exact absurd (Pipeline.gate_stop_last _ _ _ _ hg).choose_spec.choose_spec.2.2 (by simp [Verdict.continues])
    | rewrite y => exact absurd (Pipeline.gate_stop_last _ _ _ _ hg).choose_spec.choose_spec.2.2 (by simp [Verdict.continues])
    | fault => simp [stopResV1, replyV1]; split <;> rfl
    | reject =>
      by_cases he : cfg.exc = true <;> cases hrf : t.retrFault <;> simp [stopResV1, he, hrf, replyV1] <;> (split <;> rfl)
  | none =>
    simp only [stopResV1]
    unfold afterInputV1
    by_cases hf : genFaultV1 cfg t = true
    · simp [hf, replyV1]; split <;> rfl
    · have hf' : genFaultV1 cfg t = false := by simpa using hf
      simp only [hf', Bool.false_eq_true, if_false]
      cases hgo : gateStop t.vout cfg.outRails t.bot with
      | none => simp [outTailV1, replyV1]; split <;> rfl
      | some w =>
        cases w with
        | escape => exact absurd hgo (hne _ _ _ hout)
        | accept => exact absurd (Pipeline.gate_stop_last _ _ _ _ hgo).choose_spec.choose_spec.2.2 (by simp [Verdict.continues])
        | rewrite y => exact absurd (Pipeline.gate_stop_last _ _ _ _ hgo).choose_spec.choose_spec.2.2 (by simp [Verdict.continues])
        | fault => simp [outTailV1, replyV1]; split <;> rfl
        | reject =>
          by_cases he : cfg.exc = true <;> cases hrf : t.retrFault <;> simp [outTailV1, he, hrf, replyV1] <;> (split <;> rfl)

/-- … in particular when the rails are python callables invoked through the dispatcher and none of
    them raises `LLMCallException` (ordinary exceptions, at any call, are allowed). -/
theorem generate_total_dispatched_v1 (cfg : Cfg) (h : HistV1) (hi : WF cfg .input) (ho : WF cfg .output) (hs : h.skip = false)
    (user bot : Text) (intent : Intent) (inImpl outImpl : Nat → Text → Option (Dispatch.Outcome RailRet)) (af rf : Bool)
    (hin : ∀ r x, inImpl r x ≠ some .llmRaise) (hout : ∀ r x, outImpl r x ≠ some .llmRaise) :
    (turnV1 cfg h (Turn.ofImpl user bot intent inImpl outImpl af rf)).2.1.raised = false := by
  apply generate_total_v1 cfg h _ hi ho hs
  · intro r x hv
    exact hin r x ((Pipeline.verdictOf_run_escape _).mp hv)
  · intro r x hv
    exact hout r x ((Pipeline.verdictOf_run_escape _).mp hv)

/-- `fail_closed`: if an invoked rail (input or output) fails, nothing is uttered in the turn except
    the refusal / internal-error text — in particular not the text the rail was guarding. -/
theorem fail_closed_v1 (cfg : Cfg) (h : HistV1) (t : Turn) (hi : WF cfg .input) (ho : WF cfg .output) (hs : h.skip = false)
    (k : Kind) (c : Nat × Text) (hc : c ∈ railCalls k (turnV1 cfg h t).1)
    (hf : (match k with | .input => t.vin c.1 c.2 | .output => t.vout c.1 c.2) = .fault) :
    ∀ x, Step.utter x ∈ (turnV1 cfg h t).1 → x = refusal ∨ x = internalError := by
  cases k with
  | output =>
    exact (C02_blocked cfg h t hi ho hs c hc (by simp at hf; rw [hf]; rfl))
  | input =>
    intro x hx
    simp at hf
    have hio : railCalls .input (turnV1 cfg h t).1 = gate t.vin cfg.inRails t.user := by
      rw [turnV1_eq_spec cfg h t hi ho hs, turnSpecV1_trace]
      cases hg : gateStop t.vin cfg.inRails t.user with
      | none => simp [railCalls_input_inputTraceV1, railCalls_input_afterInputV1]
      | some w => simp [railCalls_input_inputTraceV1]
    rw [hio] at hc
    have hb : (t.vin c.1 c.2).continues = false := by rw [hf]; rfl
    have hstop : ∃ w, gateStop t.vin cfg.inRails t.user = some w := by
      cases hg : gateStop t.vin cfg.inRails t.user with
      | none =>
        have := Pipeline.gate_all_continue t.vin cfg.inRails t.user hg c hc
        rw [hb] at this; cases this
      | some w => exact ⟨w, rfl⟩
    obtain ⟨w, hw⟩ := hstop
    rw [turnV1_eq_spec cfg h t hi ho hs, turnSpecV1_trace, hw] at hx
    simp only [List.append_nil] at hx
    exact utter_mem_inputTraceV1 cfg t x hx
where
  C02_blocked (cfg : Cfg) (h : HistV1) (t : Turn) (hi : WF cfg .input) (ho : WF cfg .output) (hs : h.skip = false)
      (c : Nat × Text) (hc : c ∈ railCalls .output (turnV1 cfg h t).1) (hb : (t.vout c.1 c.2).continues = false) :
      ∀ x, Step.utter x ∈ (turnV1 cfg h t).1 → x = refusal ∨ x = internalError := by
    have hcalls : railCalls .output (turnV1 cfg h t).1 = gate t.vout cfg.outRails t.bot := by
      rw [turnV1_eq_spec cfg h t hi ho hs, turnSpecV1_trace] at hc ⊢
      cases hg : gateStop t.vin cfg.inRails t.user with
      | some w => rw [hg] at hc; simp [railCalls_output_inputTraceV1] at hc
      | none =>
        rw [hg] at hc
        simp only [railCalls_append, railCalls_output_inputTraceV1, railCalls_output_afterInputV1, List.nil_append] at hc ⊢
        by_cases hf : genFaultV1 cfg t = true
        · simp [hf] at hc
        · have hf' : genFaultV1 cfg t = false := by simpa using hf
          simp [hf']
    intro x hx
    rw [turnV1_eq_spec cfg h t hi ho hs, turnSpecV1_trace] at hx
    rcases List.mem_append.mp hx with h1 | h1
    · exact utter_mem_inputTraceV1 cfg t x h1
    · cases hg : gateStop t.vin cfg.inRails t.user with
      | some w => rw [hg] at h1; simp at h1
      | none =>
        rw [hg] at h1
        rcases utter_mem_afterInputV1 cfg t _ x h1 with h2 | h2 | ⟨_, hso, _⟩
        · exact Or.inl h2
        · exact Or.inr h2
        · rw [hcalls] at hc
          have := Pipeline.gate_all_continue _ _ _ hso c hc
          rw [hb] at this; cases this

/-- `no_poison`: whatever failed in a turn, the state handed to the next turn has
    `$skip_output_rails` unset and a history that extends the old one (a turn hidden by
    `hide_prev_turn` leaves it unchanged) — so the next turn is gated exactly like a first turn
    (`C01.every_turn_v1`, `C02.every_turn_checked_v1` apply to it). -/
theorem no_poison_v1 (cfg : Cfg) (h : HistV1) (t : Turn) (hi : WF cfg .input) (ho : WF cfg .output) (hs : h.skip = false) :
    (turnV1 cfg h t).2.2.skip = false ∧ ∃ said, (turnV1 cfg h t).2.2.texts = h.texts ++ said := by
  refine ⟨turnV1_skip cfg h t hs, ?_⟩
  rw [turnV1_eq_spec cfg h t hi ho hs]
  unfold turnSpecV1
  split
  · rename_i um _
    by_cases hn : ((afterInputV1 cfg t um).2 == End.normal) = true
    · exact ⟨um :: utters (afterInputV1 cfg t um).1, by simp [hn]⟩
    · exact ⟨[], by simp [hn]⟩
  · exact ⟨_, rfl⟩
  · exact ⟨[], by simp⟩
  · exact ⟨[], by simp⟩

/-- … and the turn after any turn (faulty or not) runs the input rails on its message exactly as
    `gate` prescribes, for every conversation prefix. -/
theorem next_turn_fully_checked_v1 (cfg : Cfg) (h : HistV1) (t t' : Turn) (hi : WF cfg .input) (ho : WF cfg .output) (hs : h.skip = false) :
    railCalls .input (turnV1 cfg (turnV1 cfg h t).2.2 t').1 = gate t'.vin cfg.inRails t'.user := by
  have hs' := turnV1_skip cfg h t hs
  rw [turnV1_eq_spec cfg _ t' hi ho hs', turnSpecV1_trace]
  cases hg : gateStop t'.vin cfg.inRails t'.user with
  | none => simp [railCalls_input_inputTraceV1, railCalls_input_afterInputV1]
  | some w => simp [railCalls_input_inputTraceV1]

/-- Non-vacuity: a turn in which the second input rail raises. -/
example : ∃ (cfg : Cfg) (t : Turn), WF cfg .input ∧ WF cfg .output
    ∧ (turnV1 cfg initV1 t).2.1 = { texts := [internalError], exc := none, raised := false } :=
  ⟨{ inRails := [0, 1], outRails := [0], dialog := false, exc := false, stops := fun _ _ => true, flagReset := true },
   Turn.ofImpl "u" "b" .free (fun r _ => if r = 1 then some (.raise ⟨""⟩) else some (.ret ⟨true, none⟩)) (fun _ _ => some (.ret ⟨true, none⟩)) false false,
   fun _ _ => rfl, fun _ _ => rfl, by decide⟩

/-! ### Colang 2.x (guardrails.co) -/

/-- `fail_closed` (2.x): a failing rail action returns `None`, which the rail flow reads as "not
    allowed" (`norm2 .fault = .reject`); so if any output rail invoked on the LLM text fails (or
    rejects), only the refusal can be uttered. -/
theorem fail_closed_v2 (cfg : Cfg) (h : HistV2) (t : Turn) (hi : WF cfg .input) (ho : WF cfg .output) (hor : h.orip = false)
    (c : Nat × Text) (hc : c ∈ gate (n2 t.vout) cfg.outRails t.bot) (hf : t.vout c.1 c.2 = .fault) :
    ∀ x, Step.utter x ∈ (turnV2 cfg h t).1 → x = refusal := by
  have hb : gateStop (n2 t.vout) cfg.outRails t.bot ≠ none := by
    intro hg
    have := Pipeline.gate_all_continue (n2 t.vout) cfg.outRails t.bot hg c hc
    simp [n2, hf, norm2, Verdict.continues] at this
  intro x hx
  rw [turnV2_eq_spec cfg h t hi ho hor, turnSpecV2_trace] at hx
  rcases List.mem_append.mp hx with h1 | h1
  · rcases List.mem_append.mp h1 with h2 | h2
    · simp [railSteps] at h2
    · exact utter_mem_inStopV2 _ _ _ _ x h2
  · rcases utter_mem_restV2 cfg h t x h1 with h2 | ⟨_, _, hout, _⟩
    · exact h2
    · exact absurd hout hb

/-- … and a failing *input* rail ends the turn like a rejection: no dialog / generation step at all. -/
theorem fail_closed_input_v2 (cfg : Cfg) (h : HistV2) (t : Turn) (hi : WF cfg .input) (ho : WF cfg .output) (hor : h.orip = false)
    (c : Nat × Text) (hc : c ∈ gate (n2 t.vin) cfg.inRails t.user) (hf : t.vin c.1 c.2 = .fault) :
    ∀ s ∈ (turnV2 cfg h t).1, s.isGen = false := by
  have hstop : gateStop (n2 t.vin) cfg.inRails t.user ≠ none := by
    intro hg
    have := Pipeline.gate_all_continue (n2 t.vin) cfg.inRails t.user hg c hc
    simp [n2, hf, norm2, Verdict.continues] at this
  have hrest : restV2 cfg h t = [] := by
    unfold restV2
    cases hg : gateStop (n2 t.vin) cfg.inRails t.user with
    | none => exact absurd hg hstop
    | some v => rfl
  rw [turnV2_eq_spec cfg h t hi ho hor, turnSpecV2_trace, hrest]
  intro s hs
  simp only [List.append_nil] at hs
  rcases List.mem_append.mp hs with h1 | h1
  · exact isGen_railSteps _ _ s h1
  · exact isGen_inStopV2 _ _ _ _ s h1

/-- `no_poison` (2.x, repaired guardrails.co): whatever failed in a turn,
    `$output_rails_in_progress` is `False` afterwards, so the next turn runs all input rails and
    every LLM text it utters passed all output rails (`C02.output_all_rails_v2` applies to it). -/
theorem no_poison_v2 (cfg : Cfg) (h : HistV2) (t t' : Turn) (hfr : cfg.flagReset = true) (hi : WF cfg .input) (ho : WF cfg .output)
    (hor : h.orip = false) :
    (turnV2 cfg h t).2.2.orip = false
    ∧ railCalls .input (turnV2 cfg (turnV2 cfg h t).2.2 t').1 = gate (n2 t'.vin) cfg.inRails t'.user := by
  have h1 := turnV2_orip cfg h t hfr hor
  refine ⟨h1, ?_⟩
  rw [turnV2_eq_spec cfg _ t' hi ho h1, turnSpecV2_trace]
  simp [railCalls_input_inStopV2, railCalls_input_restV2]

/-! ### Colang 1.0: what a hidden turn leaves behind (`Models/PipelineCtx.lean`) -/

section TwoContexts
open NemoVerif.PipelineCtx

/-- `hidden_turn_leaves_nothing`: a failed action ends its turn with `hide_prev_turn`; the events of that turn stay
    in the event list and the actions' context (`compute_context(events)`) still sees their `ContextUpdate`s
    while the flows do not.  Whatever the event list `es` contains — any number of hidden turns, any values
    on either side — every following conversation (any texts, repeated ones included; any verdicts; any
    further faults) is processed exactly as from an empty history: the rails of either kind are shown
    the same texts, the same `UserMessage` text and the same script are produced. -/
theorem hidden_turn_leaves_nothing (inRails outRails : List Rail) (es : List Ev) (ts : List TurnE) :
    convE false inRails outRails es ts = convE false inRails outRails [] ts := by
  rw [convE_eq_spec, convE_eq_spec]

/-- … in particular after a turn whose output rail failed AFTER `$bot_message` was set (kernel-evaluated
    instance: the turn is hidden, the action side still holds "B"; the next turn is shown and utters "A"). -/
example :
    let faulty : TurnE := { user := "u", bot := "B", vin := fun _ _ => .accept, vout := fun _ _ => .fault, dialogFault := false }
    let next : TurnE := { user := "u", bot := "A", vin := fun _ _ => .accept, vout := fun _ _ => .accept, dialogFault := false }
    actCtx (turnE false [] [⟨0, false⟩] faulty []).2 .botMessage = some "B"
    ∧ flowCtx (turnE false [] [⟨0, false⟩] faulty []).2 .botMessage = none
    ∧ (convE false [] [⟨0, false⟩] [] [faulty, next]).map (fun o => (o.outCalls, o.uttered)) = [([(0, "B")], none), ([(0, "A")], some "A")] := by
  decide

end TwoContexts

section Calls
open NemoVerif.PipelineCall

/-! ### failures that leave `generate` by design (`LLMCallException`, cancellation): `Models/PipelineCall.lean` -/

/-- `propagated_failure_no_poison` (2.x): a call that ends by a propagated exception at any await point does not
    poison the conversation — the next call from the state the caller was given before runs ALL input rails
    on its user message (`gate`), exactly as if the failed call had never been made. -/
theorem propagated_failure_no_poison_v2 (cfg : Cfg) (slot : Slot) (given : HistV2) (t t' : Turn) (f f' : Fault)
    (hi : WF cfg .input) (ho : WF cfg .output) (hor : given.orip = false)
    (hr : (callV2 false cfg slot given t f).reply.raised = true)
    (hc : (callV2 false cfg slot given t' f').reply.raised = false) :
    let next := (convCallsV2 false cfg slot given [(t, f), (t', f')]).getLast?
    next = some (callV2 false cfg slot given t' f')
    ∧ railCalls .input (callV2 false cfg slot given t' f').steps = gate (n2 t'.vin) cfg.inRails t'.user := by
  have hs := (callV2_saved_none_iff false cfg slot given t f).mpr hr
  refine ⟨by simp [convCallsV2, hs, callV2_false_slot], ?_⟩
  rw [(callV2_false_completed cfg slot given t' f' hc).1, turnV2_eq_spec cfg _ t' hi ho hor, turnSpecV2_trace]
  simp [railCalls_input_inStopV2, railCalls_input_restV2]

/-- `propagated_failure_no_poison` (1.0): the history a call works on is a value (the event list of the state /
    of the cache entry is only extended after the turn completed), so a call that ends by a propagated exception
    hands nothing back and the conversation goes on as if it had never been made. -/
theorem propagated_failure_no_poison_v1 (cfg : Cfg) (h : HistV1) (o : PipelineCtx.CallOpts) (t : Turn) (f : Fault)
    (hr : (callV1 cfg h o t f).2.1.raised = true) (cs : List (PipelineCtx.CallOpts × Turn × Fault)) :
    (callV1 cfg h o t f).2.2 = none
    ∧ convCallsV1 cfg h ((o, t, f) :: cs) = callV1 cfg h o t f :: convCallsV1 cfg h cs := by
  have hs : (callV1 cfg h o t f).2.2 = none := by
    unfold callV1 at hr ⊢
    cases hcut : f.cut (turnV1 (PipelineCtx.callCfg cfg o) h t).1 with
    | some pre => simp [hcut]
    | none =>
      simp only [hcut] at hr ⊢
      by_cases h2 : (turnV1 (PipelineCtx.callCfg cfg o) h t).2.1.raised = true
      · simp [h2]
      · simp [h2] at hr
  exact ⟨hs, by simp [convCallsV1, hs]⟩

/-- non-vacuity (1.0): the generation LLM call of the second call fails; the third call is the conversation's
    second turn. -/
example :
    let cfg : Cfg := { inRails := [0], outRails := [0], dialog := false, exc := false, stops := fun _ _ => true, flagReset := true }
    let t : Turn := { user := "u", bot := "b", intent := .free, actFault := false, retrFault := false, vin := fun _ _ => .accept, vout := fun _ _ => .accept }
    (convCallsV1 cfg initV1 [({}, t, {}), ({}, t, { llm := some 0 }), ({}, t, {})]).map (fun r => (r.2.1.raised, r.2.1.texts))
      = [(false, ["b"]), (true, []), (false, ["b"])] := by decide

end Calls

end NemoVerif.C03
