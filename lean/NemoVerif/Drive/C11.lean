import NemoVerif.Drive.Common
import NemoVerif.Models.Serialize
import NemoVerif.Models.CleanUp
import NemoVerif.Models.SerializeRefs
import NemoVerif.Models.SerializeShared

/-
  Line protocol of C11 (Python twin: harness/impl/c11pv.py).
  PV:  null | true/false | {"i":n} | {"f":[m,e]} | {"s":str} | {"l":[..]} | {"t":[..]} | {"S":[..]} | {"q":[..]}
       | {"d":[[key,v]..]} | {"D":[cls,[[key,v]..]]} | {"R":[[key,v]..]} | {"st":v} | {"e":[cls,name]} | {"dt":iso}
       | {"a":[uid,name,flow_uid|null,status,ctx,args,scope]} | {"p":1} | {"r":[pattern,flags]} | {"c":[op,value]} | {"o":cls}
  key: null | true/false | {"i":n} | {"s":str} | {"T":[atom..]}   atom: null | true/false | {"i":n} | {"s":str}
-/
namespace NemoVerif.Drive.C11
open Lean NemoVerif NemoVerif.Drive NemoVerif.Serialize

def atomOfJson (j : Json) : Except String Atom :=
  match j with
  | .null => pure .none
  | .bool b => pure (.bool b)
  | _ =>
    if let .ok v := j.getObjVal? "i" then do let n ← v.getInt?; pure (.int n)
    else if let .ok v := j.getObjVal? "s" then do let s ← v.getStr?; pure (.str s)
    else throw "bad atom"

def atomToJson : Atom → Json
  | .none => .null
  | .bool b => .bool b
  | .int i => Json.mkObj [("i", Json.num (JsonNumber.fromInt i))]
  | .str s => Json.mkObj [("s", .str s)]

def keyOfJson (j : Json) : Except String Key :=
  match j with
  | .null => pure .none
  | .bool b => pure (.bool b)
  | _ =>
    if let .ok v := j.getObjVal? "i" then do let n ← v.getInt?; pure (.int n)
    else if let .ok v := j.getObjVal? "s" then do let s ← v.getStr?; pure (.str s)
    else if let .ok v := j.getObjVal? "T" then do
      let a ← v.getArr?; pure (.tuple (← a.toList.mapM atomOfJson))
    else throw "bad key"

def keyToJson : Key → Json
  | .none => .null
  | .bool b => .bool b
  | .int i => Json.mkObj [("i", Json.num (JsonNumber.fromInt i))]
  | .str s => Json.mkObj [("s", .str s)]
  | .tuple xs => Json.mkObj [("T", Json.arr (xs.map atomToJson).toArray)]

/-- floats on the wire: `[m, e]` for the finite dyadic `m / 2^e`, `"-0"`, `"nan"`, `"inf"`, `"-inf"` -/
def fltOfJson (v : Json) : Except String Flt :=
  match v with
  | .str "nan" => pure .nan
  | .str "inf" => pure (.inf false)
  | .str "-inf" => pure (.inf true)
  | .str "-0" => pure .negZero
  | _ => do
    let a ← v.getArr?
    if h : a.size = 2 then do let m ← a[0].getInt?; let e ← a[1].getNat?; pure (.fin m e) else throw "bad f"

def fltToJson : Flt → Json
  | .fin m e => Json.arr #[Json.num (JsonNumber.fromInt m), Json.num (JsonNumber.fromNat e)]
  | .negZero => .str "-0"
  | .nan => .str "nan"
  | .inf false => .str "inf"
  | .inf true => .str "-inf"

partial def pvOfJson (j : Json) : Except String PV :=
  let kvs (v : Json) : Except String (List (Key × PV)) := do
    let a ← v.getArr?
    a.toList.mapM fun e => do
      let p ← e.getArr?
      if h : p.size = 2 then do let k ← keyOfJson p[0]; let x ← pvOfJson p[1]; pure (k, x)
      else throw "bad kv"
  let lst (v : Json) : Except String (List PV) := do let a ← v.getArr?; a.toList.mapM pvOfJson
  match j with
  | .null => pure .none
  | .bool b => pure (.bool b)
  | .obj _ =>
    if let .ok v := j.getObjVal? "i" then do let n ← v.getInt?; pure (.int n)
    else if let .ok v := j.getObjVal? "f" then do pure (.flt (← fltOfJson v))
    else if let .ok v := j.getObjVal? "s" then do let s ← v.getStr?; pure (.str s)
    else if let .ok v := j.getObjVal? "l" then do pure (.list (← lst v))
    else if let .ok v := j.getObjVal? "t" then do pure (.tuple (← lst v))
    else if let .ok v := j.getObjVal? "S" then do pure (.set (← lst v))
    else if let .ok v := j.getObjVal? "q" then do pure (.deque (← lst v))
    else if let .ok v := j.getObjVal? "d" then do pure (.dict (← kvs v))
    else if let .ok v := j.getObjVal? "D" then do
      let a ← v.getArr?
      if h : a.size = 2 then do let c ← a[0].getStr?; pure (.data c (← kvs a[1])) else throw "bad D"
    else if let .ok v := j.getObjVal? "R" then do pure (.railsConfig (← kvs v))
    else if let .ok v := j.getObjVal? "st" then do pure (.specType (← v.getStr?))
    else if let .ok v := j.getObjVal? "e" then do
      let a ← v.getArr?
      if h : a.size = 2 then do pure (.enum (← a[0].getStr?) (← a[1].getStr?)) else throw "bad e"
    else if let .ok v := j.getObjVal? "dt" then do pure (.datetime (← v.getStr?))
    else if let .ok v := j.getObjVal? "a" then do
      let a ← v.getArr?
      if h : a.size = 7 then do
        let fu := match a[2] with | .str s => some s | _ => none
        pure (.action (← a[0].getStr?) (← a[1].getStr?) fu (← a[3].getStr?) (← pvOfJson a[4]) (← pvOfJson a[5]) (← a[6].getInt?))
      else throw "bad a"
    else if let .ok _ := j.getObjVal? "p" then pure .partialFn
    else if let .ok v := j.getObjVal? "r" then do
      let a ← v.getArr?
      if h : a.size = 2 then do pure (.regex (← a[0].getStr?) (← a[1].getInt?)) else throw "bad r"
    else if let .ok v := j.getObjVal? "c" then do
      let a ← v.getArr?
      if h : a.size = 2 then do pure (.cmp (← a[0].getStr?) (← pvOfJson a[1])) else throw "bad c"
    else if let .ok v := j.getObjVal? "o" then do pure (.other (← v.getStr?))
    else throw "bad pv object"
  | _ => throw "bad pv"

partial def pvToJson : PV → Json
  | .none => .null
  | .bool b => .bool b
  | .int i => Json.mkObj [("i", Json.num (JsonNumber.fromInt i))]
  | .flt f => Json.mkObj [("f", fltToJson f)]
  | .str s => Json.mkObj [("s", .str s)]
  | .list xs => Json.mkObj [("l", Json.arr (xs.map pvToJson).toArray)]
  | .tuple xs => Json.mkObj [("t", Json.arr (xs.map pvToJson).toArray)]
  | .set xs => Json.mkObj [("S", Json.arr (xs.map pvToJson).toArray)]
  | .deque xs => Json.mkObj [("q", Json.arr (xs.map pvToJson).toArray)]
  | .dict kvs => Json.mkObj [("d", Json.arr (kvs.map fun (k, v) => Json.arr #[keyToJson k, pvToJson v]).toArray)]
  | .data c kvs => Json.mkObj [("D", Json.arr #[.str c, Json.arr (kvs.map fun (k, v) => Json.arr #[keyToJson k, pvToJson v]).toArray])]
  | .railsConfig kvs => Json.mkObj [("R", Json.arr (kvs.map fun (k, v) => Json.arr #[keyToJson k, pvToJson v]).toArray)]
  | .specType v => Json.mkObj [("st", .str v)]
  | .enum c n => Json.mkObj [("e", Json.arr #[.str c, .str n])]
  | .datetime s => Json.mkObj [("dt", .str s)]
  | .action u n fu st c a sc => Json.mkObj [("a", Json.arr #[.str u, .str n, (match fu with | some s => .str s | none => .null), .str st, pvToJson c, pvToJson a, Json.num (JsonNumber.fromInt sc)])]
  | .partialFn => Json.mkObj [("p", Json.num 1)]
  | .regex p f => Json.mkObj [("r", Json.arr #[.str p, Json.num (JsonNumber.fromInt f)])]
  | .cmp op v => Json.mkObj [("c", Json.arr #[.str op, pvToJson v])]
  | .other c => Json.mkObj [("o", .str c)]

/-- the JSON text the model says `state_to_json` writes; floats travel as {"__f":[m,e]} so that
    nothing is rounded on the way to the harness (which maps them back before comparing). -/
partial def jToJson : J → Json
  | .null => .null
  | .bool b => .bool b
  | .int i => Json.num (JsonNumber.fromInt i)
  | .flt f => Json.mkObj [("__f", fltToJson f)]
  | .str s => .str s
  | .arr xs => Json.arr (xs.map jToJson).toArray
  | .obj kvs => Json.arr #[.str "__obj", Json.arr (kvs.map fun (k, v) => Json.arr #[.str k, jToJson v]).toArray]

def errToJson : Err → Json
  | .unhandledType c => Json.mkObj [("err", "unhandled"), ("cls", .str c)]
  | .typeError => Json.mkObj [("err", "typeError")]
  | .keyError => Json.mkObj [("err", "keyError")]
  | .unknownType t => Json.mkObj [("err", "unknownType"), ("t", .str t)]
  | .missingRef i => Json.mkObj [("err", "missingRef"), ("id", Json.num (JsonNumber.fromNat i))]
  | .cyclic => Json.mkObj [("err", "cyclic")]
  | .valueError => Json.mkObj [("err", "valueError")]

open NemoVerif.CleanUp in
def statusOfString : String → Except String FlowStatus
  | "WAITING" => pure .waiting | "STARTING" => pure .starting | "STARTED" => pure .started
  | "STOPPING" => pure .stopping | "STOPPED" => pure .stopped | "FINISHED" => pure .finished
  | s => throw s!"bad status {s}"

def strList (j : Json) : Except String (List String) := do
  let a ← j.getArr?; a.toList.mapM (·.getStr?)

open NemoVerif.CleanUp in
def flowOfJson (j : Json) : Except String Flow := do
  let heads ← (← (← j.getObjVal? "heads").getArr?).toList.mapM fun h => do
    let sc ← (← (← h.getObjVal? "scores").getArr?).toList.mapM (·.getInt?)
    pure ({ uid := ← (← h.getObjVal? "uid").getStr?, pos := ← (← h.getObjVal? "pos").getNat?, scores := sc } : Head)
  pure {
    uid := ← (← j.getObjVal? "uid").getStr?
    flowId := ← (← j.getObjVal? "flow_id").getStr?
    parent := optStr j "parent"
    children := ← strList (← j.getObjVal? "children")
    status := ← statusOfString (← (← j.getObjVal? "status").getStr?)
    updated := ← (← j.getObjVal? "updated").getInt?
    activated := ← (← j.getObjVal? "activated").getInt?
    actionUids := ← strList (← j.getObjVal? "action_uids")
    heads := heads
    scopeFlows := ← match j.getObjVal? "scope_flows" with
      | .ok v => do (← v.getArr?).toList.mapM strList
      | .error _ => pure [] }

open NemoVerif.CleanUp in
def flowToJson (f : Flow) : Json :=
  Json.mkObj [("uid", .str f.uid), ("children", Json.arr (f.children.map Json.str).toArray),
    ("scope_flows", Json.arr (f.scopeFlows.map fun l => Json.arr (l.map Json.str).toArray).toArray),
    ("heads", Json.arr (f.heads.map fun h => Json.mkObj [("uid", .str h.uid), ("n_scores", Json.num (JsonNumber.fromNat h.scores.length))]).toArray)]

partial def labOfJson (j : Json) : Except String (Refs.Lab Nat Nat) :=
  match j with
  | .num _ => pure (.leaf 0)
  | _ =>
    if let .ok v := j.getObjVal? "q" then do
      let a ← v.getArr?; pure (.seq (← a.toList.mapM labOfJson))
    else if let .ok v := j.getObjVal? "n" then do
      let a ← v.getArr?
      if h : a.size = 3 then do
        let kids ← (← a[2].getArr?).toList.mapM labOfJson
        pure (.node (← a[0].getNat?) (← a[1].getNat?) kids)
      else throw "bad n"
    else throw "bad lab"

partial def encToJson : Refs.Enc Nat Nat → Json
  | .leaf _ => Json.num 0
  | .seq ys => Json.mkObj [("q", Json.arr (ys.map encToJson).toArray)]
  | .defn i _ ys => Json.mkObj [("def", Json.arr #[Json.num (JsonNumber.fromNat i), Json.arr (ys.map encToJson).toArray])]
  | .ref i => Json.mkObj [("ref", Json.num (JsonNumber.fromNat i))]

open NemoVerif.Shared in
def scalarOfJson (j : Json) : Except String Scalar :=
  match j with
  | .null => pure .none
  | .bool b => pure (.bool b)
  | _ =>
    if let .ok v := j.getObjVal? "i" then do pure (.int (← v.getInt?))
    else if let .ok v := j.getObjVal? "s" then do pure (.str (← v.getStr?))
    else if let .ok v := j.getObjVal? "f" then do pure (.flt (← fltOfJson v))
    else throw "bad scalar"

open NemoVerif.Shared in
def tagOfJson (j : Json) : Except String Tag := do
  let a ← j.getArr?
  let s (i : Nat) : Except String String := match a[i]? with | some x => x.getStr? | none => throw "tag arity"
  let keys (i : Nat) : Except String (List String) := match a[i]? with | some x => strList x | none => throw "tag arity"
  match ← s 0 with
  | "list" => pure .list | "tuple" => pure .tuple | "set" => pure .set | "deque" => pure .deque
  | "dictStr" => pure (.dictStr (← keys 1))
  | "dictItems" => pure .dictItems
  | "data" => pure (.data (← s 1) (← keys 2))
  | "enum" => pure (.enum (← s 1) (← s 2))
  | "datetime" => pure (.datetime (← s 1))
  | "specType" => pure (.specType (← s 1))
  | "regex" => match a[2]? with | some f => pure (.regex (← s 1) (← f.getInt?)) | none => throw "tag arity"
  | "cmp" => match a[2]? with | some v => pure (.cmp (← s 1) (← scalarOfJson v)) | none => throw "tag arity"
  | t => throw s!"bad tag {t}"

open NemoVerif.Shared in
partial def cvOfJson (j : Json) : Except String CV :=
  if let .ok v := j.getObjVal? "n" then do
    let a ← v.getArr?
    if h : a.size = 3 then do
      let kids ← (← a[2].getArr?).toList.mapM cvOfJson
      pure (.node (← a[0].getNat?) (← tagOfJson a[1]) kids)
    else throw "bad n"
  else do pure (.leaf (← scalarOfJson j))

def handle (op : String) (j : Json) : Except String Json := do
  match op with
  | "shared" =>
    -- concrete encoder with refs on an identity-labelled value; the decoder must give the value back
    let t ← cvOfJson (← j.getObjVal? "t")
    let r := Shared.encodeC [] t
    let back := match Shared.decodeC [] r.1 with
      | some _ => true
      | none => false
    pure (Json.mkObj [("enc", jToJson r.1), ("decodes", .bool back), ("wf", .bool (Shared.WfCV t))])
  | "refs" =>
    let t ← labOfJson (← j.getObjVal? "t")
    let r := Refs.encodeS [] t
    let back := match Refs.decodeS [] r.1 with
      | some _ => true
      | none => false
    pure (Json.mkObj [("enc", encToJson r.1), ("decodes", .bool back)])
  | "ser" =>
    let v ← pvOfJson (← j.getObjVal? "v")
    let enc := match encode v with
      | .ok e => Json.mkObj [("ok", jToJson e)]
      | .error e => errToJson e
    let dec := match encode v >>= decode with
      | .ok d => Json.mkObj [("ok", pvToJson d)]
      | .error e => errToJson e
    pure (Json.mkObj [("enc", enc), ("dec", dec), ("encodable", .bool (Encodable v)), ("shape", .bool (EncShape v)),
      ("decodable", .bool (Decodable v)), ("norm", pvToJson (norm v))])
  | "tokens" =>
    -- the text-layer table for the non-finite floats: what the model says `json.dumps` writes / `json.loads` reads
    let row (f : Flt) : Json := Json.mkObj [("f", fltToJson f),
      ("token", match nonFiniteToken f with | some t => .str t | none => .null),
      ("back", match (nonFiniteToken f).bind parseConstant with | some g => fltToJson g | none => .null),
      ("dumps", match dumpFlt f with | .ok _ => .str "ok" | .error e => errToJson e)]
    pure (Json.mkObj [("rows", Json.arr #[row .nan, row (.inf false), row (.inf true), row .negZero, row (.fin 1 1)]),
      ("allow_nan", .bool NemoVerif.Generated.C11.dumpsAllowNan)])
  | "cleanup" =>
    let flows ← (← (← j.getObjVal? "flows").getArr?).toList.mapM flowOfJson
    let idx ← (← (← j.getObjVal? "idx").getArr?).toList.mapM fun e => do
      let p ← e.getArr?
      if h : p.size = 2 then do pure ((← p[0].getStr?), (← strList p[1])) else throw "bad idx"
    let acts ← strList (← j.getObjVal? "actions")
    let now ← (← j.getObjVal? "now").getInt?
    let s : CleanUp.St Unit := { flows := flows, idx := idx, actions := acts.map fun a => (a, ()) }
    match CleanUp.cleanUp now CleanUp.ageMicros s with
    | .ok s' => pure (Json.mkObj [("flows", Json.arr (s'.flows.map flowToJson).toArray),
        ("idx", Json.arr (s'.idx.map fun e => Json.arr #[.str e.1, Json.arr (e.2.map Json.str).toArray]).toArray),
        ("actions", Json.arr (s'.actions.map fun a => Json.str a.1).toArray)])
    | .error u => pure (Json.mkObj [("err", "keyError"), ("uid", .str u)])
  | _ => throw s!"unknown op C11.{op}"

end NemoVerif.Drive.C11
