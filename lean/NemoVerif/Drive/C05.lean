import NemoVerif.Drive.Common
import NemoVerif.Models.Conflict
import NemoVerif.Generated.C04

namespace NemoVerif.Drive.C05
open Lean NemoVerif NemoVerif.Drive NemoVerif.Conflict

def natArr (j : Json) : Except String (List Nat) := do
  let a ← j.getArr?
  a.toList.mapM (·.getNat?)

def intArr (j : Json) : Except String (List Int) := do
  let a ← j.getArr?
  a.toList.mapM (·.getInt?)

def headOfJson (j : Json) : Except String HeadInfo := do
  let uid ← (← j.getObjVal? "uid").getNat?
  let flow ← (← j.getObjVal? "flow").getNat?
  let loop ← (← j.getObjVal? "loop").getNat?
  let scores ← intArr (← j.getObjVal? "scores")
  let ev ← (← j.getObjVal? "ev").getNat?
  let act ← match j.getObjVal? "act" with
    | .ok .null => pure none
    | .ok v => do let n ← v.getNat?; pure (some n)
    | .error _ => pure none
  let nrefs ← (← j.getObjVal? "nrefs").getNat?
  let catchLbl ← (← j.getObjVal? "catch").getBool?
  let isStart ← (← j.getObjVal? "start").getBool?
  let owns := match j.getObjVal? "owns" with
    | .ok (.bool b) => b
    | _ => true
  pure { uid, flow, loop, scores, ev, act, nrefs, isStart, catchLbl, owns }

def mscoreOfJson (j : Json) : Except String MScore := do
  let k ← (← j.getObjVal? "k").getNat?
  let prio ← match j.getObjVal? "prio" with
    | .ok (.arr a) =>
      if h : a.size = 2 then do
        let m ← a[0].getInt?; let e ← a[1].getNat?; pure (some (m, e))
      else throw "bad prio"
    | _ => pure none
  pure { k, prio }

def fateStr : Fate → String
  | .picked => "picked" | .cowin => "cowin" | .caught => "caught" | .aborted => "aborted"

def natsJson (l : List Nat) : Json := Json.arr (l.map (fun n => Json.num (JsonNumber.fromNat n))).toArray

def handle (op : String) (j : Json) : Except String Json := do
  match op with
  | "resolve" =>
    let one ← (← j.getObjVal? "one").getInt?
    let hs ← (← (← j.getObjVal? "heads").getArr?).toList.mapM headOfJson
    let cs ← natArr (← j.getObjVal? "choices")
    let tbl : ActTbl ← (← (← j.getObjVal? "tbl").getArr?).toList.mapM fun e => do
      let p ← natArr e
      match p with
      | [u, n] => pure (u, n)
      | _ => throw "bad tbl entry"
    let fs := resolveFates one hs cs
    let tbl' := applyFates none fs tbl
    pure (Json.mkObj [
      ("fates", Json.arr (fs.map (fun p => Json.arr #[Json.num (JsonNumber.fromNat p.1.uid), .str (fateStr p.2)])).toArray),
      ("advancing", natsJson (advancing fs)),
      ("generated", Json.arr ((generated fs).map (fun p => natsJson [p.1, p.2])).toArray),
      ("aborted", natsJson (abortedFlows fs)),
      ("caught", natsJson (caughtHeads fs)),
      ("tie_sizes", natsJson (tieSizes one hs)),
      ("tbl", Json.arr (tbl'.map (fun p => natsJson [p.1, p.2])).toArray),
      ("repoints", Json.arr ((repoints none fs).map (fun p => natsJson [p.1, p.2.1, p.2.2])).toArray)])
  | "mcmp" =>
    let a ← mscoreOfJson (← j.getObjVal? "a")
    let b ← mscoreOfJson (← j.getObjVal? "b")
    pure (Json.mkObj [("cmp", Json.num (JsonNumber.fromInt
      (mcmp NemoVerif.Generated.C04.scoreBaseNum NemoVerif.Generated.C04.scoreBaseDen a b)))])
  | _ => throw s!"unknown op C05.{op}"

end NemoVerif.Drive.C05
