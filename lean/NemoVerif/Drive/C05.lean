import NemoVerif.Drive.Common
import NemoVerif.Models.Conflict
import NemoVerif.Models.ConflictRound
import NemoVerif.Generated.C04
import NemoVerif.Models.MatchBranch
import NemoVerif.Drive.C04

namespace NemoVerif.Drive.C05
open Lean NemoVerif NemoVerif.Drive NemoVerif.Conflict

def natArr (j : Json) : Except String (List Nat) := do
  let a ← j.getArr?
  a.toList.mapM (·.getNat?)

def intArr (j : Json) : Except String (List Int) := do
  let a ← j.getArr?
  a.toList.mapM (·.getInt?)

def headOfJson (j : Json) : Except String HeadInfo := do
  let uid ← (← j.getObjVal? "uid").getNat?
  let flow ← (← j.getObjVal? "flow").getNat?
  let loop ← (← j.getObjVal? "loop").getNat?
  let scores ← intArr (← j.getObjVal? "scores")
  let ev ← (← j.getObjVal? "ev").getNat?
  let act ← match j.getObjVal? "act" with
    | .ok .null => pure none
    | .ok v => do let n ← v.getNat?; pure (some n)
    | .error _ => pure none
  let nrefs ← (← j.getObjVal? "nrefs").getNat?
  let catchLbl ← (← j.getObjVal? "catch").getBool?
  let isStart ← (← j.getObjVal? "start").getBool?
  let owns := match j.getObjVal? "owns" with
    | .ok (.bool b) => b
    | _ => true
  pure { uid, flow, loop, scores, ev, act, nrefs, isStart, catchLbl, owns }

def mscoreOfJson (j : Json) : Except String MScore := do
  let k ← (← j.getObjVal? "k").getNat?
  let prio ← match j.getObjVal? "prio" with
    | .ok (.arr a) =>
      if h : a.size = 2 then do
        let m ← a[0].getInt?; let e ← a[1].getNat?; pure (some (m, e))
      else throw "bad prio"
    | _ => pure none
  pure { k, prio }

def fateStr : Fate → String
  | .picked => "picked" | .cowin => "cowin" | .caught => "caught" | .aborted => "aborted"

def natsJson (l : List Nat) : Json := Json.arr (l.map (fun n => Json.num (JsonNumber.fromNat n))).toArray

def entryOfJson (j : Json) : Except String ConflictRound.Entry := do
  let a ← j.getArr?
  let tag ← (a[0]?.getD Json.null).getStr?
  match tag, a.toList.drop 1 with
  | "ev", [n, hs] => pure (.ev (← n.getNat?) (← natArr hs))
  | "merge", [m, n, hs] => pure (.merge (← natArr m) (← n.getNat?) (← natArr hs))
  | "res", [al, n, adv] => pure (.res (← natArr al) (← n.getNat?) (← natArr adv))
  | "adv", [n, hs] => pure (.adv (← n.getNat?) (← natArr hs))
  | _, _ => throw "bad script entry"

def handle (op : String) (j : Json) : Except String Json := do
  match op with
  | "round" =>
    -- the main loop of run_to_completion (ConflictRound.run) on the recorded outputs of the real functions
    let script ← (← (← j.getObjVal? "script").getArr?).toList.mapM entryOfJson
    let fuel ← (← j.getObjVal? "fuel").getNat?
    let r := ConflictRound.run ConflictRound.scriptWorld fuel { rest := script }
    pure (Json.mkObj [
      ("calls", Json.arr (r.1.map (fun c => Json.arr #[Json.num (JsonNumber.fromNat c.queue), natsJson c.input, natsJson c.advancing])).toArray),
      ("ok", Json.bool r.2.2), ("bad", Json.bool r.2.1.bad), ("rest", Json.num (JsonNumber.fromNat r.2.1.rest.length))])
  | "resolve" =>
    let one ← (← j.getObjVal? "one").getInt?
    let hs ← (← (← j.getObjVal? "heads").getArr?).toList.mapM headOfJson
    let cs ← natArr (← j.getObjVal? "choices")
    let tbl : ActTbl ← (← (← j.getObjVal? "tbl").getArr?).toList.mapM fun e => do
      let p ← natArr e
      match p with
      | [u, n] => pure (u, n)
      | _ => throw "bad tbl entry"
    let fs := resolveFates one hs cs
    let tbl' := applyFates none fs tbl
    pure (Json.mkObj [
      ("fates", Json.arr (fs.map (fun p => Json.arr #[Json.num (JsonNumber.fromNat p.1.uid), .str (fateStr p.2)])).toArray),
      ("advancing", natsJson (advancing fs)),
      ("generated", Json.arr ((generated fs).map (fun p => natsJson [p.1, p.2])).toArray),
      ("aborted", natsJson (abortedFlows fs)),
      ("caught", natsJson (caughtHeads fs)),
      ("tie_sizes", natsJson (tieSizes one hs)),
      ("tbl", Json.arr (tbl'.map (fun p => natsJson [p.1, p.2])).toArray),
      ("repoints", Json.arr ((repoints none fs).map (fun p => natsJson [p.1, p.2.1, p.2.2])).toArray)])
  | "bscore" =>
    -- one (event, reference event) pair: the branch of the score computation it falls into, the unscaled specificity and
    -- the score under the declared priority (C04's `eventScore`), and the scaling law between the two
    let ev ← NemoVerif.Drive.C04.evOfJson (← j.getObjVal? "ev")
    let ref ← NemoVerif.Drive.C04.evOfJson (← j.getObjVal? "ref")
    let rx ← NemoVerif.Drive.C04.rxOfJson (← j.getObjVal? "rx")
    let prio ← NemoVerif.Drive.C04.dyOfJson ((j.getObjVal? "prio").toOption.getD .null)
    let sa : List (String × List (String × Val)) ← match j.getObjVal? "start_args" with
      | .ok (.arr a) => a.toList.mapM fun e => do
          let p ← e.getArr?
          if h : p.size = 2 then do
            let u ← p[0].getStr?; let kvs ← kvsOfJson p[1]; pure (u, kvs)
          else throw "bad start_args"
      | _ => pure []
    let startArgs := fun u => (sa.find? (·.1 == u)).map (·.2)
    let scaled := NemoVerif.Match.eventScore rx startArgs ev ref prio
    let unscaled := NemoVerif.Match.eventScore rx startArgs ev ref none
    pure (Json.mkObj [
      ("branch", .str (NemoVerif.MatchBranch.scoreBranch ev ref).name),
      ("scaled", NemoVerif.Drive.C04.evResToJson scaled),
      ("unscaled", NemoVerif.Drive.C04.evResToJson unscaled),
      ("law", Json.bool (scaled == NemoVerif.MatchBranch.scaleBy prio unscaled))])
  | "mcmp" =>
    let a ← mscoreOfJson (← j.getObjVal? "a")
    let b ← mscoreOfJson (← j.getObjVal? "b")
    pure (Json.mkObj [("cmp", Json.num (JsonNumber.fromInt
      (mcmp NemoVerif.Generated.C04.scoreBaseNum NemoVerif.Generated.C04.scoreBaseDen a b)))])
  | _ => throw s!"unknown op C05.{op}"

end NemoVerif.Drive.C05
