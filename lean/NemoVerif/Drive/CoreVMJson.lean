/-
  JSON codecs for CoreVM programs / events / digests (shared by Drive/C09.lean and later CoreVM users).
-/
import NemoVerif.Drive.Common
import NemoVerif.Models.CoreVM

namespace NemoVerif.Drive.CoreVMJson
open Lean NemoVerif NemoVerif.Drive NemoVerif.CoreVM NemoVerif.CoreIndex

def optStr? (j : Json) (k : String) : Option String :=
  match j.getObjVal? k with
  | .ok (.str s) => some s
  | _ => none

def arrOf (j : Json) (k : String) : Except String (Array Json) := do (← j.getObjVal? k).getArr?

def pairOf (j : Json) : Except String (Json × Json) := do
  let a ← j.getArr?
  if h : a.size = 2 then pure (a[0], a[1]) else throw "bad pair"

partial def exprOfJson (j : Json) : Except String Expr := do
  if let .ok v := j.getObjVal? "lit" then return .lit (← valOfJson v)
  if let .ok v := j.getObjVal? "interp" then
    let parts ← (← v.getArr?).toList.mapM fun p => do
      if let .ok t := p.getObjVal? "t" then return Sum.inl (← t.getStr?)
      else if let .ok e := p.getObjVal? "e" then return Sum.inr (← exprOfJson e)
      else throw "bad interp part"
    return .interp parts
  if let .ok v := j.getObjVal? "var" then return .var (← v.getStr?)
  if let .ok v := j.getObjVal? "name" then return .name (← v.getStr?)
  if let .ok v := j.getObjVal? "attr" then
    let (e, a) ← pairOf v
    return .attr (← exprOfJson e) (← a.getStr?)
  if let .ok v := j.getObjVal? "index" then
    let (e, i) ← pairOf v
    return .index (← exprOfJson e) (← exprOfJson i)
  if let .ok v := j.getObjVal? "not" then return .not (← exprOfJson v)
  if let .ok v := j.getObjVal? "neg" then return .neg (← exprOfJson v)
  if let .ok v := j.getObjVal? "and" then return .and (← (← v.getArr?).toList.mapM exprOfJson)
  if let .ok v := j.getObjVal? "or" then return .or (← (← v.getArr?).toList.mapM exprOfJson)
  if let .ok v := j.getObjVal? "list" then return .list (← (← v.getArr?).toList.mapM exprOfJson)
  if let .ok v := j.getObjVal? "set" then return .set (← (← v.getArr?).toList.mapM exprOfJson)
  if let .ok v := j.getObjVal? "dict" then
    let kvs ← (← v.getArr?).toList.mapM fun p => do
      let (k, x) ← pairOf p
      return (← exprOfJson k, ← exprOfJson x)
    return .dict kvs
  if let .ok v := j.getObjVal? "cmp" then
    let (e, rest) ← pairOf v
    let rs ← (← rest.getArr?).toList.mapM fun p => do
      let (op, x) ← pairOf p
      return (← op.getStr?, ← exprOfJson x)
    return .cmp (← exprOfJson e) rs
  if let .ok v := j.getObjVal? "bin" then
    let a ← v.getArr?
    if h : a.size = 3 then return .bin (← a[0].getStr?) (← exprOfJson a[1]) (← exprOfJson a[2]) else throw "bad bin"
  if let .ok v := j.getObjVal? "call" then
    let (f, args) ← pairOf v
    return .call (← f.getStr?) (← (← args.getArr?).toList.mapM exprOfJson)
  if let .ok v := j.getObjVal? "unsupported" then return .unsupported (← v.getStr?)
  throw s!"bad expr {j.compress}"

def argExprs (j : Json) : Except String (List (String × Expr)) := do
  (← j.getArr?).toList.mapM fun p => do
    let (k, e) ← pairOf p
    return (← k.getStr?, ← exprOfJson e)

def specOfJson (j : Json) : Except String Spec := do
  let st := match optStr? j "type" with
    | some "event" => SpecType.event | some "action" => .action | some "flow" => .flow | some "reference" => .reference
    | _ => .other
  let members ← match j.getObjVal? "members" with
    | .ok (.arr ms) => do
      let l ← ms.toList.mapM fun m => do
        pure ({ name := (optStr? m "name").getD "", args := ← argExprs (← m.getObjVal? "args") } : Member)
      pure (some l)
    | _ => pure none
  return { name := optStr? j "name", specType := st, args := ← argExprs (← j.getObjVal? "args"), ref := optStr? j "ref",
           members := members, varName := optStr? j "var" }

def optExpr (j : Json) (k : String) : Except String (Option Expr) :=
  match j.getObjVal? k with
  | .ok .null => pure none
  | .ok e => do pure (some (← exprOfJson e))
  | .error _ => pure none

def primOfJson (j : Json) : Except String Prim := do
  match optStr? j "k" with
  | some "match" => return .matchOp (← specOfJson (← j.getObjVal? "spec")) ((j.getObjVal? "internal").toOption == some (.bool true))
  | some "send" => return .sendOp (← specOfJson (← j.getObjVal? "spec"))
  | some "newAction" => return .newAction (← specOfJson (← j.getObjVal? "spec"))
  | some "otherOp" => return .otherOp ((optStr? j "op").getD "")
  | some "label" => return .label ((optStr? j "name").getD "")
  | some "goto" => return .goto (← exprOfJson (← j.getObjVal? "e")) ((optStr? j "label").getD "")
  | some "fork" => return .fork ((optStr? j "uid").getD "") (← (← arrOf j "labels").toList.mapM (·.getStr?))
  | some "merge" => return .merge ((optStr? j "uid").getD "")
  | some "wait" => return .waitHeads (← (← j.getObjVal? "n").getNat?)
  | some "assign" => return .assign ((optStr? j "key").getD "") (← exprOfJson (← j.getObjVal? "e"))
  | some "return" => return .ret (← optExpr j "e")
  | some "abort" => return .abort
  | some "break" => return .brk (optStr? j "label")
  | some "continue" => return .cont (optStr? j "label")
  | some "global" => return .glob ((optStr? j "name").getD "")
  | some "catch" => return .catchFail (optStr? j "label")
  | some "beginScope" => return .beginScope ((optStr? j "name").getD "")
  | some "endScope" => return .endScope ((optStr? j "name").getD "")
  | some "priority" => return .priority (← exprOfJson (← j.getObjVal? "e"))
  | some "log" => return .log (← exprOfJson (← j.getObjVal? "e"))
  | some "print" => return .print (← exprOfJson (← j.getObjVal? "e"))
  | some "other" => return .other
  | k => throw s!"bad prim {k}"

def paramsOfJson (j : Json) : Except String (List Param) := do
  (← j.getArr?).toList.mapM fun p => do
    pure ({ name := (optStr? p "name").getD "", default := ← optExpr p "default" } : Param)

def flowOfJson (j : Json) : Except String FlowCfg := do
  let els ← (← arrOf j "elements").toList.mapM primOfJson
  let labels ← (← arrOf j "labels").toList.mapM fun p => do
    let (n, i) ← pairOf p
    return (← n.getStr?, ← i.getNat?)
  let prio ← match j.getObjVal? "loop_priority" with
    | .ok v => v.getInt?
    | .error _ => pure 0
  return { id := (optStr? j "id").getD "", elements := els.toArray, labels := labels,
           params := ← paramsOfJson (← j.getObjVal? "params"), returnMembers := ← paramsOfJson (← j.getObjVal? "returns"),
           loopId := optStr? j "loop_id", loopPriority := prio,
           metaTags := ← (← arrOf j "meta").toList.mapM fun p => do
             let (t, v) ← pairOf p
             let mv ← (if let .ok b := v.getObjVal? "b" then do pure (MetaVal.bool (← b.getBool?))
                       else if let .ok e := v.getObjVal? "e" then do pure (MetaVal.str (← exprOfJson e))
                       else pure MetaVal.other : Except String MetaVal)
             pure (← t.getStr?, mv) }

def progOfJson (j : Json) : Except String Prog := do
  return { flows := ← (← arrOf j "flows").toList.mapM flowOfJson }

def evOfJson (j : Json) : Except String Match.Ev := do
  let kind ← match optStr? j "kind" with
    | some "plain" => pure Match.EvKind.plain
    | some "internal" => pure .internal
    | some "action" => pure .action
    | _ => throw "bad event kind"
  return { kind := kind, name := (optStr? j "name").getD "", args := ← kvsOfJson (← j.getObjVal? "args"),
           actionUid := optStr? j "action_uid" }

/-! ### digest -/

def hstr : HeadStatus → String
  | .active => "active" | .inactive => "inactive" | .merging => "merging"

def fstr : FlowStatus → String
  | .waiting => "waiting" | .starting => "starting" | .started => "started"
  | .stopping => "stopping" | .stopped => "stopped" | .finished => "finished"

def astr : ActStatus → String
  | .initialized => "initialized" | .starting => "starting" | .started => "started"
  | .stopping => "stopping" | .finished => "finished"

def jnat (n : Nat) : Json := Json.num (JsonNumber.fromNat n)
def jint (n : Int) : Json := Json.num (JsonNumber.fromInt n)
def jopt : Option String → Json
  | some s => .str s
  | none => .null

def kvsToJson (kvs : List (String × Val)) : Json :=
  Json.arr (kvs.map fun (k, v) => Json.arr #[.str k, valToJson v]).toArray

def jostr : Option String → Json
  | some s => .str s
  | none => .null

/-- index operation as the recorder of harness/impl/corevm.py writes it -/
def opToJson : Op → Json
  | .addInst f h nm0 => Json.arr #[.str "addInst", .str f, .str h, jostr nm0]
  | .setPos f h p nm => Json.arr #[.str "setPos", .str f, .str h, jnat p, jostr nm]
  | .setStatus f h st nm => Json.arr #[.str "setStatus", .str f, .str h, .str (hstr st), jostr nm]
  | .fork f h nm0 p nm => Json.arr #[.str "fork", .str f, .str h, jostr nm0, jnat p, jostr nm]
  | .delHead f h => Json.arr #[.str "delHead", .str f, .str h]
  | .dropHeads f => Json.arr #[.str "dropHeads", .str f]
  | .rmHead f h => Json.arr #[.str "rmHead", .str f, .str h]
  | .clearHeads f => Json.arr #[.str "clearHeads", .str f]
  | .mainRestart f h nm0 => Json.arr #[.str "mainRestart", .str f, .str h, jostr nm0]
  | .setFlowStatus f st => Json.arr #[.str "setFlowStatus", .str f, .str (fstr st)]
  | .removeInst f => Json.arr #[.str "removeInst", .str f]

def digest (s : VM) : Json :=
  let ix := s.ixs.ix
  let r := s.r
  let ord := fun (f : FUid) => (ix.insts.findIdx? (·.uid = f)).getD 9999
  let insts := ix.insts.map fun i =>
    let x := (OMap.lookup i.uid r.fx).getD { flowId := "?", loopId := none, hierPos := "" }
    Json.arr #[.str i.uid, .str x.flowId, .str (fstr i.status), jint x.activated, jopt x.parentUid,
      Json.arr (i.heads.map fun h => Json.arr #[jnat h.pos, .str (hstr h.status)]).toArray,
      jopt x.loopId, Json.arr (x.childFlowUids.map Json.str).toArray, Json.arr (x.actionUids.map Json.str).toArray]
  let index := (entries ix).map fun e =>
    let pos := match (findInst ix e.2.1).bind (·.findHead e.2.2) with | some h => jnat h.pos | none => .null
    Json.arr #[.str e.1, jnat (ord e.2.1), pos]
  Json.mkObj [
    ("res", "ok"),
    ("out", Json.arr (r.outgoing.map fun e => Json.arr #[.str e.name, kvsToJson (sortBy (fun a b => a.1 < b.1) e.args), jopt e.actionUid]).toArray),
    ("insts", Json.arr insts.toArray),
    ("index", Json.arr index.toArray),
    ("actions", Json.arr (r.actions.map fun (u, a) => Json.arr #[.str u, .str a.name, .str (astr a.status), jint a.scopeCount]).toArray),
    ("queue", jnat r.queue.length),
    ("choices", Json.arr (r.choiceLog.map fun (n, c) => Json.arr #[jnat n, jnat c]).toArray),
    ("choices_left", jnat r.choices.length),
    ("guards_ok", .bool true),
    ("nops", jnat s.ixs.rlog.length),
    ("caught", Json.arr (r.caught.map Json.str).toArray),
    ("gctx", kvsToJson r.gctx)]

def errToJson : VMErr → Json
  | .outOfFuel => Json.mkObj [("res", "fuel")]
  | .unsupported why => Json.mkObj [("res", "unsupported"), ("why", .str why)]
  | .py cls msg => Json.mkObj [("res", "raise"), ("cls", .str cls), ("msg", .str msg)]
  | .guardFailed op => Json.mkObj [("res", "guard"), ("op", .str op)]

/-! ### uid correspondence
    The implementation's uids and the model's come from different counters. Both sides number uids by order of
    first appearance in the digests produced so far (`harness/impl/corevm.py::canon_uids` walks the same fields in
    the same order); an external event refers to the n-th uid as `@@n@@`, which the driver replaces by the model's
    n-th uid before the event is processed. -/

/-- all substrings of the form `u<digits>z`, left to right -/
def scanUids (s : String) : List String :=
  let cs := s.toList
  let rec go (fuel : Nat) (cs : List Char) (acc : List String) : List String :=
    match fuel, cs with
    | 0, _ => acc
    | _, [] => acc
    | fuel + 1, 'u' :: rest =>
      let ds := rest.takeWhile Char.isDigit
      let after := rest.dropWhile Char.isDigit
      match ds, after with
      | _ :: _, 'z' :: after' => go fuel after' (acc ++ [String.ofList ('u' :: ds ++ ['z'])])
      | _, _ => go fuel rest acc
    | fuel + 1, _ :: rest => go fuel rest acc
  go (cs.length + 1) cs []

partial def walkUids (j : Json) (acc : List String) : List String :=
  match j with
  | .str s => (scanUids s).foldl (fun a u => if a.contains u then a else a ++ [u]) acc
  | .arr a => a.foldl (fun acc x => walkUids x acc) acc
  | .obj o => o.foldl (fun acc k v => walkUids v (walkUids (.str k) acc)) acc
  | _ => acc

/-- replace every `@@n@@` by the n-th uid of the table -/
def substCanon (table : List String) (s : String) : String :=
  let parts := s.splitOn "@@"
  -- parts alternate: text, number, text, number, … when the string is well formed
  let rec go : List String → Bool → String
    | [], _ => ""
    | p :: rest, isNum =>
      if isNum then
        match p.toNat?, rest with
        | some n, _ :: _ => (table[n]?.getD ("@@" ++ p ++ "@@")) ++ go rest false
        | _, _ => "@@" ++ p ++ go rest true
      else p ++ go rest true
  go parts false

partial def substVal (table : List String) : Val → Val
  | .str s => .str (substCanon table s)
  | .list xs => .list (xs.map (substVal table))
  | .set xs => .set (xs.map (substVal table))
  | .dict kvs => .dict (kvs.map fun (k, v) => (k, substVal table v))
  | v => v

def substEv (table : List String) (e : Match.Ev) : Match.Ev :=
  { e with args := e.args.map (fun (k, v) => (k, substVal table v)), actionUid := e.actionUid.map (substCanon table) }

/-- `{"prog":…, "events":[{"ev":…, "choices":[…], "clock":n}, …], "fuel":n}` → one digest per event, stopping at the
    first event on which the model raises / runs out of fuel / cannot follow. -/
def runProgram (j : Json) : Except String Json := do
  let prog ← progOfJson (← j.getObjVal? "prog")
  let fuel := match j.getObjVal? "fuel" with | .ok v => (v.getNat?.toOption).getD 400 | _ => 400
  let evs ← arrOf j "events"
  -- run-time uids must not collide with the uids embedded in the program (fork uids, labels), which come from the
  -- implementation's counter at parse time
  let mut vm : VM := { r := { prog := prog, nextUid := 1000000 } }
  let mut outs : Array Json := #[]
  match initializeState vm with
  | .ok _ s => vm := s
  | .error e _ => return Json.arr #[errToJson e]
  let mut table : List String := []
  let mut seen : Nat := 0   -- the operations of `initialize_state` belong to the first event's segment, as in the recorder
  for e in evs do
    let ev := substEv table (← evOfJson (← e.getObjVal? "ev"))
    let choices ← match e.getObjVal? "choices" with
      | .ok (.arr a) => a.toList.mapM (·.getNat?)
      | _ => pure []
    let clock := match e.getObjVal? "clock" with | .ok v => (v.getNat?.toOption).getD 0 | _ => 0
    vm := { vm with r := { vm.r with choices := choices, choiceLog := [], clock := clock } }
    match runToCompletion fuel ev vm with
    | .ok _ s =>
      vm := s
      let opsNow := (vm.ixs.rlog.take (vm.ixs.rlog.length - seen)).reverse
      seen := vm.ixs.rlog.length
      let d := (digest vm).setObjVal! "ops" (Json.arr (opsNow.map opToJson).toArray)
      for k in ["out", "insts", "index", "actions", "gctx"] do
        table := walkUids ((d.getObjVal? k).toOption.getD .null) table
      outs := outs.push d
    | .error err s =>
      let d := errToJson err
      let opsNow := (s.ixs.rlog.take (s.ixs.rlog.length - seen)).reverse
      outs := outs.push (d.setObjVal! "partial" ((digest s).setObjVal! "ops" (Json.arr (opsNow.map opToJson).toArray)))
      return Json.arr outs
  return Json.arr outs

/-- also reachable directly as `{"m":"CoreVMJson.run", …}` (for the other CoreVM users) -/
def handle (op : String) (j : Json) : Except String Json :=
  match op with
  | "run" => runProgram j
  | _ => throw s!"unknown op CoreVMJson.{op}"

end NemoVerif.Drive.CoreVMJson
