import NemoVerif.Drive.Common
import NemoVerif.Models.Pipeline
import NemoVerif.Models.PipelineCtx

/-
  Driver for the `Pipeline` model (shared by C01 / C02 / C03).
  request  {"m": "C01.conv", "ver": "1.0"|"2.x",
            "cfg": {"in": [ids], "out": [ids], "dialog": b, "exc": b, "nostop_in": [ids], "nostop_out": [ids], "sc": b (shipped self-check rails appended as rail 100),
                    "flag_reset": b | null (null = what the translator found in guardrails.co)},
            "turns": [{"user": s, "bot": s, "intent": "flow"|"free"|"act", "vin": [[id, v]..], "vout": [[id, v]..], "act_fault": b,
                       "no_in": b, "no_out": b (1.0: the call's generation options switch the input / output rails off)}]}
           v = "a" | "r" | "f" | "e" | ["w", text]
  response {"turns": [{"steps": [...], "reply": {"texts": [...], "exc": null|"in"|"out", "raised": b}, "hist": {...}}]}
-/
namespace NemoVerif.Drive.C01
open Lean NemoVerif NemoVerif.Drive NemoVerif.Pipeline

def verdictOfJson (j : Json) : Except String Verdict :=
  match j with
  | .str "a" => pure .accept
  | .str "r" => pure .reject
  | .str "f" => pure .fault
  | .str "e" => pure .escape
  | .arr a =>
    if h : a.size = 2 then do
      let t ← a[1].getStr?
      pure (.rewrite t)
    else throw "bad verdict"
  | _ => throw "bad verdict"

def tableOfJson (j : Json) : Except String (Nat → Text → Verdict) := do
  let a ← j.getArr?
  let tbl ← a.toList.mapM fun e => do
    let p ← e.getArr?
    if h : p.size = 2 then do
      let id ← p[0].getNat?
      let v ← verdictOfJson p[1]
      pure (id, v)
    else throw "bad verdict entry"
  pure fun id _ => match tbl.find? (·.1 == id) with
    | some e => e.2
    | none => .accept

def natsOfJson (j : Json) : Except String (List Nat) := do
  let a ← j.getArr?
  a.toList.mapM (·.getNat?)

def optNats (j : Json) (k : String) : Except String (List Nat) :=
  match j.getObjVal? k with
  | .ok v => natsOfJson v
  | .error _ => pure []

def getBoolD (j : Json) (k : String) (d : Bool) : Bool :=
  match j.getObjVal? k with
  | .ok (.bool b) => b
  | _ => d

/-- rail id of the shipped `self check input` / `self check output` rails (configured last when `"sc": true`) -/
def scId : Nat := 100

def cfgOfJson (ver : String) (j : Json) : Except String Cfg := do
  let inRails ← natsOfJson (← j.getObjVal? "in")
  let outRails ← natsOfJson (← j.getObjVal? "out")
  let nsIn ← optNats j "nostop_in"
  let nsOut ← optNats j "nostop_out"
  let sc := getBoolD j "sc" false
  -- whether the shipped self-check flows stop after raising their exception is read off the parsed flows
  let scStops : Kind → Bool := fun k =>
    match k, ver == "1.0" with
    | .input, true => Generated.C01.selfCheckInputStopsV1
    | .output, true => Generated.C01.selfCheckOutputStopsV1
    | .input, false => Generated.C01.selfCheckInputStopsV2
    | .output, false => Generated.C01.selfCheckOutputStopsV2
  pure {
    inRails := if sc then inRails ++ [scId] else inRails,
    outRails := if sc then outRails ++ [scId] else outRails,
    dialog := getBoolD j "dialog" false,
    exc := getBoolD j "exc" false,
    stops := fun k id =>
      if sc && id == scId then scStops k
      else match k with
        | .input => !nsIn.contains id
        | .output => !nsOut.contains id,
    flagReset := getBoolD j "flag_reset" Generated.C01.v2FlagResetOnFailure,
    singleCall := getBoolD j "single_call" false }

def turnOfJson (j : Json) : Except String Turn := do
  let user ← (← j.getObjVal? "user").getStr?
  let bot ← (← j.getObjVal? "bot").getStr?
  let intent ← match optStr j "intent" with
    | some "flow" => pure Intent.flow
    | some "free" => pure Intent.free
    | some "act" => pure Intent.act
    | none => pure Intent.free
    | some s => throw s!"bad intent {s}"
  let vin ← tableOfJson ((j.getObjVal? "vin").toOption.getD (Json.arr #[]))
  let vout ← tableOfJson ((j.getObjVal? "vout").toOption.getD (Json.arr #[]))
  pure { user, bot, intent, vin, vout, actFault := getBoolD j "act_fault" false,
         retrFault := getBoolD j "retr_fault" false }

def kindStr : Kind → String
  | .input => "in"
  | .output => "out"

def taskStr : Task → String
  | .general => "general"
  | .userIntent => "generate_user_intent"
  | .nextSteps => "generate_next_steps"
  | .botMessage => "generate_bot_message"
  | .single => "generate_intent_steps_message"
  | .value => "generate_value_from_instruction"
  | .intentV2 => "generate_user_intent_from_user_action"
  | .continuation => "generate_flow_continuation"

def stepToJson : Step → Json
  | .rail k id t => Json.arr #["rail", kindStr k, Json.num (JsonNumber.fromNat id), .str t]
  | .llm task u => Json.arr #["llm", taskStr task, .str u]
  | .act .dialog => Json.arr #["act", "dialog_act"]
  | .act .retrieve => Json.arr #["act", "retrieve"]
  | .utter t => Json.arr #["utter", .str t]
  | .exc k => Json.arr #["exc", kindStr k]

def replyToJson (r : Reply) : Json :=
  Json.mkObj [("texts", Json.arr (r.texts.map Json.str).toArray),
    ("exc", match r.exc with | some k => .str (kindStr k) | none => .null),
    ("raised", .bool r.raised)]

def handle (op : String) (j : Json) : Except String Json := do
  match op with
  | "conv" =>
    let ver ← (← j.getObjVal? "ver").getStr?
    let cfg ← cfgOfJson ver (← j.getObjVal? "cfg")
    let turns ← (← (← j.getObjVal? "turns").getArr?).toList.mapM turnOfJson
    -- the rails enabled for each call (1.0 generation options of THAT call): "no_in" / "no_out" of the turn
    let opts := (← (← j.getObjVal? "turns").getArr?).toList.map fun tj =>
      ({ input := !getBoolD tj "no_in" false, output := !getBoolD tj "no_out" false } : PipelineCtx.CallOpts)
    if ver == "1.0" then
      let rs := PipelineCtx.convV1P cfg initV1 (opts.zip turns)
      pure (Json.mkObj [("turns", Json.arr (rs.map fun (tr, rep, h) =>
        Json.mkObj [("steps", Json.arr (tr.map stepToJson).toArray), ("reply", replyToJson rep),
          ("hist", Json.mkObj [("skip", .bool h.skip), ("texts", Json.arr (h.texts.map Json.str).toArray)])]).toArray)])
    else
      let rs := convV2 cfg initV2 turns
      pure (Json.mkObj [("turns", Json.arr (rs.map fun (tr, rep, h) =>
        Json.mkObj [("steps", Json.arr (tr.map stepToJson).toArray), ("reply", replyToJson rep),
          ("hist", Json.mkObj [("orip", .bool h.orip), ("talking", .bool h.talking)])]).toArray)])
  | "consts" =>
    pure (Json.mkObj [("refusal", .str refusal), ("internal_error", .str internalError),
      ("flag_reset", .bool Generated.C01.v2FlagResetOnFailure),
      ("sc_stops", Json.arr #[.bool Generated.C01.selfCheckInputStopsV1, .bool Generated.C01.selfCheckOutputStopsV1,
        .bool Generated.C01.selfCheckInputStopsV2, .bool Generated.C01.selfCheckOutputStopsV2])])
  | _ => throw s!"unknown op C01.{op}"

end NemoVerif.Drive.C01
