import NemoVerif.Drive.Common
import NemoVerif.Models.Dnf
import NemoVerif.Models.GroupExpand
import NemoVerif.Models.GroupVM
import NemoVerif.Models.GroupExpandAwait
import NemoVerif.Models.GroupExpandWhen
import NemoVerif.Models.GroupFlowVM

namespace NemoVerif.Drive.C07
open Lean NemoVerif NemoVerif.Drive NemoVerif.Dnf NemoVerif.GroupExpand

/-- group encoding: {"a": n} | {"and": [..]} | {"or": [..]} -/
partial def gOfJson (j : Json) : Except String G :=
  if let .ok v := j.getObjVal? "a" then do
    let n ← v.getNat?; pure (.atom n)
  else if let .ok v := j.getObjVal? "and" then do
    let a ← v.getArr?; let xs ← a.toList.mapM gOfJson; pure (.and xs)
  else if let .ok v := j.getObjVal? "or" then do
    let a ← v.getArr?; let xs ← a.toList.mapM gOfJson; pure (.or xs)
  else throw "bad group"

partial def gToJson : G → Json
  | .atom n => Json.mkObj [("a", Json.num (JsonNumber.fromNat n))]
  | .and gs => Json.mkObj [("and", Json.arr (gs.map gToJson).toArray)]
  | .or gs => Json.mkObj [("or", Json.arr (gs.map gToJson).toArray)]

def natsOfJson (j : Json) : Except String (List Nat) := do
  let a ← j.getArr?
  a.toList.mapM fun x => x.getNat?

def natsToJson (xs : List Nat) : Json := Json.arr (xs.map fun n => Json.num (JsonNumber.fromNat n)).toArray

def clausesToJson (d : Clauses) : Json := Json.arr (d.map natsToJson).toArray

def nat (n : Nat) : Json := Json.num (JsonNumber.fromNat n)

/-- primitive encoding: ["match", a] | ["label", l] | ["goto", l] | ["fork", u, [l..]] | ["merge", u]
    | ["wait", n] | ["catch", l | null] | ["abort"] | ["other", ..] -/
def primToJson : Prim → Json
  | .matchEv a => Json.arr #[.str "match", nat a]
  | .label l => Json.arr #[.str "label", nat l]
  | .goto l => Json.arr #[.str "goto", nat l]
  | .fork u ls => Json.arr #[.str "fork", nat u, natsToJson ls]
  | .merge u => Json.arr #[.str "merge", nat u]
  | .wait n => Json.arr #[.str "wait", nat n]
  | .catchPF none => Json.arr #[.str "catch", .null]
  | .catchPF (some l) => Json.arr #[.str "catch", nat l]
  | .abort => Json.arr #[.str "abort"]
  | .other => Json.arr #[.str "other"]
  | .assignUid v a => Json.arr #[.str "assignUid", nat v, nat a]
  | .sendStart a v => Json.arr #[.str "sendStart", nat a, nat v]
  | .matchStarted a v x => Json.arr #[.str "matchStarted", nat a, nat v, nat x]
  | .assignRef r x => Json.arr #[.str "assignRef", nat r, nat x]
  | .matchFin r => Json.arr #[.str "matchFin", nat r]
  | .beginScope sc => Json.arr #[.str "beginScope", nat sc]
  | .endScope sc => Json.arr #[.str "endScope", nat sc]
  | .send n => Json.arr #[.str "send", nat n]

def primOfJson (j : Json) : Except String Prim := do
  let a ← j.getArr?
  let tag ← (a.getD 0 .null).getStr?
  let arg := a.getD 1 .null
  match tag with
  | "match" => pure (.matchEv (← arg.getNat?))
  | "label" => pure (.label (← arg.getNat?))
  | "goto" => pure (.goto (← arg.getNat?))
  | "fork" => pure (.fork (← arg.getNat?) (← natsOfJson (a.getD 2 .null)))
  | "merge" => pure (.merge (← arg.getNat?))
  | "wait" => pure (.wait (← arg.getNat?))
  | "catch" => match arg with
    | .null => pure (.catchPF none)
    | _ => pure (.catchPF (some (← arg.getNat?)))
  | "abort" => pure .abort
  | "assignUid" => pure (.assignUid (← arg.getNat?) (← (a.getD 2 .null).getNat?))
  | "sendStart" => pure (.sendStart (← arg.getNat?) (← (a.getD 2 .null).getNat?))
  | "matchStarted" => pure (.matchStarted (← arg.getNat?) (← (a.getD 2 .null).getNat?) (← (a.getD 3 .null).getNat?))
  | "assignRef" => pure (.assignRef (← arg.getNat?) (← (a.getD 2 .null).getNat?))
  | "matchFin" => pure (.matchFin (← arg.getNat?))
  | "beginScope" => pure (.beginScope (← arg.getNat?))
  | "endScope" => pure (.endScope (← arg.getNat?))
  | "send" => pure (.send (← arg.getNat?))
  | _ => pure .other

def optClausesToJson : Option Clauses → Json
  | none => .null
  | some d => clausesToJson d

def handle (op : String) (j : Json) : Except String Json := do
  match op with
  | "normalize" =>
    let g ← gOfJson (← j.getObjVal? "g")
    let n := normalize g
    pure (Json.mkObj [("norm", gToJson n), ("dnf", clausesToJson (toDnf n))])
  | "markers" =>
    let g ← gOfJson (← j.getObjVal? "g")
    let seqs ← (← j.getObjVal? "seqs").getArr?
    let outs ← seqs.toList.mapM fun s => do
      let es ← natsOfJson s
      pure (Json.arr ((markers g es).map Json.bool).toArray)
    pure (Json.mkObj [("markers", Json.arr outs.toArray)])
  | "expand" =>
    -- model's element list for `match g`, and the real list (`prims`) read back by the checker
    let g ← gOfJson (← j.getObjVal? "g")
    let real ← (← (← j.getObjVal? "prims").getArr?).toList.mapM primOfJson
    let mine := expandMatch g
    pure (Json.mkObj [("prims", Json.arr (mine.map primToJson).toArray),
      ("dnf", clausesToJson (toDnf (normalize g))),
      ("readback", optClausesToJson (readBack real)),
      ("readback_model", optClausesToJson (readBack mine)),
      ("distinct", .bool (labelsDistinct real))])
  | "expandAwait" =>
    let g ← gOfJson (← j.getObjVal? "g")
    let real ← (← (← j.getObjVal? "prims").getArr?).toList.mapM primOfJson
    let mine := expandAwait g
    pure (Json.mkObj [("prims", Json.arr (mine.map primToJson).toArray),
      ("dnf", clausesToJson (toDnf (normalize g))),
      ("readback", optClausesToJson (readBackAwait real)),
      ("distinct", .bool (labelsDistinct real))])
  | "expandWhen" =>
    -- `when g_0 <body_0> or when g_1 <body_1> … [else <els>]`; `flows` = the atoms that are flows (the others are events)
    let cs ← (← (← j.getObjVal? "cases").getArr?).toList.mapM fun c => do
      let g ← gOfJson (← c.getObjVal? "g")
      let body ← (← (← c.getObjVal? "body").getArr?).toList.mapM primOfJson
      pure (g, body)
    let els ← match j.getObjVal? "else" with
      | .ok (.arr a) => do pure (some (← a.toList.mapM primOfJson))
      | _ => pure none
    let flows ← natsOfJson (← j.getObjVal? "flows")
    let real ← (← (← j.getObjVal? "prims").getArr?).toList.mapM primOfJson
    let mine := expandWhen (fun a => flows.contains a) cs els
    let rb := readBackWhen (cs.map (·.2)) els real
    pure (Json.mkObj [("prims", Json.arr (mine.map primToJson).toArray),
      ("dnf", Json.arr (cs.map fun c => clausesToJson (toDnf (normalize c.1))).toArray),
      ("readback", match rb with | none => .null | some ds => Json.arr (ds.map clausesToJson).toArray)])
  | "flow" =>
    -- `await g` / `when g` over flows with Finished / Failed events: per sequence, per event the output
    -- (0 quiet, 1 marker, 2 failure path) and the flows of the child instances still running.
    -- event encoding: n < 100 = the instances of flow n finish, n ≥ 100 = the instances of flow n-100 fail
    let g ← gOfJson (← j.getObjVal? "g")
    let d := toDnf (normalize g)
    let seqs ← (← j.getObjVal? "seqs").getArr?
    let rec go (st : GroupFlow.FSt) : List GroupFlow.FEv → List Json
      | [] => []
      | e :: es =>
        let r := GroupFlow.step st e
        Json.mkObj [("o", nat (match r.2 with | .quiet => 0 | .marker => 1 | .failed => 2)),
          ("ch", natsToJson (r.1.children.map (·.2)))] :: go r.1 es
    let outs ← seqs.toList.mapM fun s => do
      let es ← natsOfJson s
      let evs := es.map fun n => if n ≥ 100 then GroupFlow.FEv.fail (n - 100) else GroupFlow.FEv.fin n
      pure (Json.arr (go (GroupFlow.init d) evs).toArray)
    pure (Json.mkObj [("runs", Json.arr outs.toArray), ("init", natsToJson ((GroupFlow.init d).children.map (·.2)))])
  | "vm" =>
    -- head-level machine on the clauses of `normalize g`: per sequence (with its recorded tie-breaks) the marker flags
    -- and the heads (position, status) after every event
    let g ← gOfJson (← j.getObjVal? "g")
    let d := toDnf (normalize g)
    let seqs ← (← j.getObjVal? "seqs").getArr?
    let chs ← (← j.getObjVal? "choices").getArr?
    let outs ← (seqs.toList.zip chs.toList).mapM fun (s, c) => do
      let es ← natsOfJson s
      let ch ← natsOfJson c
      let tr := GroupVM.traceVM d (GroupVM.init d) es ch
      pure (Json.arr (tr.map fun (m, hs) => Json.mkObj [("m", Json.bool m),
        ("heads", Json.arr (hs.map fun (p, st) => Json.arr #[nat p, nat st]).toArray)]).toArray)
    pure (Json.mkObj [("runs", Json.arr outs.toArray), ("init", Json.arr ((GroupVM.renderHeads d (GroupVM.init d)).map fun (p, st) => Json.arr #[nat p, nat st]).toArray),
      ("nonempty", Json.bool (d.all fun c => !c.isEmpty))])
  | _ => throw s!"unknown op C07.{op}"

end NemoVerif.Drive.C07
