/-
  Driver for C19: runs `Embed.cachedCalls` and replays observed schedules in `Embed.step`.
  Texts, keys and vectors travel as strings; the key generator `g` and the embedding model `f` are
  tables computed by the harness from the real key generator / the stub model.
-/
import NemoVerif.Drive.Common
import NemoVerif.Models.Embed

namespace NemoVerif.Drive.C19
open Lean NemoVerif NemoVerif.Drive NemoVerif.Embed

def pairsOfJson (j : Json) : Except String (List (String × String)) := do
  let a ← j.getArr?
  a.toList.mapM fun e => do
    let p ← e.getArr?
    if h : p.size = 2 then do
      let k ← p[0].getStr?; let v ← p[1].getStr?; pure (k, v)
    else throw "bad pair"

def tableFn (tbl : List (String × String)) (pre : String) : String → String :=
  fun t => match tbl.find? (·.1 == t) with
    | some e => e.2
    | none => pre ++ t

def strsOfJson (j : Json) : Except String (List String) := do
  let a ← j.getArr?
  a.toList.mapM fun e => e.getStr?

def cfgOfJson (j : Json) : Except String CacheCfg := do
  let e ← (← j.getObjVal? "enabled").getBool?
  let p ← (← j.getObjVal? "persistent").getBool?
  pure { enabled := e, persistent := p }

def optToJson : Option String → Json
  | some s => .str s
  | none => .null

def storeToJson (s : Dict String String) : Json :=
  Json.arr (s.map fun (k, v) => Json.arr #[.str k, .str v]).toArray

def labelOfJson (j : Json) : Except String Label := do
  let a ← j.getArr?
  if h : a.size ≥ 2 then do
    let nm ← a[0].getStr?
    let n ← a[1].getNat?
    match nm with
    | "enter" => pure (.enter n)
    | "collect" => pure (.collect n)
    | "bstart" => pure (.bstart n)
    | "take" =>
      if h3 : a.size ≥ 3 then do
        let b ← a[2].getBool?; pure (.take n b)
      else throw "take needs timeout flag"
    | "finish" => pure (.finish n)
    | "dbegin" => pure (.dbegin n)
    | "dend" => pure (.dend n)
    | _ => throw s!"bad label {nm}"
  else throw "bad label"

def joinWith (sep : String) (xs : List String) : String := sep.intercalate xs

def rpcStr : RPc String → String
  | .ready => "r"
  | .waitSub => "s"
  | .waitFin ev id => s!"w{ev}.{id}"
  | .done _ => "d"
  | .spin => "X"
  | .crashed => "C"

def bpcStr : BPc String String → String
  | .created => "c"
  | .waiting fe => s!"w{fe}"
  | .running ev ids _ => "r" ++ (match ev with | some e => toString e | none => "-") ++ ":" ++ joinWith "." (ids.map toString)
  | .done => "d"
  | .crashed => "C"

def dpcStr : DPc String String → String
  | .ready => "r"
  | .running _ => "p"
  | .done _ => "d"

/-- canonical digest of the shared fields and all program counters (harness builds the same string
    from the real object after every atomic section) -/
def digest (s : State String String String) : String :=
  "q=" ++ joinWith "," (s.queue.map fun (k, _) => toString k) ++
  "|r=" ++ joinWith "," (s.results.map fun (k, _) => toString k) ++
  "|i=" ++ toString s.idx ++
  "|f=" ++ (match s.finEv with | some e => toString e | none => "-") ++
  "|F=" ++ (match s.fullEv with | some e => toString e ++ (if e ∈ s.fullSet then "+" else "") | none => "-") ++
  "|s=" ++ (if s.submitted then "1" else "0") ++
  "|p=" ++ joinWith "," (s.reqs.map fun r => rpcStr r.pc) ++
  "|b=" ++ joinWith "," (s.batches.map bpcStr) ++
  "|d=" ++ joinWith "," (s.directs.map fun d => dpcStr d.pc)

def replay (cfg : CacheCfg) (max : Nat) (g f : String → String) :
    State String String String → List Label → Nat → List String → (State String String String × Option Nat × List String)
  | s, [], _, acc => (s, none, acc.reverse)
  | s, l :: ls, k, acc =>
    match step cfg max g f s l with
    | some s' => replay cfg max g f s' ls (k + 1) (digest s' :: acc)
    | none => (s, some k, acc.reverse)

def indexOfJson (j : Json) : Except String (IndexCfg String String String) := do
  let cfg ← cfgOfJson (← j.getObjVal? "cfg")
  let loc ← (← j.getObjVal? "loc").getNat?
  let g := tableFn (← pairsOfJson (← j.getObjVal? "keys")) "?k:"
  let f := tableFn (← pairsOfJson (← j.getObjVal? "vecs")) "?v:"
  pure { cfg := cfg, g := g, f := f, loc := loc }

/-- `[ix, texts]` or `[ix, null]` (an operation that embeds nothing: index re-creation, `add_items` on a built index) -/
def mopOfJson (j : Json) : Except String (Nat × Option (List String)) := do
  let a ← j.getArr?
  if h : a.size = 2 then do
    let i ← a[0].getNat?
    match a[1] with
    | .null => pure (i, none)
    | t => pure (i, some (← strsOfJson t))
  else throw "bad op"

def runMulti (ixs : List (IndexCfg String String String)) :
    Stores String String → List (Nat × Option (List String)) → List Json → Stores String String × List Json
  | st, [], acc => (st, acc.reverse)
  | st, (_, none) :: rest, acc => runMulti ixs st rest (Json.null :: acc)
  | st, (i, some ts) :: rest, acc =>
    let r := multiCall ixs st i ts
    runMulti ixs r.1 rest (Json.arr (r.2.map optToJson).toArray :: acc)

def handleMulti (j : Json) : Except String Json := do
  let ixs ← (← (← j.getObjVal? "indexes").getArr?).toList.mapM indexOfJson
  let ops ← (← (← j.getObjVal? "ops").getArr?).toList.mapM mopOfJson
  let (st, res) := runMulti ixs [] ops []
  pure (Json.mkObj [("results", Json.arr res.toArray),
    ("stores", Json.arr (st.map fun (l, d) => Json.arr #[Json.num (JsonNumber.fromNat l), storeToJson d]).toArray)])

def mlabelOfJson (j : Json) : Except String (MLabel String) := do
  let a ← j.getArr?
  if h : a.size ≥ 2 then do
    let nm ← a[0].getStr?
    let n ← a[1].getNat?
    match nm with
    | "begin" =>
      if h3 : a.size ≥ 3 then do
        pure (.begin n (← strsOfJson a[2]))
      else throw "begin needs texts"
    | "finish" => pure (.finish n)
    | _ => throw s!"bad label {nm}"
  else throw "bad label"

def mreplay (ixs : List (IndexCfg String String String)) :
    MState String String String → List (MLabel String) → Nat → MState String String String × Option Nat
  | s, [], _ => (s, none)
  | s, l :: ls, k =>
    match mstep ixs s l with
    | some s' => mreplay ixs s' ls (k + 1)
    | none => (s, some k)

def handleMReplay (j : Json) : Except String Json := do
  let ixs ← (← (← j.getObjVal? "indexes").getArr?).toList.mapM indexOfJson
  let labels ← (← (← j.getObjVal? "labels").getArr?).toList.mapM mlabelOfJson
  let (s, failed) := mreplay ixs { stores := [], pending := [], returned := [] } labels 0
  pure (Json.mkObj [
    ("failed_at", match failed with | some k => Json.num (JsonNumber.fromNat k) | none => .null),
    ("returned", Json.arr (s.returned.reverse.map fun (i, _, res) =>
      Json.arr #[Json.num (JsonNumber.fromNat i), Json.arr (res.map optToJson).toArray]).toArray),
    ("stores", Json.arr (s.stores.map fun (l, d) => Json.arr #[Json.num (JsonNumber.fromNat l), storeToJson d]).toArray)])

def handle (op : String) (j : Json) : Except String Json := do
  if op == "multi" then return (← handleMulti j)
  if op == "mreplay" then return (← handleMReplay j)
  let cfg ← cfgOfJson (← j.getObjVal? "cfg")
  let g := tableFn (← pairsOfJson (← j.getObjVal? "keys")) "?k:"
  let f := tableFn (← pairsOfJson (← j.getObjVal? "vecs")) "?v:"
  let store ← pairsOfJson (← j.getObjVal? "store")
  match op with
  | "cached" =>
    let calls ← (← (← j.getObjVal? "calls").getArr?).toList.mapM strsOfJson
    let r := cachedCalls cfg g f store calls
    pure (Json.mkObj [("store", storeToJson r.1),
      ("results", Json.arr (r.2.map fun res => Json.arr (res.map optToJson).toArray).toArray)])
  | "replay" =>
    let max ← (← j.getObjVal? "max").getNat?
    let reqs ← strsOfJson (← j.getObjVal? "reqs")
    let directs ← (← (← j.getObjVal? "directs").getArr?).toList.mapM strsOfJson
    let trace ← (← (← j.getObjVal? "trace").getArr?).toList.mapM labelOfJson
    let s0 : State String String String := init reqs directs store
    let (s, failed, digs) := replay cfg max g f s0 trace 0 []
    pure (Json.mkObj [
      ("failed_at", match failed with | some k => Json.num (JsonNumber.fromNat k) | none => .null),
      ("digests", Json.arr (digs.map Json.str).toArray),
      ("results", Json.arr (s.reqs.map fun r => match r.pc with
        | .done v => Json.mkObj [("done", optToJson v)]
        | pc => Json.str (rpcStr pc)).toArray),
      ("directs", Json.arr (s.directs.map fun d => match d.pc with
        | .done res => Json.arr (res.map optToJson).toArray
        | pc => Json.str (dpcStr pc)).toArray),
      ("store", storeToJson s.store)])
  | _ => throw s!"unknown op C19.{op}"

end NemoVerif.Drive.C19
