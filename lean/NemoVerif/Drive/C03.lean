import NemoVerif.Drive.C01

/- C03 shares the `Pipeline` driver of C01 (requests `C03.conv` are the same as `C01.conv`). -/
namespace NemoVerif.Drive.C03
open Lean

def handle (op : String) (j : Json) : Except String Json := NemoVerif.Drive.C01.handle op j

end NemoVerif.Drive.C03
