import NemoVerif.Drive.Common
import NemoVerif.Models.Match
import NemoVerif.Models.MatchHist

namespace NemoVerif.Drive.C04
open Lean NemoVerif NemoVerif.Drive NemoVerif.Match

/-- regex oracle table: list of [regex id, value key, bool] -/
def rxOfJson (j : Json) : Except String Rx := do
  let a ← j.getArr?
  let tbl ← a.toList.mapM fun e => do
    let p ← e.getArr?
    if h : p.size = 3 then do
      let id ← p[0].getNat?; let k ← p[1].getStr?; let b ← p[2].getBool?; pure (id, k, b)
    else throw "bad rx entry"
  pure fun id v => match tbl.find? (fun e => e.1 == id && e.2.1 == v.key) with
    | some e => e.2.2
    | none => false

def resToJson : Res → Json
  | .err => Json.mkObj [("res", "err")]
  | .no => Json.mkObj [("res", "no")]
  | .ok k => Json.mkObj [("res", "ok"), ("k", Json.num (JsonNumber.fromInt k))]

def evOfJson (j : Json) : Except String Ev := do
  let kind ← match optStr j "kind" with
    | some "plain" => pure EvKind.plain
    | some "internal" => pure EvKind.internal
    | some "action" => pure EvKind.action
    | _ => throw "bad kind"
  let name ← (← j.getObjVal? "name").getStr?
  let args ← kvsOfJson (← j.getObjVal? "args")
  pure { kind, name, args, actionUid := optStr j "action_uid", flowUid := optStr j "flow_uid" }

def dyOfJson (j : Json) : Except String (Option (Int × Nat)) :=
  match j with
  | .null => pure none
  | _ => do
    let a ← j.getArr?
    if h : a.size = 2 then do
      let m ← a[0].getInt?; let e ← a[1].getNat?; pure (some (m, e))
    else throw "bad prio"

def evResToJson : EvRes → Json
  | .err => Json.mkObj [("res", "err")]
  | .mismatch => Json.mkObj [("res", "mismatch")]
  | .zero => Json.mkObj [("res", "zero")]
  | .pos k p => Json.mkObj [("res", "pos"), ("k", Json.num (JsonNumber.fromInt k)),
      ("prio", match p with
        | none => .null
        | some (m, e) => Json.arr #[Json.num (JsonNumber.fromInt m), Json.num (JsonNumber.fromNat e)])]

def evToJson (e : Ev) : Json :=
  Json.mkObj [
    ("kind", .str (match e.kind with | .plain => "plain" | .internal => "internal" | .action => "action")),
    ("name", .str e.name),
    ("args", Json.arr (e.args.map fun (k, v) => Json.arr #[.str k, valToJson v]).toArray),
    ("action_uid", match e.actionUid with | some u => .str u | none => .null),
    ("flow_uid", match e.flowUid with | some u => .str u | none => .null)]

def stmtOfJson (j : Json) : Except String MatchStmt := do
  let form ← (← j.getObjVal? "form").getStr?
  let args ← kvsOfJson (← j.getObjVal? "args")
  match form with
  | "actionRef" =>
    let a : ActionObj := { uid := ← (← j.getObjVal? "uid").getStr?, name := ← (← j.getObjVal? "name").getStr?,
                           startArgs := ← kvsOfJson (← j.getObjVal? "start_args") }
    pure (.actionRef a (← (← j.getObjVal? "member").getStr?) args)
  | "flowRef" =>
    let rv ← match j.getObjVal? "return_value" with
      | .ok v => do let x ← valOfJson v; pure (some x)
      | .error _ => pure none
    let f : FlowObj := { uid := ← (← j.getObjVal? "uid").getStr?, flowId := ← (← j.getObjVal? "flow_id").getStr?,
                         args := ← kvsOfJson (← j.getObjVal? "flow_args"), returnValue := rv }
    pure (.flowRef f (← (← j.getObjVal? "member").getStr?) args)
  | "actionCtor" =>
    pure (.actionCtor (← (← j.getObjVal? "name").getStr?) (← kvsOfJson (← j.getObjVal? "ctor_args"))
            (← (← j.getObjVal? "member").getStr?) args)
  | "flowCtor" =>
    pure (.flowCtor (← (← j.getObjVal? "flow_id").getStr?) (← kvsOfJson (← j.getObjVal? "param_defaults"))
            (← (← j.getObjVal? "member").getStr?) args)
  | "bare" =>
    pure (.bare (← (← j.getObjVal? "name").getStr?) (← (← j.getObjVal? "is_lower").getBool?) args)
  | _ => throw s!"bad stmt form {form}"

/-- template of a statement parameter: {"v": i} | {"cat": [i, lit]} | {"l": [..]} | {"d": [[k, tm], ..]} | a literal `Val` -/
partial def tmOfJson (j : Json) : Except String Tm :=
  if let .ok v := j.getObjVal? "v" then do
    let i ← v.getNat?; pure (.var i)
  else if let .ok v := j.getObjVal? "cat" then do
    let a ← v.getArr?
    if h : a.size = 2 then do
      let i ← a[0].getNat?; let l ← valOfJson a[1]; pure (.cat i l)
    else throw "bad cat"
  else if let .ok v := j.getObjVal? "l" then do
    let a ← v.getArr?; let xs ← a.toList.mapM tmOfJson; pure (.list xs)
  else if let .ok v := j.getObjVal? "d" then do
    let kvs ← tmKvsOfJson v; pure (.dict kvs)
  else do
    let v ← valOfJson j; pure (.lit v)
where
  tmKvsOfJson (j : Json) : Except String (List (String × Tm)) := do
    let a ← j.getArr?
    a.toList.mapM fun e => do
      let p ← e.getArr?
      if h : p.size = 2 then do
        let k ← p[0].getStr?; let x ← tmOfJson p[1]; pure (k, x)
      else throw "bad tm entry"

def stepOfJson (j : Json) : Except String Step := do
  match optStr j "op" with
  | some "set" =>
    let i ← (← j.getObjVal? "var").getNat?
    let v ← valOfJson (← j.getObjVal? "val")
    pure (.set i v)
  | some "noise" => pure (.ev { kind := .plain, name := "Other", args := [("x", .int 1)] })
  | some "ev" =>
    let args ← kvsOfJson (← j.getObjVal? "args")
    pure (.ev { kind := .plain, name := "Ev", args := args })
  | _ => throw "bad step"

def handle (op : String) (j : Json) : Except String Json := do
  match op with
  | "hist" =>
    -- a statement in a flow instance per tag, over a whole history; per step: tags that advance, or "err"
    --   form "bare":   `match Ev(<params>, t=<tag>)`            (plain events `Ev`)
    --   form "action": `match $a.Finished(<params>)`            (action events `<name>Finished` of the actions in "actions")
    let params ← tmOfJson.tmKvsOfJson (← j.getObjVal? "tmpl")
    let init ← (← (← j.getObjVal? "init").getArr?).toList.mapM valOfJson
    let tags ← (← (← j.getObjVal? "tags").getArr?).toList.mapM fun t => t.getInt?
    let loop ← (← j.getObjVal? "loop").getBool?
    let tagParam := (j.getObjVal? "tagparam").toOption != some (Json.bool false)
    let rx ← rxOfJson (← j.getObjVal? "rx")
    let form := (optStr j "form").getD "bare"
    -- actions known to the runtime: [[uid, name, start_args], ..]; the statement refers to the one at index "k"
    let actions : List ActionObj ← match j.getObjVal? "actions" with
      | .ok (.arr a) => a.toList.mapM fun e => do
          let p ← e.getArr?
          if h : p.size = 3 then do
            let u ← p[0].getStr?; let n ← p[1].getStr?; let kvs ← kvsOfJson p[2]
            pure ({ uid := u, name := n, startArgs := kvs } : ActionObj)
          else throw "bad action"
      | _ => pure []
    let k := ((j.getObjVal? "k").toOption.bind (·.getNat?.toOption)).getD 0
    let sa : String → Option (List (String × Val)) := fun u => (actions.find? (·.uid == u)).map (·.startArgs)
    let stepOf (sj : Json) : Except String Step := do
      match optStr sj "op" with
      | some "aev" =>
        let args ← kvsOfJson (← sj.getObjVal? "args")
        pure (.ev { kind := .action, name := ← (← sj.getObjVal? "name").getStr?, args := args, actionUid := optStr sj "action_uid" })
      | _ => stepOfJson sj
    let steps ← (← (← j.getObjVal? "steps").getArr?).toList.mapM stepOf
    let headOf (t : Int) : Except String Head :=
      if form == "action" then
        match actions[k]? with
        | some a => pure { stmt := fun env => (Tm.evalKvs env params).map fun ps => MatchStmt.actionRef a "Finished" ps,
                           evName := a.name ++ "Finished", loop := loop }
        | none => throw "bad action index"
      else pure { stmt := bareStmt "Ev" false params (if tagParam then [("t", .int t)] else []), evName := "Ev", loop := loop }
    let heads ← tags.mapM fun t => do let h ← headOf t; pure (t, h)
    let runs : List (Int × List Outcome) := heads.map fun (t, h) => (t, runHist rx sa init h steps)
    let per : List Json := (List.range steps.length).map fun n =>
      let outs := runs.map fun (t, os) => (t, os.getD n .idle)
      if outs.any (fun p => p.2 == .fail) then Json.str "err"
      else Json.arr ((outs.filter (fun p => p.2 == .hit)).map fun p => Json.num (JsonNumber.fromInt p.1)).toArray
    -- kind of the statement's reference event in the initial environment (hypothesis of the plain-statement theorem)
    let refKind : Json := match heads.head? with
      | some (_, h) => match (h.stmt init).bind refEvent with
        | some r => .str (match r.kind with | .plain => "plain" | .internal => "internal" | .action => "action")
        | none => .null
      | none => .null
    pure (Json.mkObj [("hits", Json.arr per.toArray), ("ref_kind", refKind)])
  | "score" =>
    let a ← valOfJson (← j.getObjVal? "arg")
    let r ← valOfJson (← j.getObjVal? "ref")
    let rx ← rxOfJson (← j.getObjVal? "rx")
    pure (resToJson (score NemoVerif.Generated.C04.argumentFilter rx a r))
  | "event" =>
    let ev ← evOfJson (← j.getObjVal? "ev")
    let ref ← evOfJson (← j.getObjVal? "ref")
    let rx ← rxOfJson (← j.getObjVal? "rx")
    let prio ← dyOfJson ((j.getObjVal? "prio").toOption.getD .null)
    let sa : List (String × List (String × Val)) ← match j.getObjVal? "start_args" with
      | .ok (.arr a) => a.toList.mapM fun e => do
          let p ← e.getArr?
          if h : p.size = 2 then do
            let u ← p[0].getStr?; let kvs ← kvsOfJson p[1]; pure (u, kvs)
          else throw "bad start_args"
      | _ => pure []
    let startArgs := fun u => (sa.find? (·.1 == u)).map (·.2)
    pure (evResToJson (if (j.getObjVal? "gate").toOption == some (Json.bool true)
      then matchingScore rx startArgs ev ref prio else eventScore rx startArgs ev ref prio))
  | "stmt" =>
    let st ← stmtOfJson (← j.getObjVal? "stmt")
    pure (match refEvent st with
      | some e => evToJson e
      | none => Json.mkObj [("unmodelled", true)])
  | _ => throw s!"unknown op C04.{op}"

end NemoVerif.Drive.C04
