/-
  Line-protocol driver for C20 (`Models/Server.lean`).
    {"m":"C20.fn","root":r,"cwd":c,"items":[…]}  -> {"out":[…]}   (batched function-level evaluation)
      item {"k":"path","id":s}   -> {"base","join","norm","bad","res":{"ok":path}|{"err":kind}}
      item {"k":"norm","p":s}    -> {"norm":s}
      item {"k":"join","a":s,"b":s} -> {"join":s}
      item {"k":"abs","p":s}     -> {"abs":s}
      item {"k":"cp","l":[s…]}   -> {"cp":s}
      item {"k":"search","s":s}  -> {"bad":bool}
    {"m":"C20.run","cfg":{…,"store0":[[key,[msgs]]…]},"missing":[paths],"script":[reply|null …],"reqs":[item…]}
      item = request object | {"op":"set"|"append","key":k,"msgs":[…]} | {"op":"del","key":k} | {"op":"take","key":k,"n":n} | {"op":"redact","key":k}
             | {"op":"swap","store":[[key,[msgs]]…]} | {"op":"proc","i":n} | {"op":"restart"} | {"op":"evict","key":k}
      (`script` is indexed by the ordinal of the request among the requests)
      -> {"resps":[… one per item, {"r":"op"} for operations],"store":[[key,[msgs]]…],"loads":[…],
          "caches":[[proc,[[key,[paths]]…]]…]}
-/
import NemoVerif.Drive.Common
import NemoVerif.Models.ServerOps

namespace NemoVerif.Drive.C20
open Lean NemoVerif NemoVerif.Drive NemoVerif.Server

def strOf (j : Json) (k : String) : Except String Str := do
  let s ← (← j.getObjVal? k).getStr?
  pure s.toList

def js (s : Str) : Json := .str (String.ofList s)

def optStrOf (j : Json) (k : String) : Option Str :=
  match j.getObjVal? k with
  | .ok (.str s) => some s.toList
  | _ => none

def strList (j : Json) : Except String (List Str) := do
  let a ← j.getArr?
  a.toList.mapM fun e => do let s ← e.getStr?; pure s.toList

def errName : LoadErr → String
  | .invalidIds => "invalidIds"
  | .invalidId => "invalidId"
  | .notAllowed => "notAllowed"
  | .fromPathFailed => "fromPathFailed"

def fnItem (root cwd : Str) (j : Json) : Except String Json := do
  let k ← (← j.getObjVal? "k").getStr?
  match k with
  | "path" =>
    let id ← strOf j "id"
    let base := abspath cwd root
    let res := match checkId base id with
      | .ok p => Json.mkObj [("ok", js p)]
      | .error e => Json.mkObj [("err", .str (errName e))]
    pure (Json.mkObj [("base", js base), ("join", js (pjoin base id)), ("norm", js (normpath (pjoin base id))),
      ("bad", .bool (bad id)), ("res", res)])
  | "norm" => pure (Json.mkObj [("norm", js (normpath (← strOf j "p")))])
  | "join" => pure (Json.mkObj [("join", js (pjoin (← strOf j "a") (← strOf j "b")))])
  | "abs" => pure (Json.mkObj [("abs", js (abspath cwd (← strOf j "p")))])
  | "cp" => pure (Json.mkObj [("cp", js (commonprefix (← strList (← j.getObjVal? "l"))))])
  | "search" => pure (Json.mkObj [("bad", .bool (bad (← strOf j "s")))])
  | _ => throw s!"bad fn item kind {k}"

def cfgOfJson (j : Json) : Except String Cfg := do
  let root ← strOf j "root"
  let cwd ← strOf j "cwd"
  let b (k : String) : Bool := match j.getObjVal? k with | .ok (.bool true) => true | _ => false
  pure { root, cwd, single := optStrOf j "single", default := optStrOf j "default",
         hasStore := b "has_store", streaming := b "streaming" }

def reqOfJson (j : Json) : Except String (Req Json) := do
  let ids : Option (List Str) ← match j.getObjVal? "config_ids" with
    | .ok (.arr a) => do let l ← strList (.arr a); pure (some l)
    | _ => pure none
  let ctx : Option Json := match j.getObjVal? "context_msg" with
    | .ok .null => none
    | .ok v => some v
    | _ => none
  let msgs ← (← j.getObjVal? "messages").getArr?
  pure { configId := optStrOf j "config_id", configIds := ids, threadId := optStrOf j "thread_id",
         context := ctx, messages := msgs.toList,
         stream := match j.getObjVal? "stream" with | .ok (.bool true) => true | _ => false }

def respToJson : Resp Json → Json
  | .unprocessable => Json.mkObj [("r", "unprocessable")]
  | .noConfig => Json.mkObj [("r", "noConfig")]
  | .couldNotLoad ids => Json.mkObj [("r", "couldNotLoad"), ("ids", Json.arr (ids.map js).toArray)]
  | .threadTooShort => Json.mkObj [("r", "threadTooShort")]
  | .internalError => Json.mkObj [("r", "internalError")]
  | .streaming used => Json.mkObj [("r", "streaming"), ("used", Json.arr used.toArray)]
  | .ok reply used served => Json.mkObj [("r", "ok"), ("reply", reply), ("used", Json.arr used.toArray),
      ("served", Json.arr (served.map js).toArray)]

/-- `[[key,[msgs]]…]` -> store (first binding wins, as in `lookup`). -/
def storeOfJson (j : Json) : Except String (List (Str × List Json)) := do
  let a ← j.getArr?
  a.toList.mapM fun e => do
    let kv ← e.getArr?
    match kv.toList with
    | [k, v] => do
      let ks ← k.getStr?
      let msgs ← v.getArr?
      pure (ks.toList, msgs.toList)
    | _ => throw "bad store entry"

/-- an operator blanks the text of a message: `content` (a string) becomes as many `#`. -/
def redactMsg (m : Json) : Json :=
  match m with
  | .obj _ =>
    match m.getObjVal? "content" with
    | .ok (.str c) => m.setObjVal! "content" (.str (String.ofList (List.replicate c.toList.length '#')))
    | _ => m
  | _ => m

def opOfJson (j : Json) : Except String (Op Json) := do
  match j.getObjVal? "op" with
  | .ok (.str o) =>
    match o with
    | "set" =>
      let msgs ← (← j.getObjVal? "msgs").getArr?
      pure (.ext (← strOf j "key") (fun _ => some msgs.toList))
    | "append" =>
      let msgs ← (← j.getObjVal? "msgs").getArr?
      pure (.ext (← strOf j "key") (fun v => some (v.getD [] ++ msgs.toList)))
    | "del" => pure (.ext (← strOf j "key") (fun _ => none))
    | "take" =>
      let n ← (← j.getObjVal? "n").getNat?
      pure (.ext (← strOf j "key") (fun v => v.map (·.take n)))
    | "redact" => pure (.ext (← strOf j "key") (fun v => v.map (·.map redactMsg)))
    | "swap" => pure (.swap (← storeOfJson (← j.getObjVal? "store")))
    | "proc" => pure (.proc (← (← j.getObjVal? "i").getNat?))
    | "restart" => pure .restart
    | "evict" => pure (.evict (← strOf j "key"))
    | _ => throw s!"bad op {o}"
  | _ => do pure (.req (← reqOfJson j))

/-- the visible content of the store: first binding of every key, in order of first appearance. -/
def storeView (st : List (Str × List Json)) : List (Str × List Json) :=
  st.foldl (fun acc kv => if acc.any (·.1 == kv.1) then acc else acc ++ [kv]) []

def handle (op : String) (j : Json) : Except String Json := do
  match op with
  | "fn" =>
    let root ← strOf j "root"
    let cwd ← strOf j "cwd"
    let items ← (← j.getObjVal? "items").getArr?
    let outs ← items.toList.mapM (fnItem root cwd)
    pure (Json.mkObj [("out", Json.arr outs.toArray)])
  | "run" =>
    let cfgJ ← j.getObjVal? "cfg"
    let cfg ← cfgOfJson cfgJ
    let store0 ← match cfgJ.getObjVal? "store0" with
      | .ok (.arr a) => storeOfJson (.arr a)
      | _ => pure []
    let missing ← strList (← j.getObjVal? "missing")
    let script ← (← j.getObjVal? "script").getArr?
    let itemsJ ← (← j.getObjVal? "reqs").getArr?
    let ops ← itemsJ.toList.mapM opOfJson
    let gen : Gen Json := fun turn _ _ =>
      match script[turn - 1]? with
      | some .null => none
      | some v => some v
      | none => none
    let w0 : World Json := { st := { store := store0 } }
    let (resps, w) := runOps cfg (fun p => !missing.contains p) gen w0 ops
    let procs := ((w.cur :: w.parked.map (·.1)).eraseDups).mergeSort (· ≤ ·)
    let cacheJ (c : Cache) : Json := Json.arr (c.reverse.map fun (k, v) => Json.arr #[js k, Json.arr (v.map js).toArray]).toArray
    pure (Json.mkObj [
      ("resps", Json.arr (resps.map fun a => match a with | some a => respToJson a | none => Json.mkObj [("r", "op")]).toArray),
      ("store", Json.arr ((storeView w.st.store).map fun (k, v) => Json.arr #[js k, Json.arr v.toArray]).toArray),
      ("loads", Json.arr (w.st.loads.map js).toArray),
      ("caches", Json.arr (procs.map fun i => Json.arr #[Json.num (i : Nat), cacheJ (w.cacheOf i)]).toArray)])
  | _ => throw s!"unknown op C20.{op}"

end NemoVerif.Drive.C20
