import NemoVerif.Drive.Common
import NemoVerif.Models.Bind
import NemoVerif.Models.BindHeap
import NemoVerif.Models.BindActivate

namespace NemoVerif.Drive.C08
open Lean NemoVerif NemoVerif.Drive NemoVerif.Bind

/-- `"$" ++ canonical decimal` ↦ `Key.pos`, every other string ↦ `Key.name`. -/
def keyOfString (s : String) : Key :=
  match s.toList with
  | '$' :: ds =>
    if ds.isEmpty then .name s
    else if String.ofList ds ∈ reservedNames then .arg (String.ofList ds)
    else match (String.ofList ds).toNat? with
      | some n => if toString n = String.ofList ds then .pos n else .name s
      | none => .name s
  | _ => .name s

def keyToString : Key → String
  | .name s => s
  | .pos i => "$" ++ toString i
  | .arg n => "$" ++ n

def ctxOfJson (j : Json) : Except String Ctx := do
  let kvs ← kvsOfJson j
  pure (kvs.map fun kv => (keyOfString kv.1, kv.2))

def ctxToJson (c : Ctx) : Json :=
  Json.arr (c.map fun kv => Json.arr #[.str (keyToString kv.1), valToJson kv.2]).toArray

partial def exprOfJson (j : Json) : Except String Expr := do
  if let .ok v := j.getObjVal? "lit" then
    pure (.lit (← valOfJson v))
  else if let .ok v := j.getObjVal? "var" then
    pure (.var (← v.getStr?))
  else if let .ok v := j.getObjVal? "l1" then
    pure (.list1 (← exprOfJson v))
  else if let .ok v := j.getObjVal? "l2" then
    let a ← v.getArr?
    if h : a.size = 2 then pure (.list2 (← exprOfJson a[0]) (← exprOfJson a[1]))
    else throw "bad l2"
  else throw "bad expr"

def paramOfJson (j : Json) : Except String Param := do
  let name ← (← j.getObjVal? "name").getStr?
  let dflt ← match j.getObjVal? "default" with
    | .ok .null => pure none
    | .ok d => do pure (some (← exprOfJson d))
    | .error _ => pure none
  pure { name, dflt }

def listOfJson {α} (f : Json → Except String α) (j : Json) : Except String (List α) := do
  let a ← j.getArr?
  a.toList.mapM f

def namedOfJson (j : Json) : Except String (List (String × Expr)) :=
  listOfJson (fun e => do
    let p ← e.getArr?
    if h : p.size = 2 then pure ((← p[0].getStr?), (← exprOfJson p[1])) else throw "bad named") j

def stmtOfJson (j : Json) : Except String Stmt := do
  match optStr j "op" with
  | some "assign" => pure (.assign (← (← j.getObjVal? "key").getStr?) (← exprOfJson (← j.getObjVal? "e")))
  | some "global" => pure (.global (← (← j.getObjVal? "name").getStr?))
  | some "ret" => pure (.ret (← exprOfJson (← j.getObjVal? "e")))
  | some "send" => pure (.send (← (← j.getObjVal? "name").getStr?) (← namedOfJson (← j.getObjVal? "args")))
  | some "block" => pure .block
  | some "call" =>
    let form ← match optStr j "form" with
      | some "await" => pure CallForm.await
      | some "start" => pure CallForm.start
      | some "activate" => pure CallForm.activate
      | _ => throw "bad form"
    pure (.call form (optStr j "ret") (← (← j.getObjVal? "flow").getStr?)
      (← listOfJson exprOfJson (← j.getObjVal? "pos")) (← namedOfJson (← j.getObjVal? "named")))
  | _ => throw "bad stmt"

def flowOfJson (j : Json) : Except String (String × FlowDef) := do
  let name ← (← j.getObjVal? "name").getStr?
  let params ← listOfJson paramOfJson (← j.getObjVal? "params")
  let rets ← match j.getObjVal? "rets" with
    | .ok r => listOfJson paramOfJson r
    | .error _ => pure []
  let body ← listOfJson stmtOfJson (← j.getObjVal? "body")
  pure (name, { params, rets, body })


/-! ### heap interpreter (`hexec`) -/

def pathKeyOfJson (j : Json) : Except String PathKey :=
  match j with
  | .str k => pure (.key k)
  | .num _ => do pure (.idx (← j.getNat?))
  | _ => throw "bad path key"

def methOfJson (name : String) (args : Array Json) : Except String Meth := do
  match name, args.size with
  | "append", 1 => pure (.append (← exprOfJson args[0]!))
  | "extend", 1 => pure (.extend (← exprOfJson args[0]!))
  | "insert", 2 =>
    match ← exprOfJson args[0]! with
    | .lit (.int 0) => pure (.insert0 (← exprOfJson args[1]!))
    | _ => throw "insert: only index 0"
  | "pop", 0 => pure .pop
  | "pop", 2 =>
    match ← exprOfJson args[0]!, ← exprOfJson args[1]! with
    | .lit (.str k), .lit .none => pure (.popKey k)
    | _, _ => throw "pop(k, None) expected"
  | "clear", 0 => pure .clear
  | "update", 1 =>
    let d ← (← args[0]!.getObjVal? "d1").getArr?
    if d.size = 2 then pure (.update1 (← d[0]!.getStr?) (← exprOfJson d[1]!)) else throw "bad d1"
  | "add", 1 => pure (.add (← exprOfJson args[0]!))
  | "discard", 1 => pure (.discard (← exprOfJson args[0]!))
  | _, _ => throw s!"unknown method {name}"

def hstmtOfJson (j : Json) : Except String HStmt := do
  match optStr j "op" with
  | some "mut" =>
    let path ← listOfJson pathKeyOfJson (← j.getObjVal? "path")
    let m ← methOfJson (← (← j.getObjVal? "meth").getStr?) (← (← j.getObjVal? "args").getArr?)
    pure (.mut (← (← j.getObjVal? "var").getStr?) path m ((optStr j "ret").getD "_"))
  | _ =>
    match ← stmtOfJson j with
    | .assign k e => pure (.assign k e)
    | .global x => pure (.global x)
    | .ret e => pure (.ret e)
    | .send n a => pure (.send n a)
    | .block => pure .block
    | .call f r fl p nm => pure (.call f r fl p nm)

def hflowOfJson (j : Json) : Except String (String × HFlowDef) := do
  let name ← (← j.getObjVal? "name").getStr?
  let params ← listOfJson paramOfJson (← j.getObjVal? "params")
  let rets ← match j.getObjVal? "rets" with
    | .ok r => listOfJson paramOfJson r
    | .error _ => pure []
  let body ← listOfJson hstmtOfJson (← j.getObjVal? "body")
  pure (name, { params, rets, body })

def errToString : Err → String
  | .ctxShared => "ctxShared" | .tooMany => "tooMany" | .keyError => "keyError" | .other => "other"

def outcomeToString : Outcome → String
  | .finished => "finished" | .blocked => "blocked" | .failed => "failed" | .outOfFuel => "outOfFuel"
  | .error e => "error:" ++ errToString e

def handle (op : String) (j : Json) : Except String Json := do
  match op with
  | "bind" =>
    let params ← listOfJson paramOfJson (← j.getObjVal? "params")
    let rets ← listOfJson paramOfJson (← j.getObjVal? "rets")
    let ev ← ctxOfJson (← j.getObjVal? "ev")
    let isMain := match j.getObjVal? "main" with | .ok (.bool b) => b | _ => false
    let asIs := match j.getObjVal? "asis" with | .ok (.bool b) => b | _ => false
    match (if asIs then createFlowInstanceAsIs "f" params rets ev else createFlowInstance "f" params rets ev) with
    | .error e => pure (Json.mkObj [("create", Json.mkObj [("res", "err"), ("err", .str (errToString e))]), ("start", .null)])
    | .ok f =>
      let cj := Json.mkObj [("res", "ok"), ("arguments", ctxToJson f.arguments), ("context", ctxToJson f.context)]
      match startFlow isMain ev f with
      | .error e => pure (Json.mkObj [("create", cj), ("start", Json.mkObj [("res", "err"), ("err", .str (errToString e))])])
      | .ok f' =>
        pure (Json.mkObj [("create", cj), ("start", Json.mkObj [("res", "ok"), ("context", ctxToJson f'.context),
          ("finished", ctxToJson (finishedArgs (.str "#u") f'))])])
  | "exec" =>
    let flows ← listOfJson flowOfJson (← j.getObjVal? "flows")
    let main ← listOfJson stmtOfJson (← j.getObjVal? "main")
    let fuel ← (← j.getObjVal? "fuel").getNat?
    let (s, oc) := runMain flows fuel main
    pure (Json.mkObj [
      ("outcome", .str (outcomeToString oc)),
      ("out", Json.arr (s.out.map fun ev => Json.arr #[.str ev.1,
          Json.arr (ev.2.map fun kv => Json.arr #[.str kv.1, valToJson kv.2]).toArray]).toArray),
      ("insts", Json.arr (s.insts.map fun uf => Json.arr #[Json.num (JsonNumber.fromNat uf.1), .str uf.2.flowId, ctxToJson uf.2.context]).toArray),
      ("globals", ctxToJson s.globals)])
  | "hexec" =>
    let flows ← listOfJson hflowOfJson (← j.getObjVal? "flows")
    let main ← listOfJson hstmtOfJson (← j.getObjVal? "main")
    let fuel ← (← j.getObjVal? "fuel").getNat?
    let (s, oc) := runMainH flows fuel main
    pure (Json.mkObj [
      ("outcome", .str (outcomeToString oc)),
      ("out", Json.arr (s.st.out.map fun ev => Json.arr #[.str ev.1,
          Json.arr (ev.2.map fun kv => Json.arr #[.str kv.1, valToJson kv.2]).toArray]).toArray),
      ("insts", Json.arr (s.st.insts.map fun uf => Json.arr #[Json.num (JsonNumber.fromNat uf.1), .str uf.2.flowId,
          ctxToJson (derefCtx s.heap uf.2.context)]).toArray),
      ("globals", ctxToJson (derefCtx s.heap s.st.globals)),
      ("entries", Json.arr (s.entries.map fun e => Json.arr #[Json.num (JsonNumber.fromNat e.uid), .str e.flow,
          ctxToJson e.ctx]).toArray)])
  | "refact" =>
    -- `_get_reference_activated_flow_instance` on instances that the model's own `createFlowInstance` makes from the
    -- creating calls, then (when a source flow is given) the StartFlow decision
    let params ← listOfJson paramOfJson (← j.getObjVal? "params")
    let ev ← ctxOfJson (← j.getObjVal? "ev")
    let instsJ ← (← j.getObjVal? "insts").getArr?
    let insts ← instsJ.toList.mapM fun ij => do
      let iev ← ctxOfJson (← ij.getObjVal? "ev")
      let activated ← (← ij.getObjVal? "activated").getNat?
      let alive ← (← ij.getObjVal? "parentAlive").getBool?
      let same ← (← ij.getObjVal? "parentSame").getBool?
      match createFlowInstance "f" params [] iev with
      | .error e => throw s!"instance creation failed: {errToString e}"
      | .ok f => pure ({ activated, parentAlive := alive, parentSameFlow := same, arguments := f.arguments } : ActInst)
    let optIdx : Option Nat → Json := fun o => match o with | some i => Json.num (JsonNumber.fromNat i) | none => .null
    let refJ := match refActivated params ev insts 0 with
      | .error e => Json.str ("err:" ++ errToString e)
      | .ok r => optIdx r
    let decJ ← match j.getObjVal? "src" with
      | .ok (.obj _) => do
        let sj ← j.getObjVal? "src"
        let src : Source := { flowId := ← (← sj.getObjVal? "flow").getStr?, done := ← (← sj.getObjVal? "done").getBool?,
                              activated := ← (← sj.getObjVal? "activated").getNat? }
        let known := match j.getObjVal? "known" with | .ok (.bool b) => b | _ => true
        pure (match startDecision "f" params ev (if known then some insts else none) src with
          | .error e => Json.str ("err:" ++ errToString e)
          | .ok .ignored => Json.str "ignored"
          | .ok (.reuse i) => Json.arr #[.str "reuse", optIdx (some i)]
          | .ok (.create o) => Json.arr #[.str "create", optIdx o])
      | _ => pure Json.null
    -- the whole step on `flow_id_states[f]` (`activateStepEv`): activation counters and arguments of every instance afterwards
    let stepJ ← match j.getObjVal? "src" with
      | .ok (.obj _) => do
        let sj ← j.getObjVal? "src"
        let src : Source := { flowId := ← (← sj.getObjVal? "flow").getStr?, done := ← (← sj.getObjVal? "done").getBool?,
                              activated := ← (← sj.getObjVal? "activated").getNat? }
        pure (match activateStepEv "f" params [] src insts ev with
          | .error e => Json.str ("err:" ++ errToString e)
          | .ok l => Json.arr (l.map fun a => Json.arr #[Json.num (JsonNumber.fromNat a.activated), ctxToJson a.arguments]).toArray)
      | _ => pure Json.null
    pure (Json.mkObj [("ref", refJ), ("decision", decJ), ("after", stepJ)])
  | _ => throw s!"unknown op C08.{op}"

end NemoVerif.Drive.C08
