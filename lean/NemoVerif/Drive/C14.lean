import NemoVerif.Drive.Common
import NemoVerif.Models.V1Interp
import NemoVerif.Models.V1Struct
import NemoVerif.Models.V1Run
import NemoVerif.Models.V1Mut
import NemoVerif.Models.V1Ref
import NemoVerif.Models.V1Annot
import NemoVerif.Models.V1Uid
import NemoVerif.Generated.LlmFlowsV1

namespace NemoVerif.Drive.C14
open Lean NemoVerif.Drive NemoVerif.V1Interp NemoVerif.V1Struct NemoVerif.V1Run NemoVerif.V1Mut NemoVerif.V1StackFollow

def vOfJson (j : Json) : Except String V :=
  match j with
  | .null => pure .none
  | .bool b => pure (.bool b)
  | _ =>
    if let .ok v := j.getObjVal? "i" then do pure (.int (← v.getInt?))
    else if let .ok v := j.getObjVal? "s" then do pure (.str (← v.getStr?))
    else if let .ok v := j.getObjVal? "L" then do pure (.strs (← (← v.getArr?).toList.mapM (·.getStr?)))
    else throw "bad V"

def vToJson : V → Json
  | .none => .null
  | .bool b => .bool b
  | .int i => Json.mkObj [("i", Json.num (JsonNumber.fromInt i))]
  | .str s => Json.mkObj [("s", .str s)]
  | .strs l => Json.mkObj [("L", Json.arr (l.map Json.str).toArray)]

def ctxOfJson (j : Json) : Except String Ctx := do
  let a ← j.getArr?
  a.toList.mapM fun e => do
    let p ← e.getArr?
    if h : p.size = 2 then do pure (← p[0].getStr?, ← vOfJson p[1]) else throw "bad ctx entry"

def ctxToJson (c : Ctx) : Json := Json.arr (c.map fun (k, v) => Json.arr #[.str k, vToJson v]).toArray

def opOfString : String → Except String BinOp
  | "eq" => pure .eq | "ne" => pure .ne | "lt" => pure .lt | "le" => pure .le | "gt" => pure .gt
  | "ge" => pure .ge | "add" => pure .add | "sub" => pure .sub | "and" => pure .and | "or" => pure .or
  | s => throw s!"bad op {s}"

partial def exprOfJson (j : Json) : Except String Expr := do
  if let .ok v := j.getObjVal? "lit" then pure (.lit (← vOfJson v))
  else if let .ok v := j.getObjVal? "var" then pure (.var (← v.getStr?))
  else if let .ok v := j.getObjVal? "not" then pure (.not (← exprOfJson v))
  else if let .ok v := j.getObjVal? "len" then pure (.len (← exprOfJson v))
  else if let .ok v := j.getObjVal? "idx" then
    let a ← v.getArr?
    if h : a.size = 2 then pure (.index (← exprOfJson a[0]) (← exprOfJson a[1])) else throw "bad idx"
  else if let .ok v := j.getObjVal? "isnone" then
    let a ← v.getArr?
    if h : a.size = 2 then pure (.isNone (← exprOfJson a[0]) (← a[1].getBool?)) else throw "bad isnone"
  else if let .ok v := j.getObjVal? "bin" then
    let a ← v.getArr?
    if h : a.size = 3 then pure (.bin (← opOfString (← a[0].getStr?)) (← exprOfJson a[1]) (← exprOfJson a[2]))
    else throw "bad bin"
  else throw "bad expr"

def optStrJ (j : Json) (k : String) : Option String := optStr j k

def optIntToJson : Option Int → Json
  | some i => Json.num (JsonNumber.fromInt i)
  | none => .null

def jsonOptInt (j : Json) : Option Int :=
  match j.getInt? with
  | .ok i => some i
  | _ => none

def optIntJ (j : Json) (k : String) : Option Int :=
  match j.getObjVal? k with
  | .ok v => match v.getInt? with | .ok i => some i | _ => none
  | _ => none

def elemOfJson (j : Json) : Except String Elem := do
  let t ← (← j.getObjVal? "t").getStr?
  match t with
  | "user" => pure (.userIntent (← (← j.getObjVal? "name").getStr?))
  | "run" => pure (.runAction (← (← j.getObjVal? "name").getStr?) (optStrJ j "value") (← (← j.getObjVal? "params").getStr?) (optStrJ j "rk"))
  | "if" => pure (.ifE (← exprOfJson (← j.getObjVal? "c")) (← (← j.getObjVal? "ne").getInt?))
  | "while" => pure (.whileE (← exprOfJson (← j.getObjVal? "c")) (← (← j.getObjVal? "n").getInt?) (← (← j.getObjVal? "ob").getInt?))
  | "jump" => pure (.jump (← (← j.getObjVal? "n").getInt?) (← (← j.getObjVal? "abs").getBool?))
  | "set" => pure (.setE (← (← j.getObjVal? "k").getStr?) (← exprOfJson (← j.getObjVal? "e")) (← (← j.getObjVal? "n").getInt?))
  | "break" => pure (.breakE (optIntJ j "o"))
  | "continue" => pure (.continueE (optIntJ j "o"))
  | "flow" => pure (.flow (← (← j.getObjVal? "name").getStr?))
  | "flowE" => pure (.flowE (← exprOfJson (← j.getObjVal? "e")))
  | "event" => pure (.event (← (← j.getObjVal? "ty").getStr?) (← ctxOfJson (← j.getObjVal? "props")))
  | s => throw s!"bad elem {s}"

def jInt (i : Int) : Json := Json.num (JsonNumber.fromInt i)
def jOptStr : Option String → Json | some s => .str s | none => .null
def jOptInt : Option Int → Json | some s => jInt s | none => .null

partial def exprToJson : Expr → Json
  | .lit v => Json.mkObj [("lit", vToJson v)]
  | .var n => Json.mkObj [("var", .str n)]
  | .not e => Json.mkObj [("not", exprToJson e)]
  | .len e => Json.mkObj [("len", exprToJson e)]
  | .index e i => Json.mkObj [("idx", Json.arr #[exprToJson e, exprToJson i])]
  | .isNone e n => Json.mkObj [("isnone", Json.arr #[exprToJson e, .bool n])]
  | .bin op a b =>
    let s := match op with
      | .eq => "eq" | .ne => "ne" | .lt => "lt" | .le => "le" | .gt => "gt" | .ge => "ge"
      | .add => "add" | .sub => "sub" | .and => "and" | .or => "or"
    Json.mkObj [("bin", Json.arr #[.str s, exprToJson a, exprToJson b])]

def elemToJson : Elem → Json
  | .userIntent n => Json.mkObj [("t", "user"), ("name", .str n)]
  | .runAction n v p rk => Json.mkObj [("t", "run"), ("name", .str n), ("value", jOptStr v), ("params", .str p), ("rk", jOptStr rk)]
  | .ifE c ne => Json.mkObj [("t", "if"), ("c", exprToJson c), ("ne", jInt ne)]
  | .whileE c n ob => Json.mkObj [("t", "while"), ("c", exprToJson c), ("n", jInt n), ("ob", jInt ob)]
  | .jump n a => Json.mkObj [("t", "jump"), ("n", jInt n), ("abs", .bool a)]
  | .setE k e n => Json.mkObj [("t", "set"), ("k", .str k), ("e", exprToJson e), ("n", jInt n)]
  | .breakE o => Json.mkObj [("t", "break"), ("o", jOptInt o)]
  | .continueE o => Json.mkObj [("t", "continue"), ("o", jOptInt o)]
  | .flow n => Json.mkObj [("t", "flow"), ("name", .str n)]
  | .flowE e => Json.mkObj [("t", "flowE"), ("e", exprToJson e)]
  | .event ty ps => Json.mkObj [("t", "event"), ("ty", .str ty), ("props", ctxToJson ps)]

def getBoolD (j : Json) (k : String) (d : Bool) : Bool :=
  match j.getObjVal? k with
  | .ok (.bool b) => b
  | _ => d

def cfgOfJson (j : Json) : Except String FlowCfg := do
  let id ← (← j.getObjVal? "id").getStr?
  let es ← (← (← j.getObjVal? "elems").getArr?).toList.mapM elemOfJson
  pure { id, elems := es, isSubflow := getBoolD j "sub" false, isExtension := getBoolD j "ext" false,
         isInterruptible := getBoolD j "intr" true, allowMultiple := getBoolD j "multi" false,
         prio := (match j.getObjVal? "prio" with | .ok v => (v.getNat?.toOption.getD 100) | _ => 100),
         triggers := (match j.getObjVal? "triggers" with
           | .ok (.arr a) => a.toList.filterMap fun x => x.getStr?.toOption
           | _ => []) }

def eventOfJson (j : Json) : Except String Event := do
  let t ← (← j.getObjVal? "e").getStr?
  match t with
  | "user" => pure (.userIntent (← (← j.getObjVal? "i").getStr?))
  | "bot" => pure (.botIntent (← (← j.getObjVal? "i").getStr?))
  | "fin" => pure (.actionFinished (← (← j.getObjVal? "name").getStr?) (getBoolD j "ok" true))
  | "ctx" => pure (.contextUpdate (← ctxOfJson (← j.getObjVal? "d")))
  | "start" => pure .startAction
  | "hide" => pure .hidePrevTurn
  | "other" =>
    let ps ← match j.getObjVal? "props" with
      | .ok v => ctxOfJson v
      | _ => pure []
    pure (.other (← (← j.getObjVal? "ty").getStr?) ps)
  | s => throw s!"bad event {s}"

partial def progOfJson (j : Json) : Except String Prog := do
  let a ← j.getArr?
  a.toList.foldrM (init := Prog.nil) fun s r => do
    if let .ok v := s.getObjVal? "u" then pure (.step (.user (← v.getStr?)) r)
    else if let .ok v := s.getObjVal? "b" then pure (.step (.bot (← v.getStr?)) r)
    else if let .ok v := s.getObjVal? "do" then pure (.step (.doFlow (← v.getStr?)) r)
    else if let .ok v := s.getObjVal? "x" then
      let p ← v.getArr?
      if h : p.size = 3 then
        let rk := match p[2] with | .str s => some s | _ => none
        pure (.step (.exec (← p[0].getStr?) (← p[1].getStr?) rk) r)
      else throw "bad x"
    else if let .ok v := s.getObjVal? "set" then
      let p ← v.getArr?
      if h : p.size = 2 then pure (.set (← p[0].getStr?) (← exprOfJson p[1]) r) else throw "bad set"
    else if let .ok v := s.getObjVal? "if" then
      let p ← v.getArr?
      if h : p.size = 3 then pure (.ite (← exprOfJson p[0]) (← progOfJson p[1]) (← progOfJson p[2]) r) else throw "bad if"
    else if let .ok v := s.getObjVal? "while" then
      let p ← v.getArr?
      if h : p.size = 2 then pure (.while (← exprOfJson p[0]) (← progOfJson p[1]) r) else throw "bad while"
    else if let .ok _ := s.getObjVal? "break" then pure (.brk r)
    else if let .ok _ := s.getObjVal? "continue" then pure (.cont r)
    else throw "bad stmt"

def decisionToJson : Decision → Json
  | .ctx d => Json.arr #["ctx", ctxToJson d]
  | .bot i => Json.arr #["bot", .str i]
  | .act n p rk => Json.arr #["act", .str n, .str p, jOptStr rk]

def stepsResToJson : StepsRes → Json
  | .ok ds => Json.mkObj [("ok", Json.arr (ds.map decisionToJson).toArray)]
  | .exprErr => Json.mkObj [("exc", "expr")]
  | .oof => Json.mkObj [("exc", "oof")]
  | .otherErr e => Json.mkObj [("exc", .str e)]

partial def addrToJson : Addr → Json
  | .here => Json.arr #[]
  | a =>
    let rec go : Addr → List Json
      | .here => []
      | .next a => .str "n" :: go a
      | .thenB a => .str "t" :: go a
      | .elseB a => .str "e" :: go a
      | .body a => .str "b" :: go a
    Json.arr (go a).toArray

def addrOfJson (j : Json) : Except String Addr := do
  let a ← j.getArr?
  a.toList.foldrM (init := Addr.here) fun s r => do
    match ← s.getStr? with
    | "n" => pure (.next r) | "t" => pure (.thenB r) | "e" => pure (.elseB r) | "b" => pure (.body r)
    | x => throw s!"bad addr {x}"

def outToJson (p : Prog) : Out → Json
  | .fell st => Json.mkObj [("out", "fell"), ("ctx", ctxToJson st.ctx), ("upd", ctxToJson st.upd)]
  | .brk st => Json.mkObj [("out", "brk"), ("ctx", ctxToJson st.ctx), ("upd", ctxToJson st.upd)]
  | .cnt st => Json.mkObj [("out", "cnt"), ("ctx", ctxToJson st.ctx), ("upd", ctxToJson st.upd)]
  | .atStep st a => Json.mkObj [("out", "at"), ("ctx", ctxToJson st.ctx), ("upd", ctxToJson st.upd), ("addr", addrToJson a), ("off", Json.num (JsonNumber.fromNat (off p a)))]
  | .err => Json.mkObj [("out", "err")]
  | .oof => Json.mkObj [("out", "oof")]
  | .bad => Json.mkObj [("out", "bad")]

def reventOfJson (j : Json) : Except String REvent := do
  let t ← (← j.getObjVal? "e").getStr?
  match t with
  | "start" =>
    match j.getObjVal? "name" with
    | .ok n => pure (.start (← n.getStr?) (← (← j.getObjVal? "params").getStr?) (optStrJ j "rk"))
    | _ => pure (.ev .startAction)
  | _ => pure (.ev (← eventOfJson j))

def eventToJson : Event → Json
  | .userIntent i => Json.mkObj [("e", "user"), ("i", .str i)]
  | .botIntent i => Json.mkObj [("e", "bot"), ("i", .str i)]
  | .actionFinished n ok => Json.mkObj [("e", "fin"), ("name", .str n), ("ok", .bool ok)]
  | .contextUpdate d => Json.mkObj [("e", "ctx"), ("d", ctxToJson d)]
  | .startAction => Json.mkObj [("e", "start")]
  | .hidePrevTurn => Json.mkObj [("e", "hide")]
  | .other ty ps => Json.mkObj [("e", "other"), ("ty", .str ty), ("props", ctxToJson ps)]

def reventToJson : REvent → Json
  | .ev e => eventToJson e
  | .start n p rk => Json.mkObj [("e", "start"), ("name", .str n), ("params", .str p), ("rk", jOptStr rk)]

def actResOfJson (j : Json) : Except String ActRes := do
  let status := match optStrJ j "status" with
    | some "failed" => ActStatus.failed
    | some "notfound" => ActStatus.notFound
    | _ => ActStatus.success
  let ret ← match j.getObjVal? "ret" with
    | .ok v => vOfJson v
    | _ => pure V.none
  let cu ← match j.getObjVal? "cu" with
    | .ok v => ctxOfJson v
    | _ => pure []
  let evs ← match j.getObjVal? "events" with
    | .ok (.arr a) => a.toList.mapM reventOfJson
    | _ => pure []
  pure { status, ret, ctxUpd := cu, events := evs }

def melemOfJson (j : Json) : Except String MElem := do
  pure { el := ← elemOfJson (← j.getObjVal? "el"), label := optStrJ j "label", activeLabel := optStrJ j "active" }

def sresToJson : SRes → Json
  | .at st h => Json.mkObj [("res", "at"), ("head", Json.num (JsonNumber.fromInt h)), ("ctx", ctxToJson st.ctx), ("upd", ctxToJson st.upd)]
  | .fin st h => Json.mkObj [("res", "fin"), ("head", Json.num (JsonNumber.fromInt h)), ("ctx", ctxToJson st.ctx), ("upd", ctxToJson st.upd)]
  | .err => Json.mkObj [("res", "err")]
  | .oof => Json.mkObj [("res", "oof")]

def statusToJson : Status → Json
  | .active => "ACTIVE" | .interrupted => "INTERRUPTED" | .aborted => "ABORTED" | .completed => "COMPLETED"

/-- a flow state up to the NAMES of the uids: [flow id, head, status, index of the first flow state whose uid is
    `interrupted_by` (what the resume pass's lookup finds); -1 = none, -2 = no such flow state] -/
def fsToJson (flows : List FS) (fs : FS) : Json :=
  let by_ : Int := match fs.interruptedBy with
    | none => -1
    | some u => match flows.findIdx? (fun g => g.uid == u) with
      | some i => (i : Int)
      | none => -2
  Json.arr #[.str fs.flowId, jInt fs.head, statusToJson fs.status, jInt by_]

def handle (op : String) (j : Json) : Except String Json := do
  match op with
  | "states" =>
    -- the interpreter STATE after every prefix (flow states up to uid renaming) + `UidsOK` (theorem uids_pairwise_distinct)
    let cfgs ← (← (← j.getObjVal? "flows").getArr?).toList.mapM cfgOfJson
    let hist ← (← (← j.getObjVal? "history").getArr?).toList.mapM eventOfJson
    let outs := (List.range (hist.length + 1)).map fun k =>
      match applyHide (hist.take k) [] with
      | none => Json.null
      | some actual =>
        match replay true cfgs actual {} with
        | .ok st => Json.mkObj [("flows", Json.arr (st.flows.map (fsToJson st.flows)).toArray),
                                ("uids_ok", .bool (decide (NemoVerif.V1Uid.UidsOK st)))]
        | .error _ => Json.null
    pure (Json.mkObj [("res", Json.arr outs.toArray)])
  | "follow" =>
    -- the source-level reference `followAllK` of next_step_is_flow_statement_with_do on every prefix:
    -- the dialog flow "id"/"prog", the subflow library, the history; null = the reference makes no claim
    let id ← (← j.getObjVal? "id").getStr?
    let p ← progOfJson (← j.getObjVal? "prog")
    let libJ ← (← j.getObjVal? "lib").getArr?
    let lib ← libJ.toList.mapM fun e => do
      pure ((← (← e.getObjVal? "name").getStr?), (← progOfJson (← e.getObjVal? "prog")))
    let hist ← (← (← j.getObjVal? "history").getArr?).toList.mapM eventOfJson
    let i0 := match p with
      | .step (.user i) _ => i
      | _ => ""
    let outs := (List.range (hist.length + 1)).map fun k =>
      match followAllK lib id p i0 SLIDE_FUEL { ctx := [], ctr := 0, stk := [], dec := [] } (hist.take k) with
      | some S => Json.mkObj [("dec", Json.arr (S.dec.map decisionToJson).toArray), ("depth", Json.num (JsonNumber.fromNat S.stk.length))]
      | none => Json.null
    pure (Json.mkObj [("res", Json.arr outs.toArray)])
  | "gen" =>
    -- one turn of `generate_events`: flows, the events so far, the scripted action results (k-th call of the conversation)
    let cfgs ← (← (← j.getObjVal? "flows").getArr?).toList.mapM cfgOfJson
    let evs ← (← (← j.getObjVal? "events").getArr?).toList.mapM reventOfJson
    let results ← (← (← j.getObjVal? "results").getArr?).toList.mapM actResOfJson
    match generateEvents cfgs (scripted results) [] evs with
    | some out => pure (Json.mkObj [("new", Json.arr (out.map reventToJson).toArray)])
    | none => pure (Json.mkObj [("exc", "oof")])
  | "slideM" =>
    let es ← (← (← j.getObjVal? "elems").getArr?).toList.mapM melemOfJson
    let ctx ← ctxOfJson (← j.getObjVal? "ctx")
    let head ← (← j.getObjVal? "head").getInt?
    let (r, code) := slideM SLIDE_FUEL es ⟨ctx, []⟩ head (initPrev (proj es) head) none
    let marks := Json.arr (code.map fun m => jOptStr m.activeLabel).toArray
    match r with
    | .at st h => pure (Json.mkObj [("res", "at"), ("head", jInt h), ("ctx", ctxToJson st.ctx), ("upd", ctxToJson st.upd), ("marks", marks)])
    | .fin st h => pure (Json.mkObj [("res", "fin"), ("head", jInt h), ("ctx", ctxToJson st.ctx), ("upd", ctxToJson st.upd), ("marks", marks)])
    | .err => pure (Json.mkObj [("res", "err"), ("marks", marks)])
    | .oof => pure (Json.mkObj [("res", "oof")])
  | "steps" =>
    let cfgs ← (← (← j.getObjVal? "flows").getArr?).toList.mapM cfgOfJson
    let hist ← (← (← j.getObjVal? "history").getArr?).toList.mapM eventOfJson
    let repaired := getBoolD j "repaired" true
    let prefixes ← match j.getObjVal? "prefixes" with
      | .ok (.arr a) => a.toList.mapM (·.getNat?)
      | _ => pure (List.range (hist.length + 1))
    let config ← match j.getObjVal? "config" with
      | .ok v => ctxOfJson v
      | _ => pure []
    -- "llm": true = run on the generated llm_flows.co elements (Generated/LlmFlowsV1.lean) followed by the given flows
    let cfgs := if getBoolD j "llm" false then NemoVerif.Generated.LlmFlowsV1.flows ++ cfgs else cfgs
    let outs := prefixes.map fun k => stepsResToJson (computeNextSteps repaired cfgs (hist.take k) config)
    pure (Json.mkObj [("res", Json.arr outs.toArray)])
  | "compile" =>
    let p ← progOfJson (← j.getObjVal? "prog")
    -- "keys": `_next_on_break` / `_next_on_continue` of EVERY element as the annotation pass leaves them (V1Annot.compileA);
    -- "compileA": its elements (theorem compile_annotated_projects: = "compile")
    let ca := NemoVerif.V1Annot.compileA p
    pure (Json.mkObj [("compile", Json.arr ((compile p).map elemToJson).toArray),
                      ("comp", Json.arr ((comp none p).map elemToJson).toArray),
                      ("compileA", Json.arr (ca.map (fun a => elemToJson a.el)).toArray),
                      ("keys", Json.arr (ca.map (fun a => Json.arr #[optIntToJson a.brk, optIntToJson a.cnt])).toArray)])
  | "slide" =>
    let es ← (← (← j.getObjVal? "elems").getArr?).toList.mapM elemOfJson
    let ctx ← ctxOfJson (← j.getObjVal? "ctx")
    let head ← (← j.getObjVal? "head").getInt?
    let plainRes := sresToJson (slide SLIDE_FUEL es ⟨ctx, []⟩ head (initPrev es head))
    match j.getObjVal? "keys" with
    | .ok (.arr ks) =>
      -- the dicts with their loop keys: `slideA` reads them key by key; "plain" = the same slide without the keys
      let keys ← ks.toList.mapM fun k => do
        let a ← k.getArr?
        if h : a.size = 2 then pure (jsonOptInt a[0], jsonOptInt a[1]) else throw "bad keys entry"
      if keys.length ≠ es.length then throw "keys/elems length" else
      let code : List NemoVerif.V1Annot.AElem := (es.zip keys).map fun (e, k) => { el := e, brk := k.1, cnt := k.2 }
      let r := sresToJson (NemoVerif.V1Annot.slideA SLIDE_FUEL code ⟨ctx, []⟩ head (initPrev es head))
      pure (r.setObjVal! "same_as_plain" (.bool (r.compress == plainRes.compress)))
    | _ => pure plainRes
  | "exec" =>
    -- structured semantics: from the start of the block (no "addr") or after the step at "addr"
    let p ← progOfJson (← j.getObjVal? "prog")
    let ctx ← ctxOfJson (← j.getObjVal? "ctx")
    match j.getObjVal? "addr" with
    | .ok (.arr a) =>
      let ad ← addrOfJson (.arr a)
      pure (outToJson p (execFrom SLIDE_FUEL ⟨ctx, []⟩ p ad))
    | _ => pure (outToJson p (exec SLIDE_FUEL ⟨ctx, []⟩ p))
  | _ => throw s!"unknown op C14.{op}"

end NemoVerif.Drive.C14
