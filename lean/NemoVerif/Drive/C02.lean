import NemoVerif.Drive.C01

/- C02 shares the `Pipeline` driver of C01 (requests `C02.conv` are the same as `C01.conv`). -/
namespace NemoVerif.Drive.C02
open Lean

def handle (op : String) (j : Json) : Except String Json := NemoVerif.Drive.C01.handle op j

end NemoVerif.Drive.C02
