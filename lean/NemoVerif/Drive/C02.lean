import NemoVerif.Drive.C01
import NemoVerif.Models.PipelineCtx
import NemoVerif.Models.PipelineCall

/- C02 shares the `Pipeline` driver of C01 (requests `C02.conv` are the same as `C01.conv`).

   `C02.ctx`: the event-level model of the two contexts of Colang 1.0 (`Models/PipelineCtx.lean`).
   request  {"m": "C02.ctx", "drop": b (default false: the code as it is),
             "in": [[id, pure]..], "out": [[id, pure]..],
             "turns": [{"user": s, "bot": s, "vin": [[id, v]..], "vout": [[id, v]..], "dialog_fault": b, "no_in": b, "no_out": b}]}
   response {"turns": [{"in_calls": [[id, text]..], "user_msg": s|null, "out_calls": [[id, text]..], "uttered": s|null}]} -/
/- `C02.calls`: the call-level model (`Models/PipelineCall.lean`) - conversations in which calls end by a propagated failure.
   request  as `C01.conv`; a turn may carry "llm_x": n | null, "cancel": n | null (verdict "e" = the rail's LLM call fails);
            "live": b (2.x: the caller keeps one live State object and hands the object to every call),
            "remember": b (default false: the code as it is; true = the instance remembers the live object of the last returned state)
   response {"turns": [{"steps", "reply", "hist" (the state handed back, null if the call raised), "left" (2.x: the object as the call left it)}]} -/
namespace NemoVerif.Drive.C02
open Lean NemoVerif NemoVerif.Drive NemoVerif.Pipeline NemoVerif.PipelineCtx

def railsOfJson (j : Json) : Except String (List Rail) := do
  let a ← j.getArr?
  a.toList.mapM fun e => do
    let p ← e.getArr?
    if h : p.size = 2 then do
      let id ← p[0].getNat?
      let pure_ ← p[1].getBool?
      pure { id := id, pure := pure_ }
    else throw "bad rail entry"

def turnEOfJson (j : Json) : Except String TurnE := do
  let user ← (← j.getObjVal? "user").getStr?
  let bot ← (← j.getObjVal? "bot").getStr?
  let vin ← C01.tableOfJson ((j.getObjVal? "vin").toOption.getD (Json.arr #[]))
  let vout ← C01.tableOfJson ((j.getObjVal? "vout").toOption.getD (Json.arr #[]))
  pure { user, bot, vin, vout, dialogFault := C01.getBoolD j "dialog_fault" false }

def callsToJson (cs : List (Nat × Text)) : Json :=
  Json.arr (cs.map fun c => Json.arr #[Json.num (JsonNumber.fromNat c.1), .str c.2]).toArray

def optStrToJson : Option Text → Json
  | some s => .str s
  | none => .null

def optNat (j : Json) (k : String) : Option Nat :=
  match j.getObjVal? k with
  | .ok v => v.getNat?.toOption
  | .error _ => none

def histV2ToJson (h : HistV2) : Json := Json.mkObj [("orip", .bool h.orip), ("talking", .bool h.talking)]

def handle (op : String) (j : Json) : Except String Json := do
  match op with
  | "calls" =>
    let ver ← (← j.getObjVal? "ver").getStr?
    let cfg ← C01.cfgOfJson ver (← j.getObjVal? "cfg")
    let tjs := (← (← j.getObjVal? "turns").getArr?).toList
    let turns ← tjs.mapM C01.turnOfJson
    let faults := tjs.map fun tj => ({ llm := optNat tj "llm_x", cancel := optNat tj "cancel" } : PipelineCall.Fault)
    let opts := tjs.map fun tj =>
      ({ input := !C01.getBoolD tj "no_in" false, output := !C01.getBoolD tj "no_out" false } : CallOpts)
    if ver == "1.0" then
      let rs := PipelineCall.convCallsV1 cfg initV1 (opts.zip (turns.zip faults))
      pure (Json.mkObj [("turns", Json.arr (rs.map fun (tr, rep, h) =>
        Json.mkObj [("steps", Json.arr (tr.map C01.stepToJson).toArray), ("reply", C01.replyToJson rep),
          ("hist", match h with
            | some h => Json.mkObj [("skip", .bool h.skip), ("texts", Json.arr (h.texts.map Json.str).toArray)]
            | none => .null)]).toArray)])
    else if C01.getBoolD j "live" false then
      -- the caller keeps ONE live State object and hands it to every call
      let rs := PipelineCall.convLiveV2 (C01.getBoolD j "user_reset" Generated.C01.v2FlagResetOnUserMessage) cfg initV2 (turns.zip faults)
      pure (Json.mkObj [("turns", Json.arr (rs.map fun (tr, rep, h) =>
        Json.mkObj [("steps", Json.arr (tr.map C01.stepToJson).toArray), ("reply", C01.replyToJson rep),
          ("hist", histV2ToJson h), ("left", histV2ToJson h)]).toArray)])
    else
      let rs := PipelineCall.convCallsV2 (C01.getBoolD j "remember" false) cfg none initV2 (turns.zip faults)
      pure (Json.mkObj [("turns", Json.arr (rs.map fun o =>
        Json.mkObj [("steps", Json.arr (o.steps.map C01.stepToJson).toArray), ("reply", C01.replyToJson o.reply),
          ("hist", match o.saved with | some h => histV2ToJson h | none => .null),
          ("left", histV2ToJson o.obj)]).toArray)])
  | "ctx" =>
    let inRails ← railsOfJson (← j.getObjVal? "in")
    let outRails ← railsOfJson (← j.getObjVal? "out")
    let turns ← (← (← j.getObjVal? "turns").getArr?).toList.mapM turnEOfJson
    let opts := (← (← j.getObjVal? "turns").getArr?).toList.map fun tj =>
      ({ input := !C01.getBoolD tj "no_in" false, output := !C01.getBoolD tj "no_out" false } : CallOpts)
    let obs := convEP (C01.getBoolD j "drop" false) inRails outRails [] (opts.zip turns)
    pure (Json.mkObj [("turns", Json.arr (obs.map fun o =>
      Json.mkObj [("in_calls", callsToJson o.inCalls), ("user_msg", optStrToJson o.userMsg),
        ("out_calls", callsToJson o.outCalls), ("uttered", optStrToJson o.uttered)]).toArray)])
  | _ => NemoVerif.Drive.C01.handle op j

end NemoVerif.Drive.C02
