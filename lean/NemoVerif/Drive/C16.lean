import NemoVerif.Drive.Common
import NemoVerif.Generated.C16
import NemoVerif.Models.GenLog
import NemoVerif.Models.PipelineOpts
import NemoVerif.Models.RailsInterp
import NemoVerif.Generated.LlmFlowsV1

/-
  Driver for C16.  Requests:
    {"m":"C16.genlog","log":[ev,…]}                       → GenLog.compute on the generated constants
    {"m":"C16.turn","cfg":{…},"opts":null|[cats],"user":s,"bot":null|s,"dialog":{…}}
                                                          → PipelineOpts.turn on the generated guards, plus GenLog.compute of its log
    {"m":"C16.interp","input":[irail,…],"output":[irail,…],"opts":null|[cats],"user":s,"bot":null|s,"llm_text":s,"refusal":s,"refusal_tpl":s}
                                                          → RailsInterp.drive: the loop of `generate_events` around the interpreter model
                                                            (V1Interp) on the GENERATED llm_flows.co program + rail sub-flows of the shipped
                                                            shapes; irail = {"name","action","kind":"check"|"append"|"prepend"|"replace","needles":[…]|"text":s}
  Event encoding = harness/impl/pipeline_opts.py::abstract_plog.
  A rail of the request is a rule table [[needle, verdict], …] (first rule whose needle occurs in the text decides,
  default accept), verdict = ["accept"] | ["reject"] | ["fault"] | ["append", t] | ["prepend", t] | ["replace", t].
-/
namespace NemoVerif.Drive.C16
open Lean NemoVerif NemoVerif.Drive NemoVerif.GenLog NemoVerif.OptGuard NemoVerif.PipelineOpts

def K : Consts :=
  { ignoredActions := Generated.C16.ignoredActions, ignoredFlows := Generated.C16.ignoredFlows,
    generationFlows := Generated.C16.generationFlows, relabelName := Generated.C16.relabelName,
    relabelTask := Generated.C16.relabelTask }

def strAt (a : Array Json) (i : Nat) : Except String String :=
  match a[i]? with
  | some (.str s) => pure s
  | _ => throw "expected string"

def nextOfJson (j : Json) : Except String NextStep := do
  let a ← j.getArr?
  match ← strAt a 0 with
  | "act" => pure (.act (← strAt a 1))
  | "intent" => pure (.intent (← strAt a 1))
  | _ => pure .other

def evOfJson (j : Json) : Except String LogEv := do
  let a ← j.getArr?
  match ← strAt a 0 with
  | "step" =>
    let ns ← match (a[2]? : Option Json) with
      | some (Json.arr xs) => xs.toList.mapM nextOfJson
      | _ => throw "bad step"
    pure (.step (← strAt a 1) ns)
  | "in" => pure (.startIn (← strAt a 1))
  | "out" => pure (.startOut (← strAt a 1))
  | "fin" => pure .railFin
  | "act" => pure (.actStart (← strAt a 1))
  | "actfin" => pure (.actFin (← strAt a 1))
  | "llm" => pure (.llm (← strAt a 1))
  | "other" => pure .other
  | s => throw s!"bad event {s}"

def nextToJson : NextStep → Json
  | .act n => Json.arr #["act", .str n]
  | .intent n => Json.arr #["intent", .str n]
  | .other => Json.arr #["other"]

def evToJson : LogEv → Json
  | .step f ns => Json.arr #["step", .str f, Json.arr (ns.map nextToJson).toArray]
  | .startIn n => Json.arr #["in", .str n]
  | .startOut n => Json.arr #["out", .str n]
  | .railFin => Json.arr #["fin"]
  | .actStart n => Json.arr #["act", .str n]
  | .actFin n => Json.arr #["actfin", .str n]
  | .llm t => Json.arr #["llm", .str t]
  | .other => Json.arr #["other"]

def typeToString : RailType → String
  | .input => "input" | .output => "output" | .dialog => "dialog" | .generation => "generation"

def railToJson (r : GenLog.Rail) : Json :=
  Json.mkObj [("type", .str (typeToString r.type)), ("name", .str r.name), ("stop", .bool r.stop),
    ("finished", .bool r.finished), ("decisions", Json.arr (r.decisions.map Json.str).toArray),
    ("actions", Json.arr (r.actions.map fun a => Json.mkObj [("name", .str a.name), ("finished", .bool a.finished),
        ("llm", Json.arr (a.llm.map Json.str).toArray)]).toArray)]

def genlogToJson : Except Err GenLog.Out → Json
  | .ok o => Json.mkObj [("res", "ok"), ("rails", Json.arr (o.rails.map railToJson).toArray), ("llm_calls", Json.num (JsonNumber.fromNat o.llmCalls))]
  | .error .attr => Json.mkObj [("res", "AttributeError")]
  | .error .index => Json.mkObj [("res", "IndexError")]

/-- substring test on character lists -/
def isPrefixL : List Char → List Char → Bool
  | [], _ => true
  | _ :: _, [] => false
  | a :: as, b :: bs => a == b && isPrefixL as bs

def isInfixL (n : List Char) : List Char → Bool
  | [] => n.isEmpty
  | c :: cs => isPrefixL n (c :: cs) || isInfixL n cs

def verdictOfJson (j : Json) : Except String (String → Verdict) := do
  let a ← j.getArr?
  match ← strAt a 0 with
  | "accept" => pure fun _ => .accept
  | "reject" => pure fun _ => .reject
  | "fault" => pure fun _ => .fault
  | "append" => let t ← strAt a 1; pure fun s => .rewrite (s ++ t)
  | "prepend" => let t ← strAt a 1; pure fun s => .rewrite (t ++ s)
  | "replace" => let t ← strAt a 1; pure fun _ => .rewrite t
  | s => throw s!"bad verdict {s}"

def rulesOfJson (j : Json) : Except String (String → Verdict) := do
  let a ← j.getArr?
  let rules ← a.toList.mapM fun e => do
    let p ← e.getArr?
    let needle ← strAt p 0
    match (p[1]? : Option Json) with
    | some v => do let f ← verdictOfJson v; pure (needle, f)
    | none => throw "bad rule"
  pure fun text =>
    match rules.find? (fun r => isInfixL r.1.toList text.toList) with
    | some r => r.2 text
    | none => .accept

def railsOfJson (cat : String) (action : String) (j : Json) : Except String (List PipelineOpts.Rail) := do
  let a ← j.getArr?
  let fs ← a.toList.mapM rulesOfJson
  pure ((fs.zip (List.range fs.length)).map fun (f, i) =>
    let name := s!"{cat} rail {i}"
    { name := name, verdict := f, noise := [.step name [.act action], .actStart action, .actFin action] })

def catOfString : String → Except String Cat
  | "input" => pure .input | "dialog" => pure .dialog | "retrieval" => pure .retrieval | "output" => pure .output
  | s => throw s!"bad category {s}"

def catToString : Cat → String
  | .input => "input" | .dialog => "dialog" | .retrieval => "retrieval" | .output => "output"

def optsOfJson (j : Json) : Except String (Option Opts) :=
  match j with
  | .null => pure none
  | .arr a => do
    let cs ← a.toList.mapM fun e => do let s ← e.getStr?; catOfString s
    pure (some { input := cs.contains .input, dialog := cs.contains .dialog, retrieval := cs.contains .retrieval, output := cs.contains .output })
  | _ => throw "bad opts"

def stepToJson : Step → Json
  | .railCall c i n t => Json.arr #["rail", .str (catToString c), Json.num (JsonNumber.fromNat i), .str n, .str t]
  | .llmCall => Json.arr #["llm"]
  | .utter t => Json.arr #["utter", .str t]
  | .exception c n => Json.arr #["exception", .str (catToString c), .str n]

def replyToJson : Reply → Json
  | .text s => Json.mkObj [("text", .str s)]
  | .exception c => Json.mkObj [("exception", .str (catToString c))]
  | .noBotMessage => Json.mkObj [("noBotMessage", .bool true)]
  | .unmodelled => Json.mkObj [("unmodelled", .bool true)]

def cfgOfJson (c : Json) : Except String Cfg := do
  let action := (optStr c "action").getD "scripted_rail"
  pure {
    input := ← railsOfJson "input" action ((c.getObjVal? "input").toOption.getD (Json.arr #[])),
    output := ← railsOfJson "output" action ((c.getObjVal? "output").toOption.getD (Json.arr #[])),
    retrieval := ← railsOfJson "retrieval" action ((c.getObjVal? "retrieval").toOption.getD (Json.arr #[])),
    exceptions := match c.getObjVal? "exceptions" with | .ok (.bool b) => b | _ => false,
    refusal := (optStr c "refusal").getD "refused",
    internalError := Generated.C16.internalError }

def callOfJson (j : Json) : Except String Call := do
  let opts ← optsOfJson ((j.getObjVal? "opts").toOption.getD .null)
  let user ← (← j.getObjVal? "user").getStr?
  let bot := optStr j "bot"
  let d ← j.getObjVal? "dialog"
  let text ← (← d.getObjVal? "text").getStr?
  let dlg : Dialog ← match optStr d "kind" with
    | some "general" => pure (Dialog.general text)
    | some "intent" => pure (Dialog.intent ((optStr d "flow").getD "greeting") ((optStr d "bot_intent").getD "express greeting")
        (match d.getObjVal? "predefined" with | .ok (.bool b) => b | _ => false) text)
    | _ => throw "bad dialog"
  pure { opts := opts, user := user, bot := bot, dlg := dlg }

def outToJson : Option PipelineOpts.Out → Json
  | none => Json.mkObj [("res", "guard-error")]
  | some o =>
    Json.mkObj [("res", "ok"), ("trace", Json.arr (o.trace.map stepToJson).toArray),
      ("log", Json.arr (o.log.map evToJson).toArray), ("reply", replyToJson o.reply),
      ("blocker", match o.blocker with | some (c, n) => Json.arr #[.str (catToString c), .str n] | none => .null),
      ("skip_after", .bool o.skipAfter),
      ("genlog", genlogToJson (compute K o.log))]


/-! ### `C16.interp`: the interpreter model on the generated program -/

section Interp
open NemoVerif.V1Interp NemoVerif.RailsInterp

def irailOfJson (j : Json) : Except String IRail := do
  let name ← (← j.getObjVal? "name").getStr?
  let action ← (← j.getObjVal? "action").getStr?
  match optStr j "kind" with
  | some "check" =>
    let ns ← (← (← j.getObjVal? "needles").getArr?).toList.mapM fun e => e.getStr?
    pure { name := name, action := action, kind := .check fun t => !(ns.any fun n => isInfixL n.toList t.toList) }
  | some "append" => let t ← (← j.getObjVal? "text").getStr?; pure { name := name, action := action, kind := .rewrite fun s => s ++ t }
  | some "prepend" => let t ← (← j.getObjVal? "text").getStr?; pure { name := name, action := action, kind := .rewrite fun s => t ++ s }
  | some "replace" => let t ← (← j.getObjVal? "text").getStr?; pure { name := name, action := action, kind := .rewrite fun _ => t }
  | _ => throw "bad irail kind"

def vToJson : V → Json
  | .none => .null | .bool b => .bool b | .int i => Json.num (JsonNumber.fromInt i) | .str s => .str s
  | .strs l => Json.arr (l.map Json.str).toArray

/-- an event of the model history as [type, detail] (detail: action name / intent / sorted context keys / flow_id / text) -/
def eventToJson : Event → Json
  | .userIntent i => Json.arr #["UserIntent", .str i]
  | .botIntent i => Json.arr #["BotIntent", .str i]
  | .actionFinished n _ => Json.arr #["InternalSystemActionFinished", .str n]
  | .contextUpdate d => Json.arr #["ContextUpdate", Json.arr ((d.map (·.1)).toArray.qsort (· < ·) |>.map Json.str)]
  | .startAction => Json.arr #["StartInternalSystemAction"]
  | .hidePrevTurn => Json.arr #["hide_prev_turn"]
  | .other ty ps => Json.arr #[.str ty, Json.mkObj (ps.map fun kv => (kv.1, vToJson kv.2))]

def obsToJson : Obs → Json
  | .railCall c i n t => Json.arr #["rail", .str c, Json.num (JsonNumber.fromNat i), .str n, .str t]
  | .llmCall => Json.arr #["llm"]
  | .utter t => Json.arr #["utter", .str t]

def interpOpts (j : Json) : Except String (Option (Bool × Bool × Bool × Bool)) := do
  match ← optsOfJson j with
  | none => pure none
  | some o => pure (some (o.input, o.dialog, o.retrieval, o.output))

def handleInterp (j : Json) : Except String Json := do
  let rails (k : String) : Except String (List IRail) := do
    match j.getObjVal? k with
    | .ok (.arr a) => a.toList.mapM irailOfJson
    | _ => pure []
  let s : Setup := { input := ← rails "input", output := ← rails "output", refusal := (optStr j "refusal").getD "refused",
                     llmText := (optStr j "llm_text").getD "", refusalTpl := (optStr j "refusal_tpl").getD "" }
  let o ← interpOpts ((j.getObjVal? "opts").toOption.getD .null)
  let user ← (← j.getObjVal? "user").getStr?
  let bot := optStr j "bot"
  let H0 := initialHistory o user bot
  match drive s (s.cfgs Generated.LlmFlowsV1.flows) s.config 600 H0 [] with
  | .done tr H => pure (Json.mkObj [("res", "ok"), ("trace", Json.arr (tr.map obsToJson).toArray),
      ("events", Json.arr ((H.drop H0.length).map eventToJson).toArray)])
  | .stuck why tr => pure (Json.mkObj [("res", .str ("stuck: " ++ why)), ("trace", Json.arr (tr.map obsToJson).toArray)])
  | .oof => pure (Json.mkObj [("res", "out-of-fuel")])

end Interp

def handle (op : String) (j : Json) : Except String Json := do
  match op with
  | "interp" => handleInterp j
  | "genlog" =>
    let a ← (← j.getObjVal? "log").getArr?
    let log ← a.toList.mapM evOfJson
    pure (genlogToJson (compute K log))
  | "turn" =>
    let cfg ← cfgOfJson (← j.getObjVal? "cfg")
    let c ← callOfJson j
    pure (outToJson (turn Generated.C16.guards cfg c.opts c.user c.bot c.dlg))
  | "session" =>
    let cfg ← cfgOfJson (← j.getObjVal? "cfg")
    let cs ← (← (← j.getObjVal? "calls").getArr?).toList.mapM callOfJson
    match session Generated.C16.guards cfg false cs with
    | none => pure (Json.mkObj [("res", "guard-error")])
    | some os => pure (Json.mkObj [("res", "ok"), ("calls", Json.arr (os.map fun o => outToJson (some o)).toArray)])
  | _ => throw s!"unknown op C16.{op}"

end NemoVerif.Drive.C16
