/-
  Line-protocol helpers shared by the per-property driver modules: JSON <-> `Val`.
  Encoding (harness/impl/valjson.py is the Python twin):
    null | true/false | {"i": n} | {"f": [m, e]} | {"s": str} | {"l": [..]} | {"d": [[k, v], ..]}
    | {"S": [..]} | {"r": id} | {"c": [op, v]} | {"o": [kind, uid]}
-/
import Lean.Data.Json
import NemoVerif.Py.Val

namespace NemoVerif.Drive
open Lean NemoVerif

def cmpOpOfString : String → Except String CmpOp
  | "lt" => pure .lt | "le" => pure .le | "gt" => pure .gt | "ge" => pure .ge | "ne" => pure .ne
  | s => throw s!"bad cmp op {s}"

def cmpOpToString : CmpOp → String
  | .lt => "lt" | .le => "le" | .gt => "gt" | .ge => "ge" | .ne => "ne"

partial def valOfJson (j : Json) : Except String Val :=
  match j with
  | .null => pure .none
  | .bool b => pure (.bool b)
  | .obj _ =>
    if let .ok v := j.getObjVal? "i" then do
      let n ← v.getInt?; pure (.int n)
    else if let .ok v := j.getObjVal? "f" then do
      let a ← v.getArr?
      if h : a.size = 2 then do
        let m ← a[0].getInt?; let e ← a[1].getNat?; pure (.flt m e)
      else throw "bad f"
    else if let .ok v := j.getObjVal? "s" then do
      let s ← v.getStr?; pure (.str s)
    else if let .ok v := j.getObjVal? "l" then do
      let a ← v.getArr?; let xs ← a.toList.mapM valOfJson; pure (.list xs)
    else if let .ok v := j.getObjVal? "S" then do
      let a ← v.getArr?; let xs ← a.toList.mapM valOfJson; pure (.set xs)
    else if let .ok v := j.getObjVal? "d" then do
      let a ← v.getArr?
      let kvs ← a.toList.mapM fun e => do
        let p ← e.getArr?
        if h : p.size = 2 then do
          let k ← p[0].getStr?; let x ← valOfJson p[1]; pure (k, x)
        else throw "bad d entry"
      pure (.dict kvs)
    else if let .ok v := j.getObjVal? "r" then do
      let n ← v.getNat?; pure (.regex n)
    else if let .ok v := j.getObjVal? "c" then do
      let a ← v.getArr?
      if h : a.size = 2 then do
        let op ← a[0].getStr?; let o ← cmpOpOfString op; let x ← valOfJson a[1]; pure (.cmp o x)
      else throw "bad c"
    else if let .ok v := j.getObjVal? "o" then do
      let a ← v.getArr?
      if h : a.size = 2 then do
        let k ← a[0].getStr?; let u ← a[1].getStr?; pure (.ref k u)
      else throw "bad o"
    else throw "bad val object"
  | _ => throw "bad val"

partial def valToJson : Val → Json
  | .none => .null
  | .bool b => .bool b
  | .int i => Json.mkObj [("i", Json.num (JsonNumber.fromInt i))]
  | .flt m e => Json.mkObj [("f", Json.arr #[Json.num (JsonNumber.fromInt m), Json.num (JsonNumber.fromNat e)])]
  | .str s => Json.mkObj [("s", .str s)]
  | .list xs => Json.mkObj [("l", Json.arr (xs.map valToJson).toArray)]
  | .set xs => Json.mkObj [("S", Json.arr (xs.map valToJson).toArray)]
  | .dict kvs => Json.mkObj [("d", Json.arr (kvs.map fun (k, v) => Json.arr #[.str k, valToJson v]).toArray)]
  | .regex n => Json.mkObj [("r", Json.num (JsonNumber.fromNat n))]
  | .cmp op v => Json.mkObj [("c", Json.arr #[.str (cmpOpToString op), valToJson v])]
  | .ref k u => Json.mkObj [("o", Json.arr #[.str k, .str u])]

def kvsOfJson (j : Json) : Except String (List (String × Val)) := do
  match ← valOfJson (Json.mkObj [("d", j)]) with
  | .dict kvs => pure kvs
  | _ => throw "bad kvs"

def optStr (j : Json) (k : String) : Option String :=
  match j.getObjVal? k with
  | .ok (.str s) => some s
  | _ => none

def errJson (msg : String) : Json := Json.mkObj [("bad-op", .str msg)]

end NemoVerif.Drive
