import NemoVerif.Drive.Common
import NemoVerif.Models.Closed
import NemoVerif.Models.V1Compile
import NemoVerif.Models.V1Load
import NemoVerif.Models.Expand
import NemoVerif.Models.ExpandInPlace
import NemoVerif.Models.ExpandNames

namespace NemoVerif.Drive.C12
open Lean NemoVerif NemoVerif.Drive

/-! JSON codecs (harness/props/C12.py is the Python twin).
  Prim:  ["label",n] ["goto",l] (conditional) ["jump",l] (Goto whose expression is the constant True) ["fork",uid,[l..]] ["merge",uid] ["wait",k] ["catch",l|null] ["break",l|null]
         ["continue",l|null] ["begin",n] ["end",n] ["abort"] ["return"] ["op",op,group,retVar] ["assign",nld]
         ["other",kind] ["composite",kind]
  Elem:  {"k":kind,"n":_next|null,"e":_next_else|null,"b":_next_on_break|null,"c":_next_on_continue|null,
          "h":[branch_heads],"a":_absolute,"nm":name|null,"el":ellipsis,"raw":bool}
  Item:  ["s",kind] ["ell"] ["ret"] ["label",n] ["goto",n] ["if",[..],[..]] ["while",[..]] ["any",[kinds]] ["br",[[..]..]]
  Stmt:  ["send"] ["match"] ["assign"] ["other",k] ["return"] ["abort"] ["break"] ["continue"] ["if",[..],[..]] ["while",[..]]
-/

def optStrJ (j : Json) : Except String (Option String) :=
  match j with
  | .null => pure none
  | .str s => pure (some s)
  | _ => throw "expected string or null"

def strListJ (j : Json) : Except String (List String) := do
  let a ← j.getArr?
  a.toList.mapM fun x => x.getStr?

def primOfJson (j : Json) : Except String (Closed.Prim String) := do
  let a ← j.getArr?
  let tag ← (a[0]?.getD Json.null).getStr?
  let arg (i : Nat) : Json := a[i]?.getD Json.null
  match tag with
  | "label" => pure (.label (← (arg 1).getStr?))
  | "goto" => pure (.goto (← (arg 1).getStr?))
  | "jump" => pure (.jump (← (arg 1).getStr?))
  | "fork" => pure (.fork (← (arg 1).getStr?) (← strListJ (arg 2)))
  | "merge" => pure (.merge (← (arg 1).getStr?))
  | "wait" => pure (.waitHeads (← (arg 1).getNat?))
  | "catch" => pure (.catchFail (← optStrJ (arg 1)))
  | "break" => pure (.brk (← optStrJ (arg 1)))
  | "continue" => pure (.cont (← optStrJ (arg 1)))
  | "begin" => pure (.beginScope (← (arg 1).getStr?))
  | "end" => pure (.endScope (← (arg 1).getStr?))
  | "abort" => pure .abort
  | "return" => pure .ret
  | "op" => pure (.specOp (← (arg 1).getStr?) (← (arg 2).getBool?) (← (arg 3).getBool?))
  | "assign" => pure (.assign (← (arg 1).getBool?))
  | "other" => pure (.other (← (arg 1).getStr?))
  | "composite" => pure (.composite (← (arg 1).getStr?))
  | t => throw s!"bad prim tag {t}"

def renderLbl (l : Expand.Lbl) : String := Expand.render l

def optLblJ : Option Expand.Lbl → Json
  | none => .null
  | some l => .str (renderLbl l)

def primToJsonWith {L : Type} (renderLbl : L → String) : Closed.Prim L → Json
  | .label n => Json.arr #["label", renderLbl n]
  | .goto l => Json.arr #["goto", renderLbl l]
  | .jump l => Json.arr #["jump", renderLbl l]
  | .fork u ls => Json.arr #["fork", renderLbl u, Json.arr (ls.map fun l => Json.str (renderLbl l)).toArray]
  | .merge u => Json.arr #["merge", renderLbl u]
  | .waitHeads n => Json.arr #["wait", Json.num (JsonNumber.fromNat n)]
  | .catchFail l => Json.arr #["catch", match l with | none => Json.null | some x => Json.str (renderLbl x)]
  | .brk l => Json.arr #["break", match l with | none => Json.null | some x => Json.str (renderLbl x)]
  | .cont l => Json.arr #["continue", match l with | none => Json.null | some x => Json.str (renderLbl x)]
  | .beginScope n => Json.arr #["begin", renderLbl n]
  | .endScope n => Json.arr #["end", renderLbl n]
  | .abort => Json.arr #["abort"]
  | .ret => Json.arr #["return"]
  | .specOp op g rv => Json.arr #["op", Json.str op, Json.bool g, Json.bool rv]
  | .assign nld => Json.arr #["assign", Json.bool nld]
  | .other k => Json.arr #["other", Json.str k]
  | .composite k => Json.arr #["composite", Json.str k]

def primToJson : Closed.Prim Expand.Lbl → Json := primToJsonWith renderLbl

def optIntJ (j : Json) (k : String) : Except String (Option Int) :=
  match j.getObjVal? k with
  | .ok .null => pure none
  | .ok v => do let i ← v.getInt?; pure (some i)
  | .error _ => pure none

def kindOfString : String → V1Compile.Kind
  | "if" => .ifK | "while" => .whileK | "jump" => .jump | "branch" => .branch | "label" => .label | "goto" => .goto
  | s => .simple s

def kindToString : V1Compile.Kind → String
  | .ifK => "if" | .whileK => "while" | .jump => "jump" | .branch => "branch" | .label => "label" | .goto => "goto"
  | .simple s => s

def boolJ (j : Json) (k : String) : Bool :=
  match j.getObjVal? k with
  | .ok (.bool b) => b
  | _ => false

def elemOfJson (j : Json) : Except String V1Compile.Elem := do
  let k ← (← j.getObjVal? "k").getStr?
  let hs ← match j.getObjVal? "h" with
    | .ok (.arr a) => a.toList.mapM fun x => x.getInt?
    | _ => pure []
  pure { kind := kindOfString k, next := ← optIntJ j "n", nextElse := ← optIntJ j "e", onBreak := ← optIntJ j "b",
         onContinue := ← optIntJ j "c", branchHeads := hs, absolute := boolJ j "a", name := optStr j "nm",
         ellipsis := boolJ j "el", raw := boolJ j "raw" }

def optIntToJ : Option Int → Json
  | none => .null
  | some i => Json.num (JsonNumber.fromInt i)

def elemToJson (e : V1Compile.Elem) : Json :=
  Json.mkObj [("k", kindToString e.kind), ("n", optIntToJ e.next), ("e", optIntToJ e.nextElse), ("b", optIntToJ e.onBreak),
    ("c", optIntToJ e.onContinue), ("h", Json.arr (e.branchHeads.map fun i => Json.num (JsonNumber.fromInt i)).toArray),
    ("a", e.absolute)]

partial def itemOfJson (j : Json) : Except String V1Compile.Item := do
  let a ← j.getArr?
  let tag ← (a[0]?.getD Json.null).getStr?
  let arg (i : Nat) : Json := a[i]?.getD Json.null
  let items (x : Json) : Except String (List V1Compile.Item) := do
    let xs ← x.getArr?
    xs.toList.mapM itemOfJson
  match tag with
  | "s" => pure (.simple (← (arg 1).getStr?))
  | "ell" => pure .setEllipsis
  | "ret" => pure .ret
  | "label" => pure (.label (← (arg 1).getStr?))
  | "goto" => pure (.goto (← (arg 1).getStr?))
  | "if" => pure (.ifS (← items (arg 1)) (← items (arg 2)))
  | "while" => pure (.whileS (← items (arg 1)))
  | "any" => pure (.anyS (← strListJ (arg 1)))
  | "br" => do
    let bs ← (arg 1).getArr?
    pure (.branches (← bs.toList.mapM items))
  | t => throw s!"bad item tag {t}"

def atomOfJson (j : Json) : Except String Expand.Atom := do
  let a ← j.getArr?
  let k ← match (a[0]?.getD Json.null) with
    | .str "ev" => pure Expand.AtomK.ev
    | .str "flow" => pure Expand.AtomK.flow
    | .str "action" => pure Expand.AtomK.action
    | _ => throw "bad atom kind"
  let r ← (a[1]?.getD Json.null).getBool?
  pure { k := k, ref := r }

def dnfOfJson (j : Json) : Except String Expand.DNF := do
  let cs ← j.getArr?
  cs.toList.mapM fun c => do
    let as ← c.getArr?
    as.toList.mapM atomOfJson

def natListJ (j : Json) : Except String (List Nat) := do
  let a ← j.getArr?
  a.toList.mapM fun x => x.getNat?

partial def stmtOfJson (j : Json) : Except String Expand.Stmt := do
  let a ← j.getArr?
  let tag ← (a[0]?.getD Json.null).getStr?
  let arg (i : Nat) : Json := a[i]?.getD Json.null
  let stmts (x : Json) : Except String (List Expand.Stmt) := do
    let xs ← x.getArr?
    xs.toList.mapM stmtOfJson
  match tag with
  | "send" => pure .send
  | "match" => pure .matchEv
  | "assign" => pure .assign
  | "other" => pure (.other (← (arg 1).getStr?))
  | "return" => pure .ret
  | "abort" => pure .abort
  | "break" => pure .brk
  | "continue" => pure .cont
  | "if" => pure (.ifS (← stmts (arg 1)) (← stmts (arg 2)))
  | "while" => pure (.whileS (← stmts (arg 1)))
  | "matchg" => pure (.matchG (← natListJ (arg 1)))
  | "sendg" => pure (.sendG (← natListJ (arg 1)))
  | "start" => pure (.startS (← dnfOfJson (arg 1)))
  | "await1" => do
    let a ← atomOfJson (Json.arr #[arg 1, Json.bool false])
    pure (.awaitOne a.k (← (arg 2).getBool?))
  | "awaitg" => pure (.awaitG (← dnfOfJson (arg 1)))
  | "activate" => pure (.activateS (← (arg 1).getNat?))
  | "deactivate" => pure (.deactivateS (← (arg 1).getNat?))
  | "nld" => pure .nld
  | "when" => do
    let specs ← (arg 1).getArr?
    let thens ← (arg 2).getArr?
    pure (.whenS (← specs.toList.mapM dnfOfJson) (← thens.toList.mapM stmts) (← stmts (arg 3)) (← (arg 4).getBool?))
  | t => throw s!"bad stmt tag {t}"

def optNatJ : Option Nat → Json
  | none => .null
  | some i => Json.num (JsonNumber.fromNat i)

def handle (op : String) (j : Json) : Except String Json := do
  match op with
  | "closed" =>
    -- the verified checker on a real (or model) primitive program + the label look-ups of `initialize_flow`
    let a ← (← j.getObjVal? "prog").getArr?
    let p ← a.toList.mapM primOfJson
    let ls ← match j.getObjVal? "lookups" with
      | .ok x => strListJ x
      | .error _ => pure []
    pure (Json.mkObj [("closed", Closed.closed p), ("why", Closed.whyNotClosed p),
      ("lookups", Json.arr (ls.map fun l => optNatJ (Closed.lookupLabel p l)).toArray)])
  | "v1closed" =>
    let a ← (← j.getObjVal? "elems").getArr?
    let es ← a.toList.mapM elemOfJson
    pure (Json.mkObj [("ok", V1Compile.v1Closed es), ("bad", optNatJ (V1Compile.firstBad es.length 0 es))])
  | "v1compile" =>
    let a ← (← j.getObjVal? "items").getArr?
    let items ← a.toList.mapM itemOfJson
    match V1Compile.compileFull items with
    | .ok es => pure (Json.mkObj [("ok", Json.arr (es.map elemToJson).toArray), ("closed", V1Compile.v1Closed es)])
    | .error m => pure (Json.mkObj [("err", m)])
  | "v1dynamic" =>
    -- a flow added at run time by `_process_start_flow`: `start_flow` element in front of the compiled body
    let a ← (← j.getObjVal? "items").getArr?
    let items ← a.toList.mapM itemOfJson
    match V1Compile.dynamicFlow items with
    | .ok es => pure (Json.mkObj [("ok", Json.arr (es.map elemToJson).toArray), ("closed", V1Compile.v1Closed es)])
    | .error m => pure (Json.mkObj [("err", m)])
  | "v1load" =>
    -- `_load_flow_config` on compiled elements (`elems`), or `parse_flow_elements` + `_load_flow_config` on items
    match j.getObjVal? "elems" with
    | .ok ej =>
      let a ← ej.getArr?
      let es ← a.toList.mapM elemOfJson
      let held := V1Compile.loadFlow es
      pure (Json.mkObj [("ok", Json.arr (held.map elemToJson).toArray), ("closed", V1Compile.v1Closed held)])
    | .error _ =>
      let a ← (← j.getObjVal? "items").getArr?
      let items ← a.toList.mapM itemOfJson
      match V1Compile.loadedFlow items with
      | .ok es => pure (Json.mkObj [("ok", Json.arr (es.map elemToJson).toArray), ("closed", V1Compile.v1Closed es)])
      | .error m => pure (Json.mkObj [("err", m)])
  | "expand" =>
    let a ← (← j.getObjVal? "stmts").getArr?
    let ss ← a.toList.mapM stmtOfJson
    let p := Expand.expandFlow ss
    pure (Json.mkObj [("prog", Json.arr (p.map primToJson).toArray), ("closed", Closed.closed p)])
  | "pathsafe" =>
    -- the proved path-level checker on a real primitive program
    let a ← (← j.getObjVal? "prog").getArr?
    let p ← a.toList.mapM primOfJson
    let S := Closed.explore p 6000 [Closed.startHead] [Closed.startHead]
    pure (Json.mkObj [("safe", Closed.closedUnder p S), ("states", Json.num (JsonNumber.fromNat S.length))])
  | "recompile" =>
    -- the `k+1`-st compilation of the same parsed flow by the REPAIRED compiler (Models/ExpandInPlace.lean, `ip = false`)
    let a ← (← j.getObjVal? "stmts").getArr?
    let ss ← a.toList.mapM stmtOfJson
    let k ← (← j.getObjVal? "k").getNat?
    let n ← (← j.getObjVal? "slots").getNat?
    let p := (Expand.recompile false ss k (List.replicate n none) 0).1
    pure (Json.mkObj [("prog", Json.arr (p.map primToJson).toArray), ("closed", Closed.closed p)])
  | "names" =>
    -- the discipline on user labels (`userLabelOK`, hypothesis of `expand_labels_avoid_user`) and the reserved stems
    let us ← strListJ (← j.getObjVal? "user")
    pure (Json.mkObj [("ok", Json.arr (us.map fun u => Json.bool (Expand.userLabelOK u)).toArray),
      ("stems", Json.arr (Expand.stems.map Json.str).toArray)])
  | "witness" =>
    -- the witness program of the open finding 2.x:scope-reopened (Theorems/C12.lean)
    pure (Json.mkObj [("prog", Json.arr (Closed.whenElseInLoop.map (primToJsonWith id)).toArray)])
  | _ => throw s!"unknown op C12.{op}"

end NemoVerif.Drive.C12
