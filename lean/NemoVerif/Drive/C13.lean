/-
  Line-protocol driver for C13 (requests {"m": "C13.<op>", ...}).
    layout   {"pieces": [...], "k": n?}  -> {"ok": [tokens]} | {"err": "badChar"|"dedent"|"parenAssert"}
             pieces: ["t", ty, val] | ["s"] (space) | ["b"] (tab) | ["c", text] | ["n", crlf?]
             with "k": the stream of `scaleP k false pieces`
             tokens: ["b", ty, val] | ["n", ind] | ["i", ind] | ["d", ind | null]
    errwrap  {"exc": null | {cls, isException, isValueError, line, column, str}, "version", "path", "lines"}
             -> {"returned": true} | {"raised": cls, "msg": msg};  attr: "missing" | null | int | "other"
    preexpand {"lines": [str]} -> {"ok": [str]}   (`_apply_pre_parsing_expansions`, line lists)
    textseg  {"text": str, "toks": [[offset, ty, len]], "k": n?} -> {"seg": [pieces], "text"?: scaled text} | {"segerr": "badChar"}
             the character-level scanner `TextLayout.seg` with the body-token oracle given as a table of token starts
    imports  {"paths": [[import path, actual | null, items]], "files": [[id, [import paths] | null]], "init": items, "fuel": n}
             items: ["y", [import paths]] (a .yml file) | ["c", id] (a .co file), in walk order
             -> {"ok": {"import_paths", "imported": [[k, actual]], "files": [id], "parsed": n}} | {"err": ["unresolved", p] | ["parse", id] | ["index"]}
                | {"fuel": true}   (`ImportLoop.fromPath`: the loops of RailsConfig.from_path did not end within the fuel)
    numbered {"lines": [str] | "text": str, "k": n?} -> {"ok": [[text, indentation, comment|null]], "tight": bool} | {"err": "IndexError", "tight": bool}
             with "k": the records of the lines after `scaleLine k`; "tight" = every line satisfies `openerTight` (hypothesis of
             `numbered_lines_scale_partial`)
    strip    {"text": str} -> {"out": str, "steps": n, "machine": bool}   (`CommentStrip.strip` = `_remove_source_code_comments`; `machine` = the
             fuelled small-step machine with `steps` = |text| + 1 units of fuel returns the same text: `remove_comments_total`)
-/
import NemoVerif.Drive.Common
import NemoVerif.Models.Layout
import NemoVerif.Models.ErrWrap
import NemoVerif.Models.NumberedLines
import NemoVerif.Models.PreExpand
import NemoVerif.Models.TextLayout
import NemoVerif.Models.ImportLoop
import NemoVerif.Models.CommentStrip

namespace NemoVerif.Drive.C13
open Lean NemoVerif NemoVerif.Drive

def pieceOfJson (j : Json) : Except String Layout.Piece := do
  let a ← j.getArr?
  match a.toList with
  | [.str "t", .str ty, .str v] => pure (.tok ty v)
  | [.str "s"] => pure (.ws .sp)
  | [.str "b"] => pure (.ws .tab)
  | [.str "c", .str s] => pure (.comment s)
  | [.str "n", .bool cr] => pure (.nl cr)
  | _ => throw "bad piece"

/-- The runner splits the driver's output with `str.splitlines()`, which also breaks at U+0085, U+2028, U+2029
    (JSON leaves them unescaped): they travel as private-use code points and the harness maps them back. -/
def safeStr (s : String) : Json :=
  .str (String.ofList (s.toList.map fun ch =>
    if ch = '\u0085' then '\uE085' else if ch = '\u2028' then '\uE028' else if ch = '\u2029' then '\uE029' else ch))

def pieceToJson : Layout.Piece → Json
  | .tok ty v => Json.arr #[.str "t", .str ty, safeStr v]
  | .ws .sp => Json.arr #[.str "s"]
  | .ws .tab => Json.arr #[.str "b"]
  | .comment c => Json.arr #[.str "c", safeStr c]
  | .nl cr => Json.arr #[.str "n", .bool cr]

def indStr (l : List Layout.Ws) : String :=
  String.ofList (l.map fun w => match w with | .sp => ' ' | .tab => '\t')

def tokToJson : Layout.Tok → Json
  | .body ty v => Json.arr #[.str "b", .str ty, safeStr v]
  | .nl i => Json.arr #[.str "n", .str (indStr i)]
  | .indent i => Json.arr #[.str "i", .str (indStr i)]
  | .dedent (some i) => Json.arr #[.str "d", .str (indStr i)]
  | .dedent none => Json.arr #[.str "d", .null]

def errName : Layout.Err → String
  | .badChar => "badChar" | .dedent => "dedent" | .parenAssert => "parenAssert"

def attrOfJson (j : Json) : Except String ErrWrap.Attr :=
  match j with
  | .null => pure .none
  | .str "missing" => pure .missing
  | .str "other" => pure .other
  | .num _ => do let i ← j.getInt?; pure (.int i)
  | _ => throw "bad attr"

def excOfJson (j : Json) : Except String ErrWrap.Exc := do
  let cls ← (← j.getObjVal? "cls").getStr?
  let isE ← (← j.getObjVal? "isException").getBool?
  let isV ← (← j.getObjVal? "isValueError").getBool?
  let line ← attrOfJson (← j.getObjVal? "line")
  let column ← attrOfJson (← j.getObjVal? "column")
  let str ← (← j.getObjVal? "str").getStr?
  pure { cls, isException := isE, isValueError := isV, line, column, str }

def itemOfJson (j : Json) : Except String ImportLoop.Item := do
  let a ← j.getArr?
  match a.toList with
  | [.str "y", ips] => do
    let l ← ips.getArr?
    pure (.yml (← l.toList.mapM fun x => x.getStr?))
  | [.str "c", f] => do pure (.co (← f.getNat?))
  | _ => throw "bad item"

def strArr (l : List String) : Json := Json.arr (l.map Json.str).toArray

def handle (op : String) (j : Json) : Except String Json := do
  match op with
  | "imports" =>
    let pa ← (← j.getObjVal? "paths").getArr?
    let paths ← pa.toList.mapM fun e => do
      let a ← e.getArr?
      match a.toList with
      | [.str p, act, items] => do
        let its ← (← items.getArr?).toList.mapM itemOfJson
        match act with
        | .str actual => pure (p, some (actual, its))
        | _ => pure (p, (none : Option (String × List ImportLoop.Item)))
      | _ => throw "bad path entry"
    let fa ← (← j.getObjVal? "files").getArr?
    let files ← fa.toList.mapM fun e => do
      let a ← e.getArr?
      match a.toList with
      | [f, ips] => do
        let id ← f.getNat?
        match ips with
        | .null => pure (id, (none : Option (List String)))
        | _ => do
          let l ← ips.getArr?
          pure (id, some (← l.toList.mapM fun x => x.getStr?))
      | _ => throw "bad file entry"
    let init ← (← (← j.getObjVal? "init").getArr?).toList.mapM itemOfJson
    let fuel ← (← j.getObjVal? "fuel").getNat?
    let w : ImportLoop.World := { resolve := fun p => (paths.lookup p).join, parse := fun f => (files.lookup f).join }
    -- the hypotheses of `config_load_terminates` on this world (U = the listed import paths) and its fuel bound
    let U := paths.map (·.1)
    let hyp := Json.bool (ImportLoop.closedWorld w U init)
    let bound := Json.num (JsonNumber.fromNat (ImportLoop.total w U (ImportLoop.initSt init) + U.length + 4))
    -- "api": "content" = `RailsConfig.from_content` on the .yml entries and the first .co file of `init`
    let isContent := match j.getObjVal? "api" with | .ok (.str "content") => true | _ => false
    let res := if isContent then
        match ImportLoop.coFiles init with
        | main :: _ => ImportLoop.fromContent w fuel (ImportLoop.ymlPaths init) main
        | [] => some (.error .index)
      else ImportLoop.fromPath w fuel init
    match res with
    | none => pure (Json.mkObj [("fuel", .bool true), ("closed", hyp), ("bound", bound)])
    | some (.error (.unresolved p)) => pure (Json.mkObj [("closed", hyp), ("bound", bound), ("err", Json.arr #[.str "unresolved", .str p])])
    | some (.error (.parse f)) => pure (Json.mkObj [("closed", hyp), ("bound", bound), ("err", Json.arr #[.str "parse", Json.num (JsonNumber.fromNat f)])])
    | some (.error .index) => pure (Json.mkObj [("closed", hyp), ("bound", bound), ("err", Json.arr #[.str "index"])])
    | some (.ok s) => pure (Json.mkObj [("closed", hyp), ("bound", bound), ("ok", Json.mkObj [
        ("import_paths", strArr s.importPaths),
        ("imported", Json.arr (s.imported.map fun (k, a) => Json.arr #[.str k, .str a]).toArray),
        ("files", Json.arr (s.files.map fun f => Json.num (JsonNumber.fromNat f)).toArray),
        ("parsed", Json.num (JsonNumber.fromNat s.parsed))])])
  | "layout" =>
    let a ← (← j.getObjVal? "pieces").getArr?
    let ps ← a.toList.mapM pieceOfJson
    let ps := match j.getObjVal? "k" with
      | .ok kj => match kj.getNat? with
        | .ok k => Layout.scaleP k false ps
        | _ => ps
      | _ => ps
    match Layout.layout Layout.curCfg ps with
    | .ok ts => pure (Json.mkObj [("ok", Json.arr (ts.map tokToJson).toArray)])
    | .error e => pure (Json.mkObj [("err", .str (errName e))])
  | "errwrap" =>
    let ej ← j.getObjVal? "exc"
    let exc ← match ej with
      | .null => pure none
      | _ => do let e ← excOfJson ej; pure (some e)
    let version ← (← j.getObjVal? "version").getStr?
    let path ← (← j.getObjVal? "path").getStr?
    let la ← (← j.getObjVal? "lines").getArr?
    let lines ← la.toList.mapM fun x => x.getStr?
    match ErrWrap.wrapCur exc version path lines with
    | .returned => pure (Json.mkObj [("returned", .bool true)])
    | .raised cls msg => pure (Json.mkObj [("raised", .str cls), ("msg", safeStr msg)])
  | "numbered" =>
    -- either the lines (`content.split("\n")` done by the harness) or the content itself (`"text"`: Lean's own `splitNL`)
    let ls0 ← match j.getObjVal? "text" with
      | .ok tj => do pure (NumberedLines.splitNL (← tj.getStr?).toList)
      | _ => do
        let la ← (← j.getObjVal? "lines").getArr?
        let lines ← la.toList.mapM fun x => x.getStr?
        pure (lines.map String.toList)
    let tight := Json.bool (ls0.all NumberedLines.openerTight)
    let ls := match j.getObjVal? "k" with
      | .ok kj => match kj.getNat? with
        | .ok k => match j.getObjVal? "text" with
          | .ok (.str t) => NumberedLines.splitNL (NumberedLines.scaleContent k t.toList)   -- content level (`numbered_content_scale_partial`)
          | _ => ls0.map (NumberedLines.scaleLine k)
        | _ => ls0
      | _ => ls0
    match NumberedLines.numbered ls with
    | .error .indexError => pure (Json.mkObj [("err", .str "IndexError"), ("tight", tight)])
    | .error .typeError => pure (Json.mkObj [("err", .str "TypeError"), ("tight", tight)])
    | .ok recs => pure (Json.mkObj [("tight", tight), ("ok", Json.arr (recs.map fun r =>
        Json.arr #[safeStr (String.ofList r.text), Json.num (JsonNumber.fromNat r.indentation),
          match r.comment with | none => .null | some c => safeStr (String.ofList c)]).toArray)])
  | "preexpand" =>
    let la ← (← j.getObjVal? "lines").getArr?
    let lines ← la.toList.mapM fun x => x.getStr?
    pure (Json.mkObj [("ok", Json.arr ((PreExpand.preExpand (lines.map String.toList)).map fun l => safeStr (String.ofList l)).toArray)])
  | "textseg" =>
    let text ← (← j.getObjVal? "text").getStr?
    let ta ← (← j.getObjVal? "toks").getArr?
    let table ← ta.toList.mapM fun e => do
      let a ← e.getArr?
      match a.toList with
      | [p, .str ty, n] => do pure ((← p.getNat?), ty, (← n.getNat?))
      | _ => throw "bad token entry"
    -- with "k": the text is first scaled by `TextLayout.scaleText k` (the table then refers to the scaled text, which is returned too)
    let (cs, extra) := match j.getObjVal? "k" with
      | .ok kj => match kj.getNat? with
        | .ok k => let t := TextLayout.scaleText k false text.toList; (t, [("text", safeStr (String.ofList t))])
        | _ => (text.toList, [])
      | _ => (text.toList, [])
    match TextLayout.seg (TextLayout.tableOracle cs.length table) false 0 cs with
    | .error e => pure (Json.mkObj (("segerr", .str (errName e)) :: extra))
    | .ok ps => pure (Json.mkObj (("seg", Json.arr (ps.map pieceToJson).toArray) :: extra))
  | "strip" =>
    let text ← (← j.getObjVal? "text").getStr?
    let cs := text.toList
    let out := CommentStrip.strip cs
    let m := CommentStrip.run (CommentStrip.steps cs) (CommentStrip.init cs) == some out
    pure (Json.mkObj [("out", safeStr (String.ofList out)), ("steps", Json.num (JsonNumber.fromNat (CommentStrip.steps cs))), ("machine", .bool m)])
  | _ => throw s!"unknown op C13.{op}"

end NemoVerif.Drive.C13
