import NemoVerif.Drive.Common
import NemoVerif.Models.Stream
import NemoVerif.Models.StreamAsIs
import NemoVerif.Models.StreamUsage
import NemoVerif.Generated.C18

namespace NemoVerif.Drive.C18
open Lean NemoVerif NemoVerif.Drive NemoVerif.Stream NemoVerif.StreamAsIs NemoVerif.StreamUsage

def strOf (j : Json) : Except String Str := do
  match j with
  | .null => pure []
  | _ => let s ← j.getStr?; pure s.toList

def cfgOfJson (j : Json) : Except String Cfg := do
  let p ← strOf ((j.getObjVal? "prefix").toOption.getD .null)
  let s ← strOf ((j.getObjVal? "suffix").toOption.getD .null)
  let st ← (← (← j.getObjVal? "stop").getArr?).toList.mapM strOf
  pure { pfx := p, suffix := s, stop := st }

def endOfString : String → Except String EndProto
  | "empty" => pure .empty
  | "none" => pure .none
  | "llm_end" => pure .llmEnd
  | "empty+llm_end" => pure .emptyLlmEnd
  | s => throw s!"bad end protocol {s}"

def stToJson (pipe : Bool) (s : St) : Json :=
  Json.mkObj [
    ("items", Json.arr ((if pipe then pipeTarget s.out else s.out).map (fun o => match o with | none => Json.null | some c => Json.str (String.ofList c))).toArray),
    ("completion", Json.str (String.ofList s.completion)),
    ("finished", Json.bool s.finished)]

def itemsJson (pipe : Bool) (out : List (Option Str)) : Json :=
  Json.arr ((if pipe then pipeTarget out else out).map (fun o => match o with | none => Json.null | some c => Json.str (String.ofList c))).toArray

def stAToJson (pipe : Bool) (s : StA) : Json :=
  Json.mkObj [("items", itemsJson pipe s.out), ("completion", Json.str (String.ofList s.completion)),
    ("finished", Json.bool s.finished), ("overflow", Json.bool s.overflow)]

/-- what is observed at the far end: the producer's queue, the unconfigured piped handler's queue, or the queue,
    `completion` and finished flag of a piped handler with its own configuration -/
def farEnd (pc : Option Cfg) (pipe : Bool) (out : List (Option Str)) : List (String × Json) :=
  match pc with
  | some c2 =>
    let t := pipeTargetCfg c2 out
    [("items", itemsJson false t.out), ("tcompletion", Json.str (String.ofList t.completion)), ("tfinished", Json.bool t.finished)]
  | none => [("items", itemsJson pipe out)]

def handle (op : String) (j : Json) : Except String Json := do
  match op with
  | "runMany" =>
    let pc ← match j.getObjVal? "pipe_cfg" with
      | .ok (.null) => pure none
      | .ok pj => do pure (some (← cfgOfJson pj))
      | _ => pure none
    let cfg ← cfgOfJson (← j.getObjVal? "cfg")
    let e ← endOfString (← (← j.getObjVal? "end").getStr?)
    let tok := match j.getObjVal? "tokens" with | .ok (.bool b) => b | _ => false
    let pipe := match j.getObjVal? "pipe" with | .ok (.bool b) => b | _ => false
    let css ← (← (← j.getObjVal? "chunkings").getArr?).toList.mapM fun cj => do
      (← cj.getArr?).toList.mapM strOf
    let asis := match j.getObjVal? "asis" with | .ok (.bool b) => b | _ => false
    if asis then
      pure (Json.arr (css.map (fun cs =>
        let s := runA cfg 64 (if tok then viaTokens cs else cs) e
        Json.mkObj (farEnd pc pipe s.out ++ [("completion", Json.str (String.ofList s.completion)),
          ("finished", Json.bool s.finished), ("overflow", Json.bool s.overflow)]))).toArray)
    else
      pure (Json.arr (css.map (fun cs =>
        let s := run cfg (if tok then viaTokens cs else cs) e
        Json.mkObj (farEnd pc pipe s.out ++ [("completion", Json.str (String.ofList s.completion)),
          ("finished", Json.bool s.finished)]))).toArray)
  | "spec" =>
    let cfg ← cfgOfJson (← j.getObjVal? "cfg")
    let e ← endOfString (← (← j.getObjVal? "end").getStr?)
    let t ← strOf (← j.getObjVal? "text")
    pure (Json.str (String.ofList (spec cfg t e)))
  | "usage" =>
    -- {"cfg", "k", "variant": "repaired"|"tree", "direct": bool, "schedules": [[chunks, a, b, endEarly], ...]}
    let cfg ← cfgOfJson (← j.getObjVal? "cfg")
    let k ← (← j.getObjVal? "k").getNat?
    let site : Site := { pfx := cfg.pfx, suffix := cfg.suffix, stop := cfg.stop, k := k }
    let tree := match j.getObjVal? "variant" with | .ok (.str "tree") => true | _ => false
    let fx := if tree then NemoVerif.Generated.C18.handlerBuffersFirst else true
    let sf := if tree then NemoVerif.Generated.C18.stopBeforeDisable else true
    let direct := match j.getObjVal? "direct" with | .ok (.bool b) => b | _ => false
    let scheds ← (← (← j.getObjVal? "schedules").getArr?).toList.mapM fun sj => do
      let a ← sj.getArr?
      if h : a.size = 4 then do
        let cs ← (← a[0].getArr?).toList.mapM strOf
        let x ← a[1].getNat?; let y ← a[2].getNat?; let ee ← a[3].getNat?
        pure (cs, x, y, ee)
      else throw "bad schedule"
    pure (Json.arr (scheds.map (fun (cs, a, b, ee) =>
      if direct then
        let h := execOps fx (directOps site cs (String.toList "<again>")) H0
        Json.mkObj [("items", itemsJson false h.st.out), ("completion", Json.str (String.ofList h.st.completion)),
          ("finished", Json.bool h.st.finished)]
      else
        let h := usageRun fx sf site cs a b ee
        Json.mkObj [("items", Json.arr ((consumerItems h).map (fun o => match o with | none => Json.null | some c => Json.str (String.ofList c))).toArray),
          ("completion", Json.str (String.ofList h.st.completion)), ("finished", Json.bool h.st.finished),
          ("event", Json.bool (eventSetAt fx site cs a)),
          ("returned", Json.str (String.ofList (waiterReturn fx site cs a)))])).toArray)
  | "topk" =>
    -- {"k", "text"}: the line-by-line code and the scans on one buffer
    let k ← (← j.getObjVal? "k").getNat?
    let t ← strOf (← j.getObjVal? "text")
    pure (Json.mkObj [("returned", Json.str (String.ofList (returned k t))), ("rest", Json.str (String.ofList (restBuffer k t))),
      ("lines", Json.num (qualLines t)), ("scan_rest", Json.str (String.ofList ((dropTopK k none t).getD []))),
      ("scan_lines", Json.num (qualCount none t))])
  | _ => throw s!"unknown op C18.{op}"

end NemoVerif.Drive.C18
