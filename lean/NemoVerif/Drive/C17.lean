import NemoVerif.Drive.Common
import NemoVerif.Models.LlmText
import NemoVerif.Models.LlmGen
import NemoVerif.Models.LlmAssemble
import NemoVerif.Generated.C17Assembly

namespace NemoVerif.Drive.C17
open Lean NemoVerif NemoVerif.Drive NemoVerif.Py NemoVerif.Py.Str NemoVerif.LlmText

/-- strings travel back as printable ASCII: every other character (and the backslash) as `\u{hex}` — the runner
    splits the driver's output with `str.splitlines()`, which also breaks at U+0085 / U+2028 / U+2029 -/
def encChar (c : Char) : List Char :=
  if 32 ≤ c.toNat && c.toNat < 127 && c != '\\' then [c]
  else "\\u{".toList ++ Nat.toDigits 16 c.toNat ++ ['}']

def js (s : Str) : Json := .str (String.ofList (s.flatMap encChar))

def errName : PyErr → String
  | .indexError => "IndexError"
  | .attributeError => "AttributeError"
  | .valueError => "ValueError"
  | .typeError => "TypeError"
  | .keyError => "KeyError"

def jex {α} (f : α → Json) : Except PyErr α → Json
  | .error e => Json.mkObj [("err", .str (errName e))]
  | .ok v => Json.mkObj [("ok", f v)]

def jopt {α} (f : α → Json) : Option α → Json
  | none => .null
  | some v => f v

def jlist (l : List Str) : Json := Json.arr (l.map js).toArray

def parserOf : String → Except String Parser
  | "none" => pure .none
  | "user_intent" => pure .userIntent
  | "bot_intent" => pure .botIntent
  | "bot_message" => pure .botMessage
  | "verbose_v1" => pure .verboseV1
  | s => throw s!"bad parser {s}"

def nat (j : Json) (k : String) (d : Nat) : Nat :=
  match j.getObjVal? k with
  | .ok v => (v.getNat?).toOption.getD d
  | _ => d

def str (j : Json) (k : String) : Except String Str := do
  let v ← j.getObjVal? k
  let s ← v.getStr?
  pure s.toList

/-- a value returned by `ast.literal_eval`, sent by the harness as a tree (`lit_tree_of`); atoms carry no payload except
    `int`: `big` = its decimal representation has more than 4300 digits (what `json.dumps` refuses) -/
partial def litOfJson (j : Json) : Except String Lit := do
  let k ← (← j.getObjVal? "k").getStr?
  let xs : Except String (List Lit) := do
    let a ← (← j.getObjVal? "xs").getArr?
    a.toList.mapM litOfJson
  match k with
  | "none" => pure .none
  | "bool" => pure (.bool true)
  | "int" => pure (.int (if (j.getObjVal? "big").toOption == some (Json.bool true) then Int.ofNat Lit.intStrLimit else 0))
  | "float" => pure (.float [])
  | "str" => pure (.str [])
  | "bytes" => pure (.bytes [])
  | "complex" => pure (.complex [])
  | "ellipsis" => pure .ellipsis
  | "list" => return .list (← xs)
  | "tuple" => return .tuple (← xs)
  | "set" => return .set (← xs)
  | "dict" => do
    let a ← (← j.getObjVal? "kvs").getArr?
    let kvs ← a.toList.mapM fun kv => do
      let p ← kv.getArr?
      match p.toList with
      | [a, b] => return (← litOfJson a, ← litOfJson b)
      | _ => throw "bad key/value pair"
    return .dict kvs
  | s => throw s!"not a literal_eval value: {s}"

def singleCallJson (r : SingleCall) : Json :=
  Json.mkObj [("user_intent", js r.userIntent), ("bot_intent", js r.botIntent), ("bot_message", js r.botMessage)]

/-- every helper / post-processing function on one string -/
def allOf (s : Str) (k : Nat) (p : Parser) : Json :=
  Json.mkObj [
    ("first_line", jopt js (getFirstNonemptyLine s)),
    ("top_k", jex (jopt jlist) (getTopKNonemptyLines s k)),
    ("strip_quotes", jex js (stripQuotes s)),
    ("multiline", jex js (getMultilineResponse s)),
    ("p_user_intent", js (userIntentParser s)),
    ("p_bot_intent", js (botIntentParser s)),
    ("p_bot_message", js (botMessageParser s)),
    ("p_verbose", js (verboseV1Parser s)),
    ("post_user_intent", js (postUserIntent p s)),
    ("post_next_step", jex js (postNextStep p s)),
    ("post_general", js (postGeneral s)),
    ("post_bot_message", jex js (postBotMessage p s)),
    ("post_value", jex js (postValue p s)),
    ("post_single_call", jex singleCallJson (postSingleCall p s)),
    ("clean", js (cleanUtterance s)),
    ("rm_leading", js (removeLeadingEmptyLines s)),
    ("first_user_intent", jopt js (getFirstUserIntent (splitLines s))),
    ("first_bot_intent", jopt js (getFirstBotIntent (splitLines s))),
    ("first_bot_action", js (getFirstBotAction (splitLines s))),
    ("rm_ident", js (removeIdentifiers s)),
    ("splitlines", jlist (splitLines s)),
    ("strip", js (strip s)),
    ("escape", js (escapeFlowName s)),
    ("escape_u", js (escapeFlowNameU s)),
    ("indent", js (indent (lit "  ") s)),
    ("splitlines_keep", jlist (splitLinesKeep s)),
    ("post_user_intent_v2", js (postUserIntentV2 p s)),
    ("start_action", jopt js (LlmAssemble.startActionName s))
  ]

def ctxOfJson (j : Json) : Except String (List (Str × CtxVal)) := do
  let a ← j.getArr?
  a.toList.mapM fun e => do
    let p ← e.getArr?
    if h : p.size = 2 then do
      let k ← p[0].getStr?
      match p[1] with
      | .str s => pure (k.toList, CtxVal.str s.toList)
      | .bool b => pure (k.toList, CtxVal.other b)
      | _ => throw "bad ctx value"
    else throw "bad ctx entry"

def botMessagesOfJson (j : Json) : Except String (List (Str × List Str)) := do
  let a ← j.getArr?
  a.toList.mapM fun e => do
    let p ← e.getArr?
    if h : p.size = 2 then do
      let k ← p[0].getStr?
      let ms ← p[1].getArr?
      let ms ← ms.toList.mapM fun m => do let s ← m.getStr?; pure s.toList
      pure (k.toList, ms)
    else throw "bad bot_messages entry"

def srcName : Src → String
  | .predefined => "predefined" | .contextVar => "context" | .llm => "llm"

def botOutJson (o : BotMsgOut) : Json :=
  Json.mkObj [("rendered", jlist o.rendered), ("text", js o.text), ("src", .str (srcName o.src))]

def flowOutJson (o : FlowOut) : Json := Json.mkObj [("name", js o.name), ("body", js o.body)]

def tableOf (j : Json) : Except String (Str → Bool) := do
  let a ← j.getArr?
  let tbl ← a.toList.mapM fun e => do
    let p ← e.getArr?
    if h : p.size = 2 then do
      let k ← p[0].getStr?; let b ← p[1].getBool?; pure (k.toList, b)
    else throw "bad table entry"
  pure fun s => match lookup s tbl with
    | some b => b
    | none => false

def evJson : Ev → Json
  | .botIntent i => Json.mkObj [("type", "BotIntent"), ("intent", js i)]
  | .startFlow b => Json.mkObj [("type", "start_flow"), ("flow_body", js b)]
  | .listen => Json.mkObj [("type", "Listen")]
  | .step n => Json.mkObj [("type", "step"), ("n", Json.num (JsonNumber.fromNat n))]
  | .hidePrevTurn => Json.mkObj [("type", "hide_prev_turn")]


/-- an event of the assembly model from JSON: {"type", "script"?, "final_script"?, "action_uid"?, "keys": [..]} -/
def asmEvOfJson (i : Nat) (j : Json) : Except String LlmAssemble.Ev := do
  let t ← str j "type"
  let o := fun (k : String) => match j.getObjVal? k with
    | .ok (.str x) => some x.toList
    | _ => none
  let keys : List Str := match j.getObjVal? "keys" with
    | .ok (.arr a) => a.toList.filterMap fun e => match e with | .str x => some x.toList | _ => none
    | _ => []
  pure { id := i, type := t, script := o "script", finalScript := o "final_script", actionUid := o "action_uid", keys := keys }

def asmEvsOfJson (j : Json) : Except String (List LlmAssemble.Ev) := do
  let a ← (← j.getObjVal? "events").getArr?
  let rec go (i : Nat) : List Json → Except String (List LlmAssemble.Ev)
    | [] => pure []
    | x :: xs => do
      let e ← asmEvOfJson i x
      let rest ← go (i + 1) xs
      pure (e :: rest)
  go 0 a.toList

def handle (op : String) (j : Json) : Except String Json := do
  match op with
  | "asm" =>
    -- the response assembly of generate_async on a list of new events (spec regenerated from llmrails.py)
    let evs ← asmEvsOfJson j
    let sp := NemoVerif.Generated.C17Assembly.spec
    if (optStr j "v").getD "1.0" == "2.x" then
      pure (jex (fun (m : LlmAssemble.Msg2) => Json.mkObj [
        ("content", js m.content),
        ("tool_calls", Json.arr (m.toolCalls.map fun t => Json.mkObj [("id", js t.id), ("name", js t.name), ("args", jlist t.args)]).toArray),
        ("events", Json.arr (m.events.map fun e => Json.num (JsonNumber.fromNat e.id)).toArray)]) (LlmAssemble.assembleResponsesV2 sp evs))
    else
      pure (jex (fun (m : LlmAssemble.Msg) => match m with
        | .assistant c => Json.mkObj [("role", "assistant"), ("content", js c)]
        | .exception e => Json.mkObj [("role", "exception"), ("index", Json.num (JsonNumber.fromNat e.id))]) (LlmAssemble.assembleResponses sp evs))
  | "gen" =>
    let s ← str j "s"
    let p ← parserOf ((optStr j "parser").getD "none")
    let uuid ← str j "uuid"
    let name ← str j "name"
    let lpl ← str j "last_prompt_line"
    let ia := userIntentAndBotAction escapeFlowNameU p s
    pure (Json.mkObj [
      ("from_instructions", jex flowOutJson (flowFromInstructions name s)),
      ("from_name", jex js (flowFromName name s)),
      ("continuation", jex flowOutJson (flowContinuation escapeFlowNameU uuid s)),
      ("intent_and_action", Json.mkObj [("user_intent", js ia.userIntent), ("bot_intent", jopt js ia.botIntent), ("bot_action", js ia.botAction)]),
      ("from_nld", jex flowOutJson (flowFromNld p uuid s)),
      ("value_v2", jex js (postValueV2 p lpl s)),
      -- the wrapper around literal_eval, driven with literal_eval's OBSERVED behaviour ("raised" | "plain" | "nonplain")
      ("value_v2_wrapper",
        let lk := (optStr j "lit").getD "raised"
        -- the literal `literal_eval` returned on this text, as a tree (absent: the observed class only)
        let tree : Option Lit := match j.getObjVal? "lit_tree" with
          | .ok t => (litOfJson t).toOption
          | _ => none
        let le : Str → Except Unit Lit := fun _ =>
          if lk == "raised" then .error () else
          match tree with
          | some x => .ok x
          | none => if lk == "plain" then .ok (.str []) else .ok .ellipsis
        let show_ := fun (r : Except GenValueErr Lit) => match r with
          | .ok _ => "ok" | .error (.invalidLlmResponse _) => "invalid" | .error (.py _) => "py"
        Json.mkObj [("as_is", Json.str (show_ (generateValueV2 le p lpl s))), ("repaired", Json.str (show_ (generateValueV2R le p lpl s))),
          ("storable_repair", Json.str (show_ (generateValueV2S le p lpl s))),
          ("is_plain", match tree with | some x => Json.bool x.isPlain | none => Json.null),
          ("storable", match tree with | some x => Json.bool x.storable | none => Json.null)]),
      ("user_intent_v2", js (orUnknownIntent (escapeFlowNameU (stripChars [' '] (match (match getFirstNonemptyLine (p.apply s) with
          | some u => if !u.isEmpty && contains [':'] u then (match getFirstUserIntent [u] with | some t => if !t.isEmpty then some t else none | none => none) else some u
          | none => none) with | none => userWasUnclear | some u => u)))))
    ])
  | "ms" =>
    let s ← str j "s"
    let p ← parserOf ((optStr j "parser").getD "none")
    let tbl ← tableOf (← j.getObjVal? "parses")
    pure (evJson (multiStepNextStep tbl p s))
  | "genloop" =>
    -- the `generate_events` loop driven by a step TABLE keyed by len(events) - base (the real `_compute_next_steps` is
    -- replaced by the same table); outcome "raise" or a list of event types
    let base := nat j "base" 1
    let outcomeOf : Json → Except String (Except Unit (List Ev)) := fun o =>
      match o with
      | .str _ => pure (.error ())
      | .arr a => do
        let evs ← a.toList.mapM fun e => do
          let t ← e.getStr?
          pure (if t == "Listen" then Ev.listen else if t == "hide_prev_turn" then Ev.hidePrevTurn else Ev.step 0)
        pure (.ok evs)
      | _ => throw "bad outcome"
    let dflt ← outcomeOf (← j.getObjVal? "default")
    let rows ← (← (← j.getObjVal? "table").getArr?).toList.mapM fun r => do
      let p ← r.getArr?
      if h : p.size = 2 then do
        let k ← p[0].getNat?; let o ← outcomeOf p[1]; pure (k, o)
      else throw "bad table row"
    let step : List Ev → Except Unit (List Ev) := fun events =>
      match lastEv events with
      | some .hidePrevTurn => .ok [.listen]
      | _ => match rows.find? (fun r => r.1 == events.length - base) with
        | some r => r.2
        | none => dflt
    let stepR : List Ev → List Ev := fun events => match step events with | .ok l => l | .error _ => internalErrorEvents
    let init := List.replicate base (Ev.step 1)
    let tyOf : Ev → String := fun e => match e with
      | .listen => "Listen" | .hidePrevTurn => "hide_prev_turn" | .botIntent _ => "BotIntent" | _ => "X"
    let evs := fun (l : List Ev) => Json.arr (l.map fun e => Json.str (tyOf e)).toArray
    let asIs := match generateEvents step init with
      | .ok l => Json.mkObj [("res", "ok"), ("events", evs l)]
      | .error .tooManyEvents => Json.mkObj [("res", "too_many")]
      | .error (.raised _) => Json.mkObj [("res", "raised")]
    pure (Json.mkObj [("as_is", asIs), ("repaired", Json.mkObj [("res", "ok"), ("events", evs (genLoopR stepR 102 init []))])])
  | "msflow" =>
    let fid ← str j "flow_id"
    let body ← str j "body"
    -- the parser's OBSERVED behaviour on the dynamic source: "flows": [ids] when it returned, absent when it raised;
    -- "next_raised": compute_next_steps raised afterwards
    let parse : ParseOracle Unit := match j.getObjVal? "flows" with
      | .ok (.arr a) => fun _ => .ok (a.toList.map fun e => match e.getStr? with | .ok x => x.toList | _ => [])
      | _ => fun _ => .error ()
    let nextRaised := match j.getObjVal? "next_raised" with | .ok (.bool b) => b | _ => false
    let ns : Str → Except Unit (List Ev) := if nextRaised then fun _ => .error () else fun _ => .ok [.step 0]
    let res : String := match processStartFlowE parse ns fid body with
      | .error _ => "raised"
      | .ok [.botIntent _] => "fallback"
      | .ok _ => "next"
    pure (Json.mkObj [("src", js (dynamicFlowSource fid body)), ("res", Json.str res)])
  | "all" =>
    let s ← str j "s"
    let p ← parserOf ((optStr j "parser").getD "none")
    pure (allOf s (nat j "k" 2) p)
  | "ws" =>
    pure (Json.mkObj [("ws", Json.arr (wsTable.map fun n => Json.num (JsonNumber.fromNat n)).toArray),
                      ("lb", Json.arr (lineBreakTable.map fun n => Json.num (JsonNumber.fromNat n)).toArray)])
  | "botmsg" =>
    -- render table: [[template, rendered], …] observed on the implementation (the renderer is opaque)
    let bms ← botMessagesOfJson (← j.getObjVal? "bot_messages")
    let ctx ← ctxOfJson (← j.getObjVal? "ctx")
    let tbl ← botMessagesOfJson (Json.arr ((← (← j.getObjVal? "render").getArr?).map fun e =>
      match e with
      | .arr p => if h : p.size = 2 then Json.arr #[p[0], Json.arr #[p[1]]] else e
      | _ => e))
    let render : Str → Str := fun m => match lookup m tbl with
      | some [r] => r
      | _ => lit "<unrendered>" ++ m
    let bi ← str j "bot_intent"
    let p ← parserOf ((optStr j "parser").getD "none")
    let out ← str j "llm"
    let sc : Option (Str × Str) := match j.getObjVal? "sc" with
      | .ok (.arr a) => if h : a.size = 2 then (match a[0], a[1] with | .str x, .str y => some (x.toList, y.toList) | _, _ => none) else none
      | _ => none
    match sc with
    | some _ => pure (jex botOutJson (generateBotMessageSC render bms ctx bi (nat j "pick" 0) sc (postBotMessageRaw p out)))
    | none => pure (jex botOutJson (generateBotMessage render bms ctx bi (nat j "pick" 0) (postBotMessageRaw p out)))
  | _ => throw s!"unknown op C17.{op}"

end NemoVerif.Drive.C17
