import NemoVerif.Drive.Common
import NemoVerif.Models.Lifetime
import NemoVerif.Models.LifetimeOps
import NemoVerif.Models.LifetimeV
import NemoVerif.Models.LifetimeAdm

namespace NemoVerif.Drive.C06
open Lean NemoVerif NemoVerif.Drive NemoVerif.Lifetime

def fstatusOf : String → Except String FStatus
  | "WAITING" => pure .waiting | "STARTING" => pure .starting | "STARTED" => pure .started
  | "STOPPING" => pure .stopping | "STOPPED" => pure .stopped | "FINISHED" => pure .finished
  | s => throw s!"bad flow status {s}"

def fstatusStr : FStatus → String
  | .waiting => "WAITING" | .starting => "STARTING" | .started => "STARTED"
  | .stopping => "STOPPING" | .stopped => "STOPPED" | .finished => "FINISHED"

def astatusOf : String → Except String AStatus
  | "INITIALIZED" => pure .initialized | "STARTING" => pure .starting | "STARTED" => pure .started
  | "STOPPING" => pure .stopping | "FINISHED" => pure .finished
  | s => throw s!"bad action status {s}"

def astatusStr : AStatus → String
  | .initialized => "INITIALIZED" | .starting => "STARTING" | .started => "STARTED"
  | .stopping => "STOPPING" | .finished => "FINISHED"

def natList (j : Json) : Except String (List Nat) := do
  let a ← j.getArr?
  a.toList.mapM fun e => e.getNat?

def getNat (j : Json) (k : String) : Except String Nat := do (← j.getObjVal? k).getNat?
def getBool (j : Json) (k : String) : Except String Bool := do (← j.getObjVal? k).getBool?
def getStr (j : Json) (k : String) : Except String String := do (← j.getObjVal? k).getStr?

def flowOfJson (j : Json) : Except String (Nat × Flow) := do
  let uid ← getNat j "uid"
  let parent ← match j.getObjVal? "parent" with
    | .ok (.null) => pure none
    | .ok v => do let n ← v.getNat?; pure (some n)
    | .error _ => pure none
  let scopesJ ← (← j.getObjVal? "scopes").getArr?
  let scopes ← scopesJ.toList.mapM fun e => do
    let p ← e.getArr?
    if h : p.size = 3 then do
      let n ← p[0].getNat?; let fl ← natList p[1]; let al ← natList p[2]; pure (n, fl, al)
    else throw "bad scope"
  pure (uid, {
    flowId := ← getNat j "fid", parent, children := ← natList (← j.getObjVal? "children"),
    status := ← fstatusOf (← getStr j "status"), activated := ← getNat j "activated", nis := ← getBool j "nis",
    actionUids := ← natList (← j.getObjVal? "actions"), scopes, heads := ← getNat j "heads", isMain := ← getBool j "main" })

def actionOfJson (j : Json) : Except String (Nat × Action) := do
  let uid ← getNat j "uid"
  let st ← astatusOf (← getStr j "status")
  let c ← (← j.getObjVal? "count").getInt?
  pure (uid, { status := st, count := c })

structure Loaded where
  s : State
  fuids : List Nat
  auids : List Nat

def lookupIn {α} (l : List (Nat × α)) (u : Nat) : Option α := (l.find? (·.1 == u)).map (·.2)

def stateOfJson (j : Json) : Except String Loaded := do
  let fl ← (← (← j.getObjVal? "flows").getArr?).toList.mapM flowOfJson
  let al ← (← (← j.getObjVal? "actions").getArr?).toList.mapM actionOfJson
  let nq ← getNat j "nq"
  let nout ← getNat j "nout"
  pure { s := { flows := lookupIn fl, actions := lookupIn al, order := fl.map (·.1),
                queue := (List.range nq).map IEv.old, out := (List.range nout).map OEv.old },
         fuids := fl.map (·.1), auids := al.map (·.1) }

def num (n : Nat) : Json := Json.num (JsonNumber.fromNat n)
def nums (l : List Nat) : Json := Json.arr (l.map num).toArray

def flowToJson (u : Nat) (f : Flow) : Json := Json.mkObj [
  ("uid", num u), ("fid", num f.flowId), ("parent", match f.parent with | none => .null | some p => num p),
  ("children", nums f.children), ("status", .str (fstatusStr f.status)), ("activated", num f.activated),
  ("nis", .bool f.nis), ("actions", nums f.actionUids),
  ("scopes", Json.arr (f.scopes.map fun (n, fl, al) => Json.arr #[num n, nums fl, nums al]).toArray),
  ("heads", num f.heads), ("main", .bool f.isMain)]

def ievToJson : IEv → Json
  | .old i => Json.mkObj [("k", "old"), ("i", num i)]
  | .flowFailed u => Json.mkObj [("k", "FlowFailed"), ("uid", num u)]
  | .flowFinished u => Json.mkObj [("k", "FlowFinished"), ("uid", num u)]
  | .flowStarted u => Json.mkObj [("k", "FlowStarted"), ("uid", num u)]
  | .startFlow fid src act inst => Json.mkObj [("k", "StartFlow"), ("fid", num fid), ("source", num src), ("activated", num act), ("inst", num inst)]

def oevToJson : OEv → Json
  | .old i => Json.mkObj [("k", "old"), ("i", num i)]
  | .stop a => Json.mkObj [("k", "Stop"), ("action", num a)]
  | .start a => Json.mkObj [("k", "Start"), ("action", num a)]

def errStr : Err → String
  | .key => "KeyError" | .value => "ValueError" | .runtime => "ColangRuntimeError" | .fuel => "fuel"

def stateToJson (l : Loaded) (s : State) (extra : List (String × Json) := []) : Json :=
  Json.mkObj (([
    ("res", Json.str "ok"),
    ("flows", Json.arr (l.fuids.filterMap fun u => (s.flows u).map (flowToJson u)).toArray),
    ("actions", Json.arr (l.auids.filterMap fun a => (s.actions a).map fun x =>
        Json.mkObj [("uid", num a), ("status", .str (astatusStr x.status)), ("count", Json.num (JsonNumber.fromInt x.count))]).toArray),
    ("queue", Json.arr (s.queue.map ievToJson).toArray),
    ("out", Json.arr (s.out.map oevToJson).toArray)] : List (String × Json)) ++ extra)

def resToJson (l : Loaded) : Except Err State → Json
  | .ok s => stateToJson l s
  | .error e => Json.mkObj [("res", "err"), ("kind", .str (errStr e))]

def scopesOfJson (j : Json) : Except String (List (Nat × List Nat × List Nat)) := do
  let a ← j.getArr?
  a.toList.mapM fun e => do
    let p ← e.getArr?
    if h : p.size = 3 then do
      let n ← p[0].getNat?; let fl ← natList p[1]; let al ← natList p[2]; pure (n, fl, al)
    else throw "bad scope"

def iopOfJson (j : Json) : Except String IOp := do
  match ← getStr j "op" with
  | "abort" => pure (.abort (← getNat j "fuel") (← getNat j "uid") (← getBool j "d"))
  | "finish" => pure (.finish (← getNat j "fuel") (← getNat j "uid") (← getBool j "d"))
  | "endscope" => pure (.endScope (← getNat j "fuel") (← getNat j "uid") (← getNat j "name"))
  | "startChild" => pure (.startChild (← getNat j "c") (← getNat j "fid") (← getNat j "p") (← getNat j "k"))
  | "reactivate" => pure (.reactivate (← getNat j "fid") (← getBool j "known") (← getBool j "act") (← getBool j "hasInst") (← getNat j "source") (← natList (← j.getObjVal? "pm")))
  | "status" => pure (.status (← getNat j "uid") (← fstatusOf (← getStr j "status")))
  | "newAction" => pure (.newAction (← getNat j "uid") (← getNat j "a"))
  | "startAction" => pure (.startAction (← getNat j "a"))
  | "coWin" => pure (.coWin (← getNat j "loser") (← getNat j "a") (← getNat j "b"))
  | "event" => pure (.event { uid := ← getNat j "auid", isAction := ← getBool j "isAction", started := ← getBool j "started",
                              updated := ← getBool j "updated", finished := ← getBool j "finished", start := ← getBool j "start", stop := ← getBool j "stop" })
  | "label" => pure (.label (← getNat j "uid"))
  | "noRestart" => pure (.noRestart (← getNat j "uid"))
  | "frame" => pure (.frame (← getNat j "uid") (← getNat j "heads") (← scopesOfJson (← j.getObjVal? "scopes")))
  | s => throw s!"bad op {s}"

def handle (op : String) (j : Json) : Except String Json := do
  match op with
  | "ops" =>
    let l ← stateOfJson (← j.getObjVal? "st")
    let ops ← (← (← j.getObjVal? "ops").getArr?).toList.mapM iopOfJson
    let extraF ← natList (← j.getObjVal? "newflows")
    let extraA ← natList (← j.getObjVal? "newactions")
    let s := ops.foldl applyOp l.s
    -- `adm`: hypothesis of `activation_count_is_live_activators_partial` on this stretch of the real trace;
    -- `act_pre` / `act_post`: its conclusion (`actCountB`) on the real state before / the replayed state after
    pure (stateToJson { l with fuids := l.fuids ++ extraF, auids := l.auids ++ extraA } s
      [("adm", .bool (admFrom l.s ops)), ("act_pre", .bool (actCountB l.s)), ("act_post", .bool (actCountB s))])
  -- abort / finish / endscope: the answer is the REPAIRED recursion (Models/LifetimeV.lean, visited set);
  -- the answer of the as-is recursion travels along under "asis" (the harness checks that it is the same whenever
  -- it is not `fuel`, i.e. whenever the as-is Python recursion terminates)
  | "abort" =>
    let l ← stateOfJson (← j.getObjVal? "st")
    let n ← getNat j "fuel"; let u ← getNat j "uid"; let d ← getBool j "d"
    pure ((resToJson l (abortTopV n l.s u d)).setObjVal! "asis" (resToJson l (abortFlow n l.s u d)))
  | "finish" =>
    let l ← stateOfJson (← j.getObjVal? "st")
    let n ← getNat j "fuel"; let u ← getNat j "uid"; let d ← getBool j "d"
    pure ((resToJson l (finishFlowV n l.s u d)).setObjVal! "asis" (resToJson l (finishFlow n l.s u d)))
  | "endscope" =>
    let l ← stateOfJson (← j.getObjVal? "st")
    let n ← getNat j "fuel"; let u ← getNat j "uid"; let nm ← getNat j "name"
    pure ((resToJson l (endScopeV n l.s u nm)).setObjVal! "asis" (resToJson l (endScope n l.s u nm)))
  | "update" =>
    let l ← stateOfJson (← j.getObjVal? "st")
    let e : AEv := { uid := ← getNat j "auid", isAction := ← getBool j "isAction", started := ← getBool j "started",
                     updated := ← getBool j "updated", finished := ← getBool j "finished", start := ← getBool j "start", stop := ← getBool j "stop" }
    pure (stateToJson l (updateActionStatusByEvent l.s e))
  | "startflow" =>
    let l ← stateOfJson (← j.getObjVal? "st")
    let pm ← natList (← j.getObjVal? "pm")
    match processStartFlow l.s (← getNat j "fid") (← getBool j "known") (← getBool j "act") (← getBool j "hasInst") (← getNat j "source") (fun u => pm.contains u) with
    | .error e => pure (Json.mkObj [("res", "err"), ("kind", .str (errStr e))])
    | .ok (s, r) =>
      let rj := match r with
        | .ignored => Json.mkObj [("r", "ignored")]
        | .reused i => Json.mkObj [("r", "reused"), ("inst", num i)]
        | .create src => Json.mkObj [("r", "create"), ("source", num src)]
      pure (stateToJson l s [("start", rj), ("act_pre", .bool (actCountB l.s)), ("act_post", .bool (actCountB s))])
  | "label" =>
    let l ← stateOfJson (← j.getObjVal? "st")
    pure (resToJson l (labelRestart l.s (← getNat j "uid")))
  | "enddecision" =>
    let st ← fstatusOf (← getStr j "status")
    let (st', startedEv, act) := endDecision st (← getNat j "activated")
    pure (Json.mkObj [("status", .str (fstatusStr st')), ("started_event", .bool startedEv),
      ("act", .str (match act with | .finish => "finish" | .abort => "abort" | .park => "park"))])
  | _ => throw s!"unknown op C06.{op}"

end NemoVerif.Drive.C06
