import NemoVerif.Drive.Common
import NemoVerif.Models.CoreIndex
import NemoVerif.Drive.CoreVMJson
import NemoVerif.Models.RefName

namespace NemoVerif.Drive.C09
open Lean NemoVerif NemoVerif.Drive NemoVerif.CoreIndex

def optStrOfJson : Json → Except String (Option String)
  | .null => pure none
  | .str s => pure (some s)
  | _ => throw "bad optional string"

def headStatusOfString : String → Except String HeadStatus
  | "active" => pure .active | "inactive" => pure .inactive | "merging" => pure .merging
  | s => throw s!"bad head status {s}"

def flowStatusOfString : String → Except String FlowStatus
  | "waiting" => pure .waiting | "starting" => pure .starting | "started" => pure .started
  | "stopping" => pure .stopping | "stopped" => pure .stopped | "finished" => pure .finished
  | s => throw s!"bad flow status {s}"

def headStatusToString : HeadStatus → String
  | .active => "active" | .inactive => "inactive" | .merging => "merging"

def flowStatusToString : FlowStatus → String
  | .waiting => "waiting" | .starting => "starting" | .started => "started"
  | .stopping => "stopping" | .stopped => "stopped" | .finished => "finished"

/-- operations travel as JSON arrays: `["setPos", f, h, p, nm]` … -/
def opOfJson (j : Json) : Except String Op := do
  let a ← j.getArr?
  let str (i : Nat) : Except String String := (a.getD i .null).getStr?
  let nat (i : Nat) : Except String Nat := (a.getD i .null).getNat?
  let ostr (i : Nat) : Except String (Option String) := optStrOfJson (a.getD i .null)
  match ← str 0 with
  | "addInst" => pure (.addInst (← str 1) (← str 2) (← ostr 3))
  | "setPos" => pure (.setPos (← str 1) (← str 2) (← nat 3) (← ostr 4))
  | "setStatus" => pure (.setStatus (← str 1) (← str 2) (← headStatusOfString (← str 3)) (← ostr 4))
  | "fork" => pure (.fork (← str 1) (← str 2) (← ostr 3) (← nat 4) (← ostr 5))
  | "delHead" => pure (.delHead (← str 1) (← str 2))
  | "dropHeads" => pure (.dropHeads (← str 1))
  | "rmHead" => pure (.rmHead (← str 1) (← str 2))
  | "clearHeads" => pure (.clearHeads (← str 1))
  | "mainRestart" => pure (.mainRestart (← str 1) (← str 2) (← ostr 3))
  | "setFlowStatus" => pure (.setFlowStatus (← str 1) (← flowStatusOfString (← str 2)))
  | "removeInst" => pure (.removeInst (← str 1))
  | s => throw s!"unknown index op {s}"

def keyToJson (k : Key) : Json := Json.arr #[.str k.1, .str k.2]

def entriesToJson (es : List (String × Key)) : Json :=
  Json.arr (es.map fun e => Json.arr #[.str e.1, keyToJson e.2]).toArray

def stateToJson (s : IState) (bad : List Nat) : Json :=
  Json.mkObj [
    ("index", Json.arr (s.index.map fun e => Json.arr #[.str e.1, Json.arr (e.2.map keyToJson).toArray]).toArray),
    ("rev", Json.arr (s.rev.map fun e => Json.arr #[keyToJson e.1, .str e.2]).toArray),
    ("scan", entriesToJson (scan s)),
    ("bad", Json.arr (bad.map fun n => Json.num (JsonNumber.fromNat n)).toArray),
    ("insts", Json.arr (s.insts.map fun i => Json.arr #[.str i.uid, .str (flowStatusToString i.status),
      Json.arr (i.heads.map fun h => Json.arr #[.str h.uid, Json.num (JsonNumber.fromNat h.pos), .str (headStatusToString h.status),
        match h.elem with | none => .null | some n => .str n]).toArray]).toArray)]

/-- a context value as the name computation sees it: `{"k":"action","n":"FooAction","a":{"attr":obj,…}}`, `{"k":"flow"}`,
    `{"k":"event","n":"StartFooAction","a":{"action":{…}}}`, `{"k":"dict","a":{…}}`, `{"k":"other"}` -/
partial def objOfJson (j : Json) : Except String RefName.Obj := do
  let k ← (← j.getObjVal? "k").getStr?
  let n := match j.getObjVal? "n" with | .ok (.str s) => s | _ => ""
  let attrs ← match j.getObjVal? "a" with
    | .ok (.obj kvs) => kvs.toList.mapM fun (a, v) => do pure (a, ← objOfJson v)
    | _ => pure []
  let kind ← match k with
    | "action" => pure (RefName.Kind.action n)
    | "flow" => pure RefName.Kind.flow
    | "event" => pure (RefName.Kind.event n)
    | "dict" => pure RefName.Kind.dict
    | "other" => pure RefName.Kind.other
    | s => throw s!"bad object kind {s}"
  pure (.mk kind attrs)

/-- one registration on a match element whose name is computed through an object:
    reference   `{"var":"ref","members":["Finished"]|null,"obj":obj|null}` (`obj` null = the variable is not in the context),
    by name     `{"var":null,"name":"some_flow","type":"flow"|"action"|…,"members":["Start"],"known":bool}` (`known` = the name
                is a key of `state.flow_configs`)
    -> `{"ok":name}` / `{"err":exception class}` computed by `RefName.nameOfSpec` (case 1 = `RefName.nameOf`), plus
       `"dispatch": {"ok":name} / {"err":class}` computed by `RefName.dispatchNameOfSpec` (the name of `get_event_from_element`) -/
def refnameOne (j : Json) : Except String Json := do
  -- `change_args`: the member arguments contain `arguments` and were evaluated (only `Change` looks at them)
  let changeArgs := match j.getObjVal? "change_args" with | .ok (.bool b) => b | _ => false
  let res (r : Except RefName.Err String) : Json := match r with
    | .ok nm => Json.mkObj [("ok", .str nm)]
    | .error e => Json.mkObj [("err", .str e.cls)]
  -- the indexer's name (`get_event_name_from_element`) and, under "dispatch", the dispatcher's (`get_event_from_element`)
  let answer (flows : List String) (ctx : RefName.Ctx) (sp : RefName.ElemSpec) : Json :=
    (res (RefName.nameOfSpec flows ctx sp)).setObjVal! "dispatch" (res (RefName.dispatchNameOfSpec changeArgs flows ctx sp))
  let members ← match j.getObjVal? "members" with
    | .ok (.arr ms) => do pure (some (← ms.toList.mapM fun m => m.getStr?))
    | _ => pure none
  match j.getObjVal? "var" with
  | .ok (.str v) =>
    let ctx ← match j.getObjVal? "obj" with
      | .ok .null | .error _ => pure []
      | .ok o => do pure [(v, ← objOfJson o)]
    pure (answer [] ctx { varName := some v, members := members })
  | _ =>
    let name ← match j.getObjVal? "name" with
      | .ok (.str n) => pure (some n)
      | _ => pure none
    let ty := match j.getObjVal? "type" with
      | .ok (.str "flow") => RefName.SpecType.flow
      | .ok (.str "action") => RefName.SpecType.action
      | .ok (.str "event") => RefName.SpecType.event
      | _ => RefName.SpecType.other
    let known := match j.getObjVal? "known" with | .ok (.bool b) => b | _ => false
    let flows := match name with | some n => if known then [n] else [] | none => []
    pure (answer flows [] { varName := none, name := name, specType := ty, members := members })

/-- `{"m":"C09.replay","segments":[[op,…],[op,…],…]}`: the operations recorded between two observation
    points (one segment per external event); answers with the model state after every segment. -/
def handle (op : String) (j : Json) : Except String Json := do
  match op with
  | "replay" =>
    let segs ← (← j.getObjVal? "segments").getArr?
    let mut s : IState := {}
    let mut outs : Array Json := #[]
    for seg in segs do
      let ops ← (← seg.getArr?).toList.mapM opOfJson
      let (s', bad) := run s ops
      s := s'
      outs := outs.push (stateToJson s bad)
    pure (Json.arr outs)
  | "run" => CoreVMJson.runProgram j
  | "refname" =>
    let items ← (← j.getObjVal? "items").getArr?
    pure (Json.arr (← items.mapM refnameOne))
  | _ => throw s!"unknown op C09.{op}"

end NemoVerif.Drive.C09
