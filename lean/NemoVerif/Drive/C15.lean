import NemoVerif.Drive.Common
import NemoVerif.Models.Isolation
import NemoVerif.Models.IsolationRepaired

namespace NemoVerif.Drive.C15
open Lean NemoVerif NemoVerif.Drive NemoVerif.Isolation

def strOf (j : Json) : Except String Str := do
  let s ← j.getStr?
  pure s.toList

def strTo (s : Str) : Json := .str (String.ofList s)

/-- message: [role, text] -/
def msgOfJson (j : Json) : Except String Msg := do
  let a ← j.getArr?
  if h : a.size = 2 then do
    let r ← strOf a[0]; let t ← strOf a[1]; pure ⟨r, t⟩
  else throw "bad msg"

def msgsOfJson (j : Json) : Except String (List Msg) := do
  let a ← j.getArr?
  a.toList.mapM msgOfJson

def msgTo (m : Msg) : Json := Json.arr #[strTo m.role, strTo m.text]

/-- event: ["UF"|"UM"|"SB"|"BF"|"CU"|"RAW", text] | ["OP", n] -/
def evOfJson (j : Json) : Except String CEv := do
  let a ← j.getArr?
  if h : a.size = 2 then do
    let tag ← a[0].getStr?
    match tag with
    | "OP" => do let n ← a[1].getNat?; pure (.opaque n)
    | "UF" => do let t ← strOf a[1]; pure (.userFinished t)
    | "UM" => do let t ← strOf a[1]; pure (.userMessage t)
    | "SB" => do let t ← strOf a[1]; pure (.startBot t)
    | "BF" => do let t ← strOf a[1]; pure (.botFinished t)
    | "CU" => do let t ← strOf a[1]; pure (.contextUpdate t)
    | "RAW" => do let t ← strOf a[1]; pure (.raw t)
    | _ => throw s!"bad event tag {tag}"
  else throw "bad event"

def evsOfJson (j : Json) : Except String (List CEv) := do
  let a ← j.getArr?
  a.toList.mapM evOfJson

def evTo : CEv → Json
  | .userFinished t => Json.arr #["UF", strTo t]
  | .userMessage t => Json.arr #["UM", strTo t]
  | .startBot t => Json.arr #["SB", strTo t]
  | .botFinished t => Json.arr #["BF", strTo t]
  | .contextUpdate t => Json.arr #["CU", strTo t]
  | .raw t => Json.arr #["RAW", strTo t]
  | .opaque n => Json.arr #["OP", Json.num (JsonNumber.fromNat n)]

def evsTo (l : List CEv) : Json := Json.arr (l.map evTo).toArray

def keyFn (which : String) : Except String (List Msg → Str) :=
  match which with
  | "asis" => pure cacheKeyAsIs
  | "lp" => pure cacheKeyLP
  | w => throw s!"unknown key function {w}"

/-- cache: [[key string, events], ...] (newest first) -/
def cacheOfJson (j : Json) : Except String (Cache Str CEv) := do
  let a ← j.getArr?
  a.toList.mapM fun e => do
    let p ← e.getArr?
    if h : p.size = 2 then do
      let k ← strOf p[0]; let ev ← evsOfJson p[1]; pure (k, ev)
    else throw "bad cache entry"

/-- turn table: [[events, reply msg, new events], ...] -/
def turnOfJson (j : Json) : Except String (List CEv → Msg × List CEv) := do
  let a ← j.getArr?
  let tbl ← a.toList.mapM fun e => do
    let p ← e.getArr?
    if h : p.size = 3 then do
      let ev ← evsOfJson p[0]; let r ← msgOfJson p[1]; let nw ← evsOfJson p[2]; pure (ev, r, nw)
    else throw "bad turn entry"
  pure fun ev => match tbl.find? (fun e => e.1 == ev) with
    | some e => e.2
    | none => (⟨['?'], ['t', 'u', 'r', 'n', '-', 'm', 'i', 's', 's']⟩, [])

/- parameters -/
open Params

def pvalOfJson (j : Json) : Except String PVal :=
  match j with
  | .null => pure none
  | _ => do let i ← j.getInt?; pure (some i)

def pvalTo : PVal → Json
  | none => .null
  | some i => Json.num (JsonNumber.fromInt i)

def kvsOfJson' (j : Json) : Except String (List (Nat × PVal)) := do
  let a ← j.getArr?
  a.toList.mapM fun e => do
    let p ← e.getArr?
    if h : p.size = 2 then do
      let n ← p[0].getNat?; let v ← pvalOfJson p[1]; pure (n, v)
    else throw "bad kv"

def tableFn (kvs : List (Nat × PVal)) : Nat → Option PVal :=
  fun n => (kvs.find? (·.1 == n)).map (·.2)

def actOfJson (j : Json) : Except String (Nat × Act) := do
  let p ← j.getArr?
  if h : p.size = 2 then do
    let t ← p[0].getNat?
    let a ← p[1].getStr?
    match a with
    | "enter" => pure (t, .enter)
    | "call" => pure (t, .call)
    | "exit" => pure (t, .exit)
    | _ => throw "bad act"
  else throw "bad sched entry"

def getTo : Option PVal → Json
  | none => .str "absent"
  | some v => pvalTo v

/-- program of one task: [ {"req": id, "own": n|null, "reads": k} | {"spawn": [program, ...]} , ... ] -/
partial def progOfJson (items : List Json) : Except String (Ctx.Prog (Option Nat)) :=
  match items with
  | [] => pure .done
  | it :: rest =>
    match it.getObjVal? "spawn" with
    | .ok (.arr children) =>
      -- several children spawned at the same point: each gets a copy of the same context
      let rec go (cs : List Json) : Except String (Ctx.Prog (Option Nat)) :=
        match cs with
        | [] => progOfJson rest
        | c :: cs' => do
          let ca ← c.getArr?
          let child ← progOfJson ca.toList
          let r ← go cs'
          pure (.spawn child r)
      go children.toList
    | _ => do
      let id ← (← it.getObjVal? "req").getNat?
      let own ← match it.getObjVal? "own" with
        | .ok .null => pure none
        | .ok v => do let n ← v.getNat?; pure (some n)
        | .error _ => pure none
      let reads ← (← it.getObjVal? "reads").getNat?
      let r ← progOfJson rest
      pure (.req id own reads r)

def optNatTo : Option Nat → Json
  | none => .null
  | some n => Json.num (JsonNumber.fromNat n)

def handle (op : String) (j : Json) : Except String Json := do
  match op with
  | "key" =>
    let msgs ← msgsOfJson (← j.getObjVal? "msgs")
    pure (Json.mkObj [("asis", strTo (cacheKeyAsIs msgs)), ("lp", strTo (cacheKeyLP msgs))])
  | "events" =>
    let key ← keyFn (← (← j.getObjVal? "which").getStr?)
    let msgs ← msgsOfJson (← j.getObjVal? "msgs")
    let C ← cacheOfJson (← j.getObjVal? "cache")
    let isState := match j.getObjVal? "state" with | .ok (.bool b) => b | _ => false
    let guarded := match j.getObjVal? "statefix" with | .ok (.bool b) => b | _ => false
    let ev := if isState then eventsForState guarded key convTailC C [] msgs else eventsFor key convTailC C msgs
    pure (Json.mkObj [("events", evsTo ev)])
  | "convert" =>
    let a ← (← j.getObjVal? "tails").getArr?
    let tails ← a.toList.mapM msgsOfJson
    pure (Json.mkObj [("tails", Json.arr (tails.map fun t => evsTo (convTailC t)).toArray)])
  | "serve" =>
    let key ← keyFn (← (← j.getObjVal? "which").getStr?)
    let turn ← turnOfJson (← j.getObjVal? "turn")
    let a ← (← j.getObjVal? "sched").getArr?
    let sched ← a.toList.mapM fun e => do
      let p ← e.getArr?
      if h : p.size = 2 then do
        let c ← p[0].getNat?; let m ← msgsOfJson p[1]; pure (c, m)
      else throw "bad sched entry"
    let steps := runT key convTailC turn [] sched
    pure (Json.mkObj [("steps", Json.arr (steps.map fun x => Json.mkObj [
      ("conv", Json.num (JsonNumber.fromNat x.1)),
      ("events", evsTo x.2.events), ("reply", msgTo x.2.reply), ("new", evsTo x.2.new)]).toArray)])
  | "params" =>
    let attrs ← kvsOfJson' (← j.getObjVal? "attrs")
    let kw ← match j.getObjVal? "kw" with
      | .ok .null => pure none
      | .ok v => do let k ← kvsOfJson' v; pure (some k)
      | .error _ => pure none
    let ma ← (← j.getObjVal? "managers").getArr?
    let mgrs ← ma.toList.mapM kvsOfJson'
    let sa ← (← j.getObjVal? "sched").getArr?
    let sched ← sa.toList.mapM actOfJson
    let unia ← (← j.getObjVal? "universe").getArr?
    let uni ← unia.toList.mapM (·.getNat?)
    let σ0 : Store := { attr := tableFn attrs, kw := kw.map tableFn }
    -- the concrete system of the model (Params.cstep = LLMParams.__enter__/__exit__ on one shared object)
    let tasks : Nat → List (Nat × PVal) := fun t => mgrs.getD t []
    let fin := runSchedC tasks (initC σ0) sched
    -- abstract system on the same schedule (meaningful when every parameter exists on the object)
    let a0 : Nat → PVal := fun n => (σ0.get n).getD none
    let afin := runSched tasks (init a0) sched
    let callsTo (cs : List (Nat × List (Nat × PVal))) := Json.arr (cs.map fun c => Json.arr #[Json.num (JsonNumber.fromNat c.1),
          Json.arr (c.2.map fun p => Json.arr #[Json.num (JsonNumber.fromNat p.1), pvalTo p.2]).toArray]).toArray
    let dumpStore (f : Nat → Json) := Json.arr (uni.map fun n => Json.arr #[Json.num (JsonNumber.fromNat n), f n]).toArray
    pure (Json.mkObj [
      ("calls", callsTo fin.calls),
      ("attr", dumpStore fun n => getTo (fin.store.attr n)),
      ("kw", match fin.store.kw with
        | none => .null
        | some k => dumpStore fun n => getTo (k n)),
      ("nested", .bool (nestedOK [] sched)),
      ("abs_calls", callsTo afin.calls),
      ("abs_store", dumpStore fun n => pvalTo (afin.store n))])
  | "paramsR" =>
    -- the repaired LLMParams: sections (managers and the parameterless in-flight markers of LLM calls) of several
    -- tasks on one shared object, run on the label sequence the harness really executed
    let cfgT ← kvsOfJson' (← j.getObjVal? "cfg")
    let aa ← (← j.getObjVal? "alts").getArr?
    let alts ← aa.toList.mapM kvsOfJson'
    let oa ← (← j.getObjVal? "owners").getArr?
    let owners ← oa.toList.mapM (·.getNat?)
    let sa ← (← j.getObjVal? "trace").getArr?
    let trace ← sa.toList.mapM actOfJson
    let unia ← (← j.getObjVal? "universe").getArr?
    let uni ← unia.toList.mapM (·.getNat?)
    let cfg : Nat → PVal := fun n => ((tableFn cfgT) n).getD none
    let M : ParamsR.Mgrs PVal := { owner := fun m => owners.getD m m, alt := fun m => alts.getD m [] }
    let fin := ParamsR.runR M (ParamsR.initR cfg) trace
    let dump (f : Nat → PVal) := Json.arr (uni.map fun n => Json.arr #[Json.num (JsonNumber.fromNat n), pvalTo (f n)]).toArray
    pure (Json.mkObj [
      ("calls", Json.arr (fin.calls.map fun c => Json.arr #[Json.num (JsonNumber.fromNat c.1), dump c.2]).toArray),
      ("store", dump fin.store),
      ("open", Json.arr (fin.opn.map fun n => Json.num (JsonNumber.fromNat n)).toArray)])
  | "ctxprog" =>
    let a ← (← j.getObjVal? "prog").getArr?
    let prog ← progOfJson a.toList
    let which ← (← j.getObjVal? "which").getStr?
    let log := match which with
      | "ifsome" => Ctx.runProg Ctx.prologueIfSome none prog
      | _ => Ctx.runProg Ctx.prologueSet none prog
    pure (Json.mkObj [("log", Json.arr (log.map fun e =>
      Json.arr #[Json.num (JsonNumber.fromNat e.1), optNatTo e.2.1, optNatTo e.2.2]).toArray)])
  | _ => throw s!"unknown op C15.{op}"

end NemoVerif.Drive.C15
