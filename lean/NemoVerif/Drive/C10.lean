import NemoVerif.Drive.Common
import NemoVerif.Models.SlideGraph
import NemoVerif.Models.ErrContain
import NemoVerif.Models.RoundMachine
import NemoVerif.Models.ErrReport
import NemoVerif.Models.ProcessEvents

namespace NemoVerif.Drive.C10
open Lean NemoVerif NemoVerif.Drive NemoVerif.SlideGraph NemoVerif.ErrContain NemoVerif.RoundMachine

def strOfJson (j : Json) : Except String ErrReport.Str := do
  let a ← j.getArr?
  let ns ← a.toList.mapM (·.getNat?)
  pure (ns.map Char.ofNat)

def strToJson (s : ErrReport.Str) : Json := Json.arr (s.map fun c => Json.num (JsonNumber.fromNat c.toNat)).toArray

def segOfJson (j : Json) : Except String ErrReport.Seg := do
  let a ← j.getArr?
  if h : a.size ≥ 1 then
    match ← a[0].getStr? with
    | "lit" => do let s ← strOfJson (a.getD 1 (Json.arr #[])); pure (.lit s)
    | "esc" => pure .esc
    | "raw" => pure .raw
    | _ => pure .safe
  else throw "bad seg"

def optNat (j : Json) : Except String (Option Nat) :=
  match j with
  | .null => pure none
  | _ => do let n ← j.getNat?; pure (some n)

def elemOfJson (j : Json) : Except String Elem := do
  let a ← j.getArr?
  if h : a.size ≥ 1 then
    let tag ← a[0].getStr?
    let arg : Json := a.getD 1 .null
    match tag with
    | "wait" => do let b ← arg.getBool?; pure (.wait b)
    | "step" => do let b ← arg.getBool?; pure (.step b)
    | "rl" => pure .restartLabel
    | "goto" => do let t ← optNat arg; pure (.goto t)
    | "jump" => do let t ← optNat arg; pure (.jump t)
    | "ret" => pure .ret
    | "abort" => pure .abort
    | "cpush" => do let t ← arg.getNat?; pure (.catchPush t)
    | "cpop" => pure .catchPop
    | "fork" => do
        let ts ← arg.getArr?
        let ns ← ts.toList.mapM (·.getNat?)
        pure (.fork ns)
    | "merge" => pure .merge
    | "wh" => pure .waitHeads
    | t => throw s!"bad elem tag {t}"
  else throw "empty elem"

def progOfJson (j : Json) : Except String Prog := do
  let a ← j.getArr?
  a.toList.mapM elemOfJson

def ansOfString : String → Ans
  | "tt" => .tt
  | "err" => .err
  | _ => .ff

def natsToJson (l : List Nat) : Json := Json.arr (l.map fun n => Json.num (JsonNumber.fromNat n)).toArray

def stopToJson : Option Stop → Json
  | none => "fuel"
  | some .atEnd => "end"
  | some .waiting => "wait"
  | some (.forked ts) => Json.mkObj [("fork", natsToJson ts)]
  | some .merging => "merge"
  | some .waitingHeads => "waitHeads"
  | some .error => "error"

def scoreOfString : String → Score
  | "pos" => .pos 0
  | "neg" => .neg
  | "err" => .err
  | _ => .zero

def candToJson (c : Cand) : Json := Json.arr #[Json.num (JsonNumber.fromNat c.fuid), Json.num (JsonNumber.fromNat c.huid)]

def evKindOfJson (j : Json) : Except String EvKind :=
  match j with
  | .str "plain" => pure .plain
  | .str "unhandled" => pure .unhandled
  | .arr a => if h : a.size = 2 then do let g ← a[1].getNat?; pure (.start g) else throw "bad ev kind"
  | _ => throw "bad ev kind"

def waitKindOfString : String → WaitKind
  | "tagged" => .intTagged
  | "int" => .int
  | "action" => .action
  | _ => .ext

def tokenOfJson (j : Json) : Except String Token := do
  let a ← j.getArr?
  if h : a.size ≥ 2 then
    let tag ← a[0].getStr?
    match tag with
    | "ev" => do let k ← evKindOfJson a[1]; pure (.ev k)
    | t =>
      let f ← a[1].getNat?
      let u ← (a.getD 2 .null).getNat?
      let b ← (a.getD 3 .null).getBool?
      if t == "xhead" then pure (.xhead f u b) else pure (.head f u b)
  else throw "bad token"

def rflowOfJson (j : Json) : Except String RFlow := do
  let ctl ← progOfJson (← j.getObjVal? "ctl")
  let emit ← (← (← j.getObjVal? "emit").getArr?).toList.mapM fun e => do (← e.getArr?).toList.mapM evKindOfJson
  let wk ← (← (← j.getObjVal? "wk").getArr?).toList.mapM fun e => do pure (waitKindOfString (← e.getStr?))
  let r ← (← j.getObjVal? "restartable").getBool?
  let ca ← (← (← j.getObjVal? "catchAt").getArr?).toList.mapM fun e => do (← e.getArr?).toList.mapM (·.getNat?)
  pure { ctl := ctl, emit := emit, wk := wk, restartable := r, catchAt := ca }

/-- replay of a recorded round: every step must consume a token that is present and produce one of its outcomes (as a multiset) -/
def replayRound (P : RProg) : Nat → List Token → List (Token × List Token) → Except String Nat
  | n, _, [] => pure n
  | n, T, (tok, o) :: rest =>
    if !T.contains tok then throw s!"step {n}: token {repr tok} is not present"
    else if !(tokOutcomes P tok).any (fun o' => o'.isPerm o) then throw s!"step {n}: {repr o} is not an outcome of {repr tok}"
    else replayRound P (n + 1) (T.erase tok ++ o) rest

def handle (op : String) (j : Json) : Except String Json := do
  match op with
  | "acyclic" =>
    let p ← progOfJson (← j.getObjVal? "prog")
    let cert := buildCert p
    let ranked := certOk p cert
    let starts : List (Nat × List Nat) ← match j.getObjVal? "starts" with
      | .ok (.arr a) => a.toList.mapM fun e => do
          let q ← e.getArr?
          if h : q.size = 2 then do
            let u ← q[0].getNat?
            let st ← (← q[1].getArr?).toList.mapM (·.getNat?)
            pure (u, st)
          else throw "bad start"
      | _ => pure []
    pure (Json.mkObj [("acyclic", .bool (slideAcyclic p)), ("ranked", .bool ranked),
      ("starts_ok", Json.arr (starts.map fun m => Json.bool (cert.allowed m.1 m.2)).toArray),
      ("bound", Json.num (JsonNumber.fromNat (slideBound p)))])
  | "slide" =>
    let p ← progOfJson (← j.getObjVal? "prog")
    let pos ← (← j.getObjVal? "pos").getNat?
    let cs ← (← (← j.getObjVal? "cstack").getArr?).toList.mapM (·.getNat?)
    let orc ← (← (← j.getObjVal? "orc").getArr?).toList.mapM (·.getStr?)
    let fuel ← (← j.getObjVal? "fuel").getNat?
    let tbl := orc.map ansOfString
    let r := slide p (fun k => tbl.getD k .ff) fuel 0 { pos := pos, cstack := cs }
    pure (Json.mkObj [("trace", natsToJson r.trace), ("stop", stopToJson r.stop), ("final", Json.num (JsonNumber.fromNat r.final.pos)),
      ("cstack", natsToJson r.final.cstack), ("stopping", .bool r.final.stopping)])
  | "match" =>
    let a ← (← j.getObjVal? "cands").getArr?
    let cands ← a.toList.mapM fun e => do
      let p ← e.getArr?
      if h : p.size = 3 then do
        let f ← p[0].getNat?; let hd ← p[1].getNat?; let sc ← p[2].getStr?
        pure ({ fuid := f, huid := hd, score := scoreOfString sc } : Cand)
      else throw "bad cand"
    -- look-up model: `heads` = [[fuid, [head uids]]...] present when the scan begins
    let insts : List Inst ← match j.getObjVal? "heads" with
      | .ok (.arr hs) => hs.toList.mapM fun e => do
          let q ← e.getArr?
          if h : q.size = 2 then do
            let f ← q[0].getNat?
            let us ← (← q[1].getArr?).toList.mapM (·.getNat?)
            pure ({ uid := f, flowId := f, status := .started, activated := 0, newInstanceStarted := false, parent := none, children := [],
                    heads := us.map fun u => { uid := u, pos := 0, status := .active, cstack := [] } } : Inst)
          else throw "bad heads"
      | _ => pure []
    let st : St := { insts := insts, queue := [] }
    let lookupOk := (scanLookup false st cands).isSome
    let lookupInLoop := (scanLookup true st cands).isSome
    let rep := matchPhaseRepaired cands
    let asis := matchPhaseAsIs cands
    pure (Json.mkObj [
      ("lookup_ok", .bool lookupOk), ("lookup_ok_abort_in_loop", .bool lookupInLoop),
      ("asis", match asis with
        | none => .null
        | some r => Json.mkObj [("matching", Json.arr (r.matching.map candToJson).toArray), ("failing", Json.arr (r.failing.map candToJson).toArray)]),
      ("repaired", Json.mkObj [("matching", Json.arr (rep.matching.map candToJson).toArray), ("failing", Json.arr (rep.failing.map candToJson).toArray),
        ("erroring", Json.arr (rep.erroring.map candToJson).toArray)])])
  | "round" =>
    let P ← (← (← j.getObjVal? "prog").getArr?).toList.mapM rflowOfJson
    let p := buildPot P
    let ranked := potOk P p
    let rounds ← match j.getObjVal? "rounds" with
      | .ok (.arr a) => a.toList.mapM fun r => do
          let T ← (← (← r.getObjVal? "tokens").getArr?).toList.mapM tokenOfJson
          let steps ← (← (← r.getObjVal? "steps").getArr?).toList.mapM fun st => do
            let q ← st.getArr?
            if h : q.size = 2 then do
              let tok ← tokenOfJson q[0]
              let o ← (← q[1].getArr?).toList.mapM tokenOfJson
              pure (tok, o)
            else throw "bad step"
          pure (T, steps)
      | _ => pure []
    let res := rounds.map fun (T, steps) =>
      Json.mkObj [("bound", Json.num (JsonNumber.fromNat (roundBound P p T))),
        ("replay", match replayRound P 0 T steps with
          | .ok n => Json.num (JsonNumber.fromNat n)
          | .error e => .str e)]
    pure (Json.mkObj [("ranked", .bool ranked), ("rounds", Json.arr res.toArray)])
  | "escape" =>
    -- the string model of the error-report loop (Models/ErrReport.lean) on concrete texts / handler templates
    let texts ← (← (← j.getObjVal? "texts").getArr?).toList.mapM strOfJson
    let tpls ← match j.getObjVal? "templates" with
      | .ok (.arr a) => a.toList.mapM fun t => do
          let d ← (← t.getObjVal? "delim").getNat?
          let segs ← (← (← t.getObjVal? "segs").getArr?).toList.mapM segOfJson
          pure (Char.ofNat d, segs)
      | _ => pure []
    let pre := "P: ".toList
    let post := " :Q".toList
    let one (t : ErrReport.Str) : Json :=
      let tplE : List ErrReport.Seg := [.lit pre, .esc, .lit post]
      let tplR : List ErrReport.Seg := [.lit pre, .raw, .lit post]
      Json.mkObj [("escape", strToJson (ErrReport.escapeStr t)), ("escape_asis", strToJson (ErrReport.escapeAsIs t)),
        ("special", strToJson (ErrReport.escSpecial t)),
        ("esc_dq", .bool (ErrReport.validLit '"' (ErrReport.render (fun _ => t) (fun _ => ['T']) tplE))),
        ("esc_sq", .bool (ErrReport.validLit '\'' (ErrReport.render (fun _ => t) (fun _ => ['T']) tplE))),
        ("esc_dq_asis", .bool (ErrReport.validLit '"' (ErrReport.renderAsIs (fun _ => t) (fun _ => ['T']) tplE))),
        ("raw_dq", .bool (ErrReport.validLit '"' (ErrReport.render (fun _ => t) (fun _ => ['T']) tplR))),
        ("raw_sq", .bool (ErrReport.validLit '\'' (ErrReport.render (fun _ => t) (fun _ => ['T']) tplR)))]
    pure (Json.mkObj [("texts", Json.arr (texts.map one).toArray),
      ("templates", Json.arr (tpls.map fun (d, segs) => Json.mkObj [("total", .bool (ErrReport.tplTotal d segs))]).toArray)])
  | "convert" =>
    -- the conversion step of process_events (Models/ProcessEvents.lean) on what ONE real process_events call showed: `raised` = the
    -- exception classes (codes) that left run_to_completion, in order (every one is converted and delivered in a call of its own);
    -- `classes` = the classes observed at run time (converted event, reference event of the observer's `match ColangError()`); the
    -- tie extracted by the translator is `generatedTie`. Output: the model's run of the loop over an observer machine in which the
    -- first `raised.length` deliveries raise — reactions of the observer, events delivered, and the class test on both class sources.
    let raised ← (← (← j.getObjVal? "raised").getArr?).toList.mapM (·.getNat?)
    let convCls ← (← j.getObjVal? "converted_class").getNat?
    let refCls ← (← j.getObjVal? "ref_class").getNat?
    let gt := ProcessEvents.generatedTie
    let t : ProcessEvents.Tie := { gt with converted := convCls, matchRef := refCls }
    -- one real input event with k escapes = k iterations of the loop that raise, then one that returns: model each escape as a
    -- faulty input followed by its converted report (the report of escape i is accepted unless escape i+1 exists: then it is that
    -- round which raised — process_events' loop is the same `convertLoop` with a longer chain)
    let rec run (fuel : Nat) (es : List Nat) (s : ProcessEvents.ObsState) : ProcessEvents.ObsState :=
      match fuel, es with
      | 0, _ => s
      | _, [] => s
      | f + 1, e :: rest =>
        match ProcessEvents.convertLoop t (ProcessEvents.obsRtc t (fun ev => if ev.isColangError then none else some e)) 2 s ⟨0, false, 0⟩ with
        | some (s', _) => run f rest s'
        | none => s
    let s := run (raised.length + 1) raised ⟨0, 0⟩
    pure (Json.mkObj [("reactions", Json.num (JsonNumber.fromNat s.reactions)), ("delivered", Json.num (JsonNumber.fromNat s.delivered)),
      ("may_match_observed", .bool (t.headMayMatch convCls)), ("may_match_generated", .bool (gt.headMayMatch gt.converted)),
      ("generated_converted", Json.num (JsonNumber.fromNat gt.converted)), ("generated_ref", Json.num (JsonNumber.fromNat gt.matchRef))])
  | _ => throw s!"unknown op C10.{op}"

end NemoVerif.Drive.C10
