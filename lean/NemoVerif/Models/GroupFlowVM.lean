/-
  C07 (T3) — `await` / `when` on a group of FLOWS at run time, seen from outside: child flows, their
  `Finished` / `Failed` events, failure paths and the clean-up of the losers.

  What the expanded statement does (Models/GroupExpandAwait.lean, Models/GroupExpandWhen.lean; statemachine.py `slide`):

    * every and-clause of the normalised group starts ITS OWN instance of each of its flows (start blocks per clause;
      a flow that lands in several clauses is started once per clause) inside the statement's scope;
    * the clause waits on `match $ref.Finished()` for each of them (and-template: `WaitForHeads(number = |clause|)`);
      a `Finished` event of the instance advances that head;
    * a `Failed` event of the instance is a MISMATCH (score −1) of `match $ref.Finished()`: the head takes the failure
      path of the and-template (`MergeHeads` — the sibling heads of the clause are removed — then `Abort`), which jumps to
      the failure label of the enclosing or-level / case: the clause's head parks on `WaitForHeads(number of clauses)`.
      The clause is dead from then on; its other child flows keep running until the scope is closed;
    * the statement COMPLETES when the first clause has all its flows finished (`MergeHeads` at the end label, then
      `EndScope`: every child flow of the scope that is still running is aborted — the losers);
    * it FAILS when every clause is dead (`WaitForHeads` passes → `EndScope` → `Abort` for `await` / a `when` without
      `else`, the else branch for `when … else`).

  `FSt` is this machine: per clause `some remaining` (alive, the flows still awaited) or `none` (dead); `children` = the
  child-flow instances (clause index, flow) that are still running.  Events are about FLOWS (`fin a`: every running instance of
  flow `a` finishes; `fail a`: every running instance of flow `a` fails) — in the programs of the harness all instances of one flow
  listen to the same event, so they finish / fail together.  An event about a flow that has no running instance changes nothing.
-/
import NemoVerif.Models.Dnf
namespace NemoVerif.GroupFlow
open NemoVerif.Dnf

inductive FEv where
  | fin (a : Nat)      -- the running instances of flow `a` finish  (FlowFinished)
  | fail (a : Nat)     -- the running instances of flow `a` fail    (FlowFailed)
  deriving DecidableEq, Repr, Inhabited

inductive Out where
  | quiet
  | marker     -- the element after the statement (resp. the body of the `when` case) is reached
  | failed     -- the failure path is taken (`Abort` / else branch)
  deriving DecidableEq, Repr, Inhabited

structure FSt where
  clauses : List (Option (List Nat))
  /-- running child-flow instances: (clause index, flow) -/
  children : List (Nat × Nat)
  live : Bool
  deriving DecidableEq, Repr, Inhabited

def childrenOf : Nat → Clauses → List (Nat × Nat)
  | _, [] => []
  | i, c :: cs => c.map (fun a => (i, a)) ++ childrenOf (i + 1) cs

/-- after the statement was reached: all clauses alive, all their flows started -/
def init (d : Clauses) : FSt := { clauses := d.map some, children := childrenOf 0 d, live := true }

def evFlow : FEv → Nat
  | .fin a => a
  | .fail a => a

/-- one clause and one event -/
def stepClause (e : FEv) : Option (List Nat) → Option (List Nat)
  | none => none
  | some rem =>
    match e with
    | .fin a => some (rem.filter fun x => x != a)
    | .fail a => if rem.contains a then none else some rem

def step (s : FSt) (e : FEv) : FSt × Out :=
  if !s.live then (s, .quiet)
  else
    let cs := s.clauses.map (stepClause e)
    -- the instances of the flow are gone (finished or failed)
    let ch := s.children.filter fun p => p.2 != evFlow e
    if cs.any (fun c => c == some []) then
      -- first complete clause: merge, EndScope stops every child flow that is still running
      ({ clauses := cs, children := [], live := false }, .marker)
    else if cs.all (fun c => c == none) then
      -- every clause is dead: failure path, EndScope
      ({ clauses := cs, children := [], live := false }, .failed)
    else ({ clauses := cs, children := ch, live := true }, .quiet)

def run : FSt → List FEv → List Out
  | _, [] => []
  | s, e :: es => (step s e).2 :: run (step s e).1 es

def stateAfter : FSt → List FEv → FSt
  | s, [] => s
  | s, e :: es => stateAfter (step s e).1 es

/-- per event: marker / failure / nothing, for `await g` resp. `when g` over flows -/
def outs (g : G) (es : List FEv) : List Out := run (init (toDnf (normalize g))) es

/-! ### what is known about the flows after a sequence of events (specification side) -/

/-- flows that have finished / failed (the first event about a flow decides; later ones find no running instance) -/
structure Know where
  fi : List Nat := []
  fa : List Nat := []
  deriving Repr, DecidableEq

def Know.upd (K : Know) : FEv → Know
  | .fin a => if K.fa.contains a || K.fi.contains a then K else { K with fi := a :: K.fi }
  | .fail a => if K.fi.contains a || K.fa.contains a then K else { K with fa := a :: K.fa }

def knowFrom (K : Know) (es : List FEv) : Know := es.foldl Know.upd K

/-- knowledge after the events `es[0..k]` -/
def know (es : List FEv) (k : Nat) : Know := knowFrom {} (es.take (k + 1))

/-- the assignment "flow `a` has finished" -/
def Know.finished (K : Know) : Nat → Bool := fun a => K.fi.contains a
/-- the assignment "flow `a` can still finish" (it has not failed) -/
def Know.possible (K : Know) : Nat → Bool := fun a => !K.fa.contains a

end NemoVerif.GroupFlow
