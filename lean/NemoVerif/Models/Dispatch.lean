/-
  C03 — model of `ActionDispatcher.execute_action` (actions/action_dispatcher.py) and of the two
  runtimes' treatment of its result (`colang/v1_0/runtime/runtime.py::_process_start_action`,
  `colang/v2_x/runtime/runtime.py::_process_start_action`).

  An action invocation has one of three outcomes: it returns a value, it raises an ordinary
  exception, or it raises `LLMCallException` (provider failure — re-raised by design and excluded
  by the property).  `execute` mirrors the `try / except LLMCallException: raise / except Exception:
  log` structure followed by the function's final `return None, "failed"`.
-/
namespace NemoVerif.Dispatch

/-- An exception VALUE, as far as the dispatcher's handler looks at it: its message `str(e)` — any
    string, in particular the empty one (`TimeoutError()`, a bare `assert`, `raise ValueError()`) and
    multi-line ones. -/
structure Exn where
  msg : String
  deriving Repr, DecidableEq

/-- What calling the registered python callable (sync or async function, class-based action) does. -/
inductive Outcome (α : Type) where
  | ret (v : α)
  | raise (e : Exn)
  | llmRaise
  deriving Repr, DecidableEq

/-- What the `except Exception` handler computes on the exception before it falls through to
    `return None, "failed"`: the arguments of `log.warning("Error while execution '%s' with parameters
    '%s': %s", action_name, filtered_params, e)` — `%s`-formatting of the exception object, a TOTAL
    function of the message (no indexing, no parsing).  `harness/translate/c01.py::static_tie` checks on
    every run that the handler in the source contains no partial operation (subscript, calls other than
    `log.*` / `.items()`), which is the tie for this totality. -/
def handlerLog (actionName : String) (e : Exn) : String :=
  "Error while execution '" ++ actionName ++ "': " ++ e.msg

inductive Status where
  | success | failed
  deriving Repr, DecidableEq

/-- Escapes from `execute_action`: only the forwarded `LLMCallException`. -/
inductive Escaped where
  | llmCallException
  deriving Repr, DecidableEq

/-- `execute_action(action_name, params)`; `registered = none` ⇔ the name is not in
    `_registered_actions` (falls through to `return None, "failed"`). -/
def execute {α : Type} (registered : Option (Outcome α)) : Except Escaped (Option α × Status) :=
  match registered with
  | none => .ok (none, .failed)
  | some (.ret v) => .ok (some v, .success)
  | some .llmRaise => .error .llmCallException
  | some (.raise e) =>
    let _record := handlerLog "" e   -- logged, then control falls through
    .ok (none, .failed)

/-- What the runtimes make of `(result, status)`:
    `if status == "failed": result = self._internal_error_action_result(...)`. -/
inductive Result (α : Type) where
  | value (v : Option α)
  | internalError
  deriving Repr, DecidableEq

def runtimeResult {α : Type} : Option α × Status → Result α
  | (_, .failed) => .internalError
  | (v, .success) => .value v

/-- dispatcher + runtime conversion in one step. -/
def run {α : Type} (registered : Option (Outcome α)) : Except Escaped (Result α) :=
  (execute registered).map runtimeResult

end NemoVerif.Dispatch
