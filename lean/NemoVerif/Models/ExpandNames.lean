/-
  C12 (Colang 2.x part, phase 4) — the NAMES of generated labels.

  The real compiler builds label names as `<stem><uid>` (`f"_while_begin_{uid}"`, `f"group_{idx}_{uid}"`,
  `f"case_{case_uid}_label_{stmt_uid}"`, …); the model keeps `(prefix, n)` pairs and `render` is how the driver prints
  them.  User labels (`my_label:` in Colang source) live in the same name space of `FlowConfig.element_labels`.
  `stems` lists the fixed beginnings of every generated name; `userLabelOK` is the discipline a user label has to respect
  for the generated names to be fresh against it (checked at run time by the harness on every user label of every real
  program, and the stems themselves against every generated label of the real compiler).
-/
import NemoVerif.Models.Expand
namespace NemoVerif.Expand

def render (l : Lbl) : String := l.1 ++ toString l.2

def stems : List String :=
  ["_while_begin_", "_while_end_", "if_else_body_label_", "if_end_label_", "failure_label_", "end_label_",
   "event_", "group_", "init_case_", "case_", "failure_case_", "when_else_label_", "when_else_statement_label_",
   "when_end_label_"]

/-- the name begins with one of the stems -/
def Stemmed (s : String) : Prop := ∃ stem ∈ stems, ∃ rest, s = stem ++ rest

/-- executable form of the hypothesis on user labels: no stem is a prefix of the label -/
def userLabelOK (u : String) : Bool := !(stems.any fun st => st.toList.isPrefixOf u.toList)

end NemoVerif.Expand
