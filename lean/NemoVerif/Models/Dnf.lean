/-
  C07 — and/or groups.

  Part 1 (`G`, `normalize`, `flattenOr`): mirror of
    nemoguardrails/colang/v2_x/lang/expansion.py :: normalize_element_groups / flatten_or_group
  branch for branch.  A group is what the parser produces: a `Spec` (here `atom n`, `n` = index of the
  event / flow in the alphabet of the case) or a dict `{"_type": "spec_and" | "spec_or", "elements": [...]}`.
  The Python function returns a group dict again, so `normalize : G → G`.

  Part 2 (`St`, `step`, `run`): the head protocol of an expanded match group seen from outside —
  one head per atom of every and-clause of the normalised group; an event advances *every* head that
  waits for it; a clause is complete when none of its heads is left (`WaitForHeads(number = |clause|)`),
  the group is complete when the first clause is (`MergeHeads` at the or-level end label), after which
  all heads are gone.  The tie of this abstraction to the element list that `expand_elements` really
  produces is `GroupExpand.readBack` (structure) and the end-to-end correspondence (behaviour).
-/
namespace NemoVerif.Dnf

/-- and/or group as produced by the parser (n-ary, arbitrarily nested). -/
inductive G where
  | atom (n : Nat)
  | and (gs : List G)
  | or (gs : List G)
  deriving Repr, Inhabited

/-! ### boolean reading of a group -/

mutual
def eval (σ : Nat → Bool) : G → Bool
  | .atom n => σ n
  | .and gs => evalAll σ gs
  | .or gs => evalAny σ gs
def evalAll (σ : Nat → Bool) : List G → Bool
  | [] => true
  | g :: gs => eval σ g && evalAll σ gs
def evalAny (σ : Nat → Bool) : List G → Bool
  | [] => false
  | g :: gs => eval σ g || evalAny σ gs
end

mutual
/-- no `and` group is empty (the grammar cannot spell an empty group) -/
def G.noEmptyAnd : G → Bool
  | .atom _ => true
  | .and gs => !gs.isEmpty && G.noEmptyAndAll gs
  | .or gs => G.noEmptyAndAll gs
def G.noEmptyAndAll : List G → Bool
  | [] => true
  | g :: gs => G.noEmptyAnd g && G.noEmptyAndAll gs
end

/-! ### mirror of `normalize_element_groups` / `flatten_or_group` -/

/-- `group["elements"]` -/
def G.elems : G → List G
  | .atom _ => []
  | .and gs => gs
  | .or gs => gs

/-- loop body of `flatten_or_group`: `spec_or` members are spliced, everything else is kept. -/
def flattenOrList : List G → List G
  | [] => []
  | .or es :: rest => es ++ flattenOrList rest
  | e :: rest => e :: flattenOrList rest

/-- `flatten_or_group({"_type": "spec_or", "elements": elems})` -/
def flattenOr (elems : List G) : G := .or (flattenOrList elems)

/-- the two nested `for` loops of the `spec_and` branch:
    `new_results = [and(res.elements + norm.elements) for res in results for norm in normalized.elements]` -/
def distribute (results normalized : List G) : List G :=
  results.flatMap fun r => normalized.map fun n => G.and (r.elems ++ n.elems)

mutual
/-- `normalize_element_groups(group)` -/
def normalize : G → G
  | .atom n =>
    -- `if isinstance(group, Spec): group = {"_type": "spec_and", "elements": [group]}` then the and-branch
    flattenOr (distribute [.and []] [.and [.atom n]])
  | .or gs => flattenOr (normOrElems gs)
  | .and gs => flattenOr (normAndElems gs [.and []])
/-- the list comprehension of the `spec_or` branch -/
def normOrElems : List G → List G
  | [] => []
  | .atom n :: rest => .and [.atom n] :: normOrElems rest
  | .and gs :: rest => normalize (.and gs) :: normOrElems rest
  | .or gs :: rest => normalize (.or gs) :: normOrElems rest
/-- the `for elem in group["elements"]` loop of the `spec_and` branch, `results` threaded through -/
def normAndElems : List G → List G → List G
  | [], results => results
  | .atom n :: rest, results => normAndElems rest (distribute results [.and [.atom n]])
  | .and gs :: rest, results => normAndElems rest (distribute results (normalize (.and gs)).elems)
  | .or gs :: rest, results => normAndElems rest (distribute results (normalize (.or gs)).elems)
end

/-! ### disjunctive normal forms as data -/

abbrev Clauses := List (List Nat)

def andOf (c : List Nat) : G := .and (c.map .atom)
/-- the group dict that spells a DNF: `or` of `and`s of atoms -/
def ofDnf (d : Clauses) : G := .or (d.map andOf)

def atomsOf : List G → List Nat
  | [] => []
  | .atom n :: rest => n :: atomsOf rest
  | _ :: rest => atomsOf rest

/-- read a normalised group back as clauses (total; meaningful on `IsDnf` groups) -/
def toDnf (g : G) : Clauses := g.elems.map fun a => atomsOf a.elems

def IsDnf (g : G) : Prop := ∃ d : Clauses, g = ofDnf d

def evalDnf (d : Clauses) (σ : Nat → Bool) : Bool := d.any fun c => c.all σ

/-- reference DNF (specification of what `normalize` computes; used in the proofs only) -/
def distributeC (rs cs : Clauses) : Clauses := rs.flatMap fun r => cs.map fun c => r ++ c

mutual
def dnf : G → Clauses
  | .atom n => [[n]]
  | .or gs => dnfOr gs
  | .and gs => dnfAnd gs [[]]
def dnfOr : List G → Clauses
  | [] => []
  | g :: rest => dnf g ++ dnfOr rest
def dnfAnd : List G → Clauses → Clauses
  | [], rs => rs
  | g :: rest, rs => dnfAnd rest (distributeC rs (dnf g))
end

/-! ### the match group at run time, seen from outside -/

/-- one entry per and-clause: the atoms whose head has not been advanced yet; `done` = the group's
    end label has been passed (all heads merged away). -/
structure St where
  branches : Clauses
  done : Bool
  deriving Repr, BEq, DecidableEq

def init (d : Clauses) : St := { branches := d, done := false }

/-- heads of a clause that are still waiting after event `e` -/
def stepBranch (e : Nat) (missing : List Nat) : List Nat := missing.filter fun a => a != e

/-- process one event; the Boolean says whether the element after the group (the marker) was reached
    while processing it. -/
def step (s : St) (e : Nat) : St × Bool :=
  if s.done then (s, false)
  else
    let bs := s.branches.map (stepBranch e)
    if bs.any List.isEmpty then ({ branches := bs, done := true }, true)
    else ({ branches := bs, done := false }, false)

def run : St → List Nat → List Bool
  | _, [] => []
  | s, e :: es => (step s e).2 :: run (step s e).1 es

/-- per received event: was the marker after `match g` emitted while processing it? -/
def markers (g : G) (es : List Nat) : List Bool := run (init (toDnf (normalize g))) es

/-- the set of events received up to and including index `k` -/
def seen (es : List Nat) (k : Nat) : Nat → Bool := fun n => (es.take (k + 1)).contains n

end NemoVerif.Dnf
