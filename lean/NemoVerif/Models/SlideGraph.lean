/-
  C10 — `SlideGraph`: the control flow of `slide()` (statemachine.py) over ONE flow's primitive
  element list, with everything that is not control flow abstracted into an oracle.

  Python `slide(state, flow_state, flow_config, head)` is a `while True` loop that looks at
  `flow_config.elements[head.position]` and either moves `head.position` (a *sliding* element)
  or `break`s (a *waiting* element / end of flow / fork / merge).  One loop iteration = one call
  of `stepAt` below; `slide` is the fuelled loop.  The only data the control flow depends on:

    * the truth value of a `Goto` condition and whether an expression evaluation raises
      (`eval_expression`, `_evaluate_arguments`, the explicit `raise` statements) → `Ans`, supplied
      per loop iteration by an oracle `o : Nat → Ans` (all theorems quantify over every oracle);
    * `WaitForHeads`: whether enough heads are parked on the element → the same oracle (`tt` = enough);
    * the head's `catch_pattern_failure_label` stack → `Head.cstack` (label *positions*; Python keeps the
      label names and looks them up in `flow_config.element_labels` when `Abort` fires).

  `succs p u` is the (over-approximating) edge relation of the sliding graph: fall-through, both
  edges of a `Goto`, `Break/Continue` jumps, `Return`/`Abort` to the end, `Abort` to every catch label
  of the flow, `ForkHead` to every label (the new heads are advanced by `_advance_head_front`:
  `position += 1`, then `slide`), `MergeHeads`/`WaitForHeads` fall-through (the merged parent head
  continues behind the merge in the same `run_to_completion` call).  Waiting elements (match, action
  `send`, unknown `SpecOp`) and positions past the end are sinks.
-/
namespace NemoVerif.SlideGraph

/-- sliding-relevant classification of one primitive element (see `harness/translate/c10.py::classify`). -/
inductive Elem where
  /-- `SpecOp` match / `send` of a non-internal (action) event / other op: `break`;
      `evals` = the event is built first (`get_event_from_element` evaluates the arguments of an action `send`), which can raise -/
  | wait (evals : Bool)
  /-- `position += 1`; `evals` = the element evaluates something that can raise (internal `send`,
      `_new_action_instance`, `Assignment`, `Log`, `Print`, `Priority`, `BeginScope`, `EndScope`);
      `Label`, `Global`, unknown elements never raise -/
  | step (evals : Bool)
  /-- `Label("start_new_flow_instance")`: `position += 1`; in flow status STARTED it also pushes the
      restart `StartFlow` event (modelled in `ErrContain`, irrelevant for the control flow) -/
  | restartLabel
  /-- `Goto(expression, label)`; `target` = `element_labels[label]`, `none` for an invalid label -/
  | goto (target : Option Nat)
  /-- `Break` / `Continue`; `none` = no label (`position += 1`) -/
  | jump (target : Option Nat)
  /-- `Return` (evaluates its expression) -/
  | ret
  | abort
  /-- `CatchPatternFailure(label)` with `element_labels[label] = target` -/
  | catchPush (target : Nat)
  /-- `CatchPatternFailure(None)`: `pop(-1)` -/
  | catchPop
  /-- `ForkHead(labels)`, label positions -/
  | fork (targets : List Nat)
  | merge
  | waitHeads
  deriving DecidableEq, Repr, Inhabited

abbrev Prog := List Elem

/-- what the oracle says about the evaluation done in one loop iteration -/
inductive Ans where
  | tt | ff | err
  deriving DecidableEq, Repr, Inhabited

structure Head where
  pos : Nat
  /-- `catch_pattern_failure_label`, innermost LAST (Python appends / pops at the end) -/
  cstack : List Nat
  /-- `Abort` without a catch label ran: `flow_state.status = STOPPING` -/
  stopping : Bool := false
  deriving DecidableEq, Repr, Inhabited

/-- why the `while True` loop of `slide` was left -/
inductive Stop where
  /-- `head.position >= len(elements)` -/
  | atEnd
  /-- waiting element -/
  | waiting
  /-- `ForkHead`: this head becomes INACTIVE, new heads at the label positions -/
  | forked (targets : List Nat)
  /-- `MergeHeads` with an ACTIVE head: status := MERGING, break -/
  | merging
  /-- `WaitForHeads` without enough heads -/
  | waitingHeads
  /-- an exception left `slide` (caught by `_advance_head_front`) -/
  | error
  deriving DecidableEq, Repr, Inhabited

inductive Step where
  | next (h : Head)
  | stop (s : Stop)
  deriving DecidableEq, Repr, Inhabited

/-- One iteration of the `while True` loop of `slide` for an ACTIVE head. -/
def stepAt (p : Prog) (a : Ans) (h : Head) : Step :=
  match p[h.pos]? with
  | none => .stop .atEnd
  | some e =>
    match e with
    | .wait evals => if evals && a == .err then .stop .error else .stop .waiting
    | .step evals =>
      if evals && a == .err then .stop .error else .next { h with pos := h.pos + 1 }
    | .restartLabel => .next { h with pos := h.pos + 1 }
    | .goto target =>
      match a with
      | .err => .stop .error
      | .tt =>
        match target with
        | some t => .next { h with pos := t + 1 }
        | none => .next { h with pos := h.pos + 1 }
      | .ff => .next { h with pos := h.pos + 1 }
    | .jump (some t) => .next { h with pos := t + 1 }
    | .jump none => .next { h with pos := h.pos + 1 }
    | .ret => if a == .err then .stop .error else .next { h with pos := p.length }
    | .abort =>
      match h.cstack.getLast? with
      | some t => .next { h with pos := t + 1 }
      | none => .next { h with pos := p.length, stopping := true }
    | .catchPush t => .next { h with pos := h.pos + 1, cstack := h.cstack ++ [t] }
    | .catchPop =>
      match h.cstack with
      | [] => .stop .error   -- `[].pop(-1)` raises IndexError
      | _ :: _ => .next { h with pos := h.pos + 1, cstack := h.cstack.dropLast }
    | .fork ts => .stop (.forked ts)
    | .merge => .stop .merging
    | .waitHeads => if a == .tt then .next { h with pos := h.pos + 1 } else .stop .waitingHeads

structure Run where
  /-- positions looked at, one per loop iteration -/
  trace : List Nat
  /-- `none` = the fuel ran out (non-termination is possible in the real interpreter) -/
  stop : Option Stop
  final : Head
  deriving DecidableEq, Repr, Inhabited

/-- The loop of `slide`: `fuel` iterations at most, iteration number `k` asks the oracle `o k`. -/
def slide (p : Prog) (o : Nat → Ans) : Nat → Nat → Head → Run
  | 0, _, h => { trace := [], stop := none, final := h }
  | fuel + 1, k, h =>
    match stepAt p (o k) h with
    | .stop s => { trace := [h.pos], stop := some s, final := h }
    | .next h' =>
      let r := slide p o fuel (k + 1) h'
      { r with trace := h.pos :: r.trace }

/-! ### the sliding graph -/

def catchTargets (p : Prog) : List Nat :=
  p.filterMap fun e => match e with
    | .catchPush t => some t
    | _ => none

/-- successors of position `u` in the sliding graph (sinks: waiting elements, positions ≥ length). -/
def succs (p : Prog) (u : Nat) : List Nat :=
  match p[u]? with
  | none => []
  | some e =>
    match e with
    | .wait _ => []
    | .step _ => [u + 1]
    | .restartLabel => [u + 1]
    | .goto (some t) => [t + 1, u + 1]
    | .goto none => [u + 1]
    | .jump (some t) => [t + 1]
    | .jump none => [u + 1]
    | .ret => [p.length]
    | .abort => p.length :: (catchTargets p).map (· + 1)
    | .catchPush _ => [u + 1]
    | .catchPop => [u + 1]
    | .fork ts => ts.map (· + 1)
    | .merge => [u + 1]
    | .waitHeads => [u + 1]

def Edge (p : Prog) (u v : Nat) : Prop := v ∈ succs p u

/-- reflexive-transitive closure of `Edge` -/
inductive Reach (p : Prog) : Nat → Nat → Prop where
  | refl (u : Nat) : Reach p u u
  | step {u v w : Nat} : Edge p u v → Reach p v w → Reach p u w

/-- "every loop contains a waiting statement": no edge lies on a cycle of sliding elements. -/
def SlideAcyclic (p : Prog) : Prop := ∀ u v, Edge p u v → ¬ Reach p v u

/-- the catch stack of a head only holds labels of `CatchPatternFailure` elements of its own flow -/
def CatchOk (p : Prog) (h : Head) : Prop := ∀ t ∈ h.cstack, t ∈ catchTargets p

/-! ### the checker: compute a rank (longest sliding path) and VERIFY it -/

/-- certificate check: along every edge the rank strictly decreases -/
def checkRank (p : Prog) (r : Array Nat) : Bool :=
  (List.range p.length).all fun u => (succs p u).all fun v => r.getD v 0 < r.getD u 0

/-- one Gauss–Seidel sweep (from the last position down) of `rank u := max (rank v + 1) over successors` -/
def relaxAll (p : Prog) (r : Array Nat) : Array Nat :=
  (List.range p.length).reverse.foldl
    (fun r u => r.setIfInBounds u ((succs p u).foldl (fun m v => max m (r.getD v 0 + 1)) 0)) r

/-- sweeps until stable or out of rounds (un-verified search for the certificate) -/
def computeRank (p : Prog) : Nat → Array Nat → Array Nat
  | 0, r => r
  | n + 1, r =>
    let r' := relaxAll p r
    if r' == r then r else computeRank p n r'

/-- size of the rank table: every position mentioned as a successor must be inside -/
def tableSize (p : Prog) : Nat :=
  (List.range p.length).foldl (fun m u => (succs p u).foldl (fun m v => max m (v + 1)) m) (p.length + 1)

/-- The verified checker run by the harness on every compiled flow. -/
def slideAcyclic (p : Prog) : Bool :=
  checkRank p (computeRank p (p.length + 2) (Array.replicate (tableSize p) 0))

/-! ### stack-sensitive refinement

  The position graph above lets `Abort` jump to EVERY catch label of the flow.  The expansion of `when`/`match … or …`
  produces `…; catchPop; abort` behind the failure label, which closes a (spurious) cycle in that graph.  The refined
  certificate tracks which catch stacks can actually occur at which position (`inv`, an inductive invariant that the
  checker VERIFIES by running `stepAt` itself on every (position, stack) pair) and ranks positions along the moves that
  are possible from those states only. -/

/-- every state `slide` can move to in one iteration from position `u` with catch stack `s` (all three oracle answers),
    plus the continuation edges: the heads created by a fork are advanced behind their labels, the merged head goes on
    behind the merge -/
def contMoves (p : Prog) (u : Nat) (s : List Nat) : List (Nat × List Nat) :=
  ([Ans.tt, Ans.ff, Ans.err].filterMap fun a =>
      match stepAt p a { pos := u, cstack := s } with
      | .next h' => some (h'.pos, h'.cstack)
      | .stop _ => none) ++
  (match p[u]? with
   | some (.fork ts) => ts.map fun t => (t + 1, s)
   | some .merge => [(u + 1, s)]
   | _ => [])

/-- where the NEXT `slide` of a head parked on a waiting element starts: `_advance_head_front` moves an ACTIVE head one
    element on; a pattern failure first puts it on the innermost catch label (`run_to_completion`, `heads_failing`) -/
def resumeMoves (p : Prog) (u : Nat) (s : List Nat) : List (Nat × List Nat) :=
  match p[u]? with
  | some (.wait _) => (u + 1, s) :: (match s.getLast? with | some t => [(t + 1, s)] | none => [])
  | _ => []

structure Cert where
  /-- per position: the catch stacks a head can have there -/
  inv : List (List (List Nat))
  rank : Array Nat
  deriving Repr, Inhabited

def Cert.allowed (c : Cert) (u : Nat) (s : List Nat) : Bool := (c.inv.getD u []).contains s

/-- VERIFIED check of a certificate: the start state is allowed, `inv` is closed under slide moves and resume moves,
    the rank strictly decreases along every slide move and never exceeds the number of elements -/
def certOk (p : Prog) (c : Cert) : Bool :=
  c.allowed 0 [] &&
  ((List.range p.length).all fun u => (c.inv.getD u []).all fun s =>
    ((contMoves p u s).all fun m => c.allowed m.1 m.2 && decide (c.rank.getD m.1 0 < c.rank.getD u 0)) &&
    ((resumeMoves p u s).all fun m => c.allowed m.1 m.2)) &&
  ((List.range (p.length + 1)).all fun u => decide (c.rank.getD u 0 ≤ p.length))

/-- un-verified search: reachable (position, stack) states from the flow start -/
def explore (p : Prog) : Nat → List (Nat × List Nat) → List (Nat × List Nat) → List (Nat × List Nat)
  | 0, _, seen => seen
  | _ + 1, [], seen => seen
  | f + 1, (u, s) :: wl, seen =>
    let nbrs := ((contMoves p u s ++ resumeMoves p u s).filter fun m => !seen.contains m && m.1 ≤ p.length).eraseDups
    explore p f (wl ++ nbrs) (seen ++ nbrs)

def relaxStates (p : Prog) (inv : List (List (List Nat))) (r : Array Nat) : Array Nat :=
  (List.range p.length).reverse.foldl
    (fun r u => r.setIfInBounds u
      ((inv.getD u []).foldl (fun m s => (contMoves p u s).foldl (fun m v => max m (r.getD v.1 0 + 1)) m) 0)) r

def computeRankStates (p : Prog) (inv : List (List (List Nat))) : Nat → Array Nat → Array Nat
  | 0, r => r
  | n + 1, r =>
    let r' := relaxStates p inv r
    if r' == r then r else computeRankStates p inv n r'

def buildCert (p : Prog) : Cert :=
  let seen := explore p (64 * (p.length + 2)) [(0, [])] [(0, [])]
  let inv := (List.range (p.length + 1)).map fun u => (seen.filter fun m => m.1 == u).map (·.2)
  { inv := inv, rank := computeRankStates p inv (p.length + 2) (Array.replicate (p.length + 2) 0) }

/-- The refined verified checker. -/
def slideRanked (p : Prog) : Bool := certOk p (buildCert p)

/-- bound of T1: loop iterations of one `slide` call -/
def slideBound (p : Prog) : Nat := p.length + 1

end NemoVerif.SlideGraph
