/-
  C16 — `logging/processing_log.py::compute_generation_log` as a fold over the processing log.

  The processing log is abstracted to the alphabet `LogEv` (timestamps, payloads and durations dropped;
  the harness twin is `harness/impl/pipeline_opts.py::abstract_plog`).  The Python loop keeps a reference
  `activated_rail` to an object that is also the LAST element of `generation_log.activated_rails` (every
  assignment to it is immediately followed by an `append` of the same object) — the model keeps that rail
  apart as `St.cur` and the earlier ones in `St.done`; the returned list is `done ++ cur.toList`.
  `executed_action` is a reference to an action object inside some rail: modelled as a pair of indices.
  Every place where Python would raise `AttributeError` on `None` is an explicit `Err.attr`.
-/
namespace NemoVerif.GenLog

inductive RailType where
  | input | output | dialog | generation
  deriving DecidableEq, Repr, Inhabited

def RailType.isIO : RailType → Bool
  | .input => true
  | .output => true
  | _ => false

/-- One element of a `step` entry's `next_steps`. -/
inductive NextStep where
  | act (name : String)      -- `StartInternalSystemAction`
  | intent (name : String)   -- `BotIntent`
  | other
  deriving DecidableEq, Repr, Inhabited

inductive LogEv where
  | step (flowId : String) (next : List NextStep)
  | startIn (flowId : String)     -- event `StartInputRail`
  | startOut (flowId : String)    -- event `StartOutputRail`
  | railFin                       -- event `InputRailFinished` / `OutputRailFinished`
  | actStart (name : String)      -- event `StartInternalSystemAction`
  | actFin (name : String)        -- event `InternalSystemActionFinished`
  | llm (task : String)           -- `llm_call_info`
  | other                         -- any other event (only timing information is taken from them)
  deriving DecidableEq, Repr, Inhabited

structure Act where
  name : String
  llm : List String      -- tasks of the LLM calls recorded for this action
  finished : Bool
  deriving DecidableEq, Repr, Inhabited

structure Rail where
  type : RailType
  name : String
  decisions : List String
  actions : List Act
  stop : Bool
  finished : Bool        -- `finished_at is not None`
  deriving DecidableEq, Repr, Inhabited

/-- The literal tables of `compute_generation_log` (generated from the source on every run). -/
structure Consts where
  ignoredActions : List String
  ignoredFlows : List String
  generationFlows : List String
  relabelName : String
  relabelTask : String
  deriving Repr, Inhabited

inductive Err where
  | attr    -- AttributeError: 'NoneType' object has no attribute …
  | index   -- IndexError: `processing_log[-1]` on an empty log
  deriving DecidableEq, Repr

structure St where
  done : List Rail
  cur : Option Rail             -- Python's `activated_rail` (always the last rail of the list)
  exec : Option (Nat × Nat)     -- Python's `executed_action`: (rail index, action index)
  deriving Repr, Inhabited

def St.init : St := ⟨[], none, none⟩

def newRail (K : Consts) (fid : String) : Rail :=
  { type := if K.generationFlows.contains fid then .generation else .dialog,
    name := fid, decisions := [], actions := [], stop := false, finished := false }

def ioRail (t : RailType) (fid : String) : Rail :=
  { type := t, name := fid, decisions := [], actions := [], stop := false, finished := false }

/-- `for step in event["next_steps"]: …` -/
def decisionsOf (K : Consts) : List NextStep → List String
  | [] => []
  | .act n :: rest => if K.ignoredActions.contains n then decisionsOf K rest else s!"execute {n}" :: decisionsOf K rest
  | .intent i :: rest => i :: decisionsOf K rest
  | .other :: rest => decisionsOf K rest

def Rail.addDecisions (r : Rail) (ds : List String) : Rail := { r with decisions := r.decisions ++ ds }

def modifyNth {α : Type} (f : α → α) : List α → Nat → List α
  | [], _ => []
  | x :: xs, 0 => f x :: xs
  | x :: xs, n + 1 => x :: modifyNth f xs n

def Rail.modifyAct (f : Act → Act) (j : Nat) (r : Rail) : Rail := { r with actions := modifyNth f r.actions j }

/-- Mutate the action object `executed_action` refers to. -/
def St.modifyExec (st : St) (i j : Nat) (f : Act → Act) : St :=
  if i < st.done.length then { st with done := modifyNth (Rail.modifyAct f j) st.done i }
  else { st with cur := st.cur.map (Rail.modifyAct f j) }

/-- One iteration of `for event in processing_log`. -/
def stepEv (K : Consts) (st : St) : LogEv → Except Err St
  | .step fid next =>
    match st.cur with
    | none =>
      if K.ignoredFlows.contains fid then .ok st
      else .ok { st with cur := some ((newRail K fid).addDecisions (decisionsOf K next)) }
    | some r =>
      if r.type == .dialog && r.name != fid then
        if K.ignoredFlows.contains fid then .ok st
        else .ok { st with done := st.done ++ [r], cur := some ((newRail K fid).addDecisions (decisionsOf K next)) }
      else .ok { st with cur := some (r.addDecisions (decisionsOf K next)) }
  | .startIn fid => .ok { st with done := st.done ++ st.cur.toList, cur := some (ioRail .input fid) }
  | .startOut fid => .ok { st with done := st.done ++ st.cur.toList, cur := some (ioRail .output fid) }
  | .railFin =>
    match st.cur with
    | none => .error .attr
    | some r => .ok { st with done := st.done ++ [{ r with finished := true }], cur := none }
  | .actStart n =>
    if K.ignoredActions.contains n then .ok st
    else match st.cur with
      | none => .error .attr
      | some r => .ok { st with cur := some { r with actions := r.actions ++ [⟨n, [], false⟩] },
                                exec := some (st.done.length, r.actions.length) }
  | .actFin n =>
    if K.ignoredActions.contains n then .ok st
    else match st.exec with
      | none => .error .attr
      | some (i, j) => .ok { st.modifyExec i j (fun a => { a with finished := true }) with exec := none }
  | .llm t =>
    match st.exec with
    | none => .error .attr
    | some (i, j) => .ok (st.modifyExec i j (fun a => { a with llm := a.llm ++ [t] }))
  | .other => .ok st

def run (K : Consts) : St → List LogEv → Except Err St
  | st, [] => .ok st
  | st, e :: rest => match stepEv K st e with
    | .ok st' => run K st' rest
    | .error err => .error err

/-- "If at the end of the processing we still have an active rail, it is because we have hit a stop." -/
def closeCur (r : Rail) : Rail :=
  if r.type.isIO then { r with finished := true, stop := true, decisions := r.decisions ++ ["stop"] }
  else { r with finished := true }

/-- "For all the dialog/generation rails, we set the finished time … based on the rail right after":
    every rail but the last one. -/
def finishInit : List Rail → List Rail
  | [] => []
  | [r] => [r]
  | r :: rs => (if r.type.isIO then r else { r with finished := true }) :: finishInit rs

/-- `generate user intent` with exactly one action with exactly one LLM call of task `general` ⇒ generation. -/
def relabel (K : Consts) (r : Rail) : Rail :=
  if r.name == K.relabelName then
    match r.actions with
    | [a] => match a.llm with
      | [t] => if t == K.relabelTask then { r with type := .generation } else r
      | _ => r
    | _ => r
  else r

def llmCount (rs : List Rail) : Nat :=
  (rs.map fun r => (r.actions.map fun a => a.llm.length).sum).sum

structure Out where
  rails : List Rail
  llmCalls : Nat
  deriving DecidableEq, Repr

def finalize (K : Consts) (st : St) : Out :=
  let all := st.done ++ (st.cur.map closeCur).toList
  let rs := (finishInit all).map (relabel K)
  { rails := rs, llmCalls := llmCount rs }

/-- `compute_generation_log`. -/
def compute (K : Consts) (log : List LogEv) : Except Err Out :=
  match log with
  | [] => .error .index
  | _ => match run K St.init log with
    | .ok st => .ok (finalize K st)
    | .error e => .error e

/-! ### The specification the theorems compare with -/

/-- What the log says about input/output rails: (type, name, stop). -/
structure IOKey where
  type : RailType
  name : String
  stop : Bool
  deriving DecidableEq, Repr

def ioKeys : List Rail → List IOKey
  | [] => []
  | r :: rs => if r.type.isIO then ⟨r.type, r.name, r.stop⟩ :: ioKeys rs else ioKeys rs

def LogEv.startOf : LogEv → Option (RailType × String)
  | .startIn n => some (.input, n)
  | .startOut n => some (.output, n)
  | _ => none

/-- a rail start or a rail finish event -/
def LogEv.isStartOrFin : LogEv → Bool
  | .startIn _ => true
  | .startOut _ => true
  | .railFin => true
  | _ => false

/-- One entry per `Start{Input,Output}Rail` event, in order; `stop` iff NO rail-start and NO rail-finish
    event follows it in the log ("the rail after whose start no finish event follows"). -/
def stopSpec : List LogEv → List IOKey
  | [] => []
  | e :: rest => match e.startOf with
    | some (t, n) => ⟨t, n, !(rest.any LogEv.isStartOrFin)⟩ :: stopSpec rest
    | none => stopSpec rest

end NemoVerif.GenLog
