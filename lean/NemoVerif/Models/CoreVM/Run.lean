/-
  CoreVM — `run_to_completion` and what it calls directly: `_clean_up_state`,
  `_process_internal_events_without_default_matchers`, `_get_all_head_candidates`, `_handle_event_matching`
  (`_create_event_reference`, `_start_flow`), `_resolve_action_conflicts`, and the three nested loops.
-/
import NemoVerif.Models.CoreVM.Interp

namespace NemoVerif.CoreVM
open NemoVerif NemoVerif.CoreIndex

/-! ### `_clean_up_state` -/

def cleanUpState : M Unit := do
  -- clear all matching scores
  modifyRest fun r => { r with hx := r.hx.map fun e => (e.1, { e.2 with scores := [] }) }
  let ix ← getIx
  let r ← getRest
  -- (repo fix 7dd9b7a, formerly finding `cleanup-dangling-parent` of C11): `needed_parent_uids` — an instance that a flow with
  -- `activated > 0` names as its parent stays (its `flow_id` is looked up when that flow is deactivated / restarted)
  let needed : List (Option FUid) := r.fx.filterMap fun e => if e.2.activated > 0 then some e.2.parentUid else none
  let mut toRemove : List FUid := []
  for i in ix.insts do
    match OMap.lookup i.uid r.fx with
    | some x =>
      if i.status.done && r.clock - x.statusUpdated > 5 && x.activated = 0 && !needed.contains (some i.uid) then
        toRemove := toRemove ++ [i.uid]
    | none => unsupported "instance without extras"
  for u in toRemove do
    let x ← getInstX u
    match x.parentUid with
    | some p =>
      match ← getInstX? p with
      -- REPAIRED behaviour (fixes/C09-cleanup-dangling-references.diff; on the unpatched tree this is the region of the open finding
      -- `dangling-child`): every occurrence is removed (a flow activated n times is listed n times)
      | some px => if px.childFlowUids.contains u then modInstX p fun y => { y with childFlowUids := y.childFlowUids.filter (· ≠ u) }
      | none => pure ()
    | none => pure ()
    -- REPAIRED behaviour (fixes/C09-cleanup-other-activators.diff; on the unpatched tree this is the region of the open finding
    -- `dangling-child`, variant "other activator"): a flow activated from several flows is listed as a child by each of them,
    -- not only by its parent; every flow's child list drops the removed flow
    modifyRest fun r => { r with fx := r.fx.map fun (fu, y) => (fu, { y with childFlowUids := y.childFlowUids.filter (· ≠ u) }) }
    -- REPAIRED behaviour (same diff; region of the open finding `dangling-scope-flow`): open scopes drop the removed flow
    modifyRest fun r => { r with fx := r.fx.map fun (fu, y) =>
      (fu, { y with scopes := y.scopes.map fun (n, (fl, al)) => (n, (fl.filter (· ≠ u), al)) }) }
    modifyRest fun r => { r with idStates := OMap.modify x.flowId (listRemoveFirst u) r.idStates, fx := OMap.erase u r.fx }
    applyOp (.removeInst u)
  -- remove all actions that are no longer referenced
  let r ← getRest
  let mut newActions : List (String × Action) := []
  for (_, x) in r.fx do
    for au in x.actionUids do
      if (OMap.lookup au newActions).isNone then
        match OMap.lookup au r.actions with
        | some a => newActions := newActions ++ [(au, a)]
        | none => pyRaise "KeyError" au
  modifyRest fun r => { r with actions := newActions }

/-! ### `_process_internal_events_without_default_matchers` -/

def argStr (args : List (String × Val)) (k : String) : M String :=
  match lookupArg k args with
  | some (.str s) => pure s
  | some _ => unsupported s!"non-string event argument {k}"
  | none => pyRaise "KeyError" k

/-- `_get_reference_activated_flow_instance` -/
def referenceActivatedInstance (flowId : String) (evArgs : List (String × Val)) : M (Option FUid) := do
  let r ← getRest
  let cfg ← getCfg flowId
  for u in (OMap.lookup flowId r.idStates).getD [] do
    let x ← getInstX u
    let skip ← (do
      if x.activated = 0 then return true
      match x.parentUid with
      | none => return true        -- `None not in state.flow_states`
      | some p =>
        match ← getInstX? p with
        | none => return true
        | some px => return x.flowId = px.flowId : M Bool)
    if skip then continue
    let mut matching := true
    let mut idx := 0
    for p in cfg.params do
      let key := flowArgKey p.name
      let val ← match lookupArg key x.arguments with
        | some v => pure v
        | none => pyRaise "KeyError" key
      let pos := s!"${idx}"
      let mut matched := match lookupArg key evArgs with
        | some v => pyEq val v
        | none => false
      matched := matched || (match lookupArg pos evArgs with
        | some v => pyEq val v
        | none => false)
      if (lookupArg key evArgs).isNone && (lookupArg pos evArgs).isNone then
        match p.default with
        | some d => matched := matched || pyEq val (← evalEmpty d)
        | none => pure ()
      if !matched then
        matching := false
        break
      idx := idx + 1
    if matching then return some u
  return none

/-- returns the (possibly rewritten) event and the handled loops -/
def processInternalEvent (fuel : Nat) (event : Event) : M (Event × List String) := do
  let args := event.ev.args
  let r ← getRest
  match event.ev.name with
  | "StartFlow" =>
    let flowId ← argStr args "flow_id"
    if (r.prog.find flowId).isSome && flowId ≠ "main" then
      let mut started : Option FUid := none
      let activatedArg := match lookupArg "activated" args with | some v => truthy v | none => false
      if activatedArg && (OMap.lookup flowId r.idStates).isSome then
        started ← referenceActivatedInstance flowId args
      let src ← argStr args "source_flow_instance_uid"
      let srcX ← getInstX src
      let isActivatedChild := flowId = srcX.flowId
      let srcInst ← getInst src
      let isRestart := isActivatedChild && activatedArg
      if (srcInst.status.done && !isRestart) || (isRestart && srcX.activated = 0) then
        -- the flow that requested the start has ended in the meantime (or, for a restart, was deactivated): dropped
        return (event, ["all_loops"])
      match started with
      | some s =>
        if !isActivatedChild then
          modInstX s fun x => { x with activated := x.activated + 1 }
          modInstX src fun x => { x with childFlowUids := x.childFlowUids ++ [s] }
          let o ← flowObjOf s
          let fiu ← match lookupArg "flow_instance_uid" args with
            | some v => pure v
            | none => pyRaise "KeyError" "flow_instance_uid"
          pushEvent { ev := { kind := .internal, name := "FlowStarted", args := outEventArgs o [("flow_instance_uid", fiu)] }, scores := event.scores }
          return (event, ["all_loops"])
      | none => pure ()
      let mut event := event
      if started.isSome && isActivatedChild then
        event := { event with ev := { event.ev with args := setArg "source_flow_instance_uid" (.str started.get!) event.ev.args } }
      let uid ← argStr event.ev.args "flow_instance_uid"
      let hp ← argStr event.ev.args "flow_hierarchy_position"
      addNewFlowInstance uid (← getCfg flowId) hp event.ev.args
      return (event, [])
    return (event, [])
  | "FinishFlow" | "StopFlow" =>
    let isFinish := event.ev.name = "FinishFlow"
    let mut handled : List String := []
    match lookupArg "flow_instance_uid" args with
    | some v =>
      let uid ← match v with | .str s => pure s | _ => unsupported "non-string flow_instance_uid"
      match ← getInst? uid with
      | some i =>
        let inactive := i.status = .waiting || i.status = .stopped || i.status = .finished
        if !inactive then
          if isFinish then finishFlow fuel uid event.scores false
          else abortFlow fuel uid event.scores ((← getInstX uid).activated > 0)
          match (← getInstX uid).loopId with
          | some l => handled := handled ++ [l]
          | none => pyRaise "AssertionError" "loop_id"
      | none => pure ()
    | none =>
      match lookupArg "flow_id" args with
      | some fid =>
        let deactivate := match lookupArg "deactivate" args with | some v => truthy v | none => false
        let rest := (((args.filter fun kv => kv.1 ≠ "flow_id").filter fun kv => kv.1 ≠ "deactivate").filter fun kv => kv.1 ≠ "source_flow_instance_uid").filter fun kv => kv.1 ≠ "source_head_uid"
        let fidS ← match fid with | .str s => pure s | _ => unsupported "non-string flow_id"
        for u in (OMap.lookup fidS r.idStates).getD [] do
          let x ← getInstX u
          if dictSubset rest x.arguments then
            if isFinish then finishFlow fuel u event.scores deactivate
            else abortFlow fuel u event.scores deactivate
            match (← getInstX u).loopId with
            | some l => handled := handled ++ [l]
            | none => pyRaise "AssertionError" "loop_id"
      | none => pure ()
    return (event, handled)
  | "BotIntentLog" | "UserIntentLog" | "BotActionLog" | "UserActionLog" =>
    modifyRest fun r => { r with lastEvents := r.lastEvents + 1 }
    return (event, ["all_loops"])
  | _ => return (event, [])

/-! ### `_get_all_head_candidates` -/

/-- stable ascending insertion sort -/
def sortBy {α} (lt : α → α → Bool) (xs : List α) : List α :=
  xs.foldl (fun acc x =>
    let rec ins : List α → List α
      | [] => [x]
      | y :: ys => if lt x y then x :: y :: ys else y :: ins ys
    ins acc) []

def getAllHeadCandidates (name : String) : M (List Key) := do
  let ix ← getIx
  let mut cands := bucket ix name
  if name = "FlowFinished" then cands := cands ++ bucket ix "FlowStarted" ++ bucket ix "FlowFailed"
  else if name = "FlowFailed" then cands := cands ++ bucket ix "FlowStarted" ++ bucket ix "FlowFinished"
  let mut keyed : List ((Int × String) × Key) := []
  for k in cands do
    let x ← getInstX k.1
    let cfg ← getCfg x.flowId
    keyed := keyed ++ [((-cfg.loopPriority, x.hierPos), k)]
  let lt := fun (a b : (Int × String) × Key) => a.1.1 < b.1.1 || (a.1.1 = b.1.1 && a.1.2 < b.1.2)
  return (sortBy lt keyed).map (·.2)

/-! ### `_handle_event_matching` -/

/-- `Action.from_event(event)` -/
def actionFromEvent (e : Match.Ev) (uid : String) : M Action := do
  let names := ["Started", "Updated", "Finished", "Start", "Change", "Stop"]
  match names.find? (fun n => hasSub e.name n) with
  | some n =>
    let _ ← freshUid
    return { uid := uid, name := e.name.replace n "", flowUid := none,
             status := if n = "Finished" then .finished else .started }
  | none => pyRaise "AssertionError" "user_action is not None"

/-- `_create_event_reference` → the new context entry -/
def createEventReference (f : FUid) (spec : Spec) (refName : String) (event : Event) : M Unit := do
  let ne ← getEvent f spec true
  let mut ne := { ne with args := updateArgs ne.args event.ev.args }
  if ne.kind = .internal then
    match lookupArg "source_flow_instance_uid" event.ev.args with
    | some (.str u) =>
      if (← getInstX? u).isNone then pyRaise "KeyError" u
      ne := { ne with flowUid := some u }
    | some .none | none => pure ()
    | some _ => unsupported "non-string source_flow_instance_uid"
  else if ne.kind = .action then
    if event.ev.kind ≠ .action then unsupported "action pattern matched by a non-action event object"
    ne := { ne with actionUid := event.ev.actionUid }
    match event.ev.actionUid with
    | some au =>
      if (← getAction? au).isNone then
        setAction (← actionFromEvent event.ev au)
    | none => pure ()
  let r ← getRest
  let id := s!"e{r.events.length}"
  modifyRest fun r => { r with events := r.events ++ [(id, { ev := ne })] }
  setCtxVar f refName (.ref "event" id)

/-- `_start_flow(state, flow_state, event_arguments)` -/
def startFlow (f : FUid) (evArgs : List (String × Val)) : M Unit := do
  let r ← getRest
  if r.mainUid ≠ some f then
    let parent ← argStr evArgs "source_flow_instance_uid"
    let px ← getInstX parent
    modInstX f fun x => { x with parentUid := some parent }
    modInstX parent fun x => { x with childFlowUids := x.childFlowUids ++ [f] }
    let sh ← match lookupArg "source_head_uid" evArgs with
      | some (.str s) => pure (some s)
      | some .none => pure none
      | some _ => unsupported "non-string source_head_uid"
      | none => pyRaise "KeyError" "source_head_uid"
    modInstX f fun x => { x with parentHeadUid := sh }
    let cfg ← cfgOfInst f
    let loopId ← match cfg.loopId with
      | some "NEW" => do pure (some (← freshUid))
      | some l => pure (some l)
      | none => pure px.loopId
    let activated ← match lookupArg "activated" evArgs with
      | some (.bool true) => pure (1 : Int)
      | some (.bool false) => pure 0
      | some (.int n) => pure n
      | some .none => unsupported "activated=None"
      | some _ => unsupported "non-integer activated"
      | none => pure 0
    modInstX f fun x => { x with loopId := loopId, activated := activated }
    -- resolve positional flow parameters
    let x ← getInstX f
    let mut lastIdx : Int := -1
    let mut idx : Nat := 0
    for (argName, _) in x.arguments do
      lastIdx := idx
      match lookupArg s!"${idx}" evArgs with
      | some v => setCtxVar f (flowParamName argName) v
      | none => break
      idx := idx + 1
    if (lookupArg s!"${lastIdx + 1}" evArgs).isSome then
      pyRaise "ColangRuntimeError" s!"To many parameters provided in start of flow '{x.flowId}'"

/-- the body of the try block of `_handle_event_matching` for one matched head (element and flow state are looked up
    in front of the try block) -/
def handleMatch (event : Event) (k : Key) (cfg : FlowCfg) (hd : Head) : M Unit := do
    let f := k.1
    match cfg.elements[hd.pos]? with
    | some (.matchOp spec _) | some (.sendOp spec) | some (.newAction spec) =>
      match spec.ref with
      | some r => createEventReference f spec r event
      | none => pure ()
    | _ => pure ()
    let x ← getInstX f
    if event.ev.name = "StartFlow" && hd.pos = 0 then
      match lookupArg "flow_id" event.ev.args with
      | some v => if pyEq v (.str x.flowId) then startFlow f event.ev.args
      | none => pyRaise "KeyError" "flow_id"
    else if event.ev.name = "StartFlow" then
      if (lookupArg "flow_id" event.ev.args).isNone then pyRaise "KeyError" "flow_id"
    else if event.ev.name = "FlowStarted" then
      let hx ← getHeadX k
      for sc in hx.scopeUids do
        if (OMap.lookup sc (← getInstX f).scopes).isSome then
          let src ← match lookupArg "source_flow_instance_uid" event.ev.args with
            | some (.str s) => pure s
            | some _ => unsupported "non-string source_flow_instance_uid"
            | none => pyRaise "KeyError" "source_flow_instance_uid"
          modInstX f fun y => { y with scopes := OMap.modify sc (fun p => (p.1 ++ [src], p.2)) y.scopes }

/-- `_handle_event_matching(state, event, heads_matching)` (fixes/C10-handle-match-error-contained.diff): the work per head runs
    inside a try block; a runtime error is reported as `ColangError` and the head is handed back to the caller, which fails
    its flow together with the other erroring heads -/
def handleEventMatching (event : Event) (headsMatching : List Key) : M (List Key) := do
  let mut headsErroring : List Key := []
  for k in headsMatching do
    let cfg ← cfgOfInst k.1
    let some hd ← getHead? k | unsupported "matching head vanished"
    match ← attemptPy (handleMatch event k cfg hd) with
    | .ok _ => pure ()
    | .error (c, m) =>
      -- a runtime error while handling the match fails only the flow of this head
      pushEvent (colangErrorEvent c m)
      modifyRest fun r => { r with caught := r.caught ++ [s!"handle: {c}: {m}"] }
      headsErroring := headsErroring ++ [k]
  return headsErroring

/-! ### `_resolve_action_conflicts` -/

/-- `_generate_action_event_from_actionable_element` -/
def generateActionEvent (k : Key) : M Unit := do
  let f := k.1
  let cfg ← cfgOfInst f
  let some hd ← getHead? k | unsupported "actionable head vanished"
  match cfg.elements[hd.pos]? with
  | some (.sendOp spec) =>
    if !(Prim.sendOp spec).isActionOp then pyRaise "AssertionError" "not an actionable element"
    let e ← getEvent f spec false
    let e' ← generateUmimEvent e
    if e.kind = .action then
      if e'.actionUid.isNone then pyRaise "KeyError" "action_uid"
      match spec.ref with
      | some r =>
        let rr ← getRest
        let id := s!"e{rr.events.length}"
        modifyRest fun r => { r with events := r.events ++ [(id, { ev := e' })] }
        setCtxVar f r (.ref "event" id)
      | none => pure ()
  | _ => pyRaise "AssertionError" "not an actionable element"

def eventIsEqual (a b : Match.Ev) : Bool := a.name = b.name && pyEq (.dict a.args) (.dict b.args)

def resolveActionConflicts (fuel : Nat) (actionable : List Key) : M (List Key) := do
  match actionable with
  | [] => return []
  | [k] =>
    generateActionEvent k
    return [k]
  | _ =>
    -- group by interaction loop, in dict order
    let mut groups : List (String × List Key) := []
    for k in actionable do
      let l ← match (← getInstX k.1).loopId with
        | some l => pure l
        | none => pyRaise "AssertionError" "loop_id"
      groups := match OMap.lookup l groups with
        | some _ => OMap.modify l (· ++ [k]) groups
        | none => groups ++ [(l, [k])]
    let mut advancing : List Key := []
    for (_, group) in groups do
      let r ← getRest
      let scoresOf := fun (kk : Key) => ((OMap.lookup kk r.hx).getD {}).scores
      let maxLen := group.foldl (fun m kk => max m (scoresOf kk).length) 0
      let ordered := sortDesc (fun kk => padScores (scoresOf kk) maxLen) group
      let nEq := equalPrefixLen scoresOf ordered
      let c ← pickChoice nEq
      let picked := ordered[c]!
      let specOf := fun (kk : Key) => (do
        let cfg ← cfgOfInst kk.1
        let some hd ← getHead? kk | unsupported "competing head vanished"
        match cfg.elements[hd.pos]? with
        | some (.sendOp spec) => pure spec
        | some (.matchOp spec _) | some (.newAction spec) => pure spec
        | some _ => pyRaise "AssertionError" "isinstance(winning_element, SpecOp)"
        | none => pyRaise "IndexError" "list index out of range" : M Spec)
      let wspec ← specOf picked
      let winning ← getEvent picked.1 wspec false
      advancing := advancing ++ [picked]
      generateActionEvent picked
      for k in ordered do
        if k = picked then continue
        let cspec ← specOf k
        let competing ← getEvent k.1 cspec false
        -- `_is_same_event_for_conflict`: equal events of two DIFFERENT action instances only agree when they start the action
        let sameEvent ← (do
          if !eventIsEqual winning competing then return false
          match winning.kind, winning.actionUid, competing.kind, competing.actionUid with
          | .action, some wu, .action, some cu =>
            if wu ≠ cu then
              match ← getAction? wu with
              | some a => return winning.name = "Start" ++ a.name
              | none => return false
            else return true
          | _, _, _, _ => return true : M Bool)
        if sameEvent then
          match winning.kind, winning.actionUid, competing.kind, competing.actionUid with
          | .action, some wu, .action, some cu =>
            -- fixes/C05-cowin-on-borrowed-action.diff: a flow that only holds a reference to an action of another flow keeps it
            if cu ≠ wu && (← getInstX k.1).actionUids.contains cu then
              for (key, v) in ← getCtx k.1 do
                match v with
                | .ref "action" u =>
                  if u = cu then
                    match ← getAction? wu with
                    | some a => setAction { a with scopeCount := a.scopeCount + 1 }
                    | none => pyRaise "KeyError" wu
                    setCtxVar k.1 key (.ref "action" wu)
                | _ => pure ()
              -- (`action_uids.index(uid)` cannot raise: membership was tested above and the loop does not touch the list)
              let rec replaceFirst : List String → List String
                | [] => []
                | y :: ys => if y = cu then wu :: ys else y :: replaceFirst ys
              modInstX k.1 fun y => { y with actionUids := replaceFirst y.actionUids }
              -- (repair 2a6b31b, formerly finding `dangling-scope-action`): scopes that registered the replaced action refer to the winning one
              modInstX k.1 fun y => { y with scopes := y.scopes.map fun (n, (fl, al)) => (n, (fl, al.map fun u => if u = cu then wu else u)) }
              -- fixes/C05-cowin-double-delete.diff: `state.actions.pop(uid, None)`
              modifyRest fun r => { r with actions := OMap.erase cu r.actions }
          | _, _, _, _ => pure ()
          advancing := advancing ++ [k]
        else
          let hx ← getHeadX k
          match hx.catchLabels.getLast? with
          | some l =>
            let cfg ← cfgOfInst k.1
            setHeadPos k (← labelPos cfg l)
            advancing := advancing ++ [k]
          | none => abortFlow fuel k.1 hx.scores false
    return advancing

/-! ### the three nested loops of `run_to_completion` -/

/-- `list.remove(head)` on a list of heads (first occurrence) -/
def listRemoveKey (k : Key) : List Key → List Key
  | [] => []
  | y :: ys => if y = k then ys else y :: listRemoveKey k ys

/-- one internal event (the body of `while state.internal_events`) -/
def processEvent (fuel : Nat) (event : Event) (actionable : List Key) : M (List Key) := do
  -- active interaction loops
  let ix ← getIx
  let mut activeLoops : List (Option String) := []
  for i in ix.insts do
    if i.status.listening then
      let l := (← getInstX i.uid).loopId
      if !activeLoops.contains l then activeLoops := activeLoops ++ [l]
  if event.ev.name = "ContextUpdate" then
    match lookupArg "data" event.ev.args with
    | some (.dict d) => modifyRest fun r => { r with gctx := updateArgs r.gctx d }
    | some _ => unsupported "ContextUpdate with non-dict data"
    | none => pure ()
  let (event, handled0) ← processInternalEvent fuel event
  let mut handled := handled0
  let cands ← getAllHeadCandidates event.ev.name
  let mut headsMatching : List Key := []
  let mut headsFailing : List Key := []
  let mut headsErroring : List Key := []
  for k in cands do
    let some i ← getInst? k.1 | pyRaise "KeyError" k.1
    let some hd := i.findHead k.2 | pyRaise "KeyError" k.2
    let cfg ← cfgOfInst k.1
    match cfg.elements[hd.pos]? with
    | some (.matchOp spec _) =>
      let outcome ← attemptPy (eventMatchingScore k.1 spec event)
      match outcome with
      | .error (c, m) =>
        -- a runtime error while evaluating the match statement fails only the flow of this head
        pushEvent (colangErrorEvent c m)
        modifyRest fun r => { r with caught := r.caught ++ [s!"match: {c}: {m}"] }
        headsErroring := headsErroring ++ [k]
      | .ok (.matched sc) =>
        modHeadX k fun y => { y with scores := event.scores ++ [sc] }
        headsMatching := headsMatching ++ [k]
        if event.ev.name = "StartFlow" then handled := handled ++ ["all_loops"]
        else
          match (← getInstX k.1).loopId with
          | some l => handled := handled ++ [l]
          | none => pyRaise "AssertionError" "loop_id"
      | .ok .failed => headsFailing := headsFailing ++ [k]
      | .ok .noMatch => pure ()
    | _ => pure ()
  -- unhandled event
  let unhandled := activeLoops.filter fun l => match l with
    | some l => !handled.contains l
    | none => true
  if !handled.contains "all_loops" && !unhandled.isEmpty && event.ev.name ≠ "UnhandledEvent" then
    let loopIds : List Val := unhandled.map fun l => match l with | some l => Val.str l | none => Val.none
    let args := setArg "loop_ids" (.set loopIds) (setArg "event" (.str event.ev.name) event.ev.args)
    pushEvent (mkInternal "UnhandledEvent" args event.scores)
  -- most specific matches first
  let r ← getRest
  let scoresOf := fun (kk : Key) => ((OMap.lookup kk r.hx).getD {}).scores
  headsMatching := sortDesc scoresOf headsMatching
  -- `for head in _handle_event_matching(…): heads_matching.remove(head); heads_erroring.append(head)`
  for k in ← handleEventMatching event headsMatching do
    headsMatching := listRemoveKey k headsMatching
    headsErroring := headsErroring ++ [k]
  if event.ev.kind = .action then updateActionStatusByEvent event.ev
  for k in headsFailing do
    let hx ← getHeadX k
    match hx.catchLabels.getLast? with
    | some l =>
      let cfg ← cfgOfInst k.1
      setHeadPos k (← labelPos cfg l)
      headsMatching := headsMatching ++ [k]
    | none => abortFlow fuel k.1 [] false
  for k in headsErroring do abortFlow fuel k.1 [] false
  let mut actionable := actionable
  for nh in ← advanceHeadFront fuel headsMatching do
    if !actionable.contains nh then actionable := actionable ++ [nh]
  return actionable

/-- `while state.internal_events:` — returns only when the queue is empty -/
def drainEvents : Nat → List Key → M (List Key)
  | 0, _ => throw .outOfFuel
  | fuel + 1, actionable => do
    match (← getRest).queue with
    | [] => return actionable
    | e :: rest =>
      modifyRest fun r => { r with queue := rest }
      let actionable ← processEvent fuel e actionable
      drainEvents fuel actionable

def headStatusOf (ix : IState) (k : Key) : Option HeadStatus :=
  ((findInst ix k.1).bind (·.findHead k.2)).map (·.status)

/-- a pending head object that left `heads` through `heads.clear()` keeps its Python status; the model can only
    follow when that cannot matter (its flow is not listening) -/
def pendingDetachedBad (ix : IState) (cleared : List Key) (actionable : List Key) : Bool :=
  actionable.any fun k =>
    (headStatusOf ix k).isNone &&
      (match findInst ix k.1 with
       | some i => i.status.listening && cleared.contains k
       | none => true)

/-- `while heads_are_merging:` -/
def mergeLoop : Nat → List Key → M (List Key)
  | 0, _ => throw .outOfFuel
  | fuel + 1, actionable => do
    let actionable ← drainEvents fuel actionable
    let s ← get
    let ix := s.ixs.ix
    if pendingDetachedBad ix s.r.cleared actionable then
      unsupported "a cleared head of the restarted main flow (or of a removed flow) is pending"
    else
      let merging := actionable.filter fun k => headStatusOf ix k = some .merging
      let active := actionable.filter fun k => headStatusOf ix k = some .active
      if merging.isEmpty then
        -- `_advance_head_front(state, [])` changes nothing and returns `[]`
        return active
      else
        let more ← advanceHeadFront fuel merging
        mergeLoop fuel (active ++ more)

/-- `while heads_are_advancing:` -/
def mainLoop : Nat → List Key → M Unit
  | 0, _ => throw .outOfFuel
  | fuel + 1, actionable => do
    let actionable ← mergeLoop fuel actionable
    let ix ← getIx
    let actionable := actionable.filter fun k =>
      match findInst ix k.1 with
      | some i => i.status.isActive && headStatusOf ix k = some .active
      | none => false
    if actionable.isEmpty then
      -- `_resolve_action_conflicts(state, [])` and `_advance_head_front(state, [])` change nothing: the loop ends
      return
    else
      let advancing ← resolveActionConflicts fuel actionable
      if advancing.isEmpty then
        -- never the case for a non-empty list (the picked head of every group advances); the model does not guess
        unsupported "no advancing head for a non-empty list of actionable heads"
      else
        let actionable ← advanceHeadFront fuel advancing
        mainLoop fuel actionable

/-- `run_to_completion(state, external_event)` -/
def runToCompletion (fuel : Nat) (ev : Match.Ev) : M Unit := do
  modifyRest fun r => { r with queue := [{ ev := ev }], outgoing := [], cleared := [], caught := [] }
  cleanUpState
  mainLoop fuel []
  -- exit assertion of the MODEL (not a statement of the Python code): an instance left STOPPING would mean that an `abort`
  -- was never followed by `_abort_flow`; the model does not go on in that case (the oracle checks the same on the real state)
  let ix ← getIx
  if ix.insts.any (fun i => i.status = .stopping) then throw (.guardFailed "an instance is left STOPPING at the exit of run_to_completion")

end NemoVerif.CoreVM
