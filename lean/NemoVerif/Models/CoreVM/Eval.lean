/-
  CoreVM — expression evaluation (`eval.py::eval_expression` restricted to the mini language).
  Every Python-level failure is `ColangValueError` (that is what `eval_expression` wraps everything in);
  everything the model does not cover is `VMErr.unsupported`, never a guess.
-/
import NemoVerif.Models.CoreVM.State

namespace NemoVerif.CoreVM
open NemoVerif NemoVerif.CoreIndex

/-! ### Python value semantics -/

mutual
/-- Python `==` (deep) -/
def pyEq : Val → Val → Bool
  | .list as, .list bs => pyEqList as bs
  | .dict as, .dict bs => as.length == bs.length && pyEqDict as bs
  | .set as, .set bs => as.length == bs.length && pyEqSet as bs
  | .cmp _ _, _ => false
  | a, b => a.scalarEq b
def pyEqList : List Val → List Val → Bool
  | [], [] => true
  | a :: as, b :: bs => pyEq a b && pyEqList as bs
  | _, _ => false
def pyEqDict : List (String × Val) → List (String × Val) → Bool
  | [], _ => true
  | (k, v) :: rest, bs =>
    (match Match.lookup k bs with
     | some v' => pyEq v v'
     | none => false) && pyEqDict rest bs
def pyEqSet : List Val → List Val → Bool
  | [], _ => true
  | a :: rest, bs => bs.any (fun b => pyEq a b) && pyEqSet rest bs
end

/-- `dict_a.items() <= dict_b.items()` -/
def dictSubset (a b : List (String × Val)) : Bool := pyEqDict a b

def truthy : Val → Bool
  | .none => false
  | .bool b => b
  | .int i => i != 0
  | .flt m _ => m != 0
  | .str s => s != ""
  | .list l => !l.isEmpty
  | .dict l => !l.isEmpty
  | .set l => !l.isEmpty
  | _ => true

/-- characters that `escape_special_string_characters` / the re-parse of the literal would alter -/
def plainText (s : String) : Bool :=
  s.all fun c => c != '"' && c != '\'' && c != '\\' && c != '\n' && c != '\t' && c != '\r' && c != '{' && c != '}' && c != '$'

/-- `str(value)` for the value kinds whose Python rendering the model reproduces -/
def pyStr : Val → Option String
  | .none => some "None"
  | .bool b => some (if b then "True" else "False")
  | .int i => some (toString i)
  | .str s => if plainText s then some s else none
  | _ => none

def numOf : Val → Option (Int × Nat)
  | .int i => some (i, 0)
  | .bool b => some (if b then 1 else 0, 0)
  | .flt m e => some (m, e)
  | _ => none

def isFloat : Val → Bool
  | .flt _ _ => true
  | _ => false

/-- normalise a dyadic so that `m` is odd or `e = 0` (the harness encodes floats the same way) -/
def normDy (m : Int) (e : Nat) : Int × Nat :=
  let rec go (fuel : Nat) (m : Int) (e : Nat) : Int × Nat :=
    match fuel with
    | 0 => (m, e)
    | fuel + 1 => if e = 0 then (m, 0) else if m % 2 = 0 then go fuel (m / 2) (e - 1) else (m, e)
  go (e + 1) m e

def addNum (a b : Val) (neg : Bool) : Option Val :=
  match numOf a, numOf b with
  | some (m1, e1), some (m2, e2) =>
    let m2 := if neg then -m2 else m2
    if isFloat a || isFloat b then
      let e := max e1 e2
      let m := m1 * (2 : Int) ^ (e - e1) + m2 * (2 : Int) ^ (e - e2)
      let (m', e') := normDy m e
      some (.flt m' e')
    else some (.int (m1 + m2))
  | _, _ => none

def compareVals (op : String) (a b : Val) : Option Bool :=
  match numOf a, numOf b with
  | some (m1, e1), some (m2, e2) =>
    let lt := dyLt m1 e1 m2 e2
    let eq := dyEq m1 e1 m2 e2
    match op with
    | "<" => some lt | "<=" => some (lt || eq) | ">" => some (!lt && !eq) | ">=" => some (!lt)
    | _ => none
  | _, _ =>
    match a, b with
    | .str s1, .str s2 =>
      match op with
      | "<" => some (s1 < s2) | "<=" => some (s1 ≤ s2) | ">" => some (s2 < s1) | ">=" => some (s2 ≤ s1)
      | _ => none
    | _, _ => none

/-! ### evaluation -/

structure EvalCtx where
  flowUid : FUid
  /-- the flow context (for `create_flow_instance` defaults: `{}`) -/
  ctx : List (String × Val)
  /-- `state.context` links for `_global_x` keys are resolved through the state -/
  useGlobals : Bool := true

def valueErr {α} (msg : String) : M α := pyRaise "ColangValueError" msg

/-- `$name` (step 3 of `eval_expression`, on the context built by `_get_eval_context`) -/
def lookupVar (c : EvalCtx) (name : String) : M Val := do
  if name = "self" then return .ref "flow" c.flowUid
  if name = "system" then unsupported "$system"
  if c.useGlobals && (lookupArg s!"_global_{name}" c.ctx).isSome then
    return (lookupArg name (← getRest).gctx).getD .none
  return (lookupArg name c.ctx).getD .none

/-- attribute access as `simpleeval` does it. `lenient` = the dict is an `AttributeDict` (a `$variable` holding a dict, or a
    nested dict reached from one): a missing key is `None`; a plain dict (e.g. `event.arguments`) falls back to item access
    and a missing key raises. -/
def attrOf (v : Val) (a : String) (lenient : Bool := false) : M Val := do
  if a.startsWith "_" then valueErr s!"attribute {a}"
  match v with
  | .dict kvs =>
    match lookupArg a kvs with
    | some x => return x
    | none => if lenient then return .none else valueErr s!"attribute {a} does not exist"
  | .ref "flow" uid =>
    match ← getInstX? uid with
    | none => unsupported "attribute of a flow instance that was cleaned up"
    | some x =>
      match a with
      | "uid" => return .str uid
      | "flow_id" => return .str x.flowId
      | "loop_id" => return (match x.loopId with | some l => .str l | none => .none)
      | "hierarchy_position" => return .str x.hierPos
      | "arguments" => return .dict x.arguments
      | "activated" => return .int x.activated
      | "parent_uid" => return (match x.parentUid with | some l => .str l | none => .none)
      | "context" => return .ref "ctx" (← ctxHolder uid)
      | "status" | "heads" | "scopes" | "priority" | "child_flow_uids" | "action_uids" | "head_fork_uids"
      | "parent_head_uid" | "status_updated" | "new_instance_started" | "active_heads" => unsupported s!"FlowState.{a}"
      | _ =>
        match lookupArg a (← getCtx uid) with
        | some v => return v
        | none => valueErr s!"no attribute {a}"
  | .ref "action" uid =>
    match ← getAction? uid with
    | none => unsupported "attribute of an action that was removed"
    | some act =>
      match a with
      | "uid" => return .str uid
      | "name" => return .str act.name
      | "status" | "context" | "start_event_arguments" | "flow_scope_count" | "flow_uid" => unsupported s!"Action.{a}"
      | _ =>
        match lookupArg a act.context with
        | some v => return v
        | none => valueErr s!"no attribute {a}"
  | .ref "event" id =>
    match OMap.lookup id (← getRest).events with
    | none => unsupported "dangling event object"
    | some eo =>
      match a with
      | "name" => return .str eo.ev.name
      | "arguments" => return .dict eo.ev.args
      | "flow" =>
        if eo.ev.kind = .internal then
          return (match eo.ev.flowUid with | some u => .ref "flow" u | none => .none)
        else match lookupArg a eo.ev.args with
          | some v => return v
          | none => valueErr "no attribute flow"
      | "action_uid" =>
        if eo.ev.kind = .action then
          return (match eo.ev.actionUid with | some u => .str u | none => .none)
        else match lookupArg a eo.ev.args with
          | some v => return v
          | none => valueErr "no attribute action_uid"
      | "action" | "matching_scores" => unsupported s!"Event.{a}"
      | _ =>
        match lookupArg a eo.ev.args with
        | some v => return v
        | none => valueErr s!"no attribute {a}"
  | .str _ | .int _ | .bool _ | .none | .flt _ _ | .list _ | .set _ => valueErr s!"no attribute {a}"
  | _ => unsupported s!"attribute {a} of an opaque value"

mutual
def evalExpr (c : EvalCtx) : Nat → Expr → M Val
  | 0, _ => throw .outOfFuel
  | fuel + 1, e =>
    match e with
    | .lit v => pure v
    | .interp parts => do
      let mut out := ""
      for p in parts do
        match p with
        | .inl t => out := out ++ t
        | .inr e' =>
          let v ← tryCatch (evalExpr c fuel e') fun err =>
            match err with
            | .py _ m => valueErr s!"Error evaluating inner expression: {m}"
            | other => throw other
          match pyStr v with
          | some s => out := out ++ s
          | none => unsupported "interpolation of a value whose str() is not modelled"
      return .str out
    | .var n => lookupVar c n
    | .name n => valueErr s!"name {n} is not defined"
    | .attr e' a => do
      let (v, lenient) ← evalBase c fuel e'
      attrOf v a lenient
    | .index e' i => do
      let v ← evalExpr c fuel e'
      let iv ← evalExpr c fuel i
      match v, iv with
      | .dict kvs, .str k =>
        match lookupArg k kvs with
        | some x => return x
        | none => valueErr s!"KeyError {k}"
      | .list xs, .int n =>
        let idx : Int := if n < 0 then n + xs.length else n
        if idx < 0 then valueErr "IndexError" else
        match xs[idx.toNat]? with
        | some x => return x
        | none => valueErr "IndexError"
      | _, _ => unsupported "subscript"
    | .not e' => do return .bool (!truthy (← evalExpr c fuel e'))
    | .and es => do
      let mut r : Val := .bool false
      for e' in es do
        r ← evalExpr c fuel e'
        if !truthy r then return r
      return r
    | .or es => do
      let mut r : Val := .bool false
      for e' in es do
        r ← evalExpr c fuel e'
        if truthy r then return r
      return r
    | .cmp e0 rest => do
      let mut left ← evalExpr c fuel e0
      for (op, e') in rest do
        let right ← evalExpr c fuel e'
        let b ← (match op with
          | "==" => pure (pyEq left right)
          | "!=" => pure (!pyEq left right)
          | "<" | "<=" | ">" | ">=" =>
            match compareVals op left right with
            | some b => pure b
            | none => valueErr "unorderable types"
          | "is" | "is not" =>
            match left, right with
            | .none, .none => pure (op == "is")
            | .none, _ | _, .none => pure (op != "is")
            | .bool a, .bool b => pure ((a == b) == (op == "is"))
            | _, _ => unsupported "`is` on values other than None/bool"
          | "in" | "not in" =>
            match right with
            | .list xs | .set xs => pure ((xs.any fun x => pyEq left x) == (op == "in"))
            | .dict kvs =>
              match left with
              | .str k => pure ((lookupArg k kvs).isSome == (op == "in"))
              | _ => pure (op != "in")
            | .str s =>
              match left with
              | .str t => pure (((s.splitOn t).length > 1) == (op == "in"))
              | _ => valueErr "in <string> requires string"
            | _ => valueErr "argument is not iterable"
          | _ => unsupported s!"comparison {op}" : M Bool)
        if !b then return .bool false
        left := right
      return .bool true
    | .bin op a b => do
      let x ← evalExpr c fuel a
      let y ← evalExpr c fuel b
      match op with
      | "+" =>
        match x, y with
        | .str s, .str t => return .str (s ++ t)
        | .list s, .list t => return .list (s ++ t)
        | _, _ =>
          match addNum x y false with
          | some v => return v
          | none => valueErr "unsupported operand type(s) for +"
      | "-" =>
        match addNum x y true with
        | some v => return v
        | none => valueErr "unsupported operand type(s) for -"
      | _ => unsupported s!"operator {op}"
    | .neg e' => do
      match ← evalExpr c fuel e' with
      | .int i => return .int (-i)
      | .flt m e'' => return .flt (-m) e''
      | .bool b => return .int (if b then -1 else 0)
      | _ => valueErr "bad operand type for unary -"
    | .call f args => do
      let vs ← args.mapM (evalExpr c fuel)
      match f, vs with
      | "uid", [] => return .str (← freshUid)
      | "len", [.str s] => return .int s.length
      | "len", [.list l] => return .int l.length
      | "len", [.dict l] => return .int l.length
      | "len", [.set l] => return .int l.length
      | "len", [_] => valueErr "object has no len()"
      | "is_int", [v] => return .bool (match v with | .int _ | .bool _ => true | _ => false)
      | "is_float", [v] => return .bool (isFloat v)
      | "is_bool", [v] => return .bool (match v with | .bool _ => true | _ => false)
      | "is_str", [v] => return .bool (match v with | .str _ => true | _ => false)
      | "is_regex", [v] => return .bool (match v with | .regex _ => true | _ => false)
      | "type", [v] =>
        match v with
        | .none => return .str "NoneType" | .bool _ => return .str "bool" | .int _ => return .str "int" | .flt _ _ => return .str "float"
        | .str _ => return .str "str" | .list _ => return .str "list" | .set _ => return .str "set"
        | _ => unsupported "type() of an object"
      | "str", [v] =>
        match pyStr v with
        | some s => return .str s
        | none => (match v with | .str s => return .str s | _ => unsupported "str() of a value whose rendering is not modelled")
      | "less_than", [v] | "equal_less_than", [v] | "greater_than", [v] | "equal_greater_than", [v] | "not_equal_to", [v] =>
        match v with
        | .int _ | .flt _ _ | .bool _ =>
          let op : CmpOp := match f with
            | "less_than" => .lt | "equal_less_than" => .le | "greater_than" => .gt | "equal_greater_than" => .ge | _ => .ne
          return .cmp op v
        | _ => valueErr "Comparison operators don't support values of this type"
      | _, _ => unsupported s!"call of {f}"
    | .list es => do return .list (← es.mapM (evalExpr c fuel))
    | .set es => do return .set (← es.mapM (evalExpr c fuel))
    | .dict kvs => do
      let mut out : List (String × Val) := []
      for (k, v) in kvs do
        match ← evalExpr c fuel k with
        | .str ks => out := setArg ks (← evalExpr c fuel v) out
        | _ => unsupported "non-string dict key"
      return .dict out
    | .unsupported why => unsupported s!"expression: {why}"

/-- value of the base of an attribute access, with the flag "this is an `AttributeDict`" (a `$variable` whose value is a
    dict, or a dict reached from one by attribute access) -/
def evalBase (c : EvalCtx) : Nat → Expr → M (Val × Bool)
  | 0, _ => throw .outOfFuel
  | fuel + 1, e =>
    let isDict : Val → Bool := fun v => match v with | .dict _ => true | _ => false
    match e with
    | .var n => do
      let v ← lookupVar c n
      return (v, isDict v)
    | .attr b a => do
      let (bv, bl) ← evalBase c fuel b
      let v ← attrOf bv a bl
      return (v, bl && isDict v)
    | other => do return (← evalExpr c fuel other, false)
end

def exprFuel : Nat := 64

/-- `eval_expression(expr, _get_eval_context(state, flow_state))` -/
def evalIn (f : FUid) (e : Expr) : M Val := do
  evalExpr { flowUid := f, ctx := ← getCtx f } exprFuel e

/-- `eval_expression(expr, {})` (parameter / return-member defaults) -/
def evalEmpty (e : Expr) : M Val :=
  evalExpr { flowUid := "", ctx := [], useGlobals := false } exprFuel e

/-- `_evaluate_arguments(arguments, _get_eval_context(state, flow_state))` -/
def evalArgs (f : FUid) (args : List (String × Expr)) : M (List (String × Val)) := do
  let mut out : List (String × Val) := []
  for (k, e) in args do
    out := setArg k (← evalIn f e) out
  return out

end NemoVerif.CoreVM
