/-
  CoreVM — syntax: what remains of a Colang 2.x flow after the repo's own parser and `expand_elements`
  (DESIGN §5.2).  Programs reach the model as data dumped by harness/translate/corevm.py from the real
  `FlowConfig.elements`; nothing here is parsed by hand.
-/
import NemoVerif.Py.Val
import NemoVerif.Generated.C04

namespace NemoVerif.CoreVM
open NemoVerif

/-- the mini expression language (a fragment of what `simpleeval` evaluates); anything else is
    `unsupported` and makes the MODEL stop with `VMErr.unsupported` when (and only when) it is evaluated. -/
inductive Expr where
  | lit (v : Val)
  /-- a string literal with `{…}` interpolation: text parts and expression parts -/
  | interp (parts : List (String ⊕ Expr))
  | var (name : String)
  /-- a bare Python name (no `$`): `True`/`False`/`None` are literals already, anything else is NameNotDefined -/
  | name (n : String)
  | attr (e : Expr) (a : String)
  | index (e : Expr) (i : Expr)
  | not (e : Expr)
  | and (es : List Expr)
  | or (es : List Expr)
  | cmp (e : Expr) (rest : List (String × Expr))
  | bin (op : String) (a b : Expr)
  | neg (e : Expr)
  | call (f : String) (args : List Expr)
  | list (es : List Expr)
  | dict (kvs : List (Expr × Expr))
  | set (es : List Expr)
  | unsupported (why : String)
  deriving Inhabited

inductive SpecType where
  | event | action | flow | reference | other
  deriving DecidableEq, Repr, Inhabited

structure Member where
  name : String
  args : List (String × Expr)
  deriving Inhabited

structure Spec where
  name : Option String
  specType : SpecType
  args : List (String × Expr)
  ref : Option String          -- `as $x` (name without `$`)
  members : Option (List Member)
  varName : Option String
  deriving Inhabited

inductive Prim where
  | matchOp (spec : Spec) (internal : Bool)
  | sendOp (spec : Spec)
  | newAction (spec : Spec)
  | otherOp (op : String)
  | label (name : String)
  | goto (e : Expr) (label : String)
  | fork (uid : String) (labels : List String)
  | merge (uid : String)
  | waitHeads (n : Nat)
  | assign (key : String) (e : Expr)
  | ret (e : Option Expr)
  | abort
  | brk (label : Option String)
  | cont (label : Option String)
  | glob (name : String)
  | catchFail (label : Option String)
  | beginScope (name : String)
  | endScope (name : String)
  | priority (e : Expr)
  | log (e : Expr)
  | print (e : Expr)
  | other
  deriving Inhabited

structure Param where
  name : String
  default : Option Expr
  deriving Inhabited

/-- value of one of the `@meta(...)` tags that `_log_action_or_intents` looks at -/
inductive MetaVal where
  | bool (b : Bool)
  /-- a string value, already wrapped as the expression `"<value>"` that Python evaluates -/
  | str (e : Expr)
  | other
  deriving Inhabited

structure FlowCfg where
  id : String
  elements : Array Prim
  labels : List (String × Nat)         -- `element_labels` (last definition wins, as `dict.update`)
  params : List Param
  returnMembers : List Param
  loopId : Option String               -- `FlowConfig.loop_id`
  loopPriority : Int
  /-- which of the `@meta` tags user_intent / bot_intent / user_action / bot_action are present (intent logging) -/
  metaTags : List (String × MetaVal)
  deriving Inhabited

structure Prog where
  flows : List FlowCfg                 -- `state.flow_configs` in dict order
  deriving Inhabited

def Prog.find (p : Prog) (id : String) : Option FlowCfg := p.flows.find? (·.id = id)

def FlowCfg.label (c : FlowCfg) (l : String) : Option Nat :=
  (c.labels.find? (·.1 = l)).map (·.2)

def Prim.isMatch : Prim → Bool
  | .matchOp _ _ => true
  | _ => false

/-- `InternalEvents.ALL`, regenerated from flows.py on every run -/
def internalEvents : List String := NemoVerif.Generated.C04.internalEventsAll

/-- `is_action_op_element`: a `send` of a non-internal event (decided on the spec NAME, as Python does) -/
def Prim.isActionOp : Prim → Bool
  | .sendOp spec => match spec.name with
    | some n => !(internalEvents.contains n)
    | none => true     -- `None not in InternalEvents.ALL`
  | _ => false

end NemoVerif.CoreVM
