/-
  CoreVM — the interpreter (`statemachine.py`), function by function and in the same statement order.
  Every recursive function takes `fuel`; running out of it is `VMErr.outOfFuel`, never a Python verdict.
-/
import NemoVerif.Models.CoreVM.Events

namespace NemoVerif.CoreVM
open NemoVerif NemoVerif.CoreIndex

/-! ### small helpers -/

/-- run `x`; a Python exception becomes a value, anything else propagates -/
def attemptPy {α} (x : M α) : M (Except (String × String) α) :=
  tryCatch (do let a ← x; pure (.ok a)) fun e =>
    match e with
    | .py c m => pure (.error (c, m))
    | o => throw o

def listRemoveFirst (x : String) : List String → List String
  | [] => []
  | y :: ys => if y = x then ys else y :: listRemoveFirst x ys

def mkInternal (name : String) (args : List (String × Val)) (scores : List Score) : Event :=
  { ev := { kind := .internal, name := name, args := args }, scores := scores }

def headKeyScores (k : Key) : M (List Score) := do return (← getHeadX k).scores

/-! ### index-aware writes: the ONLY places that change positions, statuses and `heads` -/

/-- what `_flow_head_changed` would compute for a head at `pos` with the given statuses: the name is
    evaluated only when the head is going to be registered (as in Python) -/
def nameFor (f : FUid) (pos : Nat) (hst : HeadStatus) : M (Option String) := do
  let i ← getInst f
  if hst = .inactive || !i.status.listening then return none
  let cfg ← cfgOfInst f
  match elemAt cfg pos with
  | some (.matchOp spec _) => return some (← getEventName f spec)
  | _ => return none

/-- `head.position = p` -/
def setHeadPos (k : Key) (p : Nat) : M Unit := do
  match ← getHead? k with
  | none => unsupported "position of a head that is no longer in flow_state.heads"
  | some hd =>
    if hd.pos = p then return
    match ← attemptPy (nameFor k.1 p hd.status) with
    | .ok nm => applyOp (.setPos k.1 k.2 p nm)
    | .error (c, m) =>
      -- the callback raised inside `_add_head…` after `_remove_head…`: position set, head unregistered
      applyOp (.setPos k.1 k.2 p none)
      pyRaise c m

/-- `head.status = st` -/
def setHeadStatus (k : Key) (st : HeadStatus) : M Unit := do
  match ← getHead? k with
  | none => unsupported "status of a head that is no longer in flow_state.heads"
  | some hd =>
    if hd.status = st then return
    match ← attemptPy (nameFor k.1 hd.pos st) with
    | .ok nm => applyOp (.setStatus k.1 k.2 st nm)
    | .error (c, m) =>
      applyOp (.setStatus k.1 k.2 st none)
      pyRaise c m

/-- `flow_state.status = st` -/
def setFlowStatus (f : FUid) (st : FlowStatus) : M Unit := do
  applyOp (.setFlowStatus f st)
  let now := (← getRest).clock
  modInstX f fun x => { x with statusUpdated := now }

/-- `for head in heads.values(): _remove_head…; heads.clear()` -/
def dropHeads (f : FUid) : M Unit := do
  let hs := match findInst (← getIx) f with
    | some i => i.heads.map fun hd => (f, hd.uid)
    | none => []
  applyOp (.dropHeads f)
  modifyRest fun r => { r with hx := r.hx.filter (fun e => e.1.1 ≠ f), cleared := r.cleared ++ hs }

/-! ### `create_flow_instance` / `add_new_flow_instance` / `initialize_state` -/

def addNewFlowInstance (uid : FUid) (cfg : FlowCfg) (hierPos : String) (evArgs : List (String × Val)) : M Unit := do
  -- create_flow_instance
  let loopId ← match cfg.loopId with
    | some "NEW" => do pure (some (← freshUid))
    | some l => pure (some l)
    | none => pure none
  let headUid ← freshUid
  -- `flow_state.context = event_arguments["context"]`: the SAME dict object as the sender's context
  let owner ← match lookupArg "context" evArgs with
    | some (.ref "ctx" o) =>
      if !cfg.params.isEmpty then pyRaise "ColangRuntimeError" s!"Context cannot be shared to flows with parameters: '{cfg.id}'"
      if (← getInstX? o).isNone then unsupported "shared context whose owning instance was cleaned up"
      pure (some o)
    | some _ =>
      if !cfg.params.isEmpty then pyRaise "ColangRuntimeError" s!"Context cannot be shared to flows with parameters: '{cfg.id}'"
      unsupported "StartFlow(context=…) with something that is not a flow context"
    | none => pure none
  let (args, ctx) ← instanceArguments cfg evArgs
  let x : InstX := { flowId := cfg.id, loopId := loopId, hierPos := hierPos, context := if owner.isSome then [] else ctx,
                     ctxOwner := owner, arguments := args, statusUpdated := (← getRest).clock }
  -- the return-member defaults are written into the shared dict
  match owner with
  | some o => modInstX o fun y => { y with context := updateArgs y.context ctx }
  | none => pure ()
  -- add_new_flow_instance
  if (← getInstX? uid).isSome then unsupported "flow instance uid re-used"
  modifyRest fun r => { r with
    fx := r.fx ++ [(uid, x)],
    hx := r.hx ++ [((uid, headUid), {})],
    idStates := match OMap.lookup cfg.id r.idStates with
      | some _ => OMap.modify cfg.id (· ++ [uid]) r.idStates
      | none => r.idStates ++ [(cfg.id, [uid])] }
  -- `_flow_head_changed` on the WAITING instance: element 0
  let nm0 ← match elemAt cfg 0 with
    | some (.matchOp spec _) => do
      -- instance must exist for the name evaluation: register first with the name computed on the side
      match spec.varName, spec.members with
      | none, none => pure spec.name
      | _, _ => unsupported "first element of a flow is not a plain event match"
    | _ => pure none
  applyOp (.addInst uid headUid nm0)

def initializeState : M Unit := do
  let r ← getRest
  match r.prog.find "main" with
  | none => pyRaise "AssertionError" "No main flow found!"
  | some cfg =>
    let u ← freshUid
    let uid := s!"(main){u}"
    addNewFlowInstance uid cfg "0" []
    let loopId ← match cfg.loopId with
      | some l => pure l
      | none => do pure s!"(main){← freshUid}"
    modInstX uid fun x => { x with activated := 1, loopId := some loopId }
    modifyRest fun r => { r with mainUid := some uid }

/-! ### `_abort_flow`, `_finish_flow` -/

def isReferenceActivated (f : FUid) : M Bool := do
  let x ← getInstX f
  match x.parentUid with
  | none => return false
  | some p =>
    if x.activated > 0 then
      match ← getInstX? p with
      | some px => return x.flowId ≠ px.flowId
      | none => pyRaise "KeyError" s!"{p} (model line 136)"
    else return false

/-- `deactivate_flow and _is_reference_activated_flow(state, flow_state)`: Python's `and` short-circuits — the parent
    look-up (which can raise KeyError) happens only when `deactivate_flow` is true -/
def deactivatesRef (deactivate : Bool) (f : FUid) : M Bool :=
  if deactivate then isReferenceActivated f else pure false

theorem deactivatesRef_false (f : FUid) : deactivatesRef false f = pure false := rfl
theorem deactivatesRef_true (f : FUid) : deactivatesRef true f = isReferenceActivated f := rfl

def isChildActivated (f : FUid) : M Bool := do
  let x ← getInstX f
  match x.parentUid with
  | none => return false
  | some p =>
    if x.activated > 0 then
      match ← getInstX? p with
      | some px => return x.flowId = px.flowId
      | none => return false
    else return false

def failedEvent (f : FUid) (scores : List Score) : M Event := do
  let o ← flowObjOf f
  return { ev := { kind := .internal, name := "FlowFailed", args := outEventArgs o [] }, scores := scores }

/-- the restart of an activated flow at the end of `_abort_flow` / `_finish_flow` -/
def restartActivated (f : FUid) (scores : List Score) (deactivate : Bool) : M Unit := do
  let x ← getInstX f
  if !deactivate && x.activated > 0 && !x.newInstanceStarted then
    let e ← flowStartEvent (← flowObjOf f) []
    let src ← match x.parentUid with
      | some p =>
        match ← getInstX? p with
        | some px => pure (if px.flowId = x.flowId then p else f)
        | none => pyRaise "KeyError" s!"{p} (model line 163)"
      | none => pure f
    pushLeftEvent { ev := { e with args := setArg "source_flow_instance_uid" (.str src) e.args }, scores := scores }
    modInstX f fun x => { x with newInstanceStarted := true }

def abortFlow : Nat → FUid → List Score → Bool → M Unit
  | 0, _, _, _ => throw .outOfFuel
  | fuel + 1, f, scores, deactivate => do
    if (← deactivatesRef deactivate f) then
      modInstX f fun x => { x with activated := x.activated - 1 }
      let x ← getInstX f
      if x.activated = 0 then
        for c in x.childFlowUids do
          match ← getInstX? c with
          | none => pyRaise "KeyError" s!"{c} (model line 177)"
          | some cx =>
            if cx.flowId = x.flowId then
              abortFlow fuel c scores true
              modInstX c fun y => { y with activated := 0 }
      else return
    let i ← getInst f
    if !i.status.listening && i.status ≠ .stopping then return
    -- an activated flow that fails while STARTING (e.g. because a flow it started failed) is not restarted
    if i.status = .starting && (← getInstX f).activated > 0 then
      modInstX f fun x => { x with newInstanceStarted := true }
    -- Abort/deactivate all running child flows
    for c in (← getInstX f).childFlowUids do
      if (← getInstX? c).isSome then
        if !(← isChildActivated c) then abortFlow fuel c scores true
    -- Abort all started actions that have not finished yet
    for au in (← getInstX f).actionUids do releaseAction au
    -- Cleanup all heads
    dropHeads f
    -- Remove flow uid from parents children list
    let x ← getInstX f
    if x.activated = 0 then
      match x.parentUid with
      | some p =>
        if (← getInstX? p).isSome then
          let px ← getInstX p
          if !px.childFlowUids.contains f then pyRaise "ValueError" "list.remove(x): x not in list"
          modInstX p fun y => { y with childFlowUids := listRemoveFirst f y.childFlowUids }
      | none => pure ()
    setFlowStatus f .stopped
    pushEvent (← failedEvent f scores)
    restartActivated f scores deactivate

/-- `_get_flow_state_hierarchy(state, uid)` -/
def flowHierarchy : Nat → FUid → M (List FUid)
  | 0, _ => throw .outOfFuel
  | fuel + 1, f => do
    match ← getInstX? f with
    | none => return []
    | some x =>
      match x.parentUid with
      | none => return [f]
      | some p => return (← flowHierarchy fuel p) ++ [f]

def metaTag (cfg : FlowCfg) (t : String) : Option MetaVal := (cfg.metaTags.find? (·.1 = t)).map (·.2)

/-- `_log_action_or_intents(state, flow_state, matching_scores)` -/
def logActionOrIntents (fuel : Nat) (f : FUid) (scores : List Score) : M Unit := do
  let cfg ← cfgOfInst f
  let (evType, param) := match metaTag cfg "user_intent", metaTag cfg "bot_intent", metaTag cfg "user_action", metaTag cfg "bot_action" with
    | some v, _, _, _ => (some "UserIntentLog", some v)
    | none, some v, _, _ => (some "BotIntentLog", some v)
    | none, none, some v, _ => (some "UserActionLog", some v)
    | none, none, none, some v => (some "BotActionLog", some v)
    | none, none, none, none => (none, none)
  let some evType := evType | return
  let x ← getInstX f
  -- `if isinstance(meta_tag_parameters, str): meta_tag_parameters = eval_expression('"…"', ctx)`
  let nameFromTag : Option Val ← match param with
    | some (.str e) => do pure (some (← evalIn f e))
    | some .other => unsupported "@meta tag value that is neither bool nor str"
    | _ => pure none
  let parameter := (lookupArg "$0" x.arguments).getD .none
  if evType = "UserIntentLog" || evType = "BotIntentLog" then
    let name : Val := match nameFromTag with
      | some (.str s) => .str s
      | _ =>
        if x.flowId.startsWith "_dynamic_" && x.flowId.length ≥ 18 then .str (String.ofList (x.flowId.toList.drop 18)) else .str x.flowId
    let parameter := match nameFromTag with | some (.str _) => Val.none | _ => parameter
    pushEvent (mkInternal evType [("flow_id", name), ("parameter", parameter)] scores)
  else
    -- find the next intent up the hierarchy
    let hierarchy ← flowHierarchy fuel f
    let mut intent : Val := .none
    for u in hierarchy.reverse do
      let ux ← getInstX u
      let ucfg ← getCfg ux.flowId
      let cand : Option MetaVal ← match metaTag ucfg "bot_intent", metaTag ucfg "user_intent" with
        | some v, _ => pure (some v)
        | none, some v => pure (some v)
        | none, none =>
          let uctx ← getCtx u
          if (lookupArg "_bot_intent" uctx).isSome || (lookupArg "_user_intent" uctx).isSome then
            unsupported "intent taken from a `_bot_intent` / `_user_intent` context variable"
          else pure none
      match cand with
      | some (.str e) =>
        intent ← evalIn u e
        break
      | some (.bool _) =>
        intent := .str ucfg.id
        break
      | some .other => unsupported "@meta intent value that is neither bool nor str"
      | none => pure ()
    let name : Val := match nameFromTag with
      | some (.str s) => .str s
      | _ => .str x.flowId
    let parameter := match nameFromTag with | some (.str _) => Val.none | _ => parameter
    pushEvent (mkInternal evType [("flow_id", name), ("parameter", parameter), ("intent_flow_id", intent)] scores)

def finishFlow (fuel : Nat) (f : FUid) (scores : List Score) (deactivate : Bool) : M Unit := do
  if (← deactivatesRef deactivate f) then
    modInstX f fun x => { x with activated := x.activated - 1 }
    let x ← getInstX f
    if x.activated = 0 then
      for c in x.childFlowUids do
        match ← getInstX? c with
        | none => pyRaise "KeyError" s!"{c} (model line 219)"
        | some cx =>
          if cx.flowId = x.flowId then
            abortFlow fuel c scores true
            modInstX c fun y => { y with activated := 0 }
    else return
  let i ← getInst f
  if !i.status.listening then return
  for c in (← getInstX f).childFlowUids do
    if (← getInstX? c).isSome then
      if !(← isChildActivated c) then abortFlow fuel c scores true
  for au in (← getInstX f).actionUids do releaseAction au
  dropHeads f
  let x ← getInstX f
  if x.flowId = "main" then
    let h ← freshUid
    let cfg ← cfgOfInst f
    let nm0 ← match elemAt cfg 0 with
      | some (.matchOp spec _) => pure spec.name
      | _ => pure none
    applyOp (.mainRestart f h nm0)
    modifyRest fun r => { r with hx := r.hx ++ [((f, h), {})] }
    let now := (← getRest).clock
    modInstX f fun x => { x with statusUpdated := now }
    return
  setFlowStatus f .finished
  if x.activated = 0 then
    match x.parentUid with
    | some p =>
      if (← getInstX? p).isSome then
        let px ← getInstX p
        if !px.childFlowUids.contains f then pyRaise "ValueError" "list.remove(x): x not in list"
        modInstX p fun y => { y with childFlowUids := listRemoveFirst f y.childFlowUids }
    | none => pure ()
  let o ← flowObjOf f
  pushEvent { ev := flowFinishedEvent o [], scores := scores }
  logActionOrIntents fuel f scores
  restartActivated f scores deactivate

/-! ### `slide` -/

def headScores (k : Key) : M (List Score) := do return (← getHeadX k).scores

def labelPos (cfg : FlowCfg) (l : String) : M Nat :=
  match cfg.label l with
  | some n => pure n
  | none => pyRaise "KeyError" s!"{l} (model line 265)"

/-- `FlowHead.get_child_head_uids(state)` (recursive, with fuel) -/
def childHeadUids : Nat → FUid → HUid → M (List HUid)
  | 0, _, _ => throw .outOfFuel
  | fuel + 1, f, h => do
    let hx ← getHeadX (f, h)
    let mut out : List HUid := []
    for c in hx.childHeadUids do
      out := out ++ [c]
      if (← getHead? (f, c)).isSome then
        out := out ++ (← childHeadUids fuel f c)
    return out

/-- consume one recorded `random.choice` outcome over `n` candidates -/
def pickChoice (n : Nat) : M Nat := do
  let r ← getRest
  match r.choices with
  | c :: rest =>
    modifyRest fun r => { r with choices := rest, choiceLog := r.choiceLog ++ [(n, c)] }
    if c < n then return c else unsupported "recorded tie-break outcome out of range (model and implementation disagree on the candidates)"
  | [] => unsupported "no recorded tie-break outcome left (model needs more random.choice calls than the implementation made)"

def padScores (s : List Score) (n : Nat) : List Score :=
  s ++ List.replicate (n - s.length) { k := 0, prio := none }

/-- the prefix of `ordered` whose scores equal those of its first element (unpadded comparison, as Python) -/
def equalPrefixLen (scoresOf : Key → List Score) : List Key → Nat
  | [] => 0
  | k0 :: rest => 1 + (rest.takeWhile fun k => scoresEq (scoresOf k) (scoresOf k0)).length

inductive SlideStep where
  | continue_
  | stop

/-- one iteration of the `while True` loop of `slide`: returns (stop?, heads created by a fork / re-activated by a merge) -/
def slideStep (fuel : Nat) (f : FUid) (h : HUid) : M (Bool × List Key) := do
    let k : Key := (f, h)
    let cfg ← cfgOfInst f
    let mut newHeads : List Key := []
    let mut stop := false
    -- a head that merged itself away is an INACTIVE object in Python: the loop ends
    let some hd ← getHead? k | return (true, [])
    if hd.pos ≥ cfg.elements.size || hd.status = .inactive then
      return (true, [])
    match cfg.elements[hd.pos]! with
    | .sendOp spec =>
      let e ← getEvent f spec false
      if !(internalEvents.contains e.name) then
        stop := true
      else
        let mut args := setArg "source_head_uid" (.str h) (setArg "source_flow_instance_uid" (.str f) e.args)
        if e.name = "StartFlow" then
          -- fixes/C10-startflow-requires-flow-id.diff: the SENDING flow fails, not the processing of the internal event
          if (lookupArg "flow_id" e.args).isNone then
            pyRaise "ColangRuntimeError" "Event 'StartFlow' needs a 'flow_id' parameter!"
          let x ← getInstX f
          args := setArg "flow_hierarchy_position" (.str s!"{x.hierPos}.{hd.pos}") args
        pushEvent (mkInternal e.name args (← headScores k))
        setHeadPos k (hd.pos + 1)
    | .newAction spec =>
      let args ← evalArgs f spec.args
      let name ← match spec.name with
        | some nm => pure nm
        | none => pyRaise "AssertionError" "action without name"
      let u ← freshUid
      setAction { uid := u, name := name, flowUid := some f, startArgs := args }
      modInstX f fun x => { x with actionUids := x.actionUids ++ [u] }
      let hx ← getHeadX k
      for sc in hx.scopeUids do
        let x ← getInstX f
        match OMap.lookup sc x.scopes with
        | some _ => modInstX f fun x => { x with scopes := OMap.modify sc (fun p => (p.1, p.2 ++ [u])) x.scopes }
        | none => pyRaise "KeyError" s!"{sc} (model line 335)"
      match spec.ref with
      | some r => setCtxVar f r (.ref "action" u)
      | none => pyRaise "AssertionError" "_new_action_instance without reference"
      setHeadPos k (hd.pos + 1)
    | .matchOp _ _ => stop := true
    | .otherOp _ => stop := true
    | .label name =>
      if name = "start_new_flow_instance" then
        let i ← getInst f
        if i.status = .started then
          let e ← flowStartEvent (← flowObjOf f) []
          pushLeftEvent { ev := { e with args := setArg "source_flow_instance_uid" (.str f) e.args }, scores := ← headScores k }
          modInstX f fun x => { x with newInstanceStarted := true }
      setHeadPos k (hd.pos + 1)
    | .goto e label =>
      if truthy (← evalIn f e) then
        match cfg.label label with
        | some p => setHeadPos k (p + 1)
        | none => setHeadPos k (hd.pos + 1)
      else setHeadPos k (hd.pos + 1)
    | .fork forkUid labels =>
      setHeadStatus k .inactive
      modInstX f fun x => { x with forkUids := OMap.insert forkUid h x.forkUids }
      let hx ← getHeadX k
      for label in labels do
        let nu ← freshUid
        let pos ← labelPos cfg label
        let nk : Key := (f, nu)
        modifyRest fun r => { r with hx := r.hx ++ [(nk, { scores := hx.scores, catchLabels := hx.catchLabels, scopeUids := hx.scopeUids })] }
        modHeadX k fun y => { y with childHeadUids := y.childHeadUids ++ [nu] }
        newHeads := newHeads ++ [nk]
        -- `heads[uid] = new_head` then `new_head.position = pos`
        if pos = 0 then
          -- the setter does not fire: the head stays unregistered on element 0 (never happens: labels are ≥ 1)
          let cfg0 := match elemAt cfg 0 with | some (.matchOp spec _) => spec.name | _ => none
          applyOp (.fork f nu cfg0 0 cfg0)
        else
          match ← attemptPy (nameFor f pos .active) with
          | .ok b => applyOp (.fork f nu none pos b)
          | .error (c, m) =>
            applyOp (.fork f nu none pos none)
            pyRaise c m
      stop := true
    | .merge forkUid =>
      if hd.status = .active then
        setHeadStatus k .merging
        stop := true
      else if hd.status = .merging then
        let x ← getInstX f
        let parentUid ← match OMap.lookup forkUid x.forkUids with
          | some p => pure p
          | none => pyRaise "KeyError" s!"{forkUid} (model line 387)"
        let pk : Key := (f, parentUid)
        if (← getHead? pk).isNone then pyRaise "KeyError" s!"{parentUid} (model line 389)"
        let mergingUids ← childHeadUids fuel f parentUid
        -- merge the scope uids of the direct children
        let mut scopeUids : List String := []
        for c in (← getHeadX pk).childHeadUids do
          if (← getHead? (f, c)).isNone then pyRaise "KeyError" s!"{c} (model line 394)"
          for sc in (← getHeadX (f, c)).scopeUids do
            if !scopeUids.contains sc then scopeUids := scopeUids ++ [sc]
        -- (the "wait for other merges" loop of the Python code only breaks out of itself)
        for u in mergingUids do
          if u ≠ h then
            if (← getHead? (f, u)).isNone then pyRaise "KeyError" s!"{u} (model line 400)"
        let mut mergingHeads : List Key := []
        for u in mergingUids do
          match ← getHead? (f, u) with
          | some oh => if oh.status = .merging then mergingHeads := mergingHeads ++ [(f, u)]
          | none => pyRaise "KeyError" s!"{u} (model line 405)"
        let mut picked := k
        if mergingHeads.length > 1 then
          let r ← getRest
          let scoresOf := fun (kk : Key) => ((OMap.lookup kk r.hx).getD {}).scores
          let maxLen := mergingHeads.foldl (fun m kk => max m (scoresOf kk).length) 0
          let ordered := sortDesc (fun kk => padScores (scoresOf kk) maxLen) mergingHeads
          let nEq := equalPrefixLen scoresOf ordered
          let c ← pickChoice nEq
          picked := ordered[c]!
        setHeadStatus k .inactive
        if picked = k then
          let myx ← getHeadX k
          setHeadPos pk hd.pos
          setHeadStatus pk .active
          modHeadX pk fun y => { y with scopeUids := scopeUids, scores := myx.scores, catchLabels := myx.catchLabels, childHeadUids := [] }
          newHeads := newHeads ++ [pk]
          for u in mergingUids do
            if (← getHead? (f, u)).isNone then pyRaise "KeyError" s!"{u} (model line 423)"
            setHeadStatus (f, u) .inactive
            applyOp (.delHead f u)
            modifyRest fun r => { r with hx := OMap.erase (f, u) r.hx }
            modInstX f fun x => { x with forkUids := OMap.erase u x.forkUids }
          if (OMap.lookup forkUid (← getInstX f).forkUids).isNone then pyRaise "KeyError" s!"{forkUid} (model line 428)"
          modInstX f fun x => { x with forkUids := OMap.erase forkUid x.forkUids }
      else stop := true
    | .waitHeads num =>
      let i ← getInst f
      let waiting := i.heads.filter fun o => o.status ≠ .inactive && o.pos = hd.pos
      if waiting.length ≥ num then setHeadPos k (hd.pos + 1) else stop := true
    | .assign key e =>
      let v ← evalIn f e
      if (lookupArg s!"_global_{key}" (← getCtx f)).isSome then
        modifyRest fun r => { r with gctx := setArg key v r.gctx }
      else
        setCtxVar f key v
      setHeadPos k (hd.pos + 1)
    | .ret e =>
      let v ← match e with
        | some e => evalIn f e
        | none => pure Val.none
      setCtxVar f "_return_value" v
      setHeadPos k cfg.elements.size
    | .abort =>
      let hx ← getHeadX k
      match hx.catchLabels.getLast? with
      | some l => setHeadPos k ((← labelPos cfg l) + 1)
      | none =>
        setFlowStatus f .stopping
        setHeadPos k cfg.elements.size
    | .brk l | .cont l =>
      match l with
      | none => setHeadPos k (hd.pos + 1)
      | some l => setHeadPos k ((← labelPos cfg l) + 1)
    | .log e | .print e =>
      let _ ← evalIn f e
      setHeadPos k (hd.pos + 1)
    | .priority e =>
      match ← evalIn f e with
      | .flt m ex =>
        if m < 0 || dyLt 1 0 m ex then pyRaise "ColangValueError" "priority must be a float number between 0.0 and 1.0!"
        modInstX f fun x => { x with priority := if m = 0 then none else if dyEq m ex 1 0 then some (1, 0) else some (m, ex) }
        setHeadPos k (hd.pos + 1)
      | _ => pyRaise "ColangValueError" "priority must be a float number between 0.0 and 1.0!"
    | .glob name =>
      setCtxVar f s!"_global_{name}" .none
      if (lookupArg name (← getRest).gctx).isNone then
        modifyRest fun r => { r with gctx := setArg name .none r.gctx }
      setHeadPos k (hd.pos + 1)
    | .catchFail l =>
      match l with
      | none =>
        let hx ← getHeadX k
        if hx.catchLabels.isEmpty then pyRaise "IndexError" "pop from empty list"
        modHeadX k fun y => { y with catchLabels := y.catchLabels.dropLast }
      | some l => modHeadX k fun y => { y with catchLabels := y.catchLabels ++ [l] }
      setHeadPos k (hd.pos + 1)
    | .beginScope name =>
      let hx ← getHeadX k
      if hx.scopeUids.contains name then pyRaise "ColangRuntimeError" s!"Scope with name {name} already opened in this head!"
      modHeadX k fun y => { y with scopeUids := y.scopeUids ++ [name] }
      let x ← getInstX f
      if (OMap.lookup name x.scopes).isNone then
        modInstX f fun x => { x with scopes := x.scopes ++ [(name, ([], []))] }
      setHeadPos k (hd.pos + 1)
    | .endScope name =>
      let x ← getInstX f
      match OMap.lookup name x.scopes with
      | none => pyRaise "ColangRuntimeError" s!"Scope with name {name} does not exist!"
      | some (flowUids, actionUids) =>
        modInstX f fun x => { x with scopes := OMap.erase name x.scopes }
        for c in flowUids do
          match ← getInst? c with
          | some ci => if ci.status.listening then abortFlow fuel c (← headScores k) false
          | none => pure ()
        for au in actionUids do releaseAction au
        let i ← getInst f
        for o in i.heads do
          modHeadX (f, o.uid) fun y => { y with scopeUids := listRemoveFirst name y.scopeUids }
        setHeadPos k (hd.pos + 1)
    | .other => setHeadPos k (hd.pos + 1)
    return (stop, newHeads)

/-- `slide(state, flow_state, flow_config, head)`: the loop, structurally recursive on fuel -/
def slideLoop : Nat → FUid → HUid → List Key → M (List Key)
  | 0, _, _, _ => throw .outOfFuel
  | fuel + 1, f, h, acc => do
    let (stop, nh) ← slideStep fuel f h
    if stop then return acc ++ nh else slideLoop fuel f h (acc ++ nh)

def slide (fuel : Nat) (f : FUid) (h : HUid) : M (List Key) := slideLoop fuel f h []

/-! ### `_advance_head_front` -/

def colangErrorEvent (cls msg : String) : Event :=
  { ev := { kind := .plain, name := "ColangError", args := [("type", .str cls), ("error", .str msg)] } }

def advanceHeadFront : Nat → List Key → M (List Key)
  | 0, _ => throw .outOfFuel
  | fuel + 1, heads => do
    let mut actionable : List Key := []
    for k in heads do
      let f := k.1
      let some i ← getInst? f | pyRaise "KeyError" s!"{f} (model line 529)"
      let cfg ← cfgOfInst f
      let hd ← match ← getHead? k with
        | some hd => pure hd
        | none =>
          -- a head object that is no longer in `heads` (merged away, or its flow was aborted / finished)
          -- merged away: INACTIVE in Python; cleared with its flow: the flow is not listening, unless it is the restarted main flow
          if i.status.listening && (← getRest).cleared.contains k then unsupported "a cleared head of the restarted main flow is advanced"
          else continue
      if hd.status = .inactive || !i.status.listening then continue
      else if hd.status = .merging && !(← getRest).queue.isEmpty then
        actionable := actionable ++ [k]
        continue
      let advancePosition : Bool := hd.status = .active
      if (← getInst f).status = .waiting then setFlowStatus f .starting
      let flowIsStarting : Bool := (← getInst f).status = .starting
      let mut flowFinished := false
      let mut flowAborted := false
      -- first part of the try block: `head.position += 1` (inside the try block since
      -- fixes/C10-head-advance-inside-try.diff), slide and advance the forked heads
      let r1 ← attemptPy (do
        if advancePosition then setHeadPos k (hd.pos + 1)
        let newHeads ← slide fuel f k.2
        if newHeads.isEmpty then pure [] else advanceHeadFront fuel newHeads)
      let mut failure : Option (String × String) := none
      match r1 with
      | .error e => failure := some e
      | .ok act =>
        for nh in act do
          if !actionable.contains nh then actionable := actionable ++ [nh]
        -- second part of the try block
        let r2 ← attemptPy (do
          let hd2 ← getHead? k
          let (pos2, st2) ← match hd2 with
            | some x => pure (x.pos, x.status)
            | none =>
              -- the head was merged away (status INACTIVE) or cleared with its flow; Python still reads the object
              let i2 ← getInst f
              if i2.status.listening && (← getRest).cleared.contains k then unsupported "advanced head was cleared with the restarted main flow"
              pure (0, HeadStatus.inactive)
          let merging : Bool := st2 = .merging
          let mut fin := false
          let mut abo := false
          if hd2.isSome && pos2 ≥ cfg.elements.size then
            if (← getInst f).status = .stopping then abo := true else fin := true
          let mut allWaiting := false
          if !fin && !abo then
            allWaiting := true
            for o in (← getInst f).heads do
              if o.status ≠ .inactive then
                match cfg.elements[o.pos]? with
                | none => pyRaise "IndexError" "list index out of range"
                | some (.waitHeads _) => pure ()
                | some (.matchOp _ internal) => if internal then allWaiting := false
                | some _ => allWaiting := false
          let mut toActionable := false
          if fin || allWaiting then
            if (← getInst f).status = .starting then
              setFlowStatus f .started
              let o ← flowObjOf f
              pushEvent { ev := { kind := .internal, name := "FlowStarted", args := outEventArgs o [] }, scores := ← headScores k }
              if fin && (← getInstX f).activated > 0 then
                fin := false
                setHeadStatus k .inactive
          else if !abo then
            match cfg.elements[pos2]? with
            | some el => if hd2.isSome && el.isActionOp then toActionable := true
            | none => pure ()
          return (merging, toActionable, fin, abo))
        match r2 with
        | .ok (merging, toActionable, fin, abo) =>
          if merging then actionable := actionable ++ [k]
          if toActionable then actionable := actionable ++ [k]
          flowFinished := fin
          flowAborted := abo
        | .error e =>
          -- (the MERGING append happens before anything in this part can raise)
          failure := some e
      match failure with
      | some (c, m) =>
        -- `element = flow_config.elements[head.position]` in the handler can itself raise IndexError
        match ← getHead? k with
        | some x => if x.pos ≥ cfg.elements.size then pyRaise "IndexError" "list index out of range"
        | none => unsupported "exception handler reads a detached head"
        pushEvent (colangErrorEvent c m)
        modifyRest fun r => { r with caught := r.caught ++ [s!"{c}: {m}"] }
        flowFinished := false
        flowAborted := true
      | none => pure ()
      if flowFinished then finishFlow fuel f (← headScores k) false
      else if flowAborted then
        -- an activated flow that failed before it was started is not restarted
        if flowIsStarting && (← getInstX f).activated > 0 then
          modInstX f fun x => { x with newInstanceStarted := true }
        abortFlow fuel f (← headScores k) false
    -- keep only heads that still exist and are not INACTIVE
    let ix ← getIx
    return actionable.filter fun k =>
      match (findInst ix k.1).bind (·.findHead k.2) with
      | some hd => hd.status ≠ .inactive
      | none => false

end NemoVerif.CoreVM
