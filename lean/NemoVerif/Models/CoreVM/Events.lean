/-
  CoreVM — events made from elements and objects: `get_event_name_from_element`, `get_event_from_element`,
  `FlowState.get_event`, `Action.get_event`, `create_flow_instance` (the part that computes arguments),
  `_compute_event_matching_score`, `create_umim_event` / `_generate_umim_event`, `Action.process_event`.
-/
import NemoVerif.Models.CoreVM.Eval

namespace NemoVerif.CoreVM
open NemoVerif NemoVerif.CoreIndex

def hasSub (s sub : String) : Bool := (s.splitOn sub).length > 1

/-- `str.islower()` -/
def isLowerName (s : String) : Bool := s.any Char.isLower && !(s.any Char.isUpper)

def optStrVal : Option String → Val
  | some s => .str s
  | none => .none

/-- `INTERNAL_FLOW_EVENT_ARGUMENTS` (colang_ast.py): a flow parameter with one of these names travels under the key `$<name>` -/
def internalFlowArgs : List String :=
  ["flow_id", "flow_instance_uid", "source_flow_instance_uid", "source_head_uid", "flow_hierarchy_position", "activated"]

/-- `flow_argument_key` -/
def flowArgKey (n : String) : String := if internalFlowArgs.contains n then "$" ++ n else n

/-- `flow_parameter_name` -/
def flowParamName (k : String) : String :=
  let rest := String.ofList (k.toList.drop 1)
  if k.startsWith "$" && internalFlowArgs.contains rest then rest else k

/-- the parameter part of `create_flow_instance(flow_config, uid, pos, event_arguments)`:
    returns (arguments, context additions) -/
def instanceArguments (cfg : FlowCfg) (evArgs : List (String × Val)) :
    M (List (String × Val) × List (String × Val)) := do
  let mut args : List (String × Val) := []
  let mut ctx : List (String × Val) := []
  for p in cfg.params do
    let key := flowArgKey p.name
    let v ← match lookupArg key evArgs with
      | some v => pure v
      | none => match p.default with
        | some e => evalEmpty e
        | none => pure Val.none
    args := setArg key v args
    ctx := setArg p.name v ctx
  let mut idx := 0
  for p in cfg.params do
    let pos := s!"${idx}"
    match lookupArg pos evArgs with
    | some v =>
      args := setArg (flowArgKey p.name) v args
      args := setArg pos v args
    | none => pure ()
    idx := idx + 1
  for m in cfg.returnMembers do
    let v ← match m.default with
      | some e => evalEmpty e
      | none => pure Val.none
    ctx := setArg m.name v ctx
  return (args, ctx)

/-- what `FlowState.get_event` needs to know about the instance -/
structure FlowObj where
  uid : String
  flowId : String
  arguments : List (String × Val)
  parentUid : Option String
  parentHeadUid : Option String
  hierPos : String
  activated : Int
  returnValue : Option Val       -- `_return_value` in context

def flowObjOf (f : FUid) : M FlowObj := do
  let x ← getInstX f
  return { uid := f, flowId := x.flowId, arguments := x.arguments, parentUid := x.parentUid,
           parentHeadUid := x.parentHeadUid, hierPos := x.hierPos, activated := x.activated,
           returnValue := lookupArg "_return_value" (← getCtx f) }

def outEventArgs (o : FlowObj) (args : List (String × Val)) : List (String × Val) :=
  updateArgs (updateArgs [("source_flow_instance_uid", .str o.uid), ("flow_instance_uid", .str o.uid), ("flow_id", .str o.flowId)] o.arguments) args

/-- `FlowState.start_event(matching_scores, args)` -/
def flowStartEvent (o : FlowObj) (args : List (String × Val)) : M Match.Ev := do
  let u ← freshUid
  let base : List (String × Val) := [
    ("flow_instance_uid", .str s!"({o.flowId}){u}"), ("flow_id", .str o.flowId),
    ("source_flow_instance_uid", optStrVal o.parentUid), ("source_head_uid", optStrVal o.parentHeadUid),
    ("flow_hierarchy_position", .str o.hierPos), ("activated", .int o.activated)]
  return { kind := .internal, name := "StartFlow", args := updateArgs (updateArgs base o.arguments) args }

def flowFinishedEvent (o : FlowObj) (args : List (String × Val)) : Match.Ev :=
  let args := match o.returnValue with
    | some v => setArg "return_value" v args
    | none => args
  { kind := .internal, name := "FlowFinished", args := outEventArgs o args }

/-- `FlowState.get_event(name, arguments)`; `flowUid` of the result is set by the caller where Python sets `.flow` -/
def flowGetEvent (o : FlowObj) (name : String) (args : List (String × Val)) : M Match.Ev := do
  match name with
  | "Start" => flowStartEvent o args
  | "Stop" => return { kind := .internal, name := "StopFlow", args := [("flow_id", .str o.flowId), ("flow_instance_uid", .str o.uid)] }
  | "Pause" => return { kind := .internal, name := "PauseFlow", args := [("flow_id", .str o.flowId), ("flow_instance_uid", .str o.uid)] }
  | "Resume" => return { kind := .internal, name := "ResumeFlow", args := [("flow_id", .str o.flowId), ("flow_instance_uid", .str o.uid)] }
  | "Started" => return { kind := .internal, name := "FlowStarted", args := outEventArgs o args }
  | "Finished" => return flowFinishedEvent o args
  | "Failed" => return { kind := .internal, name := "FlowFailed", args := outEventArgs o args }
  | "Paused" | "Resumed" => pyRaise "AttributeError" name
  | _ => pyRaise "AssertionError" s!"Event '{name}' not available!"

/-- `Action.get_event(name, arguments)` -/
def actionGetEvent (a : Action) (name : String) (args : List (String × Val)) : M Match.Ev := do
  let withStart (args : List (String × Val)) : List (String × Val) :=
    if a.startArgs.isEmpty then args else setArg "action_arguments" (.dict a.startArgs) args
  let (name, args) ←
    if name.endsWith "Updated" then
      if name.length > 7 then
        let pre := String.ofList (name.toList.take (name.length - 7))
        if pre = "" then pyRaise "ColangSyntaxError" name
        else pure ("Updated", setArg "event_parameter_name" (.str pre) args)
      else pure (name, setArg "event_parameter_name" (.str "") args)
    else pure (name, args)
  match name with
  | "Started" => return { kind := .action, name := a.name ++ "Started", args := withStart args, actionUid := some a.uid }
  | "Finished" => return { kind := .action, name := a.name ++ "Finished", args := withStart args, actionUid := some a.uid }
  | "Updated" =>
    let pn := match lookupArg "event_parameter_name" args with | some (.str s) => s | _ => ""
    return { kind := .action, name := a.name ++ pn ++ "Updated", args := withStart (OMap.erase "event_parameter_name" args), actionUid := some a.uid }
  | "Start" => return { kind := .action, name := "Start" ++ a.name, args := a.startArgs, actionUid := some a.uid }
  | "Stop" => return { kind := .action, name := "Stop" ++ a.name, args := [], actionUid := some a.uid }
  | "Change" =>
    match lookupArg "arguments" args with
    | some (.dict d) => return { kind := .action, name := "Change" ++ a.name, args := d, actionUid := some a.uid }
    | some _ => unsupported "Change event with non-dict arguments"
    | none => pyRaise "KeyError" "arguments"
  | _ => pyRaise "ColangSyntaxError" s!"Invalid action event {name}!"

/-- a throw-away `Action(name, args, flow_uid)` (burns a uid like the Python constructor) -/
def tempAction (name : String) (args : List (String × Val)) : M Action := do
  let u ← freshUid
  return { uid := u, name := name, flowUid := none, startArgs := args }

/-- a throw-away `create_flow_instance(flow_config, "", "", {})` -/
def tempFlowObj (flowName : String) : M FlowObj := do
  let cfg ← getCfg flowName
  if cfg.loopId == some "NEW" then let _ ← freshUid
  let _ ← freshUid
  let (args, _) ← instanceArguments cfg []
  return { uid := "", flowId := cfg.id, arguments := args, parentUid := none, parentHeadUid := none,
           hierPos := "", activated := 0, returnValue := none }

/-- resolve `$var` of a reference spec: the object and the last member -/
def resolveRef (f : FUid) (spec : Spec) (v : String) : M (Val × Option Member) := do
  match lookupArg v (← getCtx f) with
  | none => pyRaise "ColangRuntimeError" s!"Unknown variable: '{v}'!"
  | some obj =>
    match spec.members with
    | none => return (obj, none)
    | some [m] => return (obj, some m)
    | some _ => unsupported "reference with a member path"

/-- `get_event_name_from_element(state, flow_state, element)` -/
def getEventName (f : FUid) (spec : Spec) : M String := do
  match spec.varName with
  | some v =>
    let (obj, member) ← resolveRef f spec v
    match obj, member with
    | .ref "event" id, m =>
      if m.isSome then pyRaise "ColangValueError" "Events have no event attributes!"
      match OMap.lookup id (← getRest).events with
      | some eo => return eo.ev.name
      | none => unsupported "dangling event object"
    | .ref "action" uid, some m =>
      match ← getAction? uid with
      | some a => return (← actionGetEvent a m.name []).name
      | none => unsupported "event of an action object that was removed from state.actions"
    | .ref "flow" uid, some m =>
      match ← getInstX? uid with
      | some _ => return (← flowGetEvent (← flowObjOf uid) m.name []).name
      | none => unsupported "event of a flow object that was cleaned up"
    | _, _ => pyRaise "ColangRuntimeError" "Unsupported type"
  | none =>
    match spec.members with
    | some (m :: _) =>
      match spec.specType, spec.name with
      | .flow, some n =>
        let e ← flowGetEvent (← tempFlowObj n) m.name []
        -- `del flow_event.arguments["source_flow_instance_uid"]; del flow_event.arguments["flow_instance_uid"]`: the request
        -- events `Stop` / `Pause` / `Resume` carry only `flow_id` and `flow_instance_uid` — the first `del` raises KeyError
        if (lookupArg "source_flow_instance_uid" e.args).isNone then pyRaise "KeyError" "'source_flow_instance_uid'"
        if (lookupArg "flow_instance_uid" e.args).isNone then pyRaise "KeyError" "'flow_instance_uid'"
        return e.name
      | .action, some n => return (← actionGetEvent (← tempAction n []) m.name []).name
      | _, _ => pyRaise "ColangRuntimeError" "Unsupported type"
    | some [] => pyRaise "IndexError" "members"
    | none =>
      match spec.name with
      | some n => return n
      | none => pyRaise "AssertionError" "spec without name"

/-- `get_event_from_element(state, flow_state, element)`; `isMatch` = `element["op"] == "match"` -/
def getEvent (f : FUid) (spec : Spec) (isMatch : Bool) : M Match.Ev := do
  match spec.varName with
  | some v =>
    let (obj, member) ← resolveRef f spec v
    match obj, member with
    | .ref "event" id, m =>
      if m.isSome then pyRaise "ColangValueError" "Events have no event attributes!"
      match OMap.lookup id (← getRest).events with
      | some eo => return eo.ev
      | none => unsupported "dangling event object"
    | .ref "action" uid, some m =>
      let args ← evalArgs f m.args
      match ← getAction? uid with
      | some a =>
        let e ← actionGetEvent a m.name args
        return { e with actionUid := some uid }
      | none => unsupported "event of an action object that was removed from state.actions"
    | .ref "flow" uid, some m =>
      let args ← evalArgs f m.args
      match ← getInstX? uid with
      | some _ =>
        let e ← flowGetEvent (← flowObjOf uid) m.name args
        return { e with flowUid := some uid }
      | none => unsupported "event of a flow object that was cleaned up"
    | _, _ => pyRaise "ColangRuntimeError" "Unsupported type"
  | none =>
    match spec.members with
    | some (m :: _) =>
      match spec.specType, spec.name with
      | .flow, some n =>
        let o ← tempFlowObj n
        -- `flow_event_arguments = element_spec.arguments; .update(members[0]["arguments"])`
        let args ← evalArgs f (m.args.foldl (fun acc kv => OMap.insert kv.1 kv.2 acc) spec.args)
        let e ← flowGetEvent o m.name args
        -- the two `del`s raise KeyError when the key is missing (`Stop` / `Pause` / `Resume` of a flow given by name)
        if (lookupArg "source_flow_instance_uid" e.args).isNone then pyRaise "KeyError" "'source_flow_instance_uid'"
        if (lookupArg "flow_instance_uid" e.args).isNone then pyRaise "KeyError" "'flow_instance_uid'"
        let e := { e with args := OMap.erase "flow_instance_uid" (OMap.erase "source_flow_instance_uid" e.args) }
        return { e with flowUid := if isMatch then none else some "" }
      | .action, some n =>
        let aargs ← evalArgs f spec.args
        let a ← tempAction n aargs
        let margs ← evalArgs f m.args
        let e ← actionGetEvent a m.name margs
        return { e with actionUid := if isMatch then none else e.actionUid }
      | _, _ => pyRaise "ColangRuntimeError" "Unsupported case!"
    | some [] => pyRaise "IndexError" "members"
    | none =>
      match spec.name with
      | none => pyRaise "AssertionError" "spec without name"
      | some n =>
        let args ← evalArgs f spec.args
        if isLowerName n || internalEvents.contains n then
          return { kind := .internal, name := n, args := args }
        else if hasSub n "Action" then
          return { kind := .action, name := n, args := args }
        else
          return { kind := .plain, name := n, args := args }

/-! ### scores -/

def Score.num (s : Score) : Int × Nat := s.prio.getD (1, 0)

/-- exact comparison of `p1 * 0.9^k1` with `p2 * 0.9^k2` (k ≥ 0 by C04's `exponent_nonneg`) -/
def Score.lt (a b : Score) : Bool :=
  let (m1, e1) := a.num
  let (m2, e2) := b.num
  let k1 := a.k.toNat
  let k2 := b.k.toNat
  decide (m1 * (2 : Int) ^ e2 * (9 : Int) ^ k1 * (10 : Int) ^ k2 < m2 * (2 : Int) ^ e1 * (9 : Int) ^ k2 * (10 : Int) ^ k1)

def Score.eq (a b : Score) : Bool := !a.lt b && !b.lt a

/-- lexicographic `<` on score lists (Python list comparison) -/
def scoresLt : List Score → List Score → Bool
  | [], [] => false
  | [], _ :: _ => true
  | _ :: _, [] => false
  | a :: as, b :: bs => if a.lt b then true else if b.lt a then false else scoresLt as bs

def scoresEq (a b : List Score) : Bool := !scoresLt a b && !scoresLt b a

/-- `sorted(xs, key=…, reverse=True)`: stable, descending (insertion sort keeps equal keys in input order) -/
def sortDesc {α} (key : α → List Score) (xs : List α) : List α :=
  xs.foldl (fun acc x =>
    let rec ins : List α → List α
      | [] => [x]
      | y :: ys => if scoresLt (key y) (key x) then x :: y :: ys else y :: ins ys
    ins acc) []

/-- no regular expressions inside the fragment -/
def noRx : Match.Rx := fun _ _ => false

inductive MatchOutcome where
  | matched (s : Score) | failed | noMatch

/-- `_compute_event_matching_score(state, flow_state, head, event)` -/
def eventMatchingScore (f : FUid) (spec : Spec) (event : Event) : M MatchOutcome := do
  let ref ← getEvent f spec true
  let typeOk := match event.ev.kind with
    | .plain => true
    | k => ref.kind = k
  if !typeOk then return .noMatch
  let x ← getInstX f
  let acts := (← getRest).actions
  let startArgs := fun u => (OMap.lookup u acts).map (·.startArgs)
  match Match.eventScore noRx startArgs event.ev ref x.priority with
  | .err => pyRaise "ColangValueError" "error while comparing event arguments"
  | .mismatch => return .failed
  | .zero => return .noMatch
  | .pos k p => return .matched { k := k, prio := p }

/-! ### actions and outgoing events -/

/-- `Action.process_event(event)` -/
def Action.processEvent (a : Action) (e : Match.Ev) : Action :=
  if hasSub e.name "Action" && e.actionUid = some a.uid then
    if hasSub e.name "ActionStarted" then { a with context := updateArgs a.context e.args, status := .started }
    else if hasSub e.name "ActionUpdated" then { a with context := updateArgs a.context e.args }
    else if hasSub e.name "ActionFinished" then { a with context := updateArgs a.context e.args, status := .finished, scopeCount := 0 }
    else if hasSub e.name "Start" then { a with context := updateArgs a.context e.args, status := .starting, scopeCount := 1 }
    else if hasSub e.name "Stop" then { a with context := updateArgs a.context e.args, status := .stopping }
    else a
  else a

/-- `_update_action_status_by_event(state, event)` -/
def updateActionStatusByEvent (e : Match.Ev) : M Unit := do
  let ix ← getIx
  for i in ix.insts do
    if i.status.listening then
      let x ← getInstX i.uid
      for au in x.actionUids do
        match ← getAction? au with
        | some a => if a.status != .finished then setAction (a.processEvent e)
        | none => pure ()

/-- `_generate_umim_event(state, event)`; returns the event with the `action_uid` the outgoing event carries -/
def generateUmimEvent (e : Match.Ev) : M Match.Ev := do
  let mut e := e
  if e.kind = .action then
    if e.actionUid.isSome then
      match lookupArg "action_uid" e.args with
      | some (.str u) => e := { e with actionUid := some u, args := OMap.erase "action_uid" e.args }
      | some _ => unsupported "non-string action_uid argument"
      | none => pure ()
    else
      -- `new_event_dict(name, **args)`: a uid is invented only for Start…Action events
      match lookupArg "action_uid" e.args with
      | some (.str u) => e := { e with actionUid := some u, args := OMap.erase "action_uid" e.args }
      | some _ => unsupported "non-string action_uid argument"
      | none =>
        if hasSub e.name "Started" then pyRaise "AssertionError" "Action events need to provide an 'action_uid'"
        else if hasSub e.name "Start" then
          let u ← freshUid
          e := { e with actionUid := some u }
        else pyRaise "AssertionError" "Action events need to provide an 'action_uid'"
  else if hasSub e.name "Action" then
    unsupported "outgoing non-ActionEvent whose name contains 'Action'"
  -- the validators of `ensure_valid_event` for the two shapes that are reachable here
  if hasSub e.name "ActionFinished" then unsupported "outgoing …ActionFinished event (validators not modelled)"
  if e.name = "StartUtteranceBotAction" then
    match lookupArg "script" e.args with
    | some (.str _) => pure ()
    | _ => pyRaise "AssertionError" "StartUtteranceBotAction events need to provide 'script' of type 'str'"
  let _ ← freshUid   -- the outgoing event's own uid
  modifyRest fun r => { r with outgoing := r.outgoing ++ [e] }
  if e.kind = .action then updateActionStatusByEvent e
  return e

/-- stop an action when its last scope leaves (shared by `EndScope`, `_abort_flow`, `_finish_flow`) -/
def releaseAction (au : String) : M Unit := do
  match ← getAction? au with
  | none => pyRaise "KeyError" au
  | some a =>
    if a.status = .starting || a.status = .started then
      let a := { a with scopeCount := a.scopeCount - 1 }
      setAction a
      if a.scopeCount = 0 then
        let se : Match.Ev := { kind := .action, name := "Stop" ++ a.name, args := [], actionUid := some a.uid }
        setAction { a with status := .stopping }
        let _ ← generateUmimEvent se

end NemoVerif.CoreVM
