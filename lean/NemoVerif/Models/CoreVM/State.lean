/-
  CoreVM — run-time state of the Colang 2.x interpreter (`flows.State`, `FlowState`, `FlowHead`, `Action`).

  The index-relevant part (instances with their flow status, heads with position / status, the two
  dispatch maps) is NOT duplicated here: it is a `CoreIndex.IState` that can only be changed through
  `CoreIndex.step` (`IxS.apply`), together with the log of the operations applied so far and the
  kernel-checked facts `ix = replay of the log` and `ok = true → every guard along the log held`.
  Hence every theorem of layer 1 (Theorems/C09.lean) speaks about every state CoreVM can ever reach,
  by construction.  Everything else (contexts, scores, scopes, actions, queue …) lives in `Rest`.
-/
import NemoVerif.Models.CoreIndex
import NemoVerif.Models.Match
import NemoVerif.Models.CoreVM.Syntax

namespace NemoVerif.CoreVM
open NemoVerif NemoVerif.CoreIndex

/-! ### the index component -/

def replayR : List Op → IState
  | [] => {}
  | op :: rest => step (replayR rest) op

/-- guards along a log kept in REVERSE order (newest first) -/
def AllGuardsR : List Op → Prop
  | [] => True
  | op :: rest => AllGuardsR rest ∧ op.guard (replayR rest) = true

/-- The index component of a CoreVM state. It cannot be built or changed except by replaying guarded operations:
    the two proof fields make "the index is the replay of the log" and "every guard along the log held" true of EVERY
    value of this type — hence of every state CoreVM can be in. -/
structure IxS where
  rlog : List Op := []
  ix : IState := {}
  h : ix = replayR rlog := by rfl
  hok : AllGuardsR rlog := by trivial

instance : Inhabited IxS := ⟨{}⟩

def IxS.apply (x : IxS) (op : Op) (hg : op.guard x.ix = true) : IxS where
  rlog := op :: x.rlog
  ix := step x.ix op
  h := by simp only [replayR]; rw [← x.h]
  hok := ⟨x.hok, by rw [← x.h]; exact hg⟩

/-! ### values, events, actions -/

/-- a matching score `prio * 0.9^k` (`prio = none` is 1.0); compared exactly as rationals -/
structure Score where
  k : Int
  prio : Option (Int × Nat)
  deriving DecidableEq, Repr, Inhabited

structure Event where
  ev : Match.Ev
  scores : List Score := []
  deriving Inhabited

inductive ActStatus where
  | initialized | starting | started | stopping | finished
  deriving DecidableEq, Repr, Inhabited

structure Action where
  uid : String
  name : String
  flowUid : Option String
  status : ActStatus := .initialized
  context : List (String × Val) := []
  startArgs : List (String × Val) := []
  scopeCount : Int := 0
  deriving Inhabited

/-- what is not index-relevant about a head -/
structure HeadX where
  scores : List Score := []
  scopeUids : List String := []
  childHeadUids : List String := []
  catchLabels : List String := []
  deriving Inhabited

/-- what is not index-relevant about an instance -/
structure InstX where
  flowId : String
  loopId : Option String
  hierPos : String
  scopes : List (String × (List String × List String)) := []
  forkUids : List (String × String) := []
  actionUids : List String := []
  context : List (String × Val) := []
  /-- `some o`: `flow_state.context` IS the context dict of instance `o` (flow started with `context=$self.context`) -/
  ctxOwner : Option FUid := none
  priority : Option (Int × Nat) := some (1, 0)     -- FlowState.priority = 1.0
  arguments : List (String × Val) := []
  parentUid : Option String := none
  parentHeadUid : Option String := none
  childFlowUids : List String := []
  statusUpdated : Nat := 0
  activated : Int := 0
  newInstanceStarted : Bool := false
  deriving Inhabited

/-- event objects stored in contexts (`as $ref`): `Val.ref "event" id` points here -/
structure EvObj where
  ev : Match.Ev
  deriving Inhabited

structure Rest where
  prog : Prog
  fx : List (FUid × InstX) := []                 -- per instance, in `flow_states` order (same order as ix.insts)
  hx : List (Key × HeadX) := []
  idStates : List (String × List FUid) := []     -- `flow_id_states`
  actions : List (String × Action) := []
  queue : List Event := []                       -- `internal_events` (deque)
  outgoing : List Match.Ev := []
  gctx : List (String × Val) := []               -- `state.context`
  events : List (String × EvObj) := []           -- event objects referenced from contexts
  mainUid : Option FUid := none
  nextUid : Nat := 0
  clock : Nat := 0
  choices : List Nat := []                       -- tie-break outcomes still to be consumed
  choiceLog : List (Nat × Nat) := []             -- (number of candidates, picked) consumed so far
  lastEvents : Nat := 0
  /-- heads removed from `heads` by `heads.clear()` during the current `run_to_completion` (their Python objects keep
      position and status, unlike merged heads which are INACTIVE) -/
  cleared : List Key := []
  /-- exceptions caught by the try/except of `_advance_head_front` during the current event (diagnostics) -/
  caught : List String := []
  deriving Inhabited

structure VM where
  ixs : IxS := {}
  r : Rest
  deriving Inhabited

inductive VMErr where
  /-- the model ran out of fuel: says nothing about Python (kept apart from exceptions) -/
  | outOfFuel
  /-- the model cannot follow (construct outside the fragment); the case is not compared further -/
  | unsupported (why : String)
  /-- a Python exception of the given class -/
  | py (cls : String) (msg : String)
  /-- an index operation whose guard does not hold was about to be applied: the model stops (the interpreter would go on
      with an inexact index — exactly what C09 is about; the harness reports it) -/
  | guardFailed (op : String)
  deriving Repr, Inhabited

abbrev M := EStateM VMErr VM

def opName : Op → String
  | .addInst f h _ => s!"addInst {f} {h}" | .setPos f h p _ => s!"setPos {f} {h} {p}" | .setStatus f h _ _ => s!"setStatus {f} {h}"
  | .fork f h _ p _ => s!"fork {f} {h} {p}" | .delHead f h => s!"delHead {f} {h}" | .dropHeads f => s!"dropHeads {f}"
  | .rmHead f h => s!"rmHead {f} {h}" | .clearHeads f => s!"clearHeads {f}" | .mainRestart f h _ => s!"mainRestart {f} {h}"
  | .setFlowStatus f _ => s!"setFlowStatus {f}" | .removeInst f => s!"removeInst {f}"

/-- the ONLY way the index component changes: a guarded `CoreIndex.step` -/
def applyOp (op : Op) : M Unit := fun s =>
  if hg : op.guard s.ixs.ix = true then .ok () { s with ixs := s.ixs.apply op hg }
  else .error (.guardFailed (opName op)) s
def modifyRest (f : Rest → Rest) : M Unit := modify fun s => { s with r := f s.r }
def getRest : M Rest := do return (← get).r
def getIx : M IState := do return (← get).ixs.ix

def pyRaise {α} (cls msg : String) : M α := throw (.py cls msg)
def unsupported {α} (why : String) : M α := throw (.unsupported why)

def freshUid : M String := do
  let r ← getRest
  modifyRest fun r => { r with nextUid := r.nextUid + 1 }
  return s!"u{r.nextUid + 1}z"

/-! ### look-ups -/

def getInst? (f : FUid) : M (Option Inst) := do return findInst (← getIx) f
def getInstX? (f : FUid) : M (Option InstX) := do return OMap.lookup f (← getRest).fx

def getInst (f : FUid) : M Inst := do
  match ← getInst? f with
  | some i => pure i
  | none => pyRaise "KeyError" f

def getInstX (f : FUid) : M InstX := do
  match ← getInstX? f with
  | some i => pure i
  | none => pyRaise "KeyError" f

def modInstX (f : FUid) (g : InstX → InstX) : M Unit :=
  modifyRest fun r => { r with fx := OMap.modify f g r.fx }

/-- the instance whose `context` field holds this instance's (possibly shared) context dict -/
def ctxHolder (f : FUid) : M FUid := do
  match (← getInstX f).ctxOwner with
  | none => pure f
  | some o =>
    if (← getInstX? o).isSome then pure o
    else unsupported "shared context whose owning instance was cleaned up"

/-- `flow_state.context` -/
def getCtx (f : FUid) : M (List (String × Val)) := do return (← getInstX (← ctxHolder f)).context

/-- `flow_state.context.update({k: v})` -/
def setCtxVar (f : FUid) (k : String) (v : Val) : M Unit := do
  let o ← ctxHolder f
  modInstX o fun x => { x with context := OMap.insert k v x.context }

def getHead? (k : Key) : M (Option Head) := do
  return (findInst (← getIx) k.1).bind (·.findHead k.2)

def getHeadX (k : Key) : M HeadX := do
  return (OMap.lookup k (← getRest).hx).getD {}

def modHeadX (k : Key) (g : HeadX → HeadX) : M Unit :=
  modifyRest fun r => { r with hx := OMap.modify k g r.hx }

def getCfg (flowId : String) : M FlowCfg := do
  match (← getRest).prog.find flowId with
  | some c => pure c
  | none => pyRaise "KeyError" flowId

def cfgOfInst (f : FUid) : M FlowCfg := do getCfg (← getInstX f).flowId

def elemAt (c : FlowCfg) (pos : Nat) : Option Prim := c.elements[pos]?

def getAction? (u : String) : M (Option Action) := do return OMap.lookup u (← getRest).actions
def setAction (a : Action) : M Unit := modifyRest fun r => { r with actions := OMap.insert a.uid a r.actions }

def pushEvent (e : Event) : M Unit := modifyRest fun r => { r with queue := r.queue ++ [e] }
def pushLeftEvent (e : Event) : M Unit := modifyRest fun r => { r with queue := e :: r.queue }

def lookupArg (k : String) (args : List (String × Val)) : Option Val := Match.lookup k args

/-- dict `update` for one key -/
def setArg (k : String) (v : Val) (args : List (String × Val)) : List (String × Val) := OMap.insert k v args

def updateArgs (base upd : List (String × Val)) : List (String × Val) :=
  upd.foldl (fun acc kv => setArg kv.1 kv.2 acc) base

end NemoVerif.CoreVM
