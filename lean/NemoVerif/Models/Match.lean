/-
  C04 — model of the Colang 2.x event matcher.

  `score` mirrors `_compute_arguments_dict_matching_score(args, ref_args)` (statemachine.py)
  branch for branch; `eventScore` mirrors `_compute_event_comparison_score`.

  The Python result is the float `0.9^k` (times sub-scores); the model returns the exponent `k`
  (`Res.ok k`), `Res.no` for `0.0`/`False`, and `Res.err` when `ComparisonExpression.compare`
  raises `ColangValueError`.  `rx id v` abstracts `pattern.search(str(v))`.
-/
import NemoVerif.Py.Val
import NemoVerif.Generated.C04

namespace NemoVerif.Match
open NemoVerif

inductive Res where
  | err : Res
  | no : Res
  | ok : Int → Res
  deriving DecidableEq, Repr, Inhabited

def Res.isOk : Res → Bool
  | .ok _ => true
  | _ => false

/-- `rx id v` = `regex_id.search(str(v))` — supplied by the harness as a table, universally
    quantified in the theorems. -/
abbrev Rx := Nat → Val → Bool

/-- `isinstance(args, str) or isinstance(args, int) or isinstance(args, float)` (bool ⊂ int). -/
def isStrIntFloat : Val → Bool
  | .str _ | .int _ | .flt _ _ | .bool _ => true
  | _ => false

/-- numeric view for `ComparisonExpression` -/
def toDy : Val → Option (Int × Nat)
  | .int i => some (i, 0)
  | .bool b => some (if b then 1 else 0, 0)
  | .flt m e => some (m, e)
  | _ => none

def cmpHolds (op : CmpOp) (v r : Int × Nat) : Bool :=
  match op with
  | .lt => dyLt v.1 v.2 r.1 r.2
  | .le => dyLt v.1 v.2 r.1 r.2 || dyEq v.1 v.2 r.1 r.2
  | .gt => dyLt r.1 r.2 v.1 v.2
  | .ge => dyLt r.1 r.2 v.1 v.2 || dyEq v.1 v.2 r.1 r.2
  | .ne => !dyEq v.1 v.2 r.1 r.2

/-- `ComparisonExpression(op, refv).compare(v)`: raises unless `isinstance(v, type(refv))`. -/
def cmpCompare (op : CmpOp) (refv v : Val) : Res :=
  if !v.isInstanceOfTypeOf refv then .err
  else match toDy v, toDy refv with
    | some a, some b => if cmpHolds op a b then .ok 0 else .no
    | _, _ => .err

def lookup (k : String) : List (String × Val) → Option Val
  | [] => none
  | (k', v) :: rest => if k' = k then some v else lookup k rest

/-- First element of `as` on which `f` is a hit (`ok`), with the rest of the list after it;
    an `err` met before the first hit propagates (the Python call raises). -/
def firstHit (f : Val → Res) : List Val → Res × List Val
  | [] => (.no, [])
  | a :: as =>
    match f a with
    | .err => (.err, [])
    | .ok k => (.ok k, as)
    | .no => firstHit f as

mutual
/-- `_compute_arguments_dict_matching_score(a, r)`; structural recursion on the pattern `r`. -/
def score (filter : List String) (rx : Rx) (a : Val) : Val → Res
  | .regex id =>
    if isStrIntFloat a then (if rx id a then .ok 0 else .no)
    else if !(Val.regex id).isInstanceOfTypeOf a then .no
    else if a.scalarEq (.regex id) then .ok 0 else .no
  | .cmp op rv => cmpCompare op rv a
  | .dict rkvs =>
    match a with
    | .dict akvs =>
      if rkvs.length > akvs.length then .no
      else match scoreDict filter rx akvs rkvs with
        | .ok k => .ok (k + ((akvs.length : Int) - (rkvs.length : Int)))
        | r => r
    | _ => .no
  | .list rs =>
    match a with
    | .list as =>
      if rs.length > as.length then .no
      else match scoreList filter rx as rs with
        | .ok k => .ok (k + ((as.length : Int) - (rs.length : Int)))
        | r => r
    | _ => .no
  | .set rs =>
    match a with
    | .set as =>
      if rs.length > as.length then .no
      else match scoreSet filter rx as rs with
        | .ok k => .ok (k + ((as.length : Int) - (rs.length : Int)))
        | r => r
    | _ => .no
  | .none => if (Val.none).isInstanceOfTypeOf a && a.scalarEq .none then .ok 0 else .no
  | .bool b => if (Val.bool b).isInstanceOfTypeOf a && a.scalarEq (.bool b) then .ok 0 else .no
  | .int i => if (Val.int i).isInstanceOfTypeOf a && a.scalarEq (.int i) then .ok 0 else .no
  | .flt m e => if (Val.flt m e).isInstanceOfTypeOf a && a.scalarEq (.flt m e) then .ok 0 else .no
  | .str s => if (Val.str s).isInstanceOfTypeOf a && a.scalarEq (.str s) then .ok 0 else .no
  | .ref k u => if (Val.ref k u).isInstanceOfTypeOf a && a.scalarEq (.ref k u) then .ok 0 else .no

/-- the `for val in ref_args.keys()` loop of the dict branch -/
def scoreDict (filter : List String) (rx : Rx) (akvs : List (String × Val)) : List (String × Val) → Res
  | [] => .ok 0
  | (key, r) :: rest =>
    if key ∈ filter then scoreDict filter rx akvs rest
    else match lookup key akvs with
      | none => .no
      | some av =>
        match score filter rx av r with
        | .err => .err
        | .no => .no
        | .ok k =>
          match scoreDict filter rx akvs rest with
          | .ok k' => .ok (k + k')
          | r' => r'

/-- the greedy in-order scan of the list branch -/
def scoreList (filter : List String) (rx : Rx) (as : List Val) : List Val → Res
  | [] => .ok 0
  | r :: rs =>
    match firstHit (fun a => score filter rx a r) as with
    | (.err, _) => .err
    | (.no, _) => .no
    | (.ok k, rest) =>
      match scoreList filter rx rest rs with
      | .ok k' => .ok (k + k')
      | r' => r'

/-- the `for ref_val in ref_args` loop of the set branch -/
def scoreSet (filter : List String) (rx : Rx) (as : List Val) : List Val → Res
  | [] => .ok 0
  | r :: rs =>
    match firstHit (fun a => score filter rx a r) as with
    | (.err, _) => .err
    | (.no, _) => .no
    | (.ok k, _) =>
      match scoreSet filter rx as rs with
      | .ok k' => .ok (k + k')
      | r' => r'
end

/-! ### The documented matching relation (the specification) -/

mutual
/-- `Matches a r`: received value `a` is matched by pattern `r`, written from the property
    statement and `event-generation-and-matching.rst`. `filter` = keys a dict pattern skips. -/
def Matches (filter : List String) (rx : Rx) (a : Val) : Val → Prop
  | .regex id =>
    (isStrIntFloat a = true ∧ rx id a = true) ∨ (a = .regex id)
  | .cmp op rv =>
    a.isInstanceOfTypeOf rv = true ∧ ∃ x y, toDy a = some x ∧ toDy rv = some y ∧ cmpHolds op x y = true
  | .dict rkvs =>
    ∃ akvs, a = .dict akvs ∧ rkvs.length ≤ akvs.length ∧ DictOk filter rx akvs rkvs
  | .list rs =>
    ∃ as, a = .list as ∧ rs.length ≤ as.length ∧ Embeds filter rx as rs
  | .set rs =>
    ∃ as, a = .set as ∧ rs.length ≤ as.length ∧ AllFound filter rx as rs
  | .none => a = .none
  | .bool b => (Val.bool b).isInstanceOfTypeOf a = true ∧ a.scalarEq (.bool b) = true
  | .int i => (Val.int i).isInstanceOfTypeOf a = true ∧ a.scalarEq (.int i) = true
  | .flt m e => (Val.flt m e).isInstanceOfTypeOf a = true ∧ a.scalarEq (.flt m e) = true
  | .str s => a = .str s
  | .ref k u => a = .ref k u
/-- every mentioned (non-filtered) key is present with a matching value -/
def DictOk (filter : List String) (rx : Rx) (akvs : List (String × Val)) : List (String × Val) → Prop
  | [] => True
  | (key, r) :: rest =>
    (key ∈ filter ∨ ∃ av, lookup key akvs = some av ∧ Matches filter rx av r) ∧ DictOk filter rx akvs rest
/-- the expected items are found in order: an order-preserving embedding exists -/
def Embeds (filter : List String) (rx : Rx) (as : List Val) : List Val → Prop
  | [] => True
  | r :: rs => ∃ pre x post, as = pre ++ x :: post ∧ Matches filter rx x r ∧ Embeds filter rx post rs
/-- every expected member is matched by some received member -/
def AllFound (filter : List String) (rx : Rx) (as : List Val) : List Val → Prop
  | [] => True
  | r :: rs => (∃ x, x ∈ as ∧ Matches filter rx x r) ∧ AllFound filter rx as rs
end

mutual
/-- the pattern mentions none of the keys in `f` (at any nesting level) -/
def NoReserved (f : List String) : Val → Prop
  | .dict rkvs => NoReservedKvs f rkvs
  | .list rs => NoReservedList f rs
  | .set rs => NoReservedList f rs
  | _ => True
def NoReservedKvs (f : List String) : List (String × Val) → Prop
  | [] => True
  | (k, r) :: rest => k ∉ f ∧ NoReserved f r ∧ NoReservedKvs f rest
def NoReservedList (f : List String) : List Val → Prop
  | [] => True
  | r :: rs => NoReserved f r ∧ NoReservedList f rs
end


/-- patterns without nested containers -/
def ScalarPat : Val → Prop
  | .dict _ | .list _ | .set _ => False
  | _ => True

/-! ### Event level: `_compute_event_comparison_score` -/

inductive EvKind where
  | plain | internal | action
  deriving DecidableEq, Repr, Inhabited

/-- An `Event` / `InternalEvent` / `ActionEvent` as far as matching looks at it. -/
structure Ev where
  kind : EvKind
  name : String
  args : List (String × Val)
  actionUid : Option String := none   -- ActionEvent.action_uid
  flowUid : Option String := none     -- InternalEvent.flow.uid (reference events only)
  deriving Repr, Inhabited

/-- Result of the event comparison: error, mismatch (`-1.0`), no match (`0.0`), or a positive
    score `prio * base^k` (`prio = none` when no priority factor is applied). -/
inductive EvRes where
  | err | mismatch | zero
  | pos (k : Int) (prio : Option (Int × Nat))
  deriving DecidableEq, Repr, Inhabited

open NemoVerif.Generated.C04 in
/-- mirrors `_compute_event_comparison_score(state, event, ref_event, priority)` up to the final priority scaling;
    `startArgs uid` = `state.actions[uid].start_event_arguments` when the action exists.
    `priority` is `none` for `None`/`0` (Python truthiness) -/
def eventCore (rx : Rx) (startArgs : String → Option (List (String × Val)))
    (ev ref : Ev) : EvRes :=
  let priority : Option (Int × Nat) := none
  let filter := argumentFilter
  let fin (r : Res) (extra : Int) : EvRes :=
    match r with
    | .err => .err
    | .no => .zero
    | .ok k => .pos (k + extra) priority
  if ev.name = evStartFlow ∧ ref.name = evStartFlow then
    match lookup "flow_id" ref.args with
    | none => fin (score filter rx (.dict ev.args) (.dict ref.args)) 1
    | some rf =>
      -- the dict score is computed first (it may raise), then overwritten
      match score filter rx (.dict ev.args) (.dict ref.args) with
      | .err => .err
      | _ =>
        match lookup "flow_id" ev.args with
        | none => .err   -- KeyError in Python
        | some ef => if ef.scalarEq rf then .pos 0 priority else .zero
  else if ev.name ∈ internalEventsAll ∧ ref.name ∈ internalEventsAll then
    let flowIdGate : Res :=
      match lookup "flow_id" ref.args, lookup "flow_id" ev.args with
      | some rf, some ef => score filter rx ef rf
      | _, _ => .ok 0
    match flowIdGate with
    | .err => .err
    | .no => .zero
    | .ok k =>
      if k ≠ 0 then .zero else
      let srcGate : Res :=
        match ref.flowUid, lookup "source_flow_instance_uid" ev.args with
        | some fu, some src => score filter rx src (.str fu)
        | _, _ => .ok 0
      match srcGate with
      | .err => .err
      | .no => .zero
      | .ok k2 =>
        if k2 ≠ 0 then .zero else
        match score filter rx (.dict ev.args) (.dict ref.args) with
        | .err => .err
        | .no => .zero
        | .ok k3 =>
          if (lookup "flow_instance_uid" ref.args).isSome ∧
              ((ref.name = evFlowFinished ∧ ev.name = evFlowFailed) ∨
               (ref.name = evFlowFailed ∧ ev.name = evFlowFinished) ∨
               (ref.name = evFlowStarted ∧ (ev.name = evFlowFinished ∨ ev.name = evFlowFailed))) then
            .mismatch
          else if ref.name ≠ ev.name then .zero
          else .pos k3 priority
  else
    if ref.name ≠ ev.name then .zero
    else
      let both := ev.kind = .action ∧ ref.kind = .action
      if both ∧ ref.actionUid.isSome ∧ ref.actionUid ≠ ev.actionUid then .zero
      else
        let args' : List (String × Val) :=
          if both then
            match ev.actionUid with
            | some u =>
              match startArgs u with
              | some sa => (ev.args.filter (fun kv => kv.1 ≠ "action_arguments")) ++ [("action_arguments", .dict sa)]
              | none => ev.args
            | none => ev.args
          else ev.args
        fin (score filter rx (.dict args') (.dict ref.args)) 0

/-- `if priority: match_score *= priority` — applied to positive scores (a zero score stays zero,
    the mismatch `-1.0` and the error are returned before the scaling). -/
def eventScore (rx : Rx) (startArgs : String → Option (List (String × Val)))
    (ev ref : Ev) (priority : Option (Int × Nat)) : EvRes :=
  match eventCore rx startArgs ev ref with
  | .pos k _ => .pos k priority
  | r => r

/-! ### From a `match` statement to the reference event: `get_event_from_element` + `Action.get_event` /
    `FlowState.get_event` (the cases a `match` statement can use) -/

/-- Python `d[k] = v` on an insertion-ordered dict -/
def setKey (k : String) (v : Val) : List (String × Val) → List (String × Val)
  | [] => [(k, v)]
  | (k', v') :: rest => if k' = k then (k, v) :: rest else (k', v') :: setKey k v rest

/-- Python `d.update(u)` -/
def dictUpdate (d u : List (String × Val)) : List (String × Val) :=
  u.foldl (fun acc kv => setKey kv.1 kv.2 acc) d

/-- an `Action` object as far as event construction reads it -/
structure ActionObj where
  uid : String
  name : String
  startArgs : List (String × Val)
  deriving Repr, Inhabited

/-- a `FlowState` object as far as event construction reads it -/
structure FlowObj where
  uid : String
  flowId : String
  args : List (String × Val)          -- FlowState.arguments
  returnValue : Option Val := none     -- context["_return_value"] if present
  deriving Repr, Inhabited

/-- `Action.get_event(member, args)` for the events a `match` refers to (`Started`, `Finished`) -/
def ActionObj.matchEvent (a : ActionObj) (member : String) (args : List (String × Val)) : Option Ev :=
  if member = "Started" ∨ member = "Finished" then
    some { kind := .action, name := a.name ++ member,
           args := if a.startArgs.isEmpty then args else setKey "action_arguments" (.dict a.startArgs) args,
           actionUid := some a.uid }
  else none

open NemoVerif.Generated.C04 in
/-- `FlowState.get_event(member, args)` for `Started` / `Finished` / `Failed` (`_create_out_event`) -/
def FlowObj.matchEvent (f : FlowObj) (member : String) (args : List (String × Val)) : Option Ev :=
  let base : List (String × Val) :=
    [("source_flow_instance_uid", .str f.uid), ("flow_instance_uid", .str f.uid), ("flow_id", .str f.flowId)]
  let mk (name : String) (args' : List (String × Val)) : Ev :=
    { kind := .internal, name := name, args := dictUpdate (dictUpdate base f.args) args', flowUid := some f.uid }
  if member = "Started" then some (mk evFlowStarted args)
  else if member = "Failed" then some (mk evFlowFailed args)
  else if member = "Finished" then
    some (mk evFlowFinished (match f.returnValue with
      | some rv => setKey "return_value" rv args
      | none => args))
  else none

/-- the shapes of `match` statement that are modelled -/
inductive MatchStmt where
  | actionRef (a : ActionObj) (member : String) (args : List (String × Val))      -- match $action_ref.Finished(args)
  | flowRef (f : FlowObj) (member : String) (args : List (String × Val))          -- match $flow_ref.Finished(args)
  | actionCtor (name : String) (ctorArgs : List (String × Val)) (member : String) (args : List (String × Val))
                                                                                  -- match SomeAction(ctor).Finished(args)
  | flowCtor (flowId : String) (paramDefaults : List (String × Val)) (member : String) (args : List (String × Val))
                                                                                  -- match some_flow(args).Finished(args')
  | bare (name : String) (isLower : Bool) (args : List (String × Val))            -- match SomeEvent(args)

open NemoVerif.Generated.C04 in
/-- `get_event_from_element` for `op == "match"` -/
def refEvent : MatchStmt → Option Ev
  | .actionRef a member args => a.matchEvent member args
  | .flowRef f member args => f.matchEvent member args
  | .actionCtor name ctorArgs member args =>
    -- a helper Action object is created; its uid is removed from the reference event
    (ActionObj.matchEvent { uid := "", name := name, startArgs := ctorArgs } member args).map
      fun e => { e with actionUid := none }
  | .flowCtor flowId paramDefaults member args =>
    -- a helper FlowState is created from the flow's configuration (uid ""): its parameters carry their default
    -- values; the two instance uids are deleted from the reference event and so is the flow reference
    (FlowObj.matchEvent { uid := "", flowId := flowId, args := paramDefaults } member args).map
      fun e => { e with
        args := e.args.filter (fun kv => kv.1 ≠ "source_flow_instance_uid" ∧ kv.1 ≠ "flow_instance_uid"),
        flowUid := none }
  | .bare name isLower args =>
    if isLower ∨ name ∈ internalEventsAll then some { kind := .internal, name := name, args := args }
    else if (name.splitOn "Action").length > 1 then some { kind := .action, name := name, args := args }
    else some { kind := .plain, name := name, args := args }

/-- `_compute_event_matching_score`: `if not isinstance(ref_event, type(event)): return 0.0` — `InternalEvent` and
    `ActionEvent` are subclasses of `Event`, unrelated to each other. -/
def kindIsInstance (ref ev : EvKind) : Bool :=
  ev == .plain || ref == ev

def matchingScore (rx : Rx) (startArgs : String → Option (List (String × Val)))
    (ev ref : Ev) (priority : Option (Int × Nat)) : EvRes :=
  if kindIsInstance ref.kind ev.kind then eventScore rx startArgs ev ref priority else .zero

end NemoVerif.Match
