/-
  C13 — `Layout`: the layout layer of the two Colang parsers.

  Part 1 (Colang 2.x).  The text is given pre-segmented into `Piece`s:
    `.tok ty val`  a body token as the Lark lexer types it (opaque: strings, names, keywords,
                   brackets, and the multi-line `_AND`/`_OR`/`LONG_STRING` tokens);
    `.ws w`        one space or tab;  `.comment s`  a `COMMENT` (`/#[^\n]*/`);  `.nl cr`  "\n" / "\r\n".
  `go` is the composition, fused into one left-to-right pass so that errors come out in stream order, of
    * the lexer's treatment of layout: `_NEWLINE: (/\r?\n[\t ]*/)+` is one maximal run of
      newline/space/tab pieces (state `some ind`, `ind` = the blanks after the last "\n" of the run =
      `token.rsplit('\n', 1)[1]`); `%ignore`d blanks and comments between tokens are dropped; a blank
      that is not ignored and not inside a `_NEWLINE` run is "No terminal matches" (`Err.badChar`);
    * `lark.indenter.Indenter.handle_NL` / `_process` (`flush`, `bump`, `finalDedents`): paren level,
      indent stack, `tab_len`, `DedentError`, the `assert self.paren_level >= 0`.
  Which blanks are ignored, `tab_len` and the paren token types are data (`Cfg`), regenerated from
  colang.lark / lark.indenter.PythonIndenter by the translator (`Generated.C13`, `curCfg`).

  Part 2 (Colang 1.0) is in `Models/NumberedLines.lean`.
-/
import NemoVerif.Generated.C13

namespace NemoVerif.Layout

inductive Ws where
  | sp | tab
  deriving DecidableEq, Repr, Inhabited

inductive Piece where
  | tok (ty val : String)
  | ws (w : Ws)
  | comment (s : String)
  | nl (cr : Bool)
  deriving DecidableEq, Repr, Inhabited

structure Cfg where
  ignSp : Bool
  ignTab : Bool
  tabLen : Nat
  opens : List String
  closes : List String
  deriving Repr

def Cfg.ign (c : Cfg) : Ws → Bool
  | .sp => c.ignSp
  | .tab => c.ignTab

/-- The configuration of the current source tree. -/
def curCfg : Cfg :=
  { ignSp := Generated.C13.ignoreSpace, ignTab := Generated.C13.ignoreTab, tabLen := Generated.C13.tabLen,
    opens := Generated.C13.openParens, closes := Generated.C13.closeParens }

/-- Output tokens. Layout tokens carry only the indentation string the indenter looked at;
    the final dedents of `_process` carry `''` (`none`). -/
inductive Tok where
  | body (ty val : String)
  | nl (ind : List Ws)
  | indent (ind : List Ws)
  | dedent (ind : Option (List Ws))
  deriving DecidableEq, Repr, Inhabited

inductive Err where
  | badChar      -- lark.exceptions.UnexpectedCharacters
  | dedent       -- lark.indenter.DedentError
  | parenAssert  -- AssertionError (`assert self.paren_level >= 0`)
  deriving DecidableEq, Repr, Inhabited

/-- Indenter state: paren level and the *pushed* indentation levels, innermost first
    (Python's `indent_level` is `pushed.reverse` on top of the base `[0]`). -/
structure St where
  paren : Nat
  stack : List Nat
  deriving DecidableEq, Repr, Inhabited

def St.init : St := { paren := 0, stack := [] }

def top : List Nat → Nat
  | [] => 0
  | t :: _ => t

/-- `indent_str.count(' ') + indent_str.count('\t') * tab_len` -/
def width (tabLen : Nat) : List Ws → Nat
  | [] => 0
  | .sp :: r => 1 + width tabLen r
  | .tab :: r => tabLen + width tabLen r

/-- `while indent < self.indent_level[-1]: pop; yield DEDENT` — number of pops and remaining stack. -/
def popWhile (n : Nat) : List Nat → Nat × List Nat
  | [] => (0, [])
  | t :: r => if n < t then ((popWhile n r).1 + 1, (popWhile n r).2) else (0, t :: r)

/-- `Indenter.handle_NL` for a `_NEWLINE` token whose last line is `ind`. -/
def handleNL (c : Cfg) (st : St) (ind : List Ws) : Except Err (List Tok × St) :=
  if st.paren > 0 then .ok ([], st)
  else
    let n := width c.tabLen ind
    if n > top st.stack then .ok ([.nl ind, .indent ind], { st with stack := n :: st.stack })
    else
      let p := popWhile n st.stack
      if n != top p.2 then .error .dedent
      else .ok (.nl ind :: List.replicate p.1 (.dedent (some ind)), { st with stack := p.2 })

/-- A pending `_NEWLINE` run (if any) becomes a token and goes through `handle_NL`. -/
def flush (c : Cfg) (rs : Option (List Ws)) (st : St) : Except Err (List Tok × St) :=
  match rs with
  | none => .ok ([], st)
  | some ind => handleNL c st ind

/-- paren bookkeeping of `_process` after a body token was yielded. -/
def bump (c : Cfg) (st : St) (ty : String) : Except Err St :=
  if c.opens.contains ty then .ok { st with paren := st.paren + 1 }
  else if c.closes.contains ty then
    (if st.paren = 0 then .error .parenAssert else .ok { st with paren := st.paren - 1 })
  else .ok st

/-- end of `_process`: `while len(self.indent_level) > 1: pop; yield Token(DEDENT, '')`. -/
def finalDedents (st : St) : List Tok := List.replicate st.stack.length (.dedent none)

/-- lexer (layout part) + indenter, one pass.  `rs = some ind`: inside a `_NEWLINE` run. -/
def go (c : Cfg) : Option (List Ws) → St → List Piece → Except Err (List Tok)
  | rs, st, [] => (flush c rs st).map fun p => p.1 ++ finalDedents p.2
  | rs, st, .tok ty v :: r =>
    (flush c rs st).bind fun p =>
      (bump c p.2 ty).bind fun st2 =>
        (go c none st2 r).map fun rest => p.1 ++ .body ty v :: rest
  | rs, st, .ws w :: r =>
    match rs with
    | none => if c.ign w then go c none st r else .error .badChar
    | some ind => go c (some (ind ++ [w])) st r
  | rs, st, .comment _ :: r =>
    (flush c rs st).bind fun p => (go c none p.2 r).map fun rest => p.1 ++ rest
  | _, st, .nl _ :: r => go c (some []) st r

/-- The token stream of a whole text (`ColangParser` always appends "\n", the harness does the same). -/
def layout (c : Cfg) (ps : List Piece) : Except Err (List Tok) := go c none St.init ps

/-- What the LALR parser / tree builder can see of a token: the type, and the text unless the terminal's
    name starts with `_` (Lark filters those out of the tree; their text is layout: `_NEWLINE`, `_INDENT`,
    `_DEDENT`, and the keyword tokens `_AND`/`_OR`… whose text may contain the line break before them). -/
inductive ETok where
  | body (ty val : String)
  | nl | indent | dedent
  deriving DecidableEq, Repr, Inhabited

def erase : Tok → ETok
  | .body ty v => if ty.startsWith "_" then .body ty "" else .body ty v
  | .nl _ => .nl
  | .indent _ => .indent
  | .dedent _ => .dedent

def layoutE (c : Cfg) (ps : List Piece) : Except Err (List ETok) :=
  match layout c ps with
  | .error e => .error e
  | .ok ts => .ok (ts.map erase)

/-! ### The layout edits of the property, as functions on piece lists -/

/-- Uniform scaling of indentation by `k`: every blank inside a `_NEWLINE` run (i.e. every leading blank of
    a line, blank lines included) is repeated `k` times.  `b` = "currently inside a run". -/
def scaleP (k : Nat) : Bool → List Piece → List Piece
  | _, [] => []
  | _, .nl cr :: r => .nl cr :: scaleP k true r
  | true, .ws w :: r => List.replicate k (.ws w) ++ scaleP k true r
  | false, .ws w :: r => .ws w :: scaleP k false r
  | _, .tok ty v :: r => .tok ty v :: scaleP k false r
  | _, .comment s :: r => .comment s :: scaleP k false r

def scaleInd (k : Nat) : List Ws → List Ws
  | [] => []
  | w :: r => List.replicate k w ++ scaleInd k r

def scaleTok (k : Nat) : Tok → Tok
  | .body ty v => .body ty v
  | .nl i => .nl (scaleInd k i)
  | .indent i => .indent (scaleInd k i)
  | .dedent i => .dedent (i.map (scaleInd k))

def scaleSt (k : Nat) (st : St) : St := { st with stack := st.stack.map (k * ·) }

def wsPieces (l : List Ws) : List Piece := l.map .ws

/-- set the CR flag of every line-break piece (`"\n"` ↦ `"\r\n"` or back) -/
def setCR (f : Bool → Bool) : Piece → Piece
  | .nl cr => .nl (f cr)
  | p => p

end NemoVerif.Layout
