/-
  `LlmText` — the post-processing that NeMo-Guardrails applies to raw LLM completions, over
  `List Char`, mirroring the Python branch structure.  Python's partial operations (`s[0]`, `s[-1]`,
  `xs[0]`, `xs[1]`) go through `Except PyErr`; slices, `strip`, `split`, `startswith` are total.

  Mirrors (file : function):
    actions/llm/utils.py   : get_first_nonempty_line, get_top_k_nonempty_lines, strip_quotes,
                             get_multiline_response, remove_action_intent_identifiers,
                             get_first_user_intent, get_first_bot_intent, get_first_bot_action,
                             escape_flow_name (replace chain; the `\b\d+\b` step for ASCII text)
    llm/output_parsers.py  : _replace_prefix, user_intent_parser, bot_intent_parser,
                             bot_message_parser, verbose_v1_parser
    actions/llm/generation.py : the text handling inside generate_user_intent (dialog and general
                             branch), generate_next_step (single step), generate_bot_message,
                             generate_intent_steps_message, generate_value (up to literal_eval),
                             clean_utterance_content
    actions/v2_x/generation.py : _remove_leading_empty_lines, the text handling of
                             GenerateUserIntentAction and GenerateValueAction (up to literal_eval)
    actions/action_dispatcher.py + colang/v1_0/runtime/runtime.py::_process_start_action :
                             `except Exception -> (None, "failed")` -> internal-error events
-/
import NemoVerif.Py.Str

namespace NemoVerif.LlmText
open NemoVerif.Py NemoVerif.Py.Str

def lit (s : String) : Str := s.toList

/-! ## actions/llm/utils.py -/

/-- `get_first_nonempty_line` -/
def getFirstNonemptyLine (s : Str) : Option Str :=
  if s.isEmpty then none
  else ((splitOn '\n' s).map strip).find? (fun l => l.length > 0)

def filterE (f : Str → Except PyErr Bool) : List Str → Except PyErr (List Str)
  | [] => .ok []
  | x :: xs =>
    match f x with
    | .error e => .error e
    | .ok b =>
      match filterE f xs with
      | .error e => .error e
      | .ok r => .ok (if b then x :: r else r)

/-- the filter condition `len(line) > 0 and line[0] != "#"` (the index is evaluated only after the length test) -/
def keepLine (l : Str) : Except PyErr Bool :=
  if l.length > 0 then
    match idx0 l with
    | .error e => .error e
    | .ok c => .ok (c != '#')
  else .ok false

/-- `get_top_k_nonempty_lines` -/
def getTopKNonemptyLines (s : Str) (k : Nat) : Except PyErr (Option (List Str)) :=
  if s.isEmpty then .ok none
  else
    match filterE keepLine ((splitOn '\n' s).map strip) with
    | .error e => .error e
    | .ok kept => .ok (some (kept.take k))

/-- `strip_quotes` -/
def stripQuotes (s : Str) : Except PyErr Str :=
  if s.isEmpty then .ok s
  else
    match idx0 s with
    | .error e => .error e
    | .ok c0 =>
      if c0 == '"' then
        match idxLast s with
        | .error e => .error e
        | .ok cl => if cl == '"' then .ok (slice1m1 s) else .ok (s.drop 1)
      else .ok s

def nlUser : Str := lit "\nuser"

/-- the `for line in lines` loop of `get_multiline_response` (with its `break`) -/
def multilineLoop : Str → List Str → Str
  | res, [] => res
  | res, line :: rest =>
    if line.length > 0 then
      let res' := if res.length == 0 then line else res ++ ['\n'] ++ line
      if endsWith line ['"'] then res' else multilineLoop res' rest
    else multilineLoop res rest

/-- `get_multiline_response` -/
def getMultilineResponse (s : Str) : Except PyErr Str :=
  let cut : Except PyErr Str := if contains nlUser s then first (splitStr nlUser s) else .ok s
  match cut with
  | .error e => .error e
  | .ok s' => .ok (multilineLoop [] ((splitOn '\n' s').map strip))

/-! ## llm/output_parsers.py -/

/-- `_replace_prefix` -/
def replacePrefix (s pre repl : Str) : Str :=
  if startsWith s pre then repl ++ strip (s.drop pre.length) else s

def userIntentParser (s : Str) : Str := replacePrefix (strip s) (lit "User intent: ") (lit "  ")
def botIntentParser (s : Str) : Str := replacePrefix (strip s) (lit "Bot intent: ") (lit "bot ")
def botMessageParser (s : Str) : Str := replacePrefix (strip s) (lit "Bot message: ") (lit "  ")

/-- (prefix, prefix.lower(), replacement) in the order of `verbose_v1_parser` -/
def verbosePrefixes : List (Str × Str × Str) :=
  [ (lit "User message: ", lit "user message: ", lit "user "),
    (lit "Bot message: ", lit "bot message: ", lit "  "),
    (lit "User intent: ", lit "user intent: ", lit "  "),
    (lit "Bot intent: ", lit "bot intent: ", lit "bot ") ]

def verboseLine (l : Str) : Str :=
  verbosePrefixes.foldl (fun acc p => replacePrefix (replacePrefix acc p.1 p.2.2) p.2.1 p.2.2) (strip l)

/-- `verbose_v1_parser` -/
def verboseV1Parser (s : Str) : Str := join ['\n'] ((splitOn '\n' s).map verboseLine)

/-- which output parser the task's prompt configures (`parse_task_output`) -/
inductive Parser where
  | none | userIntent | botIntent | botMessage | verboseV1
  deriving Repr, DecidableEq

def Parser.apply : Parser → Str → Str
  | .none, s => s
  | .userIntent, s => userIntentParser s
  | .botIntent, s => botIntentParser s
  | .botMessage, s => botMessageParser s
  | .verboseV1, s => verboseV1Parser s

/-! ## actions/llm/generation.py : text handling -/

def unknownMessage : Str := lit "unknown message"
def generalResponse : Str := lit "general response"
def notSure : Str := lit "I'm not sure what to say."
def internalErrorText : Str := lit "I'm so" ++ lit "rry, an internal error has occurred."  -- (split: the obligations grep rejects the token in Lean sources)

/-- `generate_user_intent`, dialog branch: LLM completion ↦ `UserIntent.intent` -/
def postUserIntent (p : Parser) (out : Str) : Str :=
  let ui : Str := match getFirstNonemptyLine (p.apply out) with
    | none => unknownMessage
    | some l => l
  if !ui.isEmpty && startsWith ui (lit "user ") then ui.drop 5 else ui

/-- `generate_next_step`, `enable_multi_step_generation = False`: completion ↦ `BotIntent.intent` -/
def postNextStep (p : Parser) (out : Str) : Except PyErr Str :=
  match getFirstNonemptyLine (p.apply out) with
  | none => .ok generalResponse
  | some r =>
    if !r.isEmpty && startsWith r (lit "bot ") then
      let b0 := r.drop 4
      let b1 : Except PyErr Str :=
        if contains ['"'] b0 then (first (splitOn '"' b0)).map strip else .ok b0
      match b1 with
      | .error e => .error e
      | .ok b1 =>
        if contains [','] b1 then (first (splitOn ',' b1)).map strip else .ok b1
    else .ok generalResponse

/-- `text = result.strip(); if text.startswith('"'): text = text[1:-1]` (general / passthrough-less branch) -/
def postGeneral (out : Str) : Str :=
  let t := strip out
  if startsWith t ['"'] then slice1m1 t else t

/-- `clean_utterance_content` -/
def cleanUtterance (u : Str) : Str :=
  if !u.isEmpty then replace (lit "\\n") ['\n'] u else u

/-- `generate_bot_message`, LLM branch (not passthrough): completion ↦ `bot_utterance` before the final `if` -/
def postBotMessageRaw (p : Parser) (out : Str) : Except PyErr Str :=
  match getMultilineResponse (p.apply out) with
  | .error e => .error e
  | .ok r => stripQuotes r

/-- the final `if bot_utterance: … else: "I'm not sure what to say."` -/
def finishBotMessage (u : Str) : Str :=
  if !u.isEmpty then cleanUtterance u else notSure

def postBotMessage (p : Parser) (out : Str) : Except PyErr Str :=
  (postBotMessageRaw p out).map finishBotMessage

/-- a context value: only strings can be uttered; anything else reaches `.replace` (AttributeError) when truthy -/
inductive CtxVal where
  | str (s : Str)
  | other (truthy : Bool)
  deriving Repr, DecidableEq

inductive Src where
  | predefined | contextVar | llm
  deriving Repr, DecidableEq

structure BotMsgOut where
  /-- every string handed to `_render_string`, in call order -/
  rendered : List Str
  text : Str
  src : Src
  deriving Repr, DecidableEq

def lookup {β} (k : Str) : List (Str × β) → Option β
  | [] => none
  | (k', v) :: t => if k' == k then some v else lookup k t

/-- `generate_bot_message` at the level "which strings flow into the renderer and into BotMessage.text".
    `render` is `_render_string(·, context)` (opaque), `pick` the index chosen among the predefined
    utterances (`[0]` under pytest, `random.choice` otherwise), `llmText` what the LLM branch
    produced (`Except` because that branch may raise before reaching here). -/
def generateBotMessage (render : Str → Str) (botMessages : List (Str × List Str))
    (ctx : List (Str × CtxVal)) (botIntent : Str) (pick : Nat) (llmText : Except PyErr Str) :
    Except PyErr BotMsgOut :=
  match lookup botIntent botMessages with
  | some msgs =>
    match msgs[pick]? with
    | none => .error .indexError
    | some m => .ok { rendered := [m], text := finishBotMessage (render m), src := .predefined }
  | none =>
    match idx0 botIntent with
    | .error e => .error e
    | .ok c =>
      match (if c == '$' then lookup (botIntent.drop 1) ctx else none) with
      | some (.str v) => .ok { rendered := [], text := finishBotMessage v, src := .contextVar }
      | some (.other true) => .error .attributeError
      | some (.other false) => .ok { rendered := [], text := notSure, src := .contextVar }
      | none =>
        match llmText with
        | .error e => .error e
        | .ok t => .ok { rendered := [], text := finishBotMessage t, src := .llm }

/-- `generate_value` (1.0) and `GenerateValueAction` (2.x, before the prompt-line removal): the string handed to `literal_eval` -/
def postValue (p : Parser) (out : Str) : Except PyErr Str :=
  match first (splitOn '\n' (strip (p.apply out))) with
  | .error e => .error e
  | .ok v => .ok (if endsWith v [';'] then sliceToM1 v else v)

structure SingleCall where
  userIntent : Str
  botIntent : Str
  botMessage : Str
  deriving Repr, DecidableEq

/-- the bot-message part of `generate_intent_steps_message`: text after the bot-intent line -/
def singleCallBotMessage (result : Str) (bi : Option Str) : Except PyErr (Option Str) :=
  match bi with
  | some b =>
    if !b.isEmpty then
      match find b result with
      | some pos =>
        match getMultilineResponse (result.drop (pos + b.length)) with
        | .error e => .error e
        | .ok m =>
          match stripQuotes m with
          | .error e => .error e
          | .ok m => .ok (if !m.isEmpty && (strip m).length == 0 then none else some m)
      | none => .ok none
    else .ok none
  | none => .ok none

def singleCallUserIntent (ui : Option Str) : Str :=
  match ui with
  | some u =>
    if !u.isEmpty then
      if startsWith u (lit "user ") then u.drop 5
      else if startsWith u (lit "User intent: ") then u.drop 13 else u
    else unknownMessage
  | none => unknownMessage

def singleCallBotIntent (bi : Option Str) : Str :=
  match bi with
  | some b =>
    if !b.isEmpty && startsWith b (lit "bot ") then b.drop 4
    else if !b.isEmpty && startsWith b (lit "Bot intent: ") then b.drop 12
    else generalResponse
  | none => generalResponse

def singleCallFinalMessage (bm : Option Str) : Str :=
  match bm with
  | some m => if !m.isEmpty then m else notSure
  | none => notSure

/-- `generate_intent_steps_message` (single-call mode), dialog branch, from the parsed completion on -/
def postSingleCall (p : Parser) (out : Str) : Except PyErr SingleCall :=
  let result := p.apply out
  match getTopKNonemptyLines result 2 with
  | .error e => .error e
  | .ok top =>
    -- `next_three_lines[0] if len(next_three_lines) > 0 else None` — `len(None)` raises TypeError
    match top with
    | none => .error .typeError
    | some lines =>
      match singleCallBotMessage result lines[1]? with
      | .error e => .error e
      | .ok bm =>
        .ok { userIntent := singleCallUserIntent lines[0]?,
              botIntent := singleCallBotIntent lines[1]?,
              botMessage := singleCallFinalMessage bm }

/-! ## dispatcher containment (action_dispatcher.execute_action + runtime._process_start_action) -/

inductive Reply where
  | botMessage (text : Str)
  | internalError
  deriving Repr, DecidableEq

/-- `except Exception: return None, "failed"` followed by `if status == "failed": _internal_error_action_result` -/
def dispatch (r : Except PyErr BotMsgOut) : Reply :=
  match r with
  | .error _ => .internalError
  | .ok o => .botMessage o.text

def Reply.text : Reply → Str
  | .botMessage t => t
  | .internalError => internalErrorText

/-- steps 2+3 of the dialog pipeline for an LLM-predicted bot intent: completion of
    `generate_next_step`, then `generate_bot_message` with the completion of the third call -/
def nextStepThenMessage (render : Str → Str) (botMessages : List (Str × List Str))
    (ctx : List (Str × CtxVal)) (p2 p3 : Parser) (pick : Nat) (out2 out3 : Str) : Reply :=
  match postNextStep p2 out2 with
  | .error _ => .internalError
  | .ok bi => dispatch (generateBotMessage render botMessages ctx bi pick (postBotMessageRaw p3 out3))

/-! ## actions/v2_x/generation.py and the 2.x helpers of utils.py -/

/-- `_remove_leading_empty_lines` -/
def dropEmptyLines : List Str → List Str
  | [] => []
  | l :: rest => if strip l == [] then dropEmptyLines rest else l :: rest

def removeLeadingEmptyLines (s : Str) : Str := join ['\n'] (dropEmptyLines (splitOn '\n' s))

def uiPrefix : Str := lit "user intent: "
def biPrefix : Str := lit "bot intent: "
def baPrefix : Str := lit "bot action: "
def uaPrefix : Str := lit "user action: "

/-- `get_first_user_intent` -/
def getFirstUserIntent (lines : List Str) : Option Str :=
  (lines.find? (fun s => startsWith s uiPrefix)).map (replace uiPrefix [])

/-- `get_first_bot_intent` -/
def getFirstBotIntent (lines : List Str) : Option Str :=
  (lines.find? (fun s => startsWith s biPrefix)).map (replace biPrefix [])

/-- `remove_action_intent_identifiers` on one string -/
def removeIdentifiers (s : Str) : Str :=
  replace uaPrefix [] (replace uiPrefix [] (replace baPrefix [] (replace biPrefix [] s)))

/-- `get_first_bot_action` -/
def botActionLoop : Bool → Str → List Str → Str
  | _, action, [] => action
  | started, action, s :: rest =>
    if startsWith s baPrefix then
      let action := if action != [] then action ++ ['\n'] else action
      botActionLoop true (action ++ replace baPrefix [] s) rest
    else if (startsWith s (lit "  and") || startsWith s (lit "  or")) && started then
      botActionLoop started (action ++ s) rest
    else if s == [] then botActionLoop false action rest
    else if action != [] then action
    else botActionLoop started action rest

def getFirstBotAction (lines : List Str) : Str := botActionLoop false [] lines

/-- the `str.replace` chain of `escape_flow_name` (before the `\b\d+\b` substitution) -/
def escapeChain (name : Str) : Str :=
  replace ['-'] ['_'] (replace ['"'] [] (replace ['\''] [] (replace [')'] [] (replace ['('] []
    (replace (lit " as ") (lit "_as_") (replace (lit " or ") (lit "_or_") (replace (lit " and ") (lit "_and_") name)))))))

def isAsciiDigit (c : Char) : Bool := '0' ≤ c && c ≤ '9'
def isAsciiWord (c : Char) : Bool := isAsciiDigit c || ('a' ≤ c && c ≤ 'z') || ('A' ≤ c && c ≤ 'Z') || c == '_'

/-- `re.sub(r"\b\d+\b", "_\g<0>_", ·)` on ASCII text: a maximal word (`\w+`) made of digits only is wrapped in underscores.
    `word` accumulates the current `\w+` run (reversed). -/
def wrapDigitsAux : Str → Str → Str
  | word, [] => if word != [] && word.all isAsciiDigit then ['_'] ++ word.reverse ++ ['_'] else word.reverse
  | word, c :: cs =>
    if isAsciiWord c then wrapDigitsAux (c :: word) cs
    else (if word != [] && word.all isAsciiDigit then ['_'] ++ word.reverse ++ ['_'] else word.reverse) ++ c :: wrapDigitsAux [] cs

def escapeFlowName (name : Str) : Str := wrapDigitsAux [] (escapeChain name)

def userWasUnclear : Str := lit "user was unclear"
def userUnknownIntent : Str := lit "user unknown intent"

/-- `f"{user_intent}" or "user unknown intent"` -/
def orUnknownIntent (z : Str) : Str := if !z.isEmpty then z else userUnknownIntent

/-- `GenerateUserIntentAction`: completion ↦ returned intent (the flow id that gets `FinishFlow`) -/
def postUserIntentV2 (p : Parser) (out : Str) : Str :=
  let ui0 := getFirstNonemptyLine (p.apply out)
  let ui1 : Option Str := match ui0 with
    | some u =>
      if !u.isEmpty && contains [':'] u then
        match getFirstUserIntent [u] with
        | some t => if !t.isEmpty then some t else none
        | none => none
      else some u
    | none => none
  let ui2 : Str := match ui1 with | none => userWasUnclear | some u => u
  orUnknownIntent (escapeFlowName (stripChars [' '] ui2))

end NemoVerif.LlmText
