/-
  C01 / C02 / C03 — `PipelineCall`: ONE CALL of `LLMRails.generate_async` on top of the turn model
  `Pipeline.turnV1` / `turnV2`, for conversations in which a call can END BY AN EXCEPTION THAT
  PROPAGATES out of `generate` in the middle of the turn.

  Two kinds of failure leave `generate` by design (they are not contained by the dispatcher):
  * `LLMCallException` — the LLM call inside a rail's action (`Verdict.escape` of the turn model), or a
    dialog / generation LLM call (`Fault.llm n`: the n-th such call of the turn finds the provider down);
    `actions/action_dispatcher.py::execute_action` re-raises it on purpose;
  * the cancellation of the request's task at some await point (`Fault.cancel n`: at the n-th observable
    step — rail action, LLM call, custom action — of the turn).

  The model makes explicit the split the turn model did not need:

  * the state HANDED TO the call — `given : HistV2`, a VALUE (the serialized state JSON the caller was
    given by the last completed call; `rails/llm/llmrails.py::generate_async`: `state["state"]`);
  * the state the call MUTATES — an object (`json_to_state(...)` makes a new one for every call;
    `colang/v2_x/runtime/runtime.py::process_events` and `statemachine.run_to_completion` mutate it in
    place); when the call raises, the object is left IN THE MIDDLE of the turn (`leftV2`: inside
    `run output rails` the global `$output_rails_in_progress` is `True` — neither the `else` branch nor
    the success path that reset it is ever reached by a Python exception);
  * what the `LLMRails` instance keeps between calls — `Slot`.  As the code is: nothing (`remember =
    false`; the object dies with the call).  The variant `remember = true` is the "do not decode the
    state again" optimisation: the instance remembers `(serialized state, live object)` of the last
    state it returned and continues from the object when it is handed exactly that serialized state.

  `callV2` / `convCallsV2`: the caller's policy is the natural one — after a call that raised it still
  holds what it was given before, and the conversation goes on from there (retry / another message).
-/
import NemoVerif.Models.Pipeline
import NemoVerif.Models.PipelineCtx

namespace NemoVerif.PipelineCall
open NemoVerif NemoVerif.Pipeline

/-- the observable steps of a turn: the await points at which a request can be cancelled -/
def isAwait : Step → Bool
  | .rail _ _ _ => true
  | .llm _ _ => true
  | .act _ => true
  | _ => false

/-- dialog / generation LLM calls (the LLM calls of rails are part of the rail's verdict) -/
def isLlm : Step → Bool
  | .llm _ _ => true
  | _ => false

/-- the prefix of `tr` up to and including the `n`-th step satisfying `p`; `none` if there are fewer -/
def cutAt (p : Step → Bool) : List Step → Nat → Option (List Step)
  | [], _ => none
  | s :: tr, n =>
    if p s then
      match n with
      | 0 => some [s]
      | n + 1 => (cutAt p tr n).map (s :: ·)
    else (cutAt p tr n).map (s :: ·)

/-- a failure of the call that is not a rail's verdict -/
structure Fault where
  /-- the n-th dialog / generation LLM call of the turn fails (`LLMCallException`) -/
  llm : Option Nat := none
  /-- the task is cancelled at the n-th observable step of the turn -/
  cancel : Option Nat := none
  deriving Repr, DecidableEq

/-- where the turn is cut (whichever failure comes first) -/
def Fault.cut (f : Fault) (tr : List Step) : Option (List Step) :=
  match f.llm.bind (cutAt isLlm tr), f.cancel.bind (cutAt isAwait tr) with
  | some a, some b => some (if a.length ≤ b.length then a else b)
  | some a, none => some a
  | none, b => b

def raisedReply : Reply := { texts := [], exc := none, raised := true }

/-! ## Colang 2.x -/

/-- The globals of the State OBJECT when an exception tears through `process_events` after the steps
    `tr`: inside `run output rails` (`$output_rails_in_progress = True` was executed; `_bot_say` has
    started, so `$bot_talking_state = True` where `tracking bot talking state` is active, i.e. with the
    dialog rails' `llm continuation`) the last observable step is an output rail's action; at every
    other await point (input rails, dialog / generation calls, custom actions) nothing was changed yet.
    (Compared on every run with the globals of the real object a failed call leaves behind.) -/
def leftV2 (cfg : Cfg) (obj : HistV2) (tr : List Step) : HistV2 :=
  match tr.getLast? with
  | some (.rail .output _ _) => { orip := true, talking := cfg.dialog }
  | _ => obj

/-- one turn run ON an object: the steps, the reply, and the object as the call leaves it -/
def runObjV2 (cfg : Cfg) (obj : HistV2) (t : Turn) (f : Fault) : List Step × Reply × HistV2 :=
  let r := turnV2 cfg obj t
  match f.cut r.1 with
  | some pre => (pre, raisedReply, leftV2 cfg obj pre)
  | none => if r.2.1.raised then (r.1, r.2.1, leftV2 cfg obj r.1) else r

/-- what the LLMRails instance keeps between calls: `(serialized state last returned, live object)` -/
abbrev Slot := Option (HistV2 × HistV2)

structure CallOut where
  steps : List Step
  reply : Reply
  /-- the state handed back to the caller; `none`: the call raised, nothing is handed back -/
  saved : Option HistV2
  /-- the object the call worked on, as the call left it -/
  obj : HistV2
  slot : Slot
  deriving Repr, DecidableEq

/-- the object a call works on: `json_to_state(state["state"])` — a NEW object holding the given value —
    or, in the remembered variant, the live object behind the same serialized state -/
def objFor (remember : Bool) (slot : Slot) (given : HistV2) : HistV2 :=
  match remember, slot with
  | true, some (k, o) => if k = given then o else given
  | _, _ => given

/-- the slot after a call that raised: it is only rewritten when a turn completed — but if the call
    worked on the remembered object, that object has been mutated in place -/
def slotAfterRaise (remember : Bool) (slot : Slot) (given obj' : HistV2) : Slot :=
  match remember, slot with
  | true, some (k, o) => if k = given then some (k, obj') else some (k, o)
  | _, _ => slot

/-- `LLMRails.generate_async(messages=[user], state=given)` -/
def callV2 (remember : Bool) (cfg : Cfg) (slot : Slot) (given : HistV2) (t : Turn) (f : Fault) : CallOut :=
  let r := runObjV2 cfg (objFor remember slot given) t f
  if r.2.1.raised then
    { steps := r.1, reply := r.2.1, saved := none, obj := r.2.2, slot := slotAfterRaise remember slot given r.2.2 }
  else
    { steps := r.1, reply := r.2.1, saved := some r.2.2, obj := r.2.2,
      slot := if remember then some (r.2.2, r.2.2) else slot }

/-- a conversation through the state API on ONE LLMRails instance: after a call that raised the caller
    still holds the state it was given before and goes on from it -/
def convCallsV2 (remember : Bool) (cfg : Cfg) : Slot → HistV2 → List (Turn × Fault) → List CallOut
  | _, _, [] => []
  | slot, given, (t, f) :: cs =>
    let o := callV2 remember cfg slot given t f
    o :: convCallsV2 remember cfg o.slot (o.saved.getD given) cs

/-- what a new user message does to the object before anything else (`_user_said`): with the repair
    `fixes/C02-v2-output-rails-flag-new-user-message.diff` (`userReset`, read off the parsed guardrails.co:
    `Generated.C01.v2FlagResetOnUserMessage`) the output rails are NOT in progress when a turn starts -/
def entryV2 (userReset : Bool) (obj : HistV2) : HistV2 :=
  if userReset then { obj with orip := false } else obj

/-- The other way to hold a conversation: the CALLER keeps one live State object and hands the OBJECT to every call
    (`generate_async(state=<State>)`, `process_events(events, state)` as the chat CLI does).  Then the state handed
    to the call IS the state the call mutates: after a call that raised, the caller holds the object as the
    exception left it. -/
def convLiveV2 (userReset : Bool) (cfg : Cfg) : HistV2 → List (Turn × Fault) → List (List Step × Reply × HistV2)
  | _, [] => []
  | obj, (t, f) :: cs =>
    let r := runObjV2 cfg (entryV2 userReset obj) t f
    r :: convLiveV2 userReset cfg r.2.2 cs

/-! ## Colang 1.0 — the history is a value (the event list of `state["events"]` / the events cache entry
    of the caller's message list is only written after the turn completed) -/

def callV1 (cfg : Cfg) (h : HistV1) (o : PipelineCtx.CallOpts) (t : Turn) (f : Fault) : List Step × Reply × Option HistV1 :=
  let r := turnV1 (PipelineCtx.callCfg cfg o) h t
  match f.cut r.1 with
  | some pre => (pre, raisedReply, none)
  | none => if r.2.1.raised then (r.1, r.2.1, none) else (r.1, r.2.1, some r.2.2)

def convCallsV1 (cfg : Cfg) : HistV1 → List (PipelineCtx.CallOpts × Turn × Fault) → List (List Step × Reply × Option HistV1)
  | _, [] => []
  | h, (o, t, f) :: cs =>
    let r := callV1 cfg h o t f
    r :: convCallsV1 cfg (r.2.2.getD h) cs

end NemoVerif.PipelineCall
