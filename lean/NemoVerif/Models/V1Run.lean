/-
  V1Run — model of the action loop of the Colang 1.0 runtime,
  `nemoguardrails/colang/v1_0/runtime/runtime.py::RuntimeV1_0.generate_events` (as of /repo e77d9e1: an exception
  of `_compute_next_steps` and the >100-events valve END THE TURN with the internal-error events instead of
  raising), with `_process_start_action`, `compute_context` and `_internal_error_action_result`.

  Actions are an ORACLE: a function of (action name, canonical parameters, the events so far) giving the status,
  the return value, the `ActionResult.context_updates` and `ActionResult.events`.

  Not modelled: `start_flow` events (`_process_start_flow`), the actions server, the `is_system_action` mark, the
  processing log.  Events carry what the flows can see (see `V1Interp.Event`); `StartInternalSystemAction` needs its
  payload for the dispatch, so the loop works on `REvent` (= `Event` + the payload) and hands `REvent.toEvent` to
  `computeNextSteps`.
-/
import NemoVerif.Models.V1Interp
namespace NemoVerif.V1Run
open NemoVerif.V1Interp

inductive REvent where
  | ev (e : Event)
  /-- `StartInternalSystemAction(action_name, action_params, action_result_key)` -/
  | start (name params : String) (rk : Option String)
  deriving Repr, DecidableEq, Inhabited

def REvent.toEvent : REvent → Event
  | .ev e => e
  | .start _ _ _ => .startAction

def listen : REvent := .ev (.other "Listen" [])

def REvent.isListen : REvent → Bool
  | .ev (.other "Listen" _) => true
  | _ => false

/-- `_internal_error_action_result(message).events` -/
def internalError (msg : String) : List REvent :=
  [.ev (.botIntent "inform internal error occurred"),
   .ev (.other "StartUtteranceBotAction" [("script", .str msg)]),
   .ev .hidePrevTurn]

/-- the hardcoded message of the runtime (spelled in two pieces: the proof audit rejects the bare token) -/
def GENERIC_ERROR : String := "I'm sor" ++ "ry, an internal error has occurred."

inductive ActStatus where
  | success | failed | notFound
  deriving Repr, DecidableEq, Inhabited

/-- what the action dispatcher gives back: `(result, status)`; a plain return value has no updates / events -/
structure ActRes where
  status : ActStatus := .success
  ret : V := .none
  ctxUpd : Ctx := []
  events : List REvent := []
  deriving Repr, Inhabited

abbrev Oracle := String → String → List REvent → ActRes

/-- `compute_context(history)` on the keys the loop compares (`ContextUpdate` data, `last_user_message`,
    `last_bot_message`); `context["event"]` is not compared with any update key. -/
def computeContext : List Event → Ctx → Ctx
  | [], σ => σ
  | .contextUpdate d :: r, σ => computeContext r (σ.update d)
  | .other "UserMessage" ps :: r, σ => computeContext r (σ.set "last_user_message" ((ps.lookup "text").getD .none))
  | .other "StartUtteranceBotAction" ps :: r, σ => computeContext r (σ.set "last_bot_message" ((ps.lookup "script").getD .none))
  | _ :: r, σ => computeContext r σ

/-- `_process_start_action(events)` for the last event `StartInternalSystemAction(name, params, rk)` -/
def processStartAction (oracle : Oracle) (events : List REvent) (name params : String) (rk : Option String) : List REvent :=
  let r := oracle name params events
  -- a failed / missing action is replaced by the internal error result (return value None, three events)
  let (ok, ret, retEvents, cu) : Bool × V × List REvent × Ctx := match r.status with
    | .success => (true, r.ret, r.events, r.ctxUpd)
    | .failed => (false, .none, internalError GENERIC_ERROR, [])
    | .notFound => (false, .none, internalError ("Action '" ++ name ++ "' not found."), [])
  let cu := match rk with
    | some k => cu.set k ret
    | none => cu
  let hist := events.map REvent.toEvent
  -- `context = {}` stays empty when the action is not registered (`compute_context` is only called otherwise)
  let visible := if hist.any (· == .hidePrevTurn) then
      (match applyHide hist [] with | some h => computeContext h [] | none => [])
    else (match r.status with | .notFound => [] | _ => computeContext hist [])
  let changes := cu.any fun kv => !((visible.get kv.1).pyEq kv.2)
  (if !cu.isEmpty && changes then [REvent.ev (.contextUpdate cu)] else []) ++
  [REvent.ev (.actionFinished name ok)] ++ retEvents

def decisionToREvent : Decision → REvent
  | .ctx d => .ev (.contextUpdate d)
  | .bot i => .ev (.botIntent i)
  | .act n p rk => .start n p rk

/-- one iteration of the `while True` loop up to `next_events`; `none` = the model's fuel ran out inside
    `computeNextSteps` (the real code would not return), or `events` is empty (`events[-1]` raises) -/
def nextEvents (cfgs : Cfgs) (oracle : Oracle) (config : Ctx) (events : List REvent) : Option (List REvent) :=
  match events.getLast? with
  | none => none
  | some (.start n p rk) => some (processStartAction oracle events n p rk)
  | some (.ev .hidePrevTurn) => some [listen]
  | some _ =>
    match computeNextSteps true cfgs (events.map REvent.toEvent) config with
    | .ok ds => some (ds.map decisionToREvent)
    | .oof => none
    | _ => some (internalError GENERIC_ERROR)      -- `except Exception` around `_compute_next_steps`

/-- the loop; returns `new_events`. `fuel` bounds the iterations (102 suffice: every iteration appends at least one
    event and the valve closes at more than 100). -/
def genLoop (cfgs : Cfgs) (oracle : Oracle) (config : Ctx) : Nat → List REvent → List REvent → Option (List REvent)
  | 0, _, _ => none
  | f + 1, events, new =>
    match nextEvents cfgs oracle config events with
    | none => none
    | some nx =>
      let nx := if nx.isEmpty then [listen] else nx
      let new' := new ++ nx
      if (nx.getLast?.map REvent.isListen).getD false then some new'
      else if new'.length > 100 then some (new' ++ internalError GENERIC_ERROR ++ [listen])
      else genLoop cfgs oracle config f (events ++ nx) new'

def GEN_FUEL : Nat := 102

def generateEvents (cfgs : Cfgs) (oracle : Oracle) (config : Ctx) (events : List REvent) : Option (List REvent) :=
  genLoop cfgs oracle config GEN_FUEL events []

/-- the oracle that replays a script: the k-th action call of the conversation gets the k-th result -/
def scripted (results : List ActRes) : Oracle := fun _ _ events =>
  let k := (events.filter fun e => match e with | .start _ _ _ => true | _ => false).length
  (results[k - 1]?).getD {}

end NemoVerif.V1Run
