/-
  C09 — the event NAME under which a head on a reference match (`match $ref.Finished()`,
  `match $e.action.Finished()`, `match $e.flow.Failed()`, `match $e`) is filed in the dispatch index.

  Mirrors, branch by branch, case 1 of `get_event_name_from_element` (statemachine.py) together with
  `Action.get_event` / `FlowState.get_event` (flows.py) as far as the NAME goes, and
  `_add_head_to_event_matching_structures`, which files the head under the name computed from the CURRENT
  value of the variable in the context of the instance that reaches the statement.  The name is not a
  property of the statement: the same statement reached by another instance / in the next loop iteration /
  after a restart names another event when the variable holds another kind of object.

  `Obj` is what a context value looks like to that code: its class (Action of some type, FlowState, Event
  with a name, dict, anything else) and the attributes / keys the member path walks through.

  Wave 6: cases 2 and 3 of the same function (`nameOfSpec`): the object given BY NAME — `match some_flow.Start()`,
  `match SomeAction.Stop()` (a throw-away flow instance / action is created and asked for the event, then the helper's two
  `del`s) — and the bare event `match StartFlow(flow_id="f")`.  The name of a flow's REQUEST events is `StartFlow`,
  `StopFlow`, … — not `Flow<member>`: `nameOfSpecShortcut` is the seeded change C09-e as a model (counterexample only).
-/
import NemoVerif.Models.CoreIndex

namespace NemoVerif.RefName
open NemoVerif NemoVerif.CoreIndex

inductive Kind where
  /-- `Action` with `action.name` -/
  | action (typeName : String)
  /-- `FlowState` -/
  | flow
  /-- `Event` (also `ActionEvent`, `InternalEvent`) with `event.name` -/
  | event (name : String)
  | dict
  /-- `None`, strings, numbers, lists … -/
  | other
  deriving DecidableEq, Repr, Inhabited

/-- a context value: its class and what `getattr(obj, a)` / `obj[a]` give for the names a member path may use
    (absent = `hasattr` is false / the key is missing) -/
inductive Obj where
  | mk (kind : Kind) (attrs : List (String × Obj))
  deriving Repr, Inhabited

def Obj.kind : Obj → Kind
  | .mk k _ => k

def Obj.attr? : Obj → String → Option Obj
  | .mk _ attrs, a => (attrs.find? (·.1 = a)).map (·.2)

/-- the Python exception classes the name computation can raise -/
inductive Err where
  | unknownVariable      -- ColangRuntimeError("Unknown variable: …")
  | noAttribute          -- ColangValueError("No attribute …")
  | eventsHaveNoAttrs    -- ColangValueError("Events have no event attributes!")
  | unsupportedType      -- ColangRuntimeError("Unsupported type …")
  | invalidActionEvent   -- ColangSyntaxError("Invalid action event …")
  | flowEventNotAvailable -- AssertionError("Event '…' not available!")
  | attributeError       -- AttributeError (`getattr(self, "paused_event")`)
  | changeWithoutArguments -- KeyError('arguments')
  | unknownFlow          -- KeyError: `state.flow_configs[element_spec.name]` (case 2, flow by name)
  | delMissingKey        -- KeyError: `del flow_event.arguments["source_flow_instance_uid"]` on an event that has no such argument
  | unsupportedSpecType  -- ColangRuntimeError("Unsupported type …") (case 2, neither flow nor action)
  | noMembers            -- IndexError: `element_spec.members[0]` of an empty member list
  | noName               -- AssertionError: `assert element_spec.name`
  deriving DecidableEq, Repr, Inhabited

def Err.cls : Err → String
  | .unknownVariable | .unsupportedType => "ColangRuntimeError"
  | .noAttribute | .eventsHaveNoAttrs => "ColangValueError"
  | .invalidActionEvent => "ColangSyntaxError"
  | .flowEventNotAvailable => "AssertionError"
  | .attributeError => "AttributeError"
  | .changeWithoutArguments | .unknownFlow | .delMissingKey => "KeyError"
  | .unsupportedSpecType => "ColangRuntimeError"
  | .noMembers => "IndexError"
  | .noName => "AssertionError"

/-- `Except Err String` has decidable equality (core Lean has no instance): used by the kernel-evaluated witnesses -/
instance : DecidableEq (Except Err String) := fun a b =>
  match a, b with
  | .ok x, .ok y => if h : x = y then isTrue (by rw [h]) else isFalse (fun e => h (by cases e; rfl))
  | .error x, .error y => if h : x = y then isTrue (by rw [h]) else isFalse (fun e => h (by cases e; rfl))
  | .ok _, .error _ => isFalse (fun e => by cases e)
  | .error _, .ok _ => isFalse (fun e => by cases e)

/-- the reference spec of a match element: `$var.m1.m2…mk(…)`; `members = none` for a bare `$var` -/
structure RefSpec where
  var : String
  members : Option (List String)
  deriving DecidableEq, Repr, Inhabited

abbrev Ctx := List (String × Obj)

/-- `for member in element_spec.members[:-1]: … obj = obj[member.name] / getattr(obj, member.name)` -/
def walk : Obj → List String → Except Err Obj
  | o, [] => .ok o
  | o, m :: rest =>
    match o.attr? m with
    | none => .error .noAttribute
    | some o' => walk o' rest

/-- the name of `Action.get_event(member, {})` for an action of type `a`.  The `…Updated` family carries the parameter name
    in front (`TranscriptUpdated` → `<a>TranscriptUpdated`, plain `Updated` → `<a>Updated`; the `split_name[0] == ""` error
    branch of the Python code is dead: a name longer than 7 characters that ends with `Updated` has a non-empty front). -/
def actionEventName (a : String) (m : String) : Except Err String :=
  if m.endsWith "Updated" then
    .ok (a ++ String.ofList (m.toList.take (m.length - 7)) ++ "Updated")
  else match m with
  | "Started" => .ok (a ++ "Started")
  | "Finished" => .ok (a ++ "Finished")
  | "Start" => .ok ("Start" ++ a)
  | "Change" => .error .changeWithoutArguments   -- `change_event({})` reads `args["arguments"]`: the NAME function passes `{}`
  | "Stop" => .ok ("Stop" ++ a)
  | _ => .error .invalidActionEvent

/-- the name of `FlowState.get_event(member, {})` -/
def flowEventName (m : String) : Except Err String :=
  match m with
  | "Start" => .ok "StartFlow"
  | "Stop" => .ok "StopFlow"
  | "Pause" => .ok "PauseFlow"
  | "Resume" => .ok "ResumeFlow"
  | "Started" => .ok "FlowStarted"
  | "Paused" | "Resumed" => .error .attributeError   -- in `_event_name_map`, but the methods are commented out
  | "Finished" => .ok "FlowFinished"
  | "Failed" => .ok "FlowFailed"
  | _ => .error .flowEventNotAvailable

/-- case 1 of `get_event_name_from_element`: the name a reference match names IN THE CONTEXT `ctx` -/
def nameOf (ctx : Ctx) (s : RefSpec) : Except Err String :=
  match ctx.find? (·.1 = s.var) with
  | none => .error .unknownVariable
  | some (_, obj) =>
    match walk obj ((s.members.getD []).dropLast) with
    | .error e => .error e
    | .ok o =>
      let member := s.members.bind List.getLast?
      match o.kind, member with
      | .event n, _ => if s.members.isSome then .error .eventsHaveNoAttrs else .ok n
      | .action a, some m => actionEventName a m
      | .flow, some m => flowEventName m
      | _, _ => .error .unsupportedType

/-- `_add_head_to_event_matching_structures(state, flow_state, head)` for a head on a reference match:
    the name is computed from the context the flow instance has NOW; if that raises, nothing was written. -/
def addHead (s : IState) (k : Key) (ctx : Ctx) (spec : RefSpec) : IState :=
  match nameOf ctx spec with
  | .ok nm => rawAdd s k nm
  | .error _ => s

/-- one head reaching a reference match statement: which head, at which statement, holding which context -/
structure Arrival where
  key : Key
  stmt : String × Nat        -- (flow id, position): the statement
  spec : RefSpec
  ctx : Ctx
  deriving Repr, Inhabited

def arrive (s : IState) (a : Arrival) : IState := addHead s a.key a.ctx a.spec

def arriveAll (s : IState) (as : List Arrival) : IState := as.foldl arrive s

/-! ### the seeded variant (C09-d), for the counterexample only: the name memoised per STATEMENT -/

abbrev Cache := List ((String × Nat) × String)

def arriveCached (sc : IState × Cache) (a : Arrival) : IState × Cache :=
  match sc.2.find? (·.1 = a.stmt) with
  | some (_, nm) => (rawAdd sc.1 a.key nm, sc.2)
  | none =>
    match nameOf a.ctx a.spec with
    | .ok nm => (rawAdd sc.1 a.key nm, sc.2 ++ [(a.stmt, nm)])
    | .error _ => sc

def arriveAllCached (s : IState) (as : List Arrival) : IState := (as.foldl arriveCached (s, [])).1

/-! ### cases 2 and 3: the object given by NAME, the bare event -/

/-- `element_spec.spec_type` -/
inductive SpecType where
  | flow | action | event | other
  deriving DecidableEq, Repr, Inhabited

/-- a match element's spec as the name function reads it: `var_name`, `name`, `spec_type`, the member names -/
structure ElemSpec where
  varName : Option String := none
  name : Option String := none
  specType : SpecType := .event
  members : Option (List String) := none
  deriving DecidableEq, Repr, Inhabited

/-- the argument KEYS of the event `FlowState.get_event(member, {})` returns for a throw-away instance, before the flow's own
    parameters are added (`arguments.update(self.arguments)` only adds keys): what the two `del`s of case 2 look for.
    `start_event`: flow_instance_uid, flow_id, source_flow_instance_uid, source_head_uid, flow_hierarchy_position, activated;
    `stop_event` / `pause_event` / `resume_event`: flow_id, flow_instance_uid; `_create_out_event`: source_flow_instance_uid,
    flow_instance_uid, flow_id. -/
def flowEventKeys (m : String) : List String :=
  match m with
  | "Start" => ["flow_instance_uid", "flow_id", "source_flow_instance_uid", "source_head_uid", "flow_hierarchy_position", "activated"]
  | "Stop" | "Pause" | "Resume" => ["flow_id", "flow_instance_uid"]
  | _ => ["source_flow_instance_uid", "flow_instance_uid", "flow_id"]

/-- case 2, flow by name, for a flow that exists: `temp_flow_state.get_event(member, {})`, then
    `del flow_event.arguments["source_flow_instance_uid"]`, `del flow_event.arguments["flow_instance_uid"]`, then the name -/
def namedFlowEventName (m : String) : Except Err String :=
  match flowEventName m with
  | .error e => .error e
  | .ok nm =>
    if !(flowEventKeys m).contains "source_flow_instance_uid" then .error .delMissingKey
    else if !(flowEventKeys m).contains "flow_instance_uid" then .error .delMissingKey
    else .ok nm

/-- `get_event_name_from_element(state, flow_state, element)`, all three cases.  `flows` = the keys of `state.flow_configs`.
    (Not modelled: an exception out of `create_flow_instance` — a default value expression of the named flow that cannot be
    evaluated.) -/
def nameOfSpec (flows : List String) (ctx : Ctx) (s : ElemSpec) : Except Err String :=
  match s.varName with
  | some v => nameOf ctx { var := v, members := s.members }              -- case 1
  | none =>
    match s.members with
    | some ms =>                                                           -- case 2
      match s.specType with
      | .flow =>
        match s.name with
        | none => .error .noName
        | some f =>
          if !flows.contains f then .error .unknownFlow
          else match ms with
            | [] => .error .noMembers
            | m :: _ => namedFlowEventName m
      | .action =>
        match s.name with
        | none => .error .noName
        | some a =>
          match ms with
          | [] => .error .noMembers
          | m :: _ => actionEventName a m
      | _ => .error .unsupportedSpecType
    | none =>                                                              -- case 3
      match s.name with
      | some n => .ok n
      | none => .error .noName

/-! ### the dispatcher's side: the name of `get_event_from_element` -/

/-- `Action.get_event(member, args)` as far as the NAME goes when the member arguments are `args` (evaluated):
    the only member whose name depends on them is `Change` (`change_event` reads `args["arguments"]`) -/
def actionEventNameD (changeArgs : Bool) (a m : String) : Except Err String :=
  if m = "Change" ∧ changeArgs = true then .ok ("Change" ++ a) else actionEventName a m

/-- the three cases of the two name functions with the action-event name function as a parameter -/
def nameOfSpecG (an : String → String → Except Err String) (flows : List String) (ctx : Ctx) (s : ElemSpec) : Except Err String :=
  match s.varName with
  | some v =>
    match ctx.find? (·.1 = v) with
    | none => .error .unknownVariable
    | some (_, obj) =>
      match walk obj ((s.members.getD []).dropLast) with
      | .error e => .error e
      | .ok o =>
        match o.kind, s.members.bind List.getLast? with
        | .event n, _ => if s.members.isSome then .error .eventsHaveNoAttrs else .ok n
        | .action a, some m => an a m
        | .flow, some m => flowEventName m
        | _, _ => .error .unsupportedType
  | none =>
    match s.members with
    | some ms =>
      match s.specType with
      | .flow =>
        match s.name with
        | none => .error .noName
        | some f =>
          if !flows.contains f then .error .unknownFlow
          else match ms with
            | [] => .error .noMembers
            | m :: _ => namedFlowEventName m
      | .action =>
        match s.name with
        | none => .error .noName
        | some a =>
          match ms with
          | [] => .error .noMembers
          | m :: _ => an a m
      | _ => .error .unsupportedSpecType
    | none =>
      match s.name with
      | some n => .ok n
      | none => .error .noName

/-- the NAME of `get_event_from_element(state, flow_state, element)` — the event the DISPATCHER compares an incoming event
    with (`_compute_event_matching_score`) — when every argument expression evaluates: the same three cases, the same walk,
    the same two `del`s, `Action.get_event` / `FlowState.get_event` with the evaluated member arguments;
    `changeArgs` = the member arguments contain `arguments`. -/
def dispatchNameOfSpec (changeArgs : Bool) (flows : List String) (ctx : Ctx) (s : ElemSpec) : Except Err String :=
  nameOfSpecG (actionEventNameD changeArgs) flows ctx s

/-- `_add_head_to_event_matching_structures` for a head on ANY match element -/
def addHeadSpec (s : IState) (k : Key) (flows : List String) (ctx : Ctx) (spec : ElemSpec) : IState :=
  match nameOfSpec flows ctx spec with
  | .ok nm => rawAdd s k nm
  | .error _ => s

/-- one head reaching a match statement of any kind -/
structure ArrivalS where
  key : Key
  stmt : String × Nat
  spec : ElemSpec
  flows : List String
  ctx : Ctx
  deriving Repr, Inhabited

def arriveS (s : IState) (a : ArrivalS) : IState := addHeadSpec s a.key a.flows a.ctx a.spec

def arriveAllS (s : IState) (as : List ArrivalS) : IState := as.foldl arriveS s

/-! ### the seeded variant (C09-e), for the counterexample only: `return f"Flow{member}"` for a flow given by name -/

def nameOfSpecShortcut (flows : List String) (ctx : Ctx) (s : ElemSpec) : Except Err String :=
  match s.varName, s.members, s.specType, s.name with
  | none, some (m :: _), .flow, some f => if !flows.contains f then .error .unknownFlow else .ok ("Flow" ++ m)
  | _, _, _, _ => nameOfSpec flows ctx s

def arriveShortcut (s : IState) (a : ArrivalS) : IState :=
  match nameOfSpecShortcut a.flows a.ctx a.spec with
  | .ok nm => rawAdd s a.key nm
  | .error _ => s

def arriveAllShortcut (s : IState) (as : List ArrivalS) : IState := as.foldl arriveShortcut s

end NemoVerif.RefName
