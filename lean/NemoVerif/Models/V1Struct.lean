/-
  V1Struct — the structured subset of Colang 1.0 at source level, its compiler to elements and
  its structured semantics.

  * `Prog` — a statement list (cons-shaped, blocks nested): user/bot/execute/do steps, `set`,
    `if/else`, `while`, `break`, `continue`.
  * `compile` — mirror of `coyml_parser._extract_elements` on this subset: blocks are compiled
    recursively, `if` gets `_next_else`, a non-empty `else` gets a `jump`, `while` gets
    `_next_on_break = n+2`, *annotates* every not-yet-annotated element of its body with
    `_next_on_break = n+1-j` / `_next_on_continue = -j-1` (`annotate`), and appends `jump -(n+1)`.
  * `comp lc` — the same compiler with the loop context passed down (`lc = some (b, c)`: relative
    offsets of the innermost loop's exit and head from the *current* element); `compile = comp none`
    is proved in Lemmas/V1Struct.lean, the simulation proof works on `comp`.
  * `exec` / `execFrom` — structured semantics of "sliding": run the statements of a block (resp.
    of the rest of the program after the step at source address `a`) with ordinary structured-
    program meaning until the next step statement is reached, the block is left by
    falling off its end / `break` / `continue`, or an expression raises.  No positions, no jumps.
  * `Addr`, `off` — source addresses of statements and their compiled position.
-/
import NemoVerif.Models.V1Interp
namespace NemoVerif.V1Struct
open NemoVerif.V1Interp

inductive Step where
  | user (intent : String)
  | bot (intent : String)
  | exec (name : String) (params : String) (resultKey : Option String)
  | doFlow (name : String)
  deriving DecidableEq, Repr, Inhabited

inductive Prog where
  | nil
  | step (s : Step) (rest : Prog)
  | set (key : String) (e : Expr) (rest : Prog)
  | ite (c : Expr) (t e : Prog) (rest : Prog)
  | while (c : Expr) (body : Prog) (rest : Prog)
  | brk (rest : Prog)
  | cont (rest : Prog)
  deriving DecidableEq, Repr, Inhabited

/-- `_dict_to_element` on a step statement. A bot step's `action_params` is `{"value": intent}`. -/
def elemOf : Step → Elem
  | .user i => .userIntent i
  | .bot i => .runAction "utter" (some i) "" Option.none
  | .exec n p rk => .runAction n Option.none p rk
  | .doFlow n => .flow n

def size : Prog → Nat
  | .nil => 0
  | .step _ r => 1 + size r
  | .set _ _ r => 1 + size r
  | .ite _ t e r => 1 + size t + (if size e = 0 then 0 else 1 + size e) + size r
  | .while _ b r => 1 + size b + 1 + size r
  | .brk r => 1 + size r
  | .cont r => 1 + size r

/-! ### the compiler as the code has it: extract, then annotate loop bodies -/

def annElem (n : Nat) (j : Nat) : Elem → Elem
  | .breakE Option.none => .breakE (some ((n : Int) + 1 - j))
  | .continueE Option.none => .continueE (some (-1 * (j : Int) - 1))
  | e => e

/-- `for j in range(n): if "_next_on_break" not in do_elements[j]: …` (only `break`/`continue` read the keys) -/
def annotate (n : Nat) : Nat → List Elem → List Elem
  | _, [] => []
  | j, e :: es => annElem n j e :: annotate n (j + 1) es

def compile : Prog → List Elem
  | .nil => []
  | .step s r => elemOf s :: compile r
  | .set k e r => .setE k e 1 :: compile r
  | .ite c t e r =>
    let T := compile t
    let E := compile e
    if E.length = 0 then .ifE c (T.length + 1) :: (T ++ compile r)
    else .ifE c (T.length + 2) :: (T ++ (.jump (E.length + 1) false :: (E ++ compile r)))
  | .while c b r =>
    let B := compile b
    .whileE c 1 (B.length + 2) :: (annotate B.length 0 B ++ (.jump (-1 * ((B.length : Int) + 1)) false :: compile r))
  | .brk r => .breakE Option.none :: compile r
  | .cont r => .continueE Option.none :: compile r

/-! ### the same compiler with the loop context passed down -/

abbrev LC := Option (Int × Int)

def LC.shift (lc : LC) (k : Nat) : LC := lc.map fun bc => (bc.1 - k, bc.2 - k)

def comp : LC → Prog → List Elem
  | _, .nil => []
  | lc, .step s r => elemOf s :: comp (lc.shift 1) r
  | lc, .set k e r => .setE k e 1 :: comp (lc.shift 1) r
  | lc, .ite c t e r =>
    if size e = 0 then
      .ifE c (size t + 1) :: (comp (lc.shift 1) t ++ comp (lc.shift (1 + size t)) r)
    else
      .ifE c (size t + 2) :: (comp (lc.shift 1) t ++ (.jump (size e + 1) false ::
        (comp (lc.shift (1 + size t + 1)) e ++ comp (lc.shift (1 + size t + 1 + size e)) r)))
  | lc, .while c b r =>
    .whileE c 1 (size b + 2) :: (comp (some ((size b : Int) + 1, -1)) b ++
      (.jump (-1 * ((size b : Int) + 1)) false :: comp (lc.shift (1 + size b + 1)) r))
  | lc, .brk r => .breakE (lc.map (·.1)) :: comp (lc.shift 1) r
  | lc, .cont r => .continueE (lc.map (·.2)) :: comp (lc.shift 1) r

/-! ### source addresses -/

inductive Addr where
  | here
  | next (a : Addr)     -- in the rest of the block, after the first statement
  | thenB (a : Addr)
  | elseB (a : Addr)
  | body (a : Addr)
  deriving DecidableEq, Repr, Inhabited

/-- size of the first statement of a block -/
def headSize : Prog → Nat
  | .nil => 0
  | .step _ _ | .set _ _ _ | .brk _ | .cont _ => 1
  | .ite _ t e _ => 1 + size t + (if size e = 0 then 0 else 1 + size e)
  | .while _ b _ => 1 + size b + 1

def rest : Prog → Prog
  | .nil => .nil
  | .step _ r | .set _ _ r | .brk r | .cont r | .ite _ _ _ r | .while _ _ r => r

/-- compiled position (relative to the block start) of the statement at address `a` -/
def off : Prog → Addr → Nat
  | _, .here => 0
  | p, .next a => headSize p + off (rest p) a
  | .ite _ t _ _, .thenB a => 1 + off t a
  | .ite _ t e _, .elseB a => 1 + size t + 1 + off e a
  | .while _ b _, .body a => 1 + off b a
  | _, _ => 0

/-- the step statement at address `a`, if `a` addresses one -/
def stepAt : Prog → Addr → Option Step
  | .step s _, .here => some s
  | .nil, .next _ => Option.none
  | p, .next a => stepAt (rest p) a
  | .ite _ t _ _, .thenB a => stepAt t a
  | .ite _ _ e _, .elseB a => stepAt e a
  | .while _ b _, .body a => stepAt b a
  | _, _ => Option.none

/-! ### structured semantics -/

inductive Out where
  | fell (st : SSt)              -- the block ran to its end
  | brk (st : SSt)               -- left by `break`
  | cnt (st : SSt)               -- left by `continue`
  | atStep (st : SSt) (a : Addr) -- reached the step statement at address `a`
  | err                          -- an expression raised
  | oof
  | bad                          -- invalid address
  deriving Repr, DecidableEq, Inhabited

def Out.mapAddr (f : Addr → Addr) : Out → Out
  | .atStep st a => .atStep st (f a)
  | o => o

/-- sequencing: when the block ran to its end continue with `k`, otherwise the outcome is the block's (re-addressed) -/
def Out.andThen (o : Out) (g : Addr → Addr) (k : SSt → Out) : Out :=
  match o with
  | .fell st' => k st'
  | o => o.mapAddr g

/-- a loop body's outcome: end of body and `continue` re-check the condition, `break` leaves the loop -/
def Out.loopThen (o : Out) (again : SSt → Out) (leave : SSt → Out) : Out :=
  match o with
  | .fell st' => again st'
  | .cnt st' => again st'
  | .brk st' => leave st'
  | o => o.mapAddr .body

def assign (st : SSt) (k : String) (v : V) : SSt := { ctx := st.ctx.set k v, upd := st.upd.set k v }

/-- run block `p` from its first statement -/
def exec : Nat → SSt → Prog → Out
  | 0, _, _ => .oof
  | _ + 1, st, .nil => .fell st
  | _ + 1, st, .step _ _ => .atStep st .here
  | f + 1, st, .set k e r => match eval st.ctx e with
    | Option.none => .err
    | some v => (exec f (assign st k v) r).mapAddr .next
  | f + 1, st, .ite c t e r => match eval st.ctx c with
    | Option.none => .err
    | some v =>
      if v.truthy then (exec f st t).andThen .thenB fun st' => (exec f st' r).mapAddr .next
      else (exec f st e).andThen .elseB fun st' => (exec f st' r).mapAddr .next
  | f + 1, st, .while c b r => match eval st.ctx c with
    | Option.none => .err
    | some v =>
      if v.truthy then
        (exec f st b).loopThen (fun st' => exec f st' (.while c b r)) (fun st' => (exec f st' r).mapAddr .next)
      else (exec f st r).mapAddr .next
  | _ + 1, st, .brk _ => .brk st
  | _ + 1, st, .cont _ => .cnt st

/-- run the rest of block `p` after the step statement at address `a` -/
def execFrom : Nat → SSt → Prog → Addr → Out
  | 0, _, _, _ => .oof
  | f + 1, st, .step _ r, .here => (exec f st r).mapAddr .next
  | _ + 1, _, .nil, .next _ => .bad
  | f + 1, st, p, .next a => (execFrom f st (rest p) a).mapAddr .next
  | f + 1, st, .ite _ t _ r, .thenB a =>
    (execFrom f st t a).andThen .thenB fun st' => (exec f st' r).mapAddr .next
  | f + 1, st, .ite _ _ e r, .elseB a =>
    (execFrom f st e a).andThen .elseB fun st' => (exec f st' r).mapAddr .next
  | f + 1, st, .while c b r, .body a =>
    (execFrom f st b a).loopThen (fun st' => exec f st' (.while c b r)) (fun st' => (exec f st' r).mapAddr .next)
  | _ + 1, _, _, _ => .bad

/-- `break`/`continue` occur only inside loops -/
def closed : Bool → Prog → Bool
  | _, .nil => true
  | l, .step _ r => closed l r
  | l, .set _ _ r => closed l r
  | l, .ite _ t e r => closed l t && closed l e && closed l r
  | l, .while _ b r => closed true b && closed l r
  | l, .brk r => l && closed l r
  | l, .cont r => l && closed l r


/-! ### subflow calls: the structured call / return discipline (phase 4)

  `runS` is the structured meaning of `_slide_with_subflows` / `_call_subflow` on a flow whose statements may
  be `do name`: run the flow's own statements (`exec` / `execFrom`) to the next step statement; if that statement
  is `do n`, run the body of `n` from its first statement as a *callee*: when the callee runs to its end control
  returns to the statement after the `do` (same flow, `execFrom … a'`), when it stops at a step statement the
  caller waits at the `do` and the callee's frame (and those of its own callees, innermost first) is pushed.
  Frames carry the uid the interpreter hands out (a counter), so that "who waits for whom" is part of the result. -/

/-- the subflow library: name ↦ body -/
abbrev Lib := List (String × Prog)

/-- a pushed callee frame: it waits at the statement `addr` of `body`; `callee = some u` iff that statement is a
    `do` whose callee (uid `u`) is itself waiting -/
structure SFrame where
  uid : Nat
  name : String
  body : Prog
  addr : Addr
  callee : Option Nat
  deriving Repr, DecidableEq, Inhabited

inductive OutS where
  /-- the flow waits at the statement at `a` (its own step, or a `do` whose callee `callee` waits); `frames` are the
      pushed callee frames, innermost first; `who` = (uid, flow name, statement) of the innermost waiting flow -/
  | wait (st : SSt) (ctr : Nat) (a : Addr) (callee : Option Nat) (frames : List SFrame) (who : Nat × String × Step)
  /-- the flow ran to its end -/
  | fell (st : SSt) (ctr : Nat)
  | err | oof | bad
  deriving Repr, DecidableEq, Inhabited

/-- where a flow is (re)started: `none` = at its first statement, `some a` = after the step statement at `a` -/
def startPos (p : Prog) : Option Addr → Int
  | Option.none => 0
  | some a => ((off p a + 1 : Nat) : Int)

def startOut (f : Nat) (st : SSt) (p : Prog) : Option Addr → Out
  | Option.none => exec f st p
  | some a => execFrom f st p a

/-- structured run with calls. `g` bounds the number of calls (like the interpreter's own recursion), `f` is the
    fuel of the statement-level semantics, `uid`/`name` identify the running flow, `ctr` is the uid counter. -/
def runS (lib : Lib) (f : Nat) : Nat → Nat → String → SSt → Nat → Prog → Option Addr → OutS
  | 0, _, _, _, _, _, _ => .oof
  | g + 1, uid, name, st, ctr, p, start =>
    match startOut f st p start with
    | .fell st' => .fell st' ctr
    | .err => .err
    | .oof => .oof
    | .atStep st' a' =>
      match stepAt p a' with
      | Option.none => .bad
      | some (.doFlow n) =>
        match lib.lookup n with
        | Option.none => .bad
        | some q =>
          match runS lib f g ctr n st' (ctr + 1) q Option.none with
          | .fell st'' ctr'' => runS lib f g uid name st'' ctr'' p (some a')
          | .wait st'' ctr'' a2 callee2 frames who =>
            .wait st'' ctr'' a' (some ctr) (frames ++ [{ uid := ctr, name := n, body := q, addr := a2, callee := callee2 }]) who
          | o => o
      | some s => .wait st' ctr a' Option.none [] (uid, name, s)
    | _ => .bad

/-- the flow state the interpreter keeps for a pushed frame: a frame waiting at a `do` has its head already
    past the call, is INTERRUPTED and remembers its callee's uid -/
def SFrame.toFS (fr : SFrame) : FS :=
  match fr.callee with
  | Option.none => { uid := fr.uid, flowId := fr.name, head := ((off fr.body fr.addr : Nat) : Int) }
  | some u => { uid := fr.uid, flowId := fr.name, head := ((off fr.body fr.addr : Nat) : Int) + 1, status := .interrupted, interruptedBy := some u }

/-- `_record_next_step` (modifier 1.0) as a function of the previously recorded step -/
def recNext (old : Option NextStep) (el : Elem) (uid prio : Nat) : Option NextStep :=
  let free := match old with
    | Option.none => true
    | some n => n.prio < prio * 100
  if free && isActionable el then some { elem := el, uid := uid, prio := prio * 100 } else old

end NemoVerif.V1Struct
