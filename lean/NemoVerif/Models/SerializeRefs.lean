/-
  C11 / T2 — the `refs` discipline of `encode_to_dict` / `decode_from_dict`, abstracted from the value kinds.

  `Lab` is the unfolding of a Python object graph with identities: `node id tag kids` is an object the encoder
  registers in `refs` (dict, dataclass, Action, datetime, Enum, deque, tuple, set) with `id(obj) = id`;
  `seq` is a Python list (never registered: `encode_to_dict` returns before `refs[obj_id] = value`);
  `leaf` is a scalar.  `encodeS` mirrors the traversal: an object already in `refs` becomes
  `{"__type":"ref","__id":id}`, otherwise its children are encoded first and the object is registered
  AFTER them (post-order).  `decodeS` mirrors `decode_from_dict`: a definition is stored under its id
  after it has been built, a reference is looked up (failure = "Could not find reference").
  (The real encoder writes `__id` into a definition only once it is referenced; the decoder ignores the
  ids of unreferenced definitions, so the model keeps the id on every definition.)
-/
namespace NemoVerif.Refs

/-- `σ` = scalar payloads, `τ` = everything an object carries besides its children (class, keys, …);
    the discipline does not depend on them. -/
inductive Lab (σ τ : Type) where
  | leaf : σ → Lab σ τ
  | seq : List (Lab σ τ) → Lab σ τ            -- an un-registered sequence (a list before fixes/C11-shared-lists.diff)
  | node : Nat → τ → List (Lab σ τ) → Lab σ τ
  deriving Repr, Inhabited

inductive Enc (σ τ : Type) where
  | leaf : σ → Enc σ τ
  | seq : List (Enc σ τ) → Enc σ τ
  | defn : Nat → τ → List (Enc σ τ) → Enc σ τ
  | ref : Nat → Enc σ τ
  deriving Repr, Inhabited

variable {σ τ : Type}

mutual
def encodeS : List Nat → Lab σ τ → Enc σ τ × List Nat
  | refs, .leaf a => (.leaf a, refs)
  | refs, .seq xs => let r := encodeSList refs xs; (.seq r.1, r.2)
  | refs, .node i t kids =>
    if i ∈ refs then (.ref i, refs)
    else let r := encodeSList refs kids; (.defn i t r.1, i :: r.2)
def encodeSList : List Nat → List (Lab σ τ) → List (Enc σ τ) × List Nat
  | refs, [] => ([], refs)
  | refs, x :: xs =>
    let r1 := encodeS refs x
    let r2 := encodeSList r1.2 xs
    (r1.1 :: r2.1, r2.2)
end

def lookup (tbl : List (Nat × Lab σ τ)) (i : Nat) : Option (Lab σ τ) :=
  match tbl.find? (·.1 == i) with
  | some e => some e.2
  | none => none

mutual
def decodeS : List (Nat × Lab σ τ) → Enc σ τ → Option (Lab σ τ × List (Nat × Lab σ τ))
  | tbl, .leaf a => some (.leaf a, tbl)
  | tbl, .seq ys => match decodeSList tbl ys with
    | some r => some (.seq r.1, r.2)
    | none => none
  | tbl, .defn i t ys => match decodeSList tbl ys with
    | some r => some (.node i t r.1, (i, .node i t r.1) :: r.2)
    | none => none
  | tbl, .ref i => match lookup tbl i with
    | some v => some (v, tbl)
    | none => none
def decodeSList : List (Nat × Lab σ τ) → List (Enc σ τ) → Option (List (Lab σ τ) × List (Nat × Lab σ τ))
  | tbl, [] => some ([], tbl)
  | tbl, y :: ys => match decodeS tbl y with
    | some r1 => match decodeSList r1.2 ys with
      | some r2 => some (r1.1 :: r2.1, r2.2)
      | none => none
    | none => none
end

mutual
def Consistent (H : Nat → Lab σ τ) : Lab σ τ → Prop
  | .leaf _ => True
  | .seq xs => ConsistentList H xs
  | .node i t kids => H i = .node i t kids ∧ ConsistentList H kids
def ConsistentList (H : Nat → Lab σ τ) : List (Lab σ τ) → Prop
  | [] => True
  | x :: xs => Consistent H x ∧ ConsistentList H xs
end

/-- decode-side table agrees with the encode-side `refs` and holds the canonical objects -/
def Agree (H : Nat → Lab σ τ) (refs : List Nat) (tbl : List (Nat × Lab σ τ)) : Prop :=
  ∀ i, (i ∈ refs → lookup tbl i = some (H i)) ∧ (i ∉ refs → lookup tbl i = none)


end NemoVerif.Refs
