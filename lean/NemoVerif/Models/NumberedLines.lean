/-
  C13 — `NumberedLines`: `get_numbered_lines` of the Colang 1.0 parser (colang/v1_0/lang/utils.py), the only
  place where that parser looks at blank lines, trailing blanks and the width of the indentation.

  Input: `content.split("\n")` as a list of character lists.  Output: the records `(text, indentation, comment)`
  (the `number` field is a source position and is dropped), or the `IndexError` / `TypeError` the function raises.

  The Python `while` loop is re-cast as one `step` per raw line; the inner continuation loop
  (`while i < len(raw_lines) - 1 and text[-1] == "\\" or text.endswith(" or")`) becomes the `pending` state that
  is resolved by the next line or by `finish`.  `strip()` removes the characters of `str.isspace`.
-/
namespace NemoVerif.NumberedLines

abbrev Str := List Char

/-- `str.isspace` for one character (the set `str.strip()` removes). -/
def isPyWs (c : Char) : Bool :=
  let n := c.toNat
  (0x09 ≤ n && n ≤ 0x0D) || (0x1C ≤ n && n ≤ 0x20) || n == 0x85 || n == 0xA0 || n == 0x1680 ||
  (0x2000 ≤ n && n ≤ 0x200A) || n == 0x2028 || n == 0x2029 || n == 0x202F || n == 0x205F || n == 0x3000

def lstrip : Str → Str
  | [] => []
  | c :: r => if isPyWs c then lstrip r else c :: r

def rstrip (s : Str) : Str := (lstrip s.reverse).reverse

def strip (s : Str) : Str := rstrip (lstrip s)

/-- number of leading `' '` (`while raw_lines[i][ind] == " "`) -/
def lead : Str → Nat
  | [] => 0
  | c :: r => if c = ' ' then lead r + 1 else 0

def startsWith (s p : Str) : Bool := p.isPrefixOf s
def endsWith (s p : Str) : Bool := p.isSuffixOf s

def q1 : Str := ['"']
def q3 : Str := ['"', '"', '"']
def orSuffix : Str := [' ', 'o', 'r']

/-- `word_split(text, "#")`: the text before the first `#` outside a double-quoted string; the last
    character is never examined (`while i < len(text) - len(word)`). `none` = no split point. -/
def scanHash : Str → Bool → Str → Option Str
  | [], _, _ => none
  | [_], _, _ => none
  | c :: r, true, acc => scanHash r (c != '"') (acc ++ [c])
  | c :: r, false, acc => if c = '#' then some acc else scanHash r (c == '"') (acc ++ [c])

/-- `word_split(raw_line, "#")[0]` for a stripped, non-empty line that does not start with `#`. -/
def firstPart (s : Str) : Str :=
  match scanHash s false [] with
  | some pre => strip pre
  | none =>
    let p := strip s
    if endsWith p ['#'] then p.dropLast else p

structure Rec where
  text : Str
  indentation : Nat
  comment : Option Str
  deriving DecidableEq, Repr, Inhabited

inductive Err where
  | indexError | typeError
  deriving DecidableEq, Repr, Inhabited

structure St where
  mlComment : Bool
  comment : Option Str
  inString : Option (Str × Nat)   -- current_string, multiline_indentation
  pending : Option (Str × Nat)    -- text and indentation of a statement whose continuation test is still open
  deriving DecidableEq, Repr, Inhabited

def St.init : St := { mlComment := false, comment := none, inString := none, pending := none }

/-- a loop boundary: not inside a multi-line string, not inside a `\` / ` or` continuation -/
def St.atBoundary (st : St) : Bool := st.inString.isNone && st.pending.isNone

/-- the first line of a multi-line string: `startswith('"') and not startswith('"""') and not endswith('"')` -/
def isOpener (s : Str) : Bool := startsWith s q1 && !startsWith s q3 && !endsWith s q1

def wantsMore (text : Str) : Bool := text.getLast? == some '\\' || endsWith text orSuffix

/-- end of the statement branch: either wait for the continuation test or emit the record -/
def settle (st : St) (text : Str) (ind : Nat) : St × List Rec :=
  if wantsMore text then ({ st with pending := some (text, ind) }, [])
  else ({ st with comment := none, pending := none }, [{ text := text, indentation := ind, comment := st.comment }])

def addComment (cur : Option Str) (s : Str) : Option Str :=
  match cur with
  | none => some s
  | some c => some (c ++ '\n' :: s)

/-- one raw line; `s = raw_lines[i].strip()`, `ld` = leading spaces, `len = len(raw_lines[i])` -/
def stepV (st : St) (s : Str) (ld len : Nat) : Except Err (St × List Rec) :=
  match st.pending with
  | some (text, ind) =>
    -- body of the continuation loop (there IS a next line: this one)
    let t1 := if text.getLast? == some '\\' then text.dropLast else text
    if t1.isEmpty then .error .indexError
    else
      let t2 := if t1.getLast? != some ' ' then t1 ++ [' '] else t1
      .ok (settle st (t2 ++ s) ind)
  | none =>
    match st.inString with
    | some (cur, mind) =>
      let cur' := cur ++ '\n' :: s
      if endsWith s q1 then
        .ok ({ st with inString := none }, [{ text := cur', indentation := mind, comment := st.comment }])
      else .ok ({ st with inString := some (cur', mind) }, [])
    | none =>
      if isOpener s then .ok ({ st with inString := some (s, len - s.length) }, [])
      else if s.isEmpty then .ok (st, [])
      else if startsWith s ['#'] then .ok ({ st with comment := addComment st.comment (strip (s.drop 1)) }, [])
      else
        let p := firstPart s
        if !st.mlComment && startsWith p q3 then
          if p == q3 || !endsWith p q3 then .ok ({ st with mlComment := true, comment := some (p.drop 3) }, [])
          else .ok ({ st with comment := some ((p.drop 3).dropLast.dropLast.dropLast) }, [])
        else if st.mlComment then
          match st.comment with
          | none => .error .typeError
          | some c =>
            if endsWith p q3 then .ok ({ st with mlComment := false, comment := some (c ++ '\n' :: p.dropLast.dropLast.dropLast) }, [])
            else .ok ({ st with comment := some (c ++ '\n' :: p) }, [])
        else .ok (settle st p ld)

def step (st : St) (l : Str) : Except Err (St × List Rec) := stepV st (strip l) (lead l) l.length

/-- after the last line: an open continuation test sees `i == len(raw_lines) - 1` -/
def finish (st : St) : Except Err (List Rec) :=
  match st.pending with
  | some (text, ind) =>
    if endsWith text orSuffix then .error .indexError
    else .ok [{ text := text, indentation := ind, comment := st.comment }]
  | none => .ok []

def run (st : St) : List Str → Except Err (List Rec)
  | [] => finish st
  | l :: ls =>
    match step st l with
    | .error e => .error e
    | .ok (st1, out) =>
      match run st1 ls with
      | .error e => .error e
      | .ok rest => .ok (out ++ rest)

/-- state and output after a prefix of the lines (no look at what follows) -/
def runPre (st : St) : List Str → Except Err (St × List Rec)
  | [] => .ok (st, [])
  | l :: ls =>
    match step st l with
    | .error e => .error e
    | .ok (st1, out) =>
      match runPre st1 ls with
      | .error e => .error e
      | .ok (st2, rest) => .ok (st2, out ++ rest)

/-- `get_numbered_lines(content)` on `content.split("\n")` -/
def numbered (lines : List Str) : Except Err (List Rec) := run St.init lines

/-- an ordinary one-line statement (as `raw_line.strip()`): not empty, not a string opener, not a comment line, not a `"""` comment, no
    continuation -/
def plainStmt (s : Str) : Bool :=
  !s.isEmpty && !isOpener s && !startsWith s ['#'] && !startsWith (firstPart s) q3 && !wantsMore (firstPart s)

/-- the pending comment after a block of lines that are blank or `# …` comment lines: consecutive comment lines are gathered with `"\n"`,
    blank lines in between change nothing -/
def commentOf (cur : Option Str) : List Str → Option Str
  | [] => cur
  | l :: ls =>
    match strip l with
    | '#' :: c => commentOf (addComment cur (strip c)) ls
    | _ => commentOf cur ls

/-- a CRLF file: a `"\r"` at the end of every line that does not open a multi-line string -/
def addCR (l : Str) : Str := if isOpener (strip l) then l else l ++ ['\r']

/-- a one-line `"""…"""` comment (as `raw_line.strip()`): the text between the markers -/
def oneLineBlock (s : Str) : Option Str :=
  let p := firstPart s
  if !s.isEmpty && !isOpener s && !startsWith s ['#'] && startsWith p q3 && !(p == q3 || !endsWith p q3)
  then some ((p.drop 3).dropLast.dropLast.dropLast) else none

/-- the pending comment after a block of blank lines, `# …` lines (gathered with `"\n"`) and one-line `\"\"\"…\"\"\"` comments (which REPLACE what
    was gathered so far, as the code does) -/
def commentOfB (cur : Option Str) : List Str → Option Str
  | [] => cur
  | l :: ls =>
    match strip l with
    | '#' :: c => commentOfB (addComment cur (strip c)) ls
    | s =>
      match oneLineBlock s with
      | some body => commentOfB (some body) ls
      | none => commentOfB cur ls

/-- first line of a multi-line `"""` comment (as `raw_line.strip()`): the text after the marker -/
def openLine (s : Str) : Option Str :=
  let p := firstPart s
  if !s.isEmpty && !isOpener s && !startsWith s ['#'] && startsWith p q3 && (p == q3 || !endsWith p q3) then some (p.drop 3) else none

/-- a line inside a multi-line `"""` comment that does not close it -/
def midLine (s : Str) : Option Str :=
  let p := firstPart s
  if !s.isEmpty && !isOpener s && !startsWith s ['#'] && !endsWith p q3 then some p else none

/-- the closing line of a multi-line `"""` comment: the text before the marker -/
def closeLine (s : Str) : Option Str :=
  let p := firstPart s
  if !s.isEmpty && !isOpener s && !startsWith s ['#'] && endsWith p q3 then some (p.dropLast.dropLast.dropLast) else none

/-- the comment text gathered inside a multi-line block: every non-blank middle line on a line of its own; blank lines are dropped -/
def blockBody (c : Str) : List Str → Str
  | [] => c
  | l :: ls =>
    match midLine (strip l) with
    | some p => blockBody (c ++ '\n' :: p) ls
    | none => blockBody c ls

/-! ### from the file content -/

/-- `content.split("\n")` -/
def splitNL : Str → List Str
  | [] => [[]]
  | c :: r =>
    if c = '\n' then [] :: splitNL r
    else match splitNL r with
      | [] => [[c]]
      | l :: ls => (c :: l) :: ls

/-- `get_numbered_lines(content)` -/
def numberedText (content : Str) : Except Err (List Rec) := numbered (splitNL content)

/-! ### uniform scaling of the indentation (the layout edit "indentation × k") -/

/-- repeat the leading run of `' '` of a line `k` times (what "scaling the indentation by k" does to one raw line) -/
def scaleLine (k : Nat) (l : Str) : Str := List.replicate (k * lead l) ' ' ++ l.drop (lead l)

def scaleRec (k : Nat) (r : Rec) : Rec := { r with indentation := k * r.indentation }

/-- a line that could open a multi-line string is *tight*: nothing but `' '` in front of the text and nothing behind it, so that
    `len(raw_lines[i]) - len(raw_line.lstrip())` (the `multiline_indentation`) is exactly the number of leading spaces -/
def openerTight (l : Str) : Bool := !isOpener (strip l) || l.length == lead l + (strip l).length

/-- forget the indentation numbers -/
def eraseRec (r : Rec) : Rec := { r with indentation := 0 }

/-- `numbered` up to the indentation numbers -/
def eraseOut (x : Except Err (List Rec)) : Except Err (List Rec) := x.map (List.map eraseRec)

/-- `"\n".join(lines)` -/
def joinNL : List Str → Str
  | [] => []
  | [l] => l
  | l :: m :: ls => l ++ '\n' :: joinNL (m :: ls)

/-- the content with every line's leading spaces repeated `k` times -/
def scaleContent (k : Nat) (content : Str) : Str := joinNL ((splitNL content).map (scaleLine k))

end NemoVerif.NumberedLines
