/-
  Operation-sequence semantics over the `Lifetime` state: the operations the interpreter issues between two
  external events, as far as instances / actions / lifetimes are concerned.  `applyOp` is total (an operation whose
  guard fails or whose Python counterpart raises leaves the state unchanged) and executable: the harness decomposes
  every recorded real trace into such operations and replays it through the driver (`C06.ops`), so that every
  recorded trace is checked to be a path of this step function.
-/
import NemoVerif.Models.Lifetime
namespace NemoVerif.Lifetime

def okOr (s : State) : Except Err State → State
  | .ok s' => s'
  | .error _ => s

inductive IOp
  | abort (n u : Nat) (d : Bool)                 -- outermost `_abort_flow`
  | finish (n u : Nat) (d : Bool)                -- outermost `_finish_flow`
  | endScope (n u nm : Nat)                      -- `EndScope` element
  | startChild (c fid p k : Nat)                 -- StartFlow processed: new instance `c` of flow `fid` + `_start_flow` (link to `p`, activated := k)
  | reactivate (fid : Nat) (known act hasInst : Bool) (source : Nat) (pm : List Nat)  -- StartFlow of an already activated flow
  | status (u : Nat) (st : FStatus)              -- `_advance_head_front` / `Abort` element status changes
  | newAction (u a : Nat)                        -- `_new_action_instance`
  | startAction (a : Nat)                        -- `send $ref.Start()`
  | coWin (loser a b : Nat)                      -- co-winning head adopts action `a` instead of its own `b`
  | event (e : AEv)                              -- external action event
  | label (u : Nat)                              -- `start_new_flow_instance` label
  | noRestart (u : Nat)                          -- `_advance_head_front`: an activated instance that fails before it was started is not restarted
  | frame (u heads : Nat) (scopes : List (Nat × List Nat × List Nat))  -- heads / scopes bookkeeping
  deriving Repr

def freshFlow (fid : Nat) : Flow :=
  { flowId := fid, parent := none, children := [], status := .waiting, activated := 0, nis := false,
    actionUids := [], scopes := [], heads := 1, isMain := false }

/-- no live instance lists `c` as a child -/
def unlisted (s : State) (c : Nat) : Bool :=
  s.order.all fun q => match s.flows q with | some f => !f.children.contains c | none => true

def statusStepOk : FStatus → FStatus → Bool
  | .waiting, .starting | .starting, .started | .starting, .stopping | .started, .stopping => true
  | _, _ => false

/-- external events are `…Started/Updated/Finished` events of actions whose `Start…` has been sent -/
def eventOk (s : State) (e : AEv) : Bool :=
  (e.started || e.updated || e.finished) && (match s.actions e.uid with | some x => x.status != .initialized | none => true)

def applyOp (s : State) : IOp → State
  | .abort n u d => okOr s (abortFlow n s u d)
  | .finish n u d => okOr s (finishFlow n s u d)
  | .endScope n u nm => okOr s (endScope n s u nm)
  | .startChild c fid p k =>
    match s.flows c, s.flows p with
    | none, some pf =>
      -- the sender is still alive (repaired StartFlow handling), or this is the restart of an activated flow
      if unlisted s c && c != p && (pf.status.listening || (k > 0 && pf.flowId == fid && pf.activated > 0)) then
        let s1 := { setFlow s c { freshFlow fid with parent := some p, activated := k } with order := s.order ++ [c] }
        setFlow s1 p { pf with children := pf.children ++ [c] }
      else s
    | _, _ => s
  | .reactivate fid known act hasInst source pm =>
    match processStartFlow s fid known act hasInst source (fun u => pm.contains u) with
    | .ok (s', _) => s'
    | .error _ => s
  | .status u st =>
    match s.flows u with
    | some f => if statusStepOk f.status st then setFlow s u { f with status := st } else s
    | none => s
  | .newAction u a =>
    match s.flows u, s.actions a with
    | some f, none =>
      if s.out.count (.stop a) == 0 then setAction (setFlow s u { f with actionUids := f.actionUids ++ [a] }) a ⟨.initialized, 0⟩ else s
    | _, _ => s
  | .startAction a =>
    match s.actions a with
    | some x => if x.status == .initialized then generateUmim s (.start a) (AEv.startOf a) else s
    | none => s
  | .coWin loser a b =>
    match s.flows loser, s.actions a with
    | some f, some x =>
      -- REPAIRED behaviour (fixes/C06-conflict-dead-heads.diff): the loser is a LISTENING flow that holds `b`
      -- (`action_uids.index(b)` raises ValueError otherwise) and the winner's action is still STARTING.  The unpatched
      -- `_resolve_action_conflicts` also lets a head co-win whose flow was aborted earlier in the same loop, or adopt
      -- an action that was stopped again because the winner's flow was aborted by a losing flow (open finding
      -- `cowin-after-abort-in-conflict`): on such traces model and code differ.
      if a != b && f.status.listening && f.actionUids.contains b && x.status == .starting then
        let s1 := setFlow s loser { f with actionUids := f.actionUids.map fun y => if y == b then a else y }
        { setAction s1 a { x with count := x.count + 1 } with actions := fun v => if v = b then none else (setAction s1 a { x with count := x.count + 1 }).actions v }
      else s
    | _, _ => s
  | .event e =>
    -- external events are `…Started/Updated/Finished` events of actions that have been started
    if eventOk s e then updateActionStatusByEvent s e else s
  | .label u => okOr s (labelRestart s u)
  | .noRestart u => modFlow s u fun f => { f with nis := true }
  | .frame u heads scopes =>
    match s.flows u with
    | some f => setFlow s u { f with heads := heads, scopes := scopes }
    | none => s

/-- state after `initialize_state`: the main flow instance (uid 0), WAITING, `activated = 1` -/
def initState : State :=
  { flows := fun u => if u = 0 then some { freshFlow 0 with activated := 1, isMain := true } else none,
    actions := fun _ => none, order := [0], queue := [], out := [] }

def run (ops : List IOp) : State := ops.foldl applyOp initState

end NemoVerif.Lifetime
