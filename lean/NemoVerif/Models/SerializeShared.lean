/-
  C11 / T2, concrete layer — `encode_to_dict` / `decode_from_dict` WITH the `refs` table, on identity-labelled
  values, producing / consuming the real JSON (`Serialize.J`).  (Repaired encoder: d13eeb5 + fixes/C11-*.diff.)

  Universe: `CV = Refs.Lab Scalar Tag`.  A `node id tag kids` is a Python object with `id(obj) = id`; the tag says
  which `isinstance` branch it takes and carries what is not a child (class name, keys, enum member …); the kids are
  exactly the values `encode_to_dict` is called on recursively, in its order (dict values; keys and values alternating
  for an item-list dict; dataclass fields; the seven `Action.to_dict()` fields for an action — an `Action` is the tag
  `data "Action" [...]`).  Lists are registered like every other container (fixes/C11-shared-lists.diff).

  `encodeC` mirrors the encoder: an object already in `refs` becomes `{"__type":"ref","__id":id}`; otherwise the
  children are encoded first, then the object is registered.  `decodeC` mirrors the decoder: dispatch on `__type`,
  children first, then `refs[d["__id"]] = value`.
  Modelling choices: every definition carries its `__id` (the real encoder adds it when the object is referenced a
  second time — the decoder does not care about ids nobody refers to); `__ref_count` is not written (never read).
-/
import NemoVerif.Models.Serialize
import NemoVerif.Models.SerializeRefs

namespace NemoVerif.Shared
open NemoVerif.Serialize NemoVerif.Refs

inductive Scalar where
  | none | bool (b : Bool) | int (i : Int) | flt (f : Flt) | str (s : String)
  deriving DecidableEq, Repr, Inhabited

inductive Tag where
  | list | tuple | set | deque
  | dictStr (keys : List String)      -- all keys are strings: kids = the values
  | dictItems                         -- kids = k₁, v₁, k₂, v₂, …
  | data (cls : String) (keys : List String)   -- dataclass / RailsConfig / Action: kids = the field values
  | enum (cls name : String)
  | datetime (iso : String)
  | specType (v : String)
  | regex (p : String) (f : Int)
  | cmp (op : String) (v : Scalar)
  deriving DecidableEq, Repr, Inhabited

abbrev CV := Lab Scalar Tag
abbrev CE := Enc Scalar Tag

def Scalar.toJ : Scalar → J
  | .none => .null | .bool b => .bool b | .int i => .int i | .flt f => .flt f | .str s => .str s

def scalarOfJ : J → Option Scalar
  | .null => some .none | .bool b => some (.bool b) | .int i => some (.int i) | .flt f => some (.flt f)
  | .str s => some (.str s) | _ => none

def zipKeys : List String → List J → List (String × J)
  | k :: ks, y :: ys => (k, y) :: zipKeys ks ys
  | _, _ => []

def pairUp : List J → List J
  | k :: v :: rest => .arr [k, v] :: pairUp rest
  | _ => []

def Tag.tyName : Tag → String
  | .list => "list" | .tuple => "tuple" | .set => "set" | .deque => "deque"
  | .dictStr _ => "dict" | .dictItems => "dict" | .data cls _ => cls
  | .enum _ _ => "enum" | .datetime _ => "datetime" | .specType _ => "SpecType" | .regex _ _ => "regex" | .cmp _ _ => "comparison"

/-- the fields written after `__type` -/
def Tag.body : Tag → List J → List (String × J)
  | .list, ys | .tuple, ys | .set, ys | .deque, ys => [("value", .arr ys)]
  | .dictStr keys, ys => [("value", .obj (zipKeys keys ys))]
  | .dictItems, ys => [("items", .arr (pairUp ys))]
  | .data _ keys, ys => [("value", .obj (zipKeys keys ys))]
  | .enum cls name, _ => [("__class", .str cls), ("value", .str name)]
  | .datetime iso, _ => [("value", .str iso)]
  | .specType v, _ => [("value", .str v)]
  | .regex p f, _ => [("pattern", .str p), ("flags", .int f)]
  | .cmp op v, _ => [("op", .str op), ("value", v.toJ)]

def wrapDef (i : Nat) (tag : Tag) (ys : List J) : J :=
  match tag with
  | .list => .arr [.obj [("__type", .str "list"), ("__id", .int i), ("value", .arr ys)]]
      -- a JSON array that carries an id (fixes/C11-shared-lists.diff)
  | _ => .obj (("__type", .str tag.tyName) :: (tag.body ys ++ [("__id", .int i)]))

def refJ (i : Nat) : J := .obj [("__type", .str "ref"), ("__id", .int i)]

/-! ### the encoder with `refs` -/
mutual
def encodeC : List Nat → CV → J × List Nat
  | refs, .leaf s => (s.toJ, refs)
  | refs, .seq xs => let r := encodeCList refs xs; (.arr r.1, r.2)
  | refs, .node i tag kids =>
    if i ∈ refs then (refJ i, refs)
    else let r := encodeCList refs kids; (wrapDef i tag r.1, i :: r.2)
def encodeCList : List Nat → List CV → List J × List Nat
  | refs, [] => ([], refs)
  | refs, x :: xs =>
    let r1 := encodeC refs x
    let r2 := encodeCList r1.2 xs
    (r1.1 :: r2.1, r2.2)
end

-- the JSON text of an abstract encoding
mutual
def render : CE → J
  | .leaf s => s.toJ
  | .seq ys => .arr (renderList ys)
  | .defn i tag ys => wrapDef i tag (renderList ys)
  | .ref i => refJ i
def renderList : List CE → List J
  | [] => []
  | y :: ys => render y :: renderList ys
end

/-! ### the decoder with `refs` -/

abbrev Tbl := List (Nat × CV)

def valueKeys : List (String × J) → List String
  | [] => []
  | (k, v) :: rest => if k = "value" then (match v with | .obj inner => inner.map (·.1) | _ => []) else valueKeys rest

/-- `_is_shared_list` -/
def isMarkedList : List J → Bool
  | [.obj kvs] => typeTag kvs == some "list"
  | _ => false

def isBuiltinTag (t : String) : Bool :=
  ["ref", "list", "tuple", "set", "deque", "dict", "enum", "datetime", "SpecType", "regex", "comparison"].contains t

/-- `d_type == "Action"`, `"RailsConfig"` or `d_type in name_to_class` -/
def isClassTag (t : String) : Bool := t == "Action" || t == "RailsConfig" || isDataclassName t

mutual
def decodeC : Tbl → J → Option (CV × Tbl)
  | tbl, .null => some (.leaf .none, tbl)
  | tbl, .bool b => some (.leaf (.bool b), tbl)
  | tbl, .int i => some (.leaf (.int i), tbl)
  | tbl, .flt f => some (.leaf (.flt f), tbl)
  | tbl, .str s => some (.leaf (.str s), tbl)
  | tbl, .arr js =>
    -- `_is_shared_list(d)`: the array is the marked encoding of a registered list (its single element is decoded by
    -- the `"list"` branch below and IS the list); otherwise a plain, un-registered sequence
    match decodeCList tbl js with
    | some r => if isMarkedList js then (match r.1 with | [v] => some (v, r.2) | _ => none) else some (.seq r.1, r.2)
    | none => none
  | tbl, .obj kvs =>
    match typeTag kvs, natField "__id" kvs with
    | some t, some i =>
      if t = "ref" then (match lookup tbl i with | some v => some (v, tbl) | none => none)
      else
        let fin (tag : Tag) (r : Option (List CV × Tbl)) : Option (CV × Tbl) :=
          match r with
          | some r => some (.node i tag r.1, (i, .node i tag r.1) :: r.2)
          | none => none
        if t = "list" then fin .list (decodeArrAtValue tbl kvs)
        else if t = "tuple" then fin .tuple (decodeArrAtValue tbl kvs)
        else if t = "set" then fin .set (decodeArrAtValue tbl kvs)
        else if t = "deque" then fin .deque (decodeArrAtValue tbl kvs)
        else if t = "dict" then
          if hasKey "items" kvs then fin .dictItems (decodePairsAtItemsC tbl kvs)
          else fin (.dictStr (valueKeys kvs)) (decodeObjAtValue tbl kvs)
        else if t = "enum" then
          match strField "__class" kvs, strField "value" kvs with
          | .ok c, .ok n => fin (.enum c n) (some ([], tbl))
          | _, _ => none
        else if t = "datetime" then
          match strField "value" kvs with | .ok v => fin (.datetime v) (some ([], tbl)) | _ => none
        else if t = "SpecType" then
          match strField "value" kvs with | .ok v => fin (.specType v) (some ([], tbl)) | _ => none
        else if t = "regex" then
          match strField "pattern" kvs, intField "flags" kvs with
          | .ok p, .ok f => fin (.regex p f) (some ([], tbl))
          | _, _ => none
        else if t = "comparison" then
          match strField "op" kvs, (fieldJ "value" kvs).bind scalarOfJ with
          | .ok op, some v => fin (.cmp op v) (some ([], tbl))
          | _, _ => none
        else if isClassTag t then fin (.data t (valueKeys kvs)) (decodeObjAtValue tbl kvs)
        else none
    | _, _ => none
def decodeCList : Tbl → List J → Option (List CV × Tbl)
  | tbl, [] => some ([], tbl)
  | tbl, y :: ys => match decodeC tbl y with
    | some r1 => match decodeCList r1.2 ys with
      | some r2 => some (r1.1 :: r2.1, r2.2)
      | none => none
    | none => none
/-- the values of a JSON object, in order -/
def decodeObjVals : Tbl → List (String × J) → Option (List CV × Tbl)
  | tbl, [] => some ([], tbl)
  | tbl, (_, y) :: ys => match decodeC tbl y with
    | some r1 => match decodeObjVals r1.2 ys with
      | some r2 => some (r1.1 :: r2.1, r2.2)
      | none => none
    | none => none
/-- `[decode(k), decode(v)] for k, v in d["items"]`, flattened -/
def decodePairsC : Tbl → List J → Option (List CV × Tbl)
  | tbl, [] => some ([], tbl)
  | tbl, p :: rest =>
    match p with
    | .arr [kj, vj] =>
      match decodeC tbl kj with
      | some r1 => match decodeC r1.2 vj with
        | some r2 => match decodePairsC r2.2 rest with
          | some r3 => some (r1.1 :: r2.1 :: r3.1, r3.2)
          | none => none
        | none => none
      | none => none
    | _ => none
def decodeArrAtValue : Tbl → List (String × J) → Option (List CV × Tbl)
  | _, [] => none
  | tbl, (k, v) :: rest =>
    if k = "value" then (match v with | .arr js => decodeCList tbl js | _ => none) else decodeArrAtValue tbl rest
def decodeObjAtValue : Tbl → List (String × J) → Option (List CV × Tbl)
  | _, [] => none
  | tbl, (k, v) :: rest =>
    if k = "value" then (match v with | .obj inner => decodeObjVals tbl inner | _ => none) else decodeObjAtValue tbl rest
def decodePairsAtItemsC : Tbl → List (String × J) → Option (List CV × Tbl)
  | _, [] => none
  | tbl, (k, v) :: rest =>
    if k = "items" then (match v with | .arr js => decodePairsC tbl js | _ => none) else decodePairsAtItemsC tbl rest
end

/-! ### well-formed values / encodings -/

/-- keys match the children, item lists are pairs, class tags are class names that do not collide with the
    built-in wrapper names, childless kinds have no children -/
def tagOk (tag : Tag) (n : Nat) : Bool :=
  match tag with
  | .dictStr keys => keys.length == n
  | .data cls keys => keys.length == n && isClassTag cls && !isBuiltinTag cls
  | .dictItems => n % 2 == 0
  | .enum _ _ | .datetime _ | .specType _ | .regex _ _ | .cmp _ _ => n == 0
  | _ => true

mutual
def WfEnc : CE → Bool
  | .leaf _ => true
  | .ref _ => true
  | .seq ys => WfEncList ys
  | .defn _ tag ys => WfEncList ys && tagOk tag ys.length
def WfEncList : List CE → Bool
  | [] => true
  | y :: ys => WfEnc y && WfEncList ys
end

mutual
def WfCV : CV → Bool
  | .leaf _ => true
  | .seq xs => WfCVList xs
  | .node _ tag kids => WfCVList kids && tagOk tag kids.length
def WfCVList : List CV → Bool
  | [] => true
  | x :: xs => WfCV x && WfCVList xs
end

end NemoVerif.Shared
