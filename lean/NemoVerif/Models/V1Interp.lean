/-
  V1Interp — executable model of the Colang 1.0 flow interpreter
  (`nemoguardrails/colang/v1_0/runtime/{sliding,flows}.py`) on the structured subset of C14.

  Mirrors, function by function and branch by branch:
    sliding.py   `slide`                               -> `sstep` (one loop iteration) / `slide`
    flows.py     `_is_actionable`, `_is_match`         -> `isActionable`, `isMatch`
                 `_record_next_step`                   -> `recordNextStep`
                 `_call_subflow`/`_slide_with_subflows`-> `slideWithSubflows` (one fuelled function)
                 `compute_next_state`                  -> `computeNextState` (phases `advanceAll`,
                                                          `startNew`, `reactivateAborted`,
                                                          `markInterrupted`, `extensionInterrupt`,
                                                          `resumeLoop`)
                 `compute_next_steps`                  -> `applyHide`, `computeNextSteps`
                 `_step_to_event`                      -> `stepToEvent`
    eval.py      `eval_expression` (simpleeval)        -> `eval` on the fragment `Expr`

  Not modelled (the adapter rejects flows that use them): `branch`/`any` elements (`when`), `check`,
  raw `stop` elements, labels/goto, flow ids with parameters, match elements of type
  `StartUtteranceBotAction`, intent parameters.  Objects in the context (`$event`, `$config`,
  `$generation_options`) are modelled by their *flattened* attribute paths (variables with dotted names,
  `Ctx.withEvent`); values are None/bool/int/str/list-of-str.  This is enough to execute every element of
  the shipped `rails/llm/llm_flows.co` (see Generated/LlmFlowsV1.lean) and the self-check style rails.

  The flag `repaired : Bool` selects between the code as it is (`false`) and the code with the two
  proposed repairs (`true`, what the harness compares against outside the findings' regions):
    * `startOne` marks a flow that *finishes during its starting event* as COMPLETED
      (`fixes/C14-start-complete.diff`, open finding `flow-finished-on-start-event`);
    * `slideWithSubflows` (the `_call_subflow` part) records the called subflow's next step only if
      that subflow is still ACTIVE, i.e. not itself waiting for a nested subflow
      (`fixes/C14-nested-subflow.diff`, open finding `nested-subflow-decides-early`).
  `as_is_counterexample` / `as_is_counterexample_nested` (Theorems/C14.lean) are about `false`.

  Python ints are `Int` (heads do go negative: "finished" is `-(prev_head+1)`), dicts are
  association lists (`Ctx`), uids are a counter.  Non-termination of the real `slide` is
  `oof` (out of fuel), never confused with a Python exception (`err`).
-/
namespace NemoVerif.V1Interp

/-! ## values and expressions -/

inductive V where
  | none | bool (b : Bool) | int (i : Int) | str (s : String)
  /-- a list of strings (rail flow names: `$config.rails.input.flows`) -/
  | strs (l : List String)
  deriving DecidableEq, Repr, Inhabited

inductive BinOp where
  | eq | ne | lt | le | gt | ge | add | sub | and | or
  deriving DecidableEq, Repr, Inhabited

inductive Expr where
  | lit (v : V) | var (n : String) | not (e : Expr) | bin (op : BinOp) (a b : Expr)
  /-- `len(e)` -/
  | len (e : Expr)
  /-- `e[i]` -/
  | index (e i : Expr)
  /-- `e is None` (`neg = false`) / `e is not None` (`neg = true`) -/
  | isNone (e : Expr) (neg : Bool)
  deriving DecidableEq, Repr, Inhabited

abbrev Ctx := List (String × V)

def Ctx.get (σ : Ctx) (k : String) : V := (σ.lookup k).getD .none

/-- `dict.update({k: v})`; key order is not part of the contract (the harness sorts). -/
def Ctx.set (σ : Ctx) (k : String) (v : V) : Ctx := (k, v) :: σ.filter (fun kv => kv.1 != k)

def Ctx.update (σ : Ctx) (d : Ctx) : Ctx := d.foldl (fun acc kv => Ctx.set acc kv.1 kv.2) σ

def V.truthy : V → Bool
  | .none => false | .bool b => b | .int i => i != 0 | .str s => s != "" | .strs l => !l.isEmpty

def V.num? : V → Option Int
  | .bool b => some (if b then 1 else 0) | .int i => some i | _ => Option.none

/-- Python `==` on the value fragment. -/
def V.pyEq : V → V → Bool
  | .none, .none => true
  | .str a, .str b => a == b
  | .strs a, .strs b => a == b
  | a, b => match a.num?, b.num? with
    | some x, some y => x == y
    | _, _ => false

/-- `<` : numbers with numbers, strings with strings, otherwise TypeError (`none`). -/
def V.pyLt : V → V → Option Bool
  | .str a, .str b => some (decide (a < b))
  | a, b => match a.num?, b.num? with
    | some x, some y => some (decide (x < y))
    | _, _ => Option.none

def evalBin (op : BinOp) (a b : V) : Option V :=
  match op with
  | .eq => some (.bool (a.pyEq b))
  | .ne => some (.bool (!a.pyEq b))
  | .lt => (a.pyLt b).map .bool
  | .gt => (b.pyLt a).map .bool
  | .le => match a.pyLt b with
    | some true => some (.bool true)
    | some false => if a.pyEq b then some (.bool true) else (b.pyLt a).map fun _ => .bool false
    | Option.none => Option.none
  | .ge => match b.pyLt a with
    | some true => some (.bool true)
    | some false => if a.pyEq b then some (.bool true) else (a.pyLt b).map fun _ => .bool false
    | Option.none => Option.none
  | .add => match a, b with
    | .str x, .str y => some (.str (x ++ y))
    | _, _ => match a.num?, b.num? with
      | some x, some y => some (.int (x + y))
      | _, _ => Option.none
  | .sub => match a.num?, b.num? with
    | some x, some y => some (.int (x - y))
    | _, _ => Option.none
  | .and => some (if a.truthy then b else a)   -- only used when both sides were evaluated
  | .or => some (if a.truthy then a else b)

/-- Python indexing of a list / string with negative indices wrapping; `none` = IndexError / TypeError -/
def pyGet (v : V) (i : V) : Option V :=
  match i with
  | .int k =>
    match v with
    | .strs l =>
      let n : Int := l.length
      let j := if k < 0 then k + n else k
      if 0 ≤ j ∧ j < n then (l[j.toNat]?).map .str else Option.none
    | .str s =>
      let cs := s.toList
      let n : Int := cs.length
      let j := if k < 0 then k + n else k
      if 0 ≤ j ∧ j < n then (cs[j.toNat]?).map fun c => .str (String.singleton c) else Option.none
    | _ => Option.none
  | _ => Option.none

def pyLen : V → Option V
  | .strs l => some (.int l.length)
  | .str s => some (.int s.length)
  | _ => Option.none

/-- `eval_expression` on the fragment; `none` = the evaluation raised. `and`/`or` short-circuit. -/
def eval (σ : Ctx) : Expr → Option V
  | .lit v => some v
  | .var n => some (σ.get n)
  | .not e => (eval σ e).map fun v => .bool (!v.truthy)
  | .bin .and a b => match eval σ a with
    | some va => if va.truthy then eval σ b else some va
    | Option.none => Option.none
  | .bin .or a b => match eval σ a with
    | some va => if va.truthy then some va else eval σ b
    | Option.none => Option.none
  | .bin op a b => match eval σ a, eval σ b with
    | some va, some vb => evalBin op va vb
    | _, _ => Option.none
  | .len e => match eval σ e with
    | some v => pyLen v
    | Option.none => Option.none
  | .index e i => match eval σ e, eval σ i with
    | some v, some vi => pyGet v vi
    | _, _ => Option.none
  | .isNone e neg => (eval σ e).map fun v => .bool ((v == .none) != neg)

/-! ## elements -/

inductive Elem where
  | userIntent (name : String)
  /-- `run_action`; `value` = `action_params["value"]` (bot intents), `params` = canonical JSON of `action_params`. -/
  | runAction (name : String) (value : Option String) (params : String) (resultKey : Option String)
  | ifE (c : Expr) (nextElse : Int)
  | whileE (c : Expr) (next : Int) (onBreak : Int)
  | jump (next : Int) (abs : Bool)
  | setE (key : String) (e : Expr) (next : Int)
  /-- `_next_on_break` if the element carries one (default 1) -/
  | breakE (off : Option Int)
  /-- `_next_on_continue` if the element carries one (default 1) -/
  | continueE (off : Option Int)
  | flow (name : String)
  /-- `do $expr`: the subflow id is computed (`$input_flows[$i]`) -/
  | flowE (e : Expr)
  /-- a generic event element (`event UserMessage(text="...")`): type + the non-private keys -/
  | event (ty : String) (props : List (String × V))
  deriving DecidableEq, Repr, Inhabited

def WILDCARD : String := "..."

def isActionable : Elem → Bool
  | .runAction name value _ _ => !(name == "utter" && value == some WILDCARD)
  | _ => false

/-! ## slide -/

structure SSt where
  ctx : Ctx
  upd : Ctx
  deriving Repr, Inhabited, DecidableEq

inductive StepRes where
  | next (st : SSt) (h : Int) | stop | err
  deriving Repr

/-- One iteration of the `while True` loop of `slide` at a head inside the element list. -/
def sstep (code : List Elem) (st : SSt) (h : Int) : StepRes :=
  match code[h.toNat]? with
  | Option.none => .err
  | some (.ifE c ne) => match eval st.ctx c with
    | Option.none => .err
    | some v => .next st (if v.truthy then h + 1 else h + ne)
  | some (.whileE c n ob) => match eval st.ctx c with
    | Option.none => .err
    | some v => .next st (if v.truthy then h + n else h + ob)
  | some (.jump n abs) => .next st (if abs then n else h + n)
  | some (.setE k e n) => match eval st.ctx e with
    | Option.none => .err
    | some v => .next { ctx := st.ctx.set k v, upd := st.upd.set k v } (h + n)
  | some (.breakE o) => .next st (h + o.getD 1)
  | some (.continueE o) => .next st (h + o.getD 1)
  | some _ => .stop

inductive SRes where
  | at (st : SSt) (h : Int) | fin (st : SSt) (h : Int) | err | oof
  deriving Repr

/-- `slide(state, flow_config, head)`; `prev` is `prev_head`. -/
def slide : Nat → List Elem → SSt → Int → Int → SRes
  | 0, _, _, _, _ => .oof
  | f + 1, code, st, h, prev =>
    if h = code.length ∨ h < 0 then .fin st (-1 * (prev + 1))
    else match sstep code st h with
      | .next st' h' => slide f code st' h' h
      | .stop => .at st h
      | .err => .err

/-- initial `prev_head = head if head < len(elements) else head - 1` -/
def initPrev (code : List Elem) (h : Int) : Int := if h < code.length then h else h - 1

/-! ## events, flows, state -/

inductive Event where
  | userIntent (i : String)
  | botIntent (i : String)
  | actionFinished (name : String) (success : Bool)
  | contextUpdate (d : Ctx)
  | startAction
  | hidePrevTurn
  /-- any other event type (`UtteranceUserActionFinished`, `UserMessage`, `StartUtteranceBotAction`, `Listen`, …) -/
  | other (ty : String) (props : List (String × V) := [])
  deriving Repr, Inhabited, DecidableEq

def isMatch : Elem → Event → Bool
  | .userIntent n, .userIntent i => n == WILDCARD || n == i
  | .runAction name value _ _, .botIntent i => name == "utter" && (value == some WILDCARD || value == some i)
  | .runAction name _ _ _, .actionFinished an ok => ok && name == an
  -- generic branch (also covers UtteranceUserActionFinished elements, whose only key is final_transcript)
  | .event ty props, .other ety eprops =>
    ty == ety && props.all fun kv => kv.2 == .str WILDCARD || ((eprops.lookup kv.1).getD .none).pyEq kv.2
  | _, _ => false

/-- `event["type"] in flow_config.trigger_event_types`: the default list plus the flow's extra types
    (`_load_flow_config` adds the type of every event the flow creates with `create event`). -/
def Event.triggers (extra : List String) : Event → Bool
  | .userIntent _ | .botIntent _ | .actionFinished _ _ => true
  | .other ty _ => extra.contains ty
  | _ => false

/-- the keys of `context["event"]` visible to expressions, flattened as `event.<key>` -/
def Event.props : Event → List (String × V)
  | .userIntent i => [("event.type", .str "UserIntent"), ("event.intent", .str i)]
  | .botIntent i => [("event.type", .str "BotIntent"), ("event.intent", .str i)]
  | .actionFinished n ok => [("event.type", .str "InternalSystemActionFinished"), ("event.action_name", .str n),
      ("event.status", .str (if ok then "success" else "failed"))]
  | .other ty ps => ("event.type", .str ty) :: ps.map fun kv => ("event." ++ kv.1, kv.2)
  | _ => []

/-- `context["event"] = event` (replaces the previous event object) plus `last_user_message` / `last_bot_message` -/
def Ctx.withEvent (σ : Ctx) (ev : Event) : Ctx :=
  let σ := match ev with
    | .other "UserMessage" ps => σ.set "last_user_message" ((ps.lookup "text").getD .none)
    | .other "StartUtteranceBotAction" ps => σ.set "last_bot_message" ((ps.lookup "script").getD .none)
    | _ => σ
  ev.props ++ σ.filter fun kv => !kv.1.startsWith "event."

structure FlowCfg where
  id : String
  elems : List Elem
  isSubflow : Bool := false
  isExtension : Bool := false
  isInterruptible : Bool := true
  allowMultiple : Bool := false
  /-- priority in hundredths (1.0 = 100) -/
  prio : Nat := 100
  /-- extra `trigger_event_types` -/
  triggers : List String := []
  deriving Repr, Inhabited, DecidableEq

inductive Status where
  | active | interrupted | aborted | completed
  deriving DecidableEq, Repr, Inhabited

structure FS where
  uid : Nat
  flowId : String
  head : Int
  status : Status := .active
  interruptedBy : Option Nat := Option.none
  deriving Repr, Inhabited, DecidableEq

/-- recorded priorities in ten-thousandths: flow priority (hundredths) × modifier (100 or 90) -/
structure NextStep where
  elem : Elem
  uid : Nat
  prio : Nat
  deriving Repr, Inhabited, DecidableEq

structure State where
  ctx : Ctx := []
  flows : List FS := []
  next : Option NextStep := Option.none
  upd : Ctx := []
  ctr : Nat := 0
  deriving Repr, Inhabited, DecidableEq

inductive Err where
  | expr | oof | key | index
  deriving Repr, DecidableEq, Inhabited

abbrev Cfgs := List FlowCfg

def Cfgs.find (cfgs : Cfgs) (id : String) : Option FlowCfg := List.find? (fun c => c.id == id) cfgs

/-- Python `elements[i]` with negative indices wrapping. -/
def pyIndex (l : List Elem) (i : Int) : Option Elem :=
  if i < 0 then (if -i ≤ l.length then l[(l.length - (-i).toNat)]? else Option.none) else l[i.toNat]?

/-- `_record_next_step`. Heads of the flows it is called on are valid
    element indices; an out-of-range head leaves the state unchanged here. -/
def recordNextStep (ns : State) (fs : FS) (cfg : FlowCfg) (modNine : Bool) : State :=
  let free := match ns.next with
    | Option.none => true
    | some n => n.prio < cfg.prio * 100
  match pyIndex cfg.elems fs.head with
  | some el =>
    if free && isActionable el then { ns with next := some { elem := el, uid := fs.uid, prio := cfg.prio * (if modNine then 90 else 100) } } else ns
  | Option.none => ns

def SLIDE_FUEL : Nat := 5000

/-- `_slide_with_subflows` with `_call_subflow` inlined. Returns the state and the (mutated) flow state. -/
def slideWithSubflows (repaired : Bool) : Nat → Cfgs → State → FS → Except Err (State × FS)
  | 0, _, _, _ => .error .oof
  | f + 1, cfgs, ns, fs =>
    match cfgs.find fs.flowId with
    | Option.none => .error .key
    | some cfg =>
      match slide SLIDE_FUEL cfg.elems ⟨ns.ctx, ns.upd⟩ fs.head (initPrev cfg.elems fs.head) with
      | .oof => .error .oof
      | .err => .error .expr
      | .fin st h => .ok ({ ns with ctx := st.ctx, upd := st.upd }, { fs with head := h })
      | .at st h =>
        let ns := { ns with ctx := st.ctx, upd := st.upd }
        let fs := { fs with head := h }
        match cfg.elems[h.toNat]? with
        | some (.flow name) =>
          let sub : FS := { uid := ns.ctr, flowId := name, head := 0 }
          let ns := { ns with ctr := ns.ctr + 1 }
          let fs := { fs with head := fs.head + 1 }
          match slideWithSubflows repaired f cfgs ns sub with
          | .error e => .error e
          | .ok (ns, sub) =>
            if sub.head < 0 then slideWithSubflows repaired f cfgs ns fs
            else
              let fs := { fs with status := .interrupted, interruptedBy := some sub.uid }
              let ns := { ns with flows := ns.flows ++ [sub] }
              match cfgs.find sub.flowId with
              | Option.none => .error .key
              | some scfg =>
                -- repaired: a subflow that is itself waiting for a nested subflow decides nothing yet
                if repaired && sub.status != .active then .ok (ns, fs)
                else .ok (recordNextStep ns sub scfg false, fs)
        | some (.flowE e) =>
          -- `subflow_id = eval_expression(subflow_id, context)`; ids with parameters are not modelled
          match eval ns.ctx e with
          | some (.str name) =>
            let sub : FS := { uid := ns.ctr, flowId := name, head := 0 }
            let ns := { ns with ctr := ns.ctr + 1 }
            let fs := { fs with head := fs.head + 1 }
            match slideWithSubflows repaired f cfgs ns sub with
            | .error e => .error e
            | .ok (ns, sub) =>
              if sub.head < 0 then slideWithSubflows repaired f cfgs ns fs
              else
                let fs := { fs with status := .interrupted, interruptedBy := some sub.uid }
                let ns := { ns with flows := ns.flows ++ [sub] }
                match cfgs.find sub.flowId with
                | Option.none => .error .key
                | some scfg =>
                  if repaired && sub.status != .active then .ok (ns, fs)
                  else .ok (recordNextStep ns sub scfg false, fs)
          | _ => .error .expr
        | _ => .ok (recordNextStep ns fs cfg false, fs)

def SUB_FUEL : Nat := 64

/-- first loop of `compute_next_state`: advance the existing flows. Returns (state, extension_flow_completed). -/
def advanceOne (repaired : Bool) (cfgs : Cfgs) (ev : Event) (ns : State) (ext : Bool) (fs : FS) : Except Err (State × Bool) :=
  match cfgs.find fs.flowId with
  | Option.none => .error .key
  | some cfg =>
    if fs.status == .completed || fs.status == .aborted then .ok (ns, ext)
    else if fs.status == .interrupted then .ok ({ ns with flows := ns.flows ++ [fs] }, ext)
    else match pyIndex cfg.elems fs.head with
      | Option.none => .error .index
      | some headEl =>
        if !ev.triggers cfg.triggers then
          let ns := { ns with flows := ns.flows ++ [fs] }
          .ok (recordNextStep ns fs cfg true, ext)
        else if isMatch headEl ev && fs.head + 1 != 0 then   -- `if matching_head:` (0 is falsy)
          match slideWithSubflows repaired SUB_FUEL cfgs ns { fs with head := fs.head + 1 } with
          | .error e => .error e
          | .ok (ns, fs) =>
            if fs.head < 0 then
              .ok ({ ns with flows := ns.flows ++ [{ fs with status := .completed }] }, ext || cfg.isExtension)
            else .ok ({ ns with flows := ns.flows ++ [fs] }, ext)
        else if isActionable headEl || !cfg.isInterruptible then
          .ok ({ ns with flows := ns.flows ++ [{ fs with status := .aborted }] }, ext)
        else .ok ({ ns with flows := ns.flows ++ [{ fs with status := .interrupted }] }, ext)

def advanceAll (repaired : Bool) (cfgs : Cfgs) (ev : Event) : List FS → State → Bool → Except Err (State × Bool)
  | [], ns, ext => .ok (ns, ext)
  | fs :: rest, ns, ext =>
    match advanceOne repaired cfgs ev ns ext fs with
    | .error e => .error e
    | .ok (ns, ext) => advanceAll repaired cfgs ev rest ns ext

def setAt (l : List FS) (i : Nat) (x : FS) : List FS := l.set i x

/-- second loop: try to start new flows (over `flow_configs.values()` in order). `repaired` adds the
    COMPLETED mark for a flow that finishes within its starting event. -/
def startOne (repaired : Bool) (cfgs : Cfgs) (ev : Event) (ns : State) (cfg : FlowCfg) : Except Err State :=
  if cfg.isSubflow then .ok ns
  else if !cfg.allowMultiple && (ns.flows.map (·.flowId)).contains cfg.id then .ok ns
  else
    match slide SLIDE_FUEL cfg.elems ⟨ns.ctx, ns.upd⟩ 0 (initPrev cfg.elems 0) with
    | .oof => .error .oof
    | .err => .error .expr
    | r =>
      let (st, h) := match r with
        | .at st h => (st, h)
        | .fin st h => (st, h)
        | _ => (⟨ns.ctx, ns.upd⟩, 0)
      let ns := { ns with ctx := st.ctx, upd := st.upd }
      match pyIndex cfg.elems h with
      | Option.none => .error .index
      | some el =>
        if isMatch el ev then
          let fs : FS := { uid := ns.ctr, flowId := cfg.id, head := h + 1 }
          let idx := ns.flows.length
          let ns := { ns with ctr := ns.ctr + 1, flows := ns.flows ++ [fs] }
          match slideWithSubflows repaired SUB_FUEL cfgs ns fs with
          | .error e => .error e
          | .ok (ns, fs) =>
            let fs := if repaired && fs.head < 0 then { fs with status := .completed } else fs
            .ok { ns with flows := setAt ns.flows idx fs }
        else .ok ns

def startNew (repaired : Bool) (cfgs : Cfgs) (ev : Event) : List FlowCfg → State → Except Err State
  | [], ns => .ok ns
  | cfg :: rest, ns =>
    match startOne repaired cfgs ev ns cfg with
    | .error e => .error e
    | .ok ns => startNew repaired cfgs ev rest ns

/-- `if extension_flow_completed:` re-activate aborted flows (in list order, each may record the next step). -/
def reactivateAborted (cfgs : Cfgs) : List FS → List FS → State → State
  | [], acc, ns => { ns with flows := acc }
  | fs :: rest, acc, ns =>
    if fs.status == .aborted then
      let fs := { fs with status := .active }
      let ns := match cfgs.find fs.flowId with
        | some cfg => recordNextStep ns fs cfg false
        | Option.none => ns
      reactivateAborted cfgs rest (acc ++ [fs]) ns
    else reactivateAborted cfgs rest (acc ++ [fs]) ns

def markInterrupted (ns : State) : State :=
  { ns with flows := ns.flows.map fun fs =>
      if fs.status == .interrupted && fs.interruptedBy.isNone then { fs with interruptedBy := ns.next.map (·.uid) } else fs }

/-- `decision_flow_config.is_extension and decision_flow_state.head > 1` -/
def extensionInterrupt (cfgs : Cfgs) (ns : State) : State :=
  match ns.next with
  | Option.none => ns
  | some n =>
    -- the LAST flow state with that uid (the Python loop does not break)
    match (ns.flows.filter (fun fs => fs.uid == n.uid)).getLast? with
    | Option.none => ns
    | some d =>
      match cfgs.find d.flowId with
      | Option.none => ns
      | some dcfg =>
        if dcfg.isExtension && d.head > 1 then
          { ns with flows := ns.flows.map fun fs =>
              if fs.status == .aborted && ((cfgs.find fs.flowId).map (·.isInterruptible)).getD true
              then { fs with status := .interrupted, interruptedBy := some n.uid } else fs }
        else ns

/-- one `for flow_state in new_state.flow_states` pass of the resume fix-point, starting at index `i`
    (the list may grow while it is traversed: Python list iteration sees appended items). -/
def resumePass (repaired : Bool) : Nat → Cfgs → State → Nat → Bool → Except Err (State × Bool)
  | 0, _, _, _, _ => .error .oof
  | f + 1, cfgs, ns, i, changes =>
    match ns.flows[i]? with
    | Option.none => .ok (ns, changes)
    | some fs =>
      if fs.status == .interrupted then
        let target : Option FS := match fs.interruptedBy with
          | Option.none => Option.none
          | some u => ns.flows.find? (fun (g : FS) => g.uid == u)
        let shouldResume := fs.interruptedBy.isNone || (match target with | some g => g.status == .completed | Option.none => false)
        let shouldAbort := !fs.interruptedBy.isNone && (match target with | some g => g.status == .aborted | Option.none => false)
        if shouldResume then
          match slideWithSubflows repaired SUB_FUEL cfgs ns { fs with status := .active, interruptedBy := Option.none } with
          | .error e => .error e
          | .ok (ns, fs) =>
            let fs := if fs.head < 0 then { fs with status := .completed } else fs
            resumePass repaired f cfgs { ns with flows := setAt ns.flows i fs } (i + 1) true
        else if shouldAbort then
          resumePass repaired f cfgs { ns with flows := setAt ns.flows i { fs with status := .aborted, interruptedBy := Option.none } } (i + 1) true
        else resumePass repaired f cfgs ns (i + 1) changes
      else resumePass repaired f cfgs ns (i + 1) changes

def resumeLoop (repaired : Bool) : Nat → Cfgs → State → Except Err State
  | 0, _, _ => .error .oof
  | f + 1, cfgs, ns =>
    match resumePass repaired 1000 cfgs ns 0 false with
    | .error e => .error e
    | .ok (ns, changes) => if changes then resumeLoop repaired f cfgs ns else .ok ns

def computeNextState (repaired : Bool) (cfgs : Cfgs) (st : State) (ev : Event) : Except Err State :=
  match ev with
  | .startAction => .ok st
  | .contextUpdate d => .ok { st with ctx := st.ctx.update d, upd := [], next := Option.none }
  | _ =>
    let ns : State := { ctx := st.ctx.withEvent ev, flows := [], next := Option.none, upd := [], ctr := st.ctr }
    match advanceAll repaired cfgs ev st.flows ns false with
    | .error e => .error e
    | .ok (ns, ext) =>
      match startNew repaired cfgs ev cfgs ns with
      | .error e => .error e
      | .ok ns =>
        let ns := if ext then reactivateAborted cfgs ns.flows [] ns else ns
        let ns := markInterrupted ns
        let ns := extensionInterrupt cfgs ns
        resumeLoop repaired 100 cfgs ns

/-! ## compute_next_steps -/

/-- the `hide_prev_turn` pre-pass; `none` = AssertionError / IndexError -/
def cutAtLastUtterance : List Event → Option (List Event)
  | [] => Option.none                       -- actual_history[-1] on an empty list
  | h =>
    -- end = len-1; while end > 0 and h[end].type != U: end -= 1; assert h[end].type == U; h[0:end]
    let rec go (l : List Event) (endIdx : Nat) : Option (List Event) :=
      match l[endIdx]? with
      | some (.other "UtteranceUserActionFinished" _) => some (l.take endIdx)
      | _ => match endIdx with
        | 0 => Option.none
        | n + 1 => go l n
    go h (h.length - 1)

def applyHide : List Event → List Event → Option (List Event)
  | [], acc => some acc
  | .hidePrevTurn :: rest, acc => match cutAtLastUtterance acc with
    | some acc' => applyHide rest acc'
    | Option.none => Option.none
  | e :: rest, acc => applyHide rest (acc ++ [e])

inductive Decision where
  | ctx (d : Ctx)
  | bot (intent : String)
  | act (name : String) (params : String) (resultKey : Option String)
  deriving Repr, DecidableEq, Inhabited

def stepToEvent : Elem → Option Decision
  | .runAction name value params rk =>
    if name == "utter" then (match value with | some v => some (.bot v) | Option.none => Option.none)
    else some (.act name params rk)
  | _ => Option.none

def replay (repaired : Bool) (cfgs : Cfgs) : List Event → State → Except Err State
  | [], st => .ok st
  | ev :: rest, st =>
    match computeNextState repaired cfgs st ev with
    | .error e => .error e
    | .ok st =>
      let st := if ev == .botIntent "stop" then { st with flows := [] } else st
      replay repaired cfgs rest st

inductive StepsRes where
  | ok (ds : List Decision) | exprErr | oof | otherErr (e : String)
  deriving Repr, DecidableEq

def decisionsOf (st : State) : List Decision :=
  (if st.upd.isEmpty then [] else [Decision.ctx st.upd]) ++
  (match st.next with
   | some n => (match stepToEvent n.elem with | some d => [d] | Option.none => [])
   | Option.none => [])

def computeNextSteps (repaired : Bool) (cfgs : Cfgs) (history : List Event) (config : Ctx := []) : StepsRes :=
  match applyHide history [] with
  | Option.none => .otherErr "hide_prev_turn"
  | some actual =>
    match replay repaired cfgs actual { ctx := config } with
    | .error .expr => .exprErr
    | .error .oof => .oof
    | .error .key => .otherErr "KeyError"
    | .error .index => .otherErr "IndexError"
    | .ok st =>
      if actual.getLast? == some (.botIntent "stop") then .ok [] else .ok (decisionsOf st)

end NemoVerif.V1Interp
