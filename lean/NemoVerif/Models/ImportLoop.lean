/-
  C13 — `ImportLoop`: the import fix-point loops of `RailsConfig.from_path` (rails/llm/config.py).

      def _join_config(dest_config, additional_config):            # the `import_paths` part
          dest_config["import_paths"] = dest_config.get("import_paths", [])
          for import_path in additional_config.get("import_paths", []):
              if import_path not in dest_config["import_paths"]:
                  dest_config["import_paths"].append(import_path)

      def _load_imported_paths(raw_config, colang_files):
          if "imported_paths" not in raw_config: raw_config["imported_paths"] = {}
          while len(raw_config["imported_paths"]) != len(raw_config["import_paths"]):
              for import_path in raw_config["import_paths"]:         # the LIVE list: `_join_config` appends to it in place
                  if import_path in raw_config["imported_paths"]: continue
                  actual_path = <resolution: the path itself, or under a COLANGPATH root, or that + ".co">
                  if actual_path is None: raise ValueError(...)
                  _raw_config, _colang_files = _load_path(actual_path)
                  _join_config(raw_config, _raw_config)
                  colang_files.extend(_colang_files)
                  raw_config["imported_paths"][import_path] = actual_path

      def _parse_colang_files_recursively(raw_config, colang_files, parsed_colang_files):
          while len(parsed_colang_files) != len(colang_files):
              current_file, current_path = colang_files[len(parsed_colang_files)]
              _parsed_config = parse_colang_file(...)                # errors wrapped: `ErrWrap`
              _join_config(raw_config, {"import_paths": _parsed_config.get("import_paths", [])})
              parsed_colang_files.append(_parsed_config)
              if raw_config.get("import_paths"): _load_imported_paths(raw_config, colang_files)

  The file system and the parser enter as a `World`: what an import path resolves to (the actual path and what
  `_load_path` finds there, in walk order: `.yml` files with their `import_paths`, `.co` files), and which imports a
  `.co` file has (or that it does not parse).  Python's `while` loops are fuel-indexed partial functions
  (`none` = the fuel ran out); the theorems of Theorems/C13.lean say for which worlds a fuel bound exists.
-/
namespace NemoVerif.ImportLoop

/-- what `_load_path` meets while walking a path -/
inductive Item where
  | yml (ips : List String)    -- a `.yml` / `.yaml` file and its `import_paths` (`[]` when it has none)
  | co (file : Nat)            -- a `.co` file
  deriving Repr, DecidableEq, Inhabited

structure World where
  /-- import path ↦ (actual path, items of `_load_path(actual path)`); `none`: "could not be resolved" -/
  resolve : String → Option (String × List Item)
  /-- `.co` file ↦ its `import_paths`; `none`: the parser raises -/
  parse : Nat → Option (List String)

inductive Err where
  | unresolved (p : String)    -- ValueError("Import path `p` could not be resolved.")
  | parse (file : Nat)         -- ColangParsingError naming the file
  | index                      -- IndexError (`colang_files[len(parsed)]` past the end; unreachable from `fromPath`)
  deriving Repr, DecidableEq, Inhabited

structure St where
  importPaths : List String              -- raw_config["import_paths"]
  imported : List (String × String)      -- raw_config["imported_paths"] (dict, insertion order)
  files : List Nat                       -- colang_files
  parsed : Nat                           -- len(parsed_colang_files)
  deriving Repr, DecidableEq, Inhabited

def St.keys (s : St) : List String := s.imported.map Prod.fst

/-- one step of the append-if-absent loop of `_join_config` -/
def joinStep (d : List String) (p : String) : List String := if p ∈ d then d else d ++ [p]

/-- `_join_config`, `import_paths` part -/
def joinPaths (dest add : List String) : List String := add.foldl joinStep dest

def ymlPaths : List Item → List String
  | [] => []
  | .yml ips :: r => ips ++ ymlPaths r
  | .co _ :: r => ymlPaths r

def coFiles : List Item → List Nat
  | [] => []
  | .yml _ :: r => coFiles r
  | .co f :: r => f :: coFiles r

/-- `_load_path`: `raw_config["import_paths"]` (the `.yml` files joined one after the other) and `colang_files` -/
def loadPath (items : List Item) : List String × List Nat := (joinPaths [] (ymlPaths items), coFiles items)

/-- body of the `for` loop of `_load_imported_paths` for one import path -/
def visit (w : World) (s : St) (p : String) : Except Err St :=
  if p ∈ s.keys then .ok s
  else match w.resolve p with
    | none => .error (.unresolved p)
    | some (actual, items) =>
      .ok { s with importPaths := joinPaths s.importPaths (loadPath items).1,
                   files := s.files ++ (loadPath items).2,
                   imported := s.imported ++ [(p, actual)] }

/-- `for import_path in raw_config["import_paths"]` from index `i` on (the list grows while it is iterated) -/
def forLoop (w : World) : Nat → Nat → St → Option (Except Err St)
  | 0, _, _ => none
  | n + 1, i, s =>
    match s.importPaths[i]? with
    | none => some (.ok s)
    | some p =>
      match visit w s p with
      | .error e => some (.error e)
      | .ok s' => forLoop w n (i + 1) s'

/-- `_load_imported_paths` -/
def whileLoop (w : World) : Nat → St → Option (Except Err St)
  | 0, _ => none
  | n + 1, s =>
    if s.imported.length = s.importPaths.length then some (.ok s)
    else match forLoop w n 0 s with
      | none => none
      | some (.error e) => some (.error e)
      | some (.ok s') => whileLoop w n s'

/-- `if raw_config.get("import_paths"): _load_imported_paths(...)` -/
def loadIfAny (w : World) (n : Nat) (s : St) : Option (Except Err St) :=
  if s.importPaths = [] then some (.ok s) else whileLoop w n s

/-- `_parse_colang_files_recursively` (the loop) -/
def parseLoop (w : World) : Nat → St → Option (Except Err St)
  | 0, _ => none
  | n + 1, s =>
    if s.parsed = s.files.length then some (.ok s)
    else match s.files[s.parsed]? with
      | none => some (.error .index)
      | some f =>
        match w.parse f with
        | none => some (.error (.parse f))
        | some ips =>
          match loadIfAny w n { s with importPaths := joinPaths s.importPaths ips, parsed := s.parsed + 1 } with
          | none => none
          | some (.error e) => some (.error e)
          | some (.ok s') => parseLoop w n s'

/-- the state `from_path` starts from: `_load_path(config_path)` -/
def initSt (items : List Item) : St :=
  { importPaths := (loadPath items).1, imported := [], files := (loadPath items).2, parsed := 0 }

/-- `RailsConfig.from_path` on a directory, up to the end of the import / parse loops -/
def fromPath (w : World) (n : Nat) (items : List Item) : Option (Except Err St) :=
  match loadIfAny w n (initSt items) with
  | none => none
  | some (.error e) => some (.error e)
  | some (.ok s) => parseLoop w n s

/-- `RailsConfig.from_content(colang_content, yaml_content)`: the YAML's `import_paths` joined first, the main content parsed
    (outside the wrapper), its imports joined, `colang_files = [main.co]` already parsed; then `_load_imported_paths`, then the
    parse loop for the files the imports brought in -/
def contentSt (yml ips : List String) (main : Nat) : St :=
  { importPaths := joinPaths (joinPaths [] yml) ips, imported := [], files := [main], parsed := 1 }

def fromContent (w : World) (n : Nat) (yml : List String) (main : Nat) : Option (Except Err St) :=
  match w.parse main with
  | none => some (.error (.parse main))
  | some ips =>
    match loadIfAny w n (contentSt yml ips main) with
    | none => none
    | some (.error e) => some (.error e)
    | some (.ok s) => parseLoop w n s

/-- number of `.co` files an import path brings in -/
def nFiles (w : World) (p : String) : Nat :=
  match w.resolve p with
  | some (_, items) => (coFiles items).length
  | none => 0

/-- files still to come: those of the paths of `U` that are not imported yet -/
def pend (w : World) (k : List String) : List String → Nat
  | [] => 0
  | x :: U => (if x ∈ k then 0 else nFiles w x) + pend w k U

/-- bound on the final number of files -/
def total (w : World) (U : List String) (s : St) : Nat := s.files.length + pend w s.keys U

/-- decidable form of the hypotheses of `config_load_terminates` for a world given by tables, with `U` = the listed paths
    (evaluated by the driver on the world read off the real file tree) -/
def closedItems (w : World) (U : List String) (items : List Item) : Bool :=
  (ymlPaths items).all (fun p => U.contains p) &&
    (coFiles items).all fun f => match w.parse f with
      | some ips => ips.all (fun p => U.contains p)
      | none => true

def closedWorld (w : World) (U : List String) (init : List Item) : Bool :=
  closedItems w U init && U.all fun p => match w.resolve p with
    | some (_, items) => closedItems w U items
    | none => true

/-- the `import_paths` join of the seeded change C13-d (list comprehension filtered against the paths known BEFORE the join):
    kept as a definition so that the difference is a statement (`Theorems/C13.lean: seeded_join_never_returns`) -/
def joinFilter (dest add : List String) : List String := dest ++ add.filter (fun p => !(dest.contains p))

end NemoVerif.ImportLoop
