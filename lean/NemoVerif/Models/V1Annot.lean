/-
  V1Annot — the element dicts of a Colang 1.0 flow WITH the loop keys the compiler's annotation pass leaves on
  them, and `slide` reading those dicts key by key.

  `coyml_parser._extract_elements` (while case) writes `_next_on_break` / `_next_on_continue` into EVERY element
  of a loop body that does not carry `_next_on_break` yet — `if`, `set`, `jump`, step elements and inner `while`
  bodies included, not only `break` / `continue`.  `V1Interp.Elem` has a slot for these keys only where the
  unchanged `slide` reads them (`whileE … onBreak`, `breakE`, `continueE`); the keys on all other elements were
  dropped by the adapter.  A `slide` that reads a loop key on another element type (seeded change C14-e: `if`
  skips its body by `_next_on_break` when the key is present) is therefore outside `V1Interp.slide` by
  construction.  This file carries the keys:

  * `AElem` — an element dict: the element proper (`el`), `brk` = `_next_on_break`, `cnt` = `_next_on_continue`
    exactly as found in the dict (`none` = key absent);
  * `compileA` — mirror of `_extract_elements` producing annotated dicts: blocks compiled recursively, the `while`
    element gets `_next_on_break = n+2`, then `for j in range(n): if "_next_on_break" not in do_elements[j]: …`
    (`annA`) over the WHOLE body;
  * `sstepA` / `slideA` — `slide` on these dicts, key by key as sliding.py has it: `if` reads `_next_else` only,
    `while` reads `pattern_item["_next_on_break"]` (KeyError if absent), `break` `.get("_next_on_break", 1)`,
    `continue` `.get("_next_on_continue", 1)`; no other element type reads a loop key;
  * `sstepIfBrk` / `slideIfBrk` — the variant in which `if` and `while` share one conditional-jump branch
    (`_next_on_break` if present, else `_next_else`), kept as a proved counterexample (Theorems/C14.lean).
-/
import NemoVerif.Models.V1Struct
namespace NemoVerif.V1Annot
open NemoVerif.V1Interp NemoVerif.V1Struct

structure AElem where
  el : Elem
  /-- `_next_on_break` as found in the dict -/
  brk : Option Int := none
  /-- `_next_on_continue` as found in the dict -/
  cnt : Option Int := none
  deriving DecidableEq, Repr, Inhabited

/-- what the adapter used to hand to the model: the element without the loop keys it does not read -/
def proj (code : List AElem) : List Elem := code.map (·.el)

/-- a freshly extracted element: only the `while` element carries a loop key (`_next_on_break = n + 2`) -/
def plain : Elem → AElem
  | .whileE c n ob => { el := .whileE c n ob, brk := some ob }
  | e => { el := e }

/-- one step of `for j in range(n): if "_next_on_break" not in do_elements[j]: …` -/
def annA (n j : Nat) (a : AElem) : AElem :=
  match a.brk with
  | some _ => a          -- "we make sure we don't override an inner loop"
  | none =>
    { el := (match a.el with
        | .breakE _ => .breakE (some ((n : Int) + 1 - j))
        | .continueE _ => .continueE (some (-1 * (j : Int) - 1))
        | e => e),
      brk := some ((n : Int) + 1 - j), cnt := some (-1 * (j : Int) - 1) }

def annotateA (n : Nat) : Nat → List AElem → List AElem
  | _, [] => []
  | j, a :: as => annA n j a :: annotateA n (j + 1) as

/-- `_extract_elements` on the structured subset, with the loop keys on every element -/
def compileA : Prog → List AElem
  | .nil => []
  | .step s r => plain (elemOf s) :: compileA r
  | .set k e r => plain (.setE k e 1) :: compileA r
  | .ite c t e r =>
    let T := compileA t
    let E := compileA e
    if E.length = 0 then plain (.ifE c (T.length + 1)) :: (T ++ compileA r)
    else plain (.ifE c (T.length + 2)) :: (T ++ (plain (.jump (E.length + 1) false) :: (E ++ compileA r)))
  | .while c b r =>
    let B := compileA b
    plain (.whileE c 1 (B.length + 2)) :: (annotateA B.length 0 B ++ (plain (.jump (-1 * ((B.length : Int) + 1)) false) :: compileA r))
  | .brk r => plain (.breakE Option.none) :: compileA r
  | .cont r => plain (.continueE Option.none) :: compileA r

/-- the dict and the adapter's element agree on the keys both hold -/
def Coherent (a : AElem) : Prop :=
  match a.el with
  | .whileE _ _ ob => a.brk = some ob
  | .breakE o => a.brk = o
  | .continueE o => a.cnt = o ∧ (a.brk = none ↔ a.cnt = none)
  | _ => True

instance (a : AElem) : Decidable (Coherent a) := by
  unfold Coherent; cases a.el <;> infer_instance

/-- One iteration of the `while True` loop of `slide`, on the dicts. -/
def sstepA (code : List AElem) (st : SSt) (h : Int) : StepRes :=
  match code[h.toNat]? with
  | Option.none => .err
  | some a =>
    match a.el with
    | .ifE c ne => (match eval st.ctx c with
      | Option.none => .err
      | some v => .next st (if v.truthy then h + 1 else h + ne))        -- `head += int(pattern_item["_next_else"])`
    | .whileE c n _ => (match eval st.ctx c with
      | Option.none => .err
      | some v => if v.truthy then .next st (h + n) else
          (match a.brk with                                                -- `pattern_item["_next_on_break"]`
           | some ob => .next st (h + ob)
           | Option.none => .err))
    | .jump n abs => .next st (if abs then n else h + n)
    | .setE k e n => (match eval st.ctx e with
      | Option.none => .err
      | some v => .next { ctx := st.ctx.set k v, upd := st.upd.set k v } (h + n))
    | .breakE _ => .next st (h + a.brk.getD 1)                            -- `.get("_next_on_break", 1)`
    | .continueE _ => .next st (h + a.cnt.getD 1)                         -- `.get("_next_on_continue", 1)`
    | _ => .stop

/-- `slide(state, flow_config, head)` on the dicts -/
def slideA : Nat → List AElem → SSt → Int → Int → SRes
  | 0, _, _, _, _ => .oof
  | f + 1, code, st, h, prev =>
    if h = code.length ∨ h < 0 then .fin st (-1 * (prev + 1))
    else match sstepA code st h with
      | .next st' h' => slideA f code st' h' h
      | .stop => .at st h
      | .err => .err

/-- The "one conditional-jump branch for `if` and `while`" variant: a false condition skips the body by
    `pattern_item.get("_next_on_break", pattern_item.get("_next_else"))`. -/
def sstepIfBrk (code : List AElem) (st : SSt) (h : Int) : StepRes :=
  match code[h.toNat]? with
  | some { el := .ifE c ne, brk := b, .. } => (match eval st.ctx c with
    | Option.none => .err
    | some v => .next st (if v.truthy then h + 1 else h + b.getD ne))
  | _ => sstepA code st h

def slideIfBrk : Nat → List AElem → SSt → Int → Int → SRes
  | 0, _, _, _, _ => .oof
  | f + 1, code, st, h, prev =>
    if h = code.length ∨ h < 0 then .fin st (-1 * (prev + 1))
    else match sstepIfBrk code st h with
      | .next st' h' => slideIfBrk f code st' h' h
      | .stop => .at st h
      | .err => .err

end NemoVerif.V1Annot
