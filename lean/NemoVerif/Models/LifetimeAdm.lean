/-
  C06 (wave 4) — executable definitions for the activation reference count:
  `liveRefs` (child-list entries held by LIVE instances), the invariant `actCountB` ("the counter of a reference
  instance never exceeds the number of live activators") as a Bool — evaluated by the driver on every replayed real
  state —, and the admissibility of an operation (`opAdm`), evaluated by the driver on every operation of every
  replayed real trace.  Core Lean only (linked into the driver).  Theorems: Lemmas/LifetimeAct.lean, Theorems/C06.lean.
-/
import NemoVerif.Models.LifetimeOps
namespace NemoVerif.Lifetime

/-- STOPPED or FINISHED -/
def FStatus.dead : FStatus → Bool
  | .stopped | .finished => true
  | _ => false

/-- occurrences of `r` in the child list of `q`, if `q` is alive and not exempt -/
def refsOf (s : State) (E : List Nat) (r q : Nat) : Nat :=
  match s.flows q with
  | some f => if !f.status.dead && !E.contains q then f.children.count r else 0
  | none => 0

/-- number of child-list entries for `r` held by live, non-exempt instances: every `activate` statement whose
    StartFlow event was processed while its sender was alive leaves one (first activation: `_start_flow`;
    re-activation: the "already activated" branch), and it stays until the sender ends -/
def liveRefs (s : State) (E : List Nat) (r : Nat) : Nat := (s.order.map (refsOf s E r)).sum

/-- Bool version of `IsRef` (Lemmas/LifetimeAct.lean): the parent is an instance of another flow -/
def isRefB (s : State) (f : Flow) : Bool :=
  match f.parent with
  | none => false
  | some p =>
    match s.flows p with
    | none => false
    | some pf => pf.flowId != f.flowId

/-- the invariant, executable: `activated ≤ liveRefs` for every reference instance -/
def actCountB (s : State) : Bool :=
  s.order.all fun r =>
    match s.flows r with
    | some f => !isRefB s f || decide (f.activated ≤ liveRefs s [] r)
    | none => true

/-- admissible operations: the first instance of a flow is created with `activated ∈ {0, 1}` (`_start_flow`: the
    `activated=True` of an `activate` statement becomes 1); only the restart of an activated flow — a child of the
    reference instance of the SAME flow — inherits a larger count. -/
def opAdm (s : State) : IOp → Bool
  | .startChild _ fid p k => decide (k ≤ 1) || (match s.flows p with | some pf => pf.flowId == fid | none => true)
  | _ => true

/-- every operation of the list is admissible in the state in which it is applied -/
def admFrom : State → List IOp → Bool
  | _, [] => true
  | s, op :: ops => opAdm s op && admFrom (applyOp s op) ops

/-- the seeded variant of the `StartFlow` branch (seed C06-e): the re-activation branch is tested BEFORE the guard that
    drops the event of an ended sender.  NOT the code as it is — kept as the subject of
    `dead_sender_reactivation_seeded_counterexample`. -/
def processStartFlowSeeded (s : State) (fid : Nat) (known act hasInst : Bool) (source : Nat) (pm : Nat → Bool) :
    Except Err (State × StartRes) :=
  if !known then .ok (s, .ignored)
  else
    let started := if act && hasInst then getRefActivated s fid pm s.order else none
    match s.flows source with
    | none => .error .key
    | some sf =>
      let isActivatedChild := fid == sf.flowId
      let isRestart := isActivatedChild && act
      match started with
      | some r =>
        if !isActivatedChild then
          match s.flows r with
          | none => .error .key
          | some rf =>
            let s1 := setFlow s r { rf with activated := rf.activated + 1 }
            let s2 := modFlow s1 source fun f => { f with children := f.children ++ [r] }
            .ok (push s2 (.flowStarted r), .reused r)
        else if ((sf.status == .stopped || sf.status == .finished) && !isRestart) || (isRestart && sf.activated == 0) then .ok (s, .ignored)
        else .ok (s, .create r)
      | none =>
        if ((sf.status == .stopped || sf.status == .finished) && !isRestart) || (isRestart && sf.activated == 0) then .ok (s, .ignored)
        else .ok (s, .create source)

end NemoVerif.Lifetime
