/-
  C15 — the repaired `LLMParams` (fixes/C15-llm-params-overlap.diff) as a labelled transition system.

  Mirrors `llm/params.py` with the repair:
    * `_open_sections[id(llm)]`: the sections (`with llm_params(...)`) currently open on the shared LLM object,
      oldest first                                                                   -> `Sys.opn`
    * `LLMParams.__enter__`: a section is DETACHED when a section of another task (or a detached one) is open:
      it registers itself but leaves the object alone; otherwise per altered parameter save + set, the saved
      value being the one recorded by the oldest open section that altered the same parameter, else the value
      found on the object                                                              -> `enterR` (`enterA`)
    * `LLMParams.__exit__`: the section leaves the registry; every parameter it altered gets the value of the most
      recently opened section still open that altered it, else the saved value          -> `exitR`
    * `llm_for_call` (used by `llm_call` inside a parameterless section that marks the call as in flight): the
      object itself when the sections that have set their parameters on it are exactly the open sections of the
      calling task, else a copy: saved values of ALL open sections written back, then the parameters of the
      calling task's open sections (outermost first)                                   -> `viewR`
  Transitions are the atomic sections of the real code (no `await` inside `__enter__`, `__exit__`, `llm_for_call`
  + the synchronous start of the LLM call); a schedule is ANY sequence of labels `(manager, enter | call | exit)`;
  a label is enabled only in the states where the code can perform it (enter: not open yet; call / exit: open) and
  is a no-op otherwise.  Every manager `m` belongs to a task `owner m` (asyncio task = context copy: the context
  variable `_own_sections` holds the sections opened by the task).

  Abstract stores (`Nat → V`, every parameter exists on the object), like `Params.Sys`.
-/
import NemoVerif.Models.Isolation

namespace NemoVerif.Isolation.ParamsR
open NemoVerif.Isolation.Params (upd setAll Act)

/-- static description of the managers: the task each one belongs to, its `altered_params` (a dict) -/
structure Mgrs (V : Type) where
  owner : Nat → Nat
  alt : Nat → List (Nat × V)

structure Sys (V : Type) where
  store : Nat → V                      -- the parameters on the shared LLM object
  opn : List Nat                       -- `_open_sections[id(llm)]`, oldest first
  orig : Nat → List (Nat × V)          -- `original_params` of each manager
  det : Nat → Bool                     -- `detached` of each manager
  calls : List (Nat × (Nat → V))       -- log: (manager, the parameter values the LLM call ran with)

variable {V : Type}

/-- dict lookup -/
def lookup (p : Nat) : List (Nat × V) → Option V
  | [] => none
  | (q, v) :: r => if q = p then some v else lookup p r

/-- `for section in open_sections: if param in section.original_params: … = section.original_params[param]; break` -/
def recorded (orig : Nat → List (Nat × V)) (p : Nat) : List Nat → Option V
  | [] => none
  | s :: r => match lookup p (orig s) with
    | some o => some o
    | none => recorded orig p r

/-- one iteration of the loop of `__enter__`: save (from the registry, else from the object), set -/
def enter1 (orig : Nat → List (Nat × V)) (opn : List Nat) (acc : (Nat → V) × List (Nat × V)) (pv : Nat × V) :
    (Nat → V) × List (Nat × V) :=
  let o := (recorded orig pv.1 opn).getD (acc.1 pv.1)
  (upd acc.1 pv.1 pv.2, acc.2 ++ [(pv.1, o)])

/-- an attached section: sets its parameters on the shared object -/
def enterA (M : Mgrs V) (st : Sys V) (m : Nat) : Sys V :=
  let r := (M.alt m).foldl (enter1 st.orig st.opn) (st.store, [])
  { st with store := r.1, orig := upd st.orig m r.2, opn := st.opn ++ [m], det := upd st.det m false }

/-- a detached section: only registers itself -/
def enterD (st : Sys V) (m : Nat) : Sys V :=
  { st with orig := upd st.orig m [], opn := st.opn ++ [m], det := upd st.det m true }

/-- `any(section.detached or section not in own_sections for section in open_sections)` -/
def mustDetach (M : Mgrs V) (st : Sys V) (m : Nat) : Bool :=
  st.opn.any (fun s => st.det s || !(M.owner s == M.owner m))

def enterR (M : Mgrs V) (st : Sys V) (m : Nat) : Sys V :=
  if mustDetach M st m then enterD st m else enterA M st m

/-- `for section in reversed(open_sections): if param in section.original_params: value = section.altered_params[param]; break`
    (the argument is the reversed list) -/
def newestFrom (M : Mgrs V) (orig : Nat → List (Nat × V)) (p : Nat) : List Nat → Option V
  | [] => none
  | s :: r => if (lookup p (orig s)).isSome then lookup p (M.alt s) else newestFrom M orig p r

def exit1 (M : Mgrs V) (orig : Nat → List (Nat × V)) (opn' : List Nat) (σ : Nat → V) (po : Nat × V) : Nat → V :=
  upd σ po.1 ((newestFrom M orig po.1 opn'.reverse).getD po.2)

def exitR (M : Mgrs V) (st : Sys V) (m : Nat) : Sys V :=
  let opn' := st.opn.filter (fun s => s ≠ m)
  { st with opn := opn', store := (st.orig m).foldl (exit1 M st.orig opn') st.store }

/-- `all((not section.detached) == (section in own_sections) for section in open_sections)`: the parameters found
    on the shared object are exactly those of the calling task -/
def sharedOK (M : Mgrs V) (st : Sys V) (m : Nat) : Bool :=
  st.opn.all (fun s => (!st.det s) == (M.owner s == M.owner m))

/-- `llm_for_call` seen as the parameter values the call of manager `m`'s task runs with -/
def viewR (M : Mgrs V) (st : Sys V) (m : Nat) : Nat → V :=
  if sharedOK M st m then st.store
  else
    let own := st.opn.filter (fun s => M.owner s == M.owner m)
    let reset := st.opn.reverse.foldl (fun σ s => setAll σ (st.orig s)) st.store
    own.foldl (fun σ s => setAll σ (M.alt s)) reset

def stepR (M : Mgrs V) (st : Sys V) : Nat × Act → Sys V
  | (m, .enter) => if m ∈ st.opn then st else enterR M st m
  | (m, .call) => if m ∈ st.opn then { st with calls := st.calls ++ [(m, viewR M st m)] } else st
  | (m, .exit) => if m ∈ st.opn then exitR M st m else st

def runR (M : Mgrs V) (st : Sys V) (sched : List (Nat × Act)) : Sys V := sched.foldl (stepR M) st

def initR (cfg : Nat → V) : Sys V := { store := cfg, opn := [], orig := fun _ => [], det := fun _ => false, calls := [] }

/-- specification: the configured values overridden by the sections `secs` (oldest first) -/
def applied (M : Mgrs V) (cfg : Nat → V) (secs : List Nat) : Nat → V :=
  secs.foldl (fun σ s => setAll σ (M.alt s)) cfg

end NemoVerif.Isolation.ParamsR
