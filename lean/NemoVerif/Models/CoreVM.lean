/-
  CoreVM — executable model of the Colang 2.x interpreter (statemachine.py / flows.py), DESIGN §5.2.
    Syntax  : expanded elements (`Prim`), mini expression language
    State   : run-time state; the index-relevant part is a `CoreIndex.IState` changed only through `CoreIndex.step`
    Eval    : `eval_expression` on the mini language
    Events  : events from elements / objects, matching scores, outgoing events
    Interp  : index-aware writes, create/add instance, `_abort_flow`, `_finish_flow`, `slide`, `_advance_head_front`
    Run     : `_clean_up_state`, internal-event processing, candidates, event matching, action conflicts, the loops
-/
import NemoVerif.Models.CoreVM.Run
