/-
  C09, layer 1 — the dispatch index of the Colang 2.x interpreter and its incremental maintenance.

  Python (statemachine.py / flows.py):
    state.event_matching_heads              : Dict[event name, List[(flow uid, head uid)]]
    state.event_matching_heads_reverse_map  : Dict[flow uid + head uid, event name]
    _add_head_to_event_matching_structures / _remove_head_from_event_matching_structures / _flow_head_changed
    FlowHead.position / FlowHead.status setters fire `_flow_head_changed` (only when the value changes)
    FlowState.status setter fires NOTHING; `heads[...] = h`, `del heads[uid]`, `heads.clear()`, `heads = {...}` fire NOTHING.

  The model keeps exactly the index-relevant part of the interpreter state: instances (uid, flow status,
  heads in dict order), heads (uid, position, status) and, per head, the ghost field `elem` =
  "event name of the match element at `pos`, as `get_event_name_from_element` computed it at the last
  callback" (`none` when the element at `pos` is not a match element or `pos` is out of range).
  Every operation that moves a head carries the name oracle value for the new position, supplied by the
  program (CoreVM) or, in the record/replay tie, by the real interpreter.

  Dicts are insertion-ordered association lists (`OMap`), because Python dict order is observable.
  The reverse-map key `flow_uid + head_uid` (string concatenation) is modelled as the pair — injective
  because head uids are fixed-length uuid4 strings (modelling assumption, DESIGN §5.2).
-/
namespace NemoVerif

/-! ### Insertion-ordered association lists (Python dicts) -/
namespace OMap

variable {κ : Type} [DecidableEq κ] {α : Type}

/-- `d.get(k)` -/
def lookup (k : κ) : List (κ × α) → Option α
  | [] => none
  | (k', v) :: rest => if k' = k then some v else lookup k rest

/-- `d[k] = v` : overwrite in place when the key exists, append otherwise -/
def insert (k : κ) (v : α) : List (κ × α) → List (κ × α)
  | [] => [(k, v)]
  | (k', v') :: rest => if k' = k then (k', v) :: rest else (k', v') :: insert k v rest

/-- `d.pop(k)` / `del d[k]` -/
def erase (k : κ) : List (κ × α) → List (κ × α)
  | [] => []
  | (k', v') :: rest => if k' = k then erase k rest else (k', v') :: erase k rest

/-- `d[k] = f(d[k])` for an existing key (no-op when the key is absent) -/
def modify (k : κ) (f : α → α) : List (κ × α) → List (κ × α)
  | [] => []
  | (k', v') :: rest => if k' = k then (k', f v') :: modify k f rest else (k', v') :: modify k f rest

def contains (k : κ) (l : List (κ × α)) : Bool := (lookup k l).isSome

def keys (l : List (κ × α)) : List κ := l.map (·.1)

end OMap

namespace CoreIndex

inductive HeadStatus where
  | active | inactive | merging
  deriving DecidableEq, Repr, Inhabited

inductive FlowStatus where
  | waiting | starting | started | stopping | stopped | finished
  deriving DecidableEq, Repr, Inhabited

/-- `is_listening_flow` -/
def FlowStatus.listening : FlowStatus → Bool
  | .waiting | .started | .starting => true
  | _ => false

/-- `is_active_flow` -/
def FlowStatus.isActive : FlowStatus → Bool
  | .started | .starting => true
  | _ => false

/-- `_is_done_flow` -/
def FlowStatus.done : FlowStatus → Bool
  | .stopped | .finished => true
  | _ => false

abbrev FUid := String
abbrev HUid := String
/-- reverse-map key (Python: `flow_state.uid + head.uid`) -/
abbrev Key := FUid × HUid

structure Head where
  uid : HUid
  pos : Nat
  status : HeadStatus
  /-- ghost: event name of the match element at `pos` (computed at the last callback) -/
  elem : Option String
  deriving Repr, Inhabited, DecidableEq

structure Inst where
  uid : FUid
  status : FlowStatus
  heads : List Head
  deriving Repr, Inhabited

structure IState where
  insts : List Inst := []
  /-- `state.event_matching_heads` -/
  index : List (String × List Key) := []
  /-- `state.event_matching_heads_reverse_map` -/
  rev : List (Key × String) := []
  deriving Repr, Inhabited

/-! ### The two maps -/

/-- `state.event_matching_heads.get(nm, [])` -/
def bucket (s : IState) (nm : String) : List Key := (OMap.lookup nm s.index).getD []

/-- `state.event_matching_heads_reverse_map.get(key)` -/
def reg (s : IState) (k : Key) : Option String := OMap.lookup k s.rev

/-- `_remove_head_from_event_matching_structures` -/
def rawRemove (s : IState) (k : Key) : IState :=
  match OMap.lookup k s.rev with
  | none => s
  | some nm => { s with index := OMap.modify nm (fun ks => ks.erase k) s.index, rev := OMap.erase k s.rev }

/-- `_add_head_to_event_matching_structures` with the event name already computed -/
def rawAdd (s : IState) (k : Key) (nm : String) : IState :=
  { s with
    index := (match OMap.lookup nm s.index with
      | none => s.index ++ [(nm, [k])]
      | some _ => OMap.modify nm (fun ks => ks ++ [k]) s.index),
    rev := OMap.insert k nm s.rev }

/-- `_flow_head_changed(state, flow_state, head)` for a head object with the given status / element,
    whose flow has the given status. -/
def headChanged (s : IState) (k : Key) (fst : FlowStatus) (hst : HeadStatus) (elem : Option String) : IState :=
  let s1 := rawRemove s k
  match elem with
  | some nm => if hst ≠ .inactive ∧ fst.listening then rawAdd s1 k nm else s1
  | none => s1

/-! ### Instances and heads -/

def findInst (s : IState) (f : FUid) : Option Inst := s.insts.find? (·.uid = f)

def Inst.findHead (i : Inst) (h : HUid) : Option Head := i.heads.find? (·.uid = h)

def modifyInst (s : IState) (f : FUid) (g : Inst → Inst) : IState :=
  { s with insts := s.insts.map fun i => if i.uid = f then g i else i }

def Inst.modifyHead (i : Inst) (h : HUid) (g : Head → Head) : Inst :=
  { i with heads := i.heads.map fun x => if x.uid = h then g x else x }

/-! ### Operations: one per Python statement (group) that writes `position`, `status`, `heads`, `FlowState.status` -/

inductive Op where
  /-- `add_new_flow_instance`: new instance (status WAITING) with one head at position 0, ACTIVE;
      callbacks installed; `_flow_head_changed` called. `nm0` = name oracle at position 0. -/
  | addInst (f : FUid) (h : HUid) (nm0 : Option String)
  /-- `head.position = p` (setter; fires the callback iff the value changes). `nm` = name oracle at `p`. -/
  | setPos (f : FUid) (h : HUid) (p : Nat) (nm : Option String)
  /-- `head.status = st` (setter; fires the callback iff the value changes). `nm` = name oracle at the current position. -/
  | setStatus (f : FUid) (h : HUid) (st : HeadStatus) (nm : Option String)
  /-- `ForkHead`: `flow_state.heads[h'] = FlowHead(...)` (position 0, ACTIVE, NOT registered), later
      `new_head.position = p` (fires the callback iff `p ≠ 0`). -/
  | fork (f : FUid) (h' : HUid) (nm0 : Option String) (p : Nat) (nm : Option String)
  /-- `del flow_state.heads[h]` (no callback) -/
  | delHead (f : FUid) (h : HUid)
  /-- `for head in heads.values(): _remove_head_from_event_matching_structures(...)` then `heads.clear()` -/
  | dropHeads (f : FUid)
  /-- a single direct `_remove_head_from_event_matching_structures(state, flow_state, head)` that is NOT part
      of a complete `dropHeads` group (the replay uses it when the recorded pattern is incomplete). -/
  | rmHead (f : FUid) (h : HUid)
  /-- bare `heads.clear()` (no explicit removal) — never executed by the shipped code; what a faulty
      `_finish_flow` would do. Present so that the replay can express it and the guard can reject it. -/
  | clearHeads (f : FUid)
  /-- main-flow restart in `_finish_flow` (after `dropHeads`): `_flow_head_changed(state, flow_state, new_head)`
      on the not yet installed head, `flow_state.heads = {h: new_head}`, `flow_state.status = WAITING`. -/
  | mainRestart (f : FUid) (h : HUid) (nm0 : Option String)
  /-- `flow_state.status = st` (FlowState setter, no callback) -/
  | setFlowStatus (f : FUid) (st : FlowStatus)
  /-- `_clean_up_state`: `del state.flow_states[f]` -/
  | removeInst (f : FUid)
  deriving Repr, Inhabited

def newHead (h : HUid) (nm0 : Option String) : Head := { uid := h, pos := 0, status := .active, elem := nm0 }

/-- setter semantics shared by `position` and `status` -/
def touchHead (s : IState) (f : FUid) (h : HUid) (g : Head → Head) : IState :=
  match findInst s f with
  | none => s
  | some i =>
    match i.findHead h with
    | none => s
    | some hd =>
      let hd' := g hd
      let s1 := modifyInst s f fun i => i.modifyHead h g
      headChanged s1 (f, h) i.status hd'.status hd'.elem

def step (s : IState) : Op → IState
  | .addInst f h nm0 =>
    let s1 := { s with insts := s.insts ++ [{ uid := f, status := .waiting, heads := [newHead h nm0] }] }
    headChanged s1 (f, h) .waiting .active nm0
  | .setPos f h p nm =>
    match (findInst s f).bind (·.findHead h) with
    | none => s
    | some hd => if hd.pos = p then s else touchHead s f h fun x => { x with pos := p, elem := nm }
  | .setStatus f h st nm =>
    match (findInst s f).bind (·.findHead h) with
    | none => s
    | some hd => if hd.status = st then s else touchHead s f h fun x => { x with status := st, elem := nm }
  | .fork f h' nm0 p nm =>
    let s1 := modifyInst s f fun i => { i with heads := i.heads ++ [newHead h' nm0] }
    if p = 0 then s1 else touchHead s1 f h' fun x => { x with pos := p, elem := nm }
  | .delHead f h =>
    modifyInst s f fun i => { i with heads := i.heads.filter (·.uid ≠ h) }
  | .dropHeads f =>
    match findInst s f with
    | none => s
    | some i =>
      let s1 := i.heads.foldl (fun acc hd => rawRemove acc (f, hd.uid)) s
      modifyInst s1 f fun i => { i with heads := [] }
  | .rmHead f h => rawRemove s (f, h)
  | .clearHeads f =>
    modifyInst s f fun i => { i with heads := [] }
  | .mainRestart f h nm0 =>
    match findInst s f with
    | none => s
    | some i =>
      let s1 := headChanged s (f, h) i.status .active nm0
      modifyInst s1 f fun i => { i with heads := [newHead h nm0], status := .waiting }
  | .setFlowStatus f st =>
    modifyInst s f fun i => { i with status := st }
  | .removeInst f =>
    { s with insts := s.insts.filter (·.uid ≠ f) }

/-! ### Pointwise form of the specification (used by guards and invariants) -/

/-- pointwise form of the scan inside one instance -/
def Inst.want (i : Inst) (h : HUid) : Option String :=
  if i.status.listening then
    match i.findHead h with
    | none => none
    | some hd => if hd.status ≠ .inactive then hd.elem else none
  else none

/-- pointwise form of the scan: the name under which head `k` should be registered -/
def want (s : IState) (k : Key) : Option String :=
  match findInst s k.1 with
  | none => none
  | some i => i.want k.2

def instStatus (s : IState) (f : FUid) : Option FlowStatus := (findInst s f).map (·.status)

/-! ### Guards: the side conditions under which an operation keeps the index exact.
    Each one is a fact about the Python code at the place where the operation occurs; the replay
    evaluates them on the recorded operation stream of the real interpreter. -/

def instUids (s : IState) : List FUid := s.insts.map (·.uid)
def Inst.headUids (i : Inst) : List HUid := i.heads.map (·.uid)

def Op.guard (s : IState) : Op → Bool
  | .addInst f _ _ => !(instUids s).contains f
  | .setPos f h _ _ => ((findInst s f).bind (·.findHead h)).isSome
  | .setStatus f h _ _ => ((findInst s f).bind (·.findHead h)).isSome
  | .fork f h' nm0 p _ =>
    match findInst s f with
    | none => false
    | some i => !(i.headUids.contains h') && (p != 0 || nm0.isNone) && !i.status.done
  | .delHead f h => (reg s (f, h)).isNone
  | .dropHeads _ => true
  | .rmHead f h => (want s (f, h)).isNone
  | .clearHeads f =>
    match findInst s f with
    | none => true
    | some i => i.heads.all fun hd => (reg s (f, hd.uid)).isNone
  | .mainRestart f _ _ =>
    match findInst s f with
    | none => false
    | some i => i.heads.isEmpty && i.status.listening
  | .setFlowStatus f st =>
    match findInst s f with
    | none => true
    | some i => st == .stopping || i.heads.isEmpty || (i.status != .stopping && st.listening == i.status.listening)
  | .removeInst f =>
    match findInst s f with
    | none => true
    | some i => i.heads.isEmpty

/-- replay: run the operations, collecting the positions whose guard failed -/
def run (s : IState) (ops : List Op) : IState × List Nat :=
  let r := ops.foldl (fun (acc : IState × List Nat × Nat) op =>
    let (st, bad, n) := acc
    (step st op, (if op.guard st then bad else bad ++ [n]), n + 1)) (s, [], 0)
  (r.1, r.2.1)

/-! ### Specification: the from-scratch scan -/

/-- all `(event name, (instance, head))` with head status ≠ INACTIVE, instance listening, element at
    the head position a match element -/
def scan (s : IState) : List (String × Key) :=
  s.insts.flatMap fun i =>
    if i.status.listening then
      i.heads.filterMap fun hd =>
        if hd.status ≠ .inactive then hd.elem.map fun nm => (nm, (i.uid, hd.uid)) else none
    else []

/-- the index as a list of `(event name, key)` entries in dict / list order -/
def entries (s : IState) : List (String × Key) :=
  s.index.flatMap fun e => e.2.map fun k => (e.1, k)

/-! ### Invariants (conjunction of small named predicates, DESIGN §5.2) -/

/-- index and reverse map are inverse of each other: key `k` occurs in bucket `nm` exactly once when
    the reverse map says `nm`, and not at all otherwise. -/
def MapsConsistent (s : IState) : Prop :=
  ∀ (k : Key) (nm : String), (bucket s nm).count k = if reg s k = some nm then 1 else 0

/-- instance uids are pairwise distinct, head uids are pairwise distinct within an instance -/
def UidsUnique (s : IState) : Prop :=
  (instUids s).Nodup ∧ ∀ i ∈ s.insts, i.headUids.Nodup

/-- every registered key names an existing head of an existing instance -/
def Owned (s : IState) : Prop :=
  ∀ k nm, reg s k = some nm → ∃ i, findInst s k.1 = some i ∧ (i.findHead k.2).isSome

/-- the reverse map agrees with the pointwise scan, except for instances that are STOPPING (between
    the `abort` statement and `_abort_flow`, where Python itself is transiently stale) -/
def Exact (s : IState) : Prop :=
  ∀ k, instStatus s k.1 ≠ some .stopping → reg s k = want s k

structure IndexOK (s : IState) : Prop where
  maps : MapsConsistent s
  uids : UidsUnique s
  owned : Owned s
  exact : Exact s

def NoStopping (s : IState) : Prop := ∀ i ∈ s.insts, i.status ≠ .stopping

/-- finished or failed instances hold no position -/
def NoPos (s : IState) : Prop := ∀ f i, findInst s f = some i → i.status.done = true → i.heads = []

def AllGuards : IState → List Op → Prop
  | _, [] => True
  | s, op :: ops => op.guard s = true ∧ AllGuards (step s op) ops

end CoreIndex
end NemoVerif
