/-
  C07 — the fork / merge / wait head protocol of an expanded `match <group>` at HEAD level.

  `GroupVM` follows what `slide`, `_advance_head_front` and the merging loop of `run_to_completion`
  (nemoguardrails/colang/v2_x/runtime/statemachine.py) do on the element list produced by
  `_expand_match_element` (`GroupExpand.expandClauses`), one macro-step per template segment:

    root head ── ForkHead ──> branch head b_i per and-clause i          (or-template; absent for one clause)
    b_i      ── ForkHead ──> member head m_ij per atom j of clause i    (and-template; absent for one atom)

  * phase 1 (`_advance_head_front(heads_matching)`): every head that waits on `match a` with `a` = the event,
    in the order of `state.event_matching_heads` (= clause order, then atom order), is advanced:
      member head:  `goto end` → `WaitForHeads(number)`: `len([h for h in active_heads if h.position == pos]) >= number`
                    (the heads PARKED on the wait element, itself included) → parks, or passes on to the
                    and-level `MergeHeads` and becomes MERGING;
      branch head of a one-atom clause: `goto end` → or-level `MergeHeads`: MERGING;
  * phase 2 (`while heads_are_merging`): MERGING heads are advanced in the order they became MERGING; heads
    promoted meanwhile are handled in the next pass (FIFO queue):
      and-level merge: candidates = MERGING descendants of b_i; winner continues as b_i (members deleted),
                    `goto end` → or-level `MergeHeads`: MERGING — or, when there is no or-level, on to the marker;
      or-level merge: candidates = ALL MERGING descendants of the root in `get_child_head_uids` order (b_0, its
                    members, b_1, …) — also heads that are MERGING on an and-level merge (the `break` in the
                    "wait" check of `slide` only leaves the `for`); `random.choice` among them when there are several
                    (all scores are equal: every MERGING head matched the current event); the head wins →
                    the root continues behind the group (marker), every other head is deleted; it loses → INACTIVE.
  Tie-breaks are an explicit argument (`choices`, consumed only when there are at least two candidates, as
  `random.choice` is called only then) and universally quantified in the theorems.

  Failure paths (`CatchPatternFailure` → failure label → `Abort`) are not part of this model: a `match` on plain
  events never mis-matches (score −1 arises for FlowFinished/FlowFailed only).
-/
import NemoVerif.Models.Dnf
import NemoVerif.Models.GroupExpand
namespace NemoVerif.GroupVM
open NemoVerif.Dnf

/-- where the forked head of one atom of a multi-atom clause is -/
inductive MLoc where
  | atMatch      -- ACTIVE on `match a`
  | atWait       -- ACTIVE, parked on `WaitForHeads`
  | merging      -- passed `WaitForHeads`, MERGING on the and-level `MergeHeads`
  | lost         -- INACTIVE (lost an and-level pick)
  deriving DecidableEq, Repr, Inhabited

/-- one or-branch (its head b_i and what hangs below it) -/
inductive Br where
  | single (a : Nat)                               -- one-atom clause: b_i ACTIVE on `match a`
  | multi (ms : List (Nat × MLoc)) (need : Nat)    -- b_i INACTIVE (forked); member heads; `WaitForHeads.number`
  | merging                                        -- b_i MERGING on the or-level `MergeHeads`
  | lost                                           -- b_i INACTIVE (lost an or-level pick)
  deriving DecidableEq, Repr, Inhabited

/-- a MERGING head -/
inductive QItem where
  | member (i j : Nat)
  | branch (i : Nat)
  deriving DecidableEq, Repr, Inhabited

structure VM where
  brs : List Br
  /-- is there an or-level (more or fewer than one clause)? otherwise the single branch head IS the root -/
  orLevel : Bool
  /-- the root head has passed the group (marker emitted) -/
  done : Bool
  deriving DecidableEq, Repr, Inhabited

def initBr (c : List Nat) : Br :=
  match c with
  | [a] => .single a
  | _ => .multi (c.map fun a => (a, MLoc.atMatch)) c.length

/-- after the root has slid over `CatchPatternFailure, ForkHead` and all new heads were advanced to their `match` -/
def init (d : Clauses) : VM :=
  { brs := d.map initBr, orLevel := d.length != 1, done := false }

/-! ### phase 1 -/

def countWait (ms : List (Nat × MLoc)) : Nat := (ms.filter fun m => m.2 == MLoc.atWait).length

/-- advance the member heads of one clause that match `e`, left to right; `pre` = members already handled -/
def p1Members (e need : Nat) : List (Nat × MLoc) → List (Nat × MLoc) → List (Nat × MLoc)
  | pre, [] => pre
  | pre, (a, .atMatch) :: rest =>
    if a == e then
      -- `waiting_heads`: the heads parked on the wait element, this one included
      let cnt := countWait pre + countWait rest + 1
      p1Members e need (pre ++ [(a, if cnt ≥ need then MLoc.merging else MLoc.atWait)]) rest
    else p1Members e need (pre ++ [(a, MLoc.atMatch)]) rest
  | pre, m :: rest => p1Members e need (pre ++ [m]) rest

def mergingFrom (i : Nat) : Nat → List (Nat × MLoc) → List QItem
  | _, [] => []
  | j, (_, .merging) :: rest => .member i j :: mergingFrom i (j + 1) rest
  | j, _ :: rest => mergingFrom i (j + 1) rest

/-- the MERGING member heads of clause `i`, in fork order -/
def mergingMembers (i : Nat) (ms : List (Nat × MLoc)) : List QItem := mergingFrom i 0 ms

/-- phase 1 on branch `i`: new branch state and the heads that became MERGING (in order) -/
def p1Br (e i : Nat) : Br → Br × List QItem
  | .single a => if a == e then (.merging, [.branch i]) else (.single a, [])
  | .multi ms need =>
    let ms' := p1Members e need [] ms
    -- (between two events no member head is MERGING, so these are the heads that became MERGING now)
    (.multi ms' need, mergingMembers i ms')
  | b => (b, [])

def p1Brs (e : Nat) : Nat → List Br → List Br × List QItem
  | _, [] => ([], [])
  | i, b :: rest =>
    let r := p1Br e i b
    let rs := p1Brs e (i + 1) rest
    (r.1 :: rs.1, r.2 ++ rs.2)

/-! ### phase 2 -/

/-- all MERGING heads below the root in `get_child_head_uids` order -/
def candidates : Nat → List Br → List QItem
  | _, [] => []
  | i, .merging :: rest => .branch i :: candidates (i + 1) rest
  | i, .multi ms _ :: rest => mergingMembers i ms ++ candidates (i + 1) rest
  | i, _ :: rest => candidates (i + 1) rest

/-- `random.choice` among `cands` (called only when there are several): returns the pick and the unused choices -/
def pick (self : QItem) (cands : List QItem) (choices : List Nat) : QItem × List Nat :=
  if cands.length > 1 then
    match choices with
    | c :: cs => (cands.getD (c % cands.length) self, cs)
    | [] => (cands.getD 0 self, [])
  else (self, choices)

def setBr (brs : List Br) (i : Nat) (b : Br) : List Br := brs.set i b

def setMember (ms : List (Nat × MLoc)) (j : Nat) (l : MLoc) : List (Nat × MLoc) :=
  match ms[j]? with
  | some (a, _) => ms.set j (a, l)
  | none => ms

/-- advance one MERGING head; returns the new machine, heads that became MERGING, unused choices -/
def mergeStep (vm : VM) (q : QItem) (choices : List Nat) : VM × List QItem × List Nat :=
  match q with
  | .branch i =>
    match vm.brs[i]? with
    | some .merging =>
      if !vm.orLevel then
        -- a lone `match a`: the branch head is the root itself; it slides straight to the marker
        ({ vm with brs := [], done := true }, [], choices)
      else
      let p := pick q (candidates 0 vm.brs) choices
      if p.1 == q then
        -- the root takes over at the or-level merge, all descendants are deleted, it slides to the marker
        ({ vm with brs := [], done := true }, [], p.2)
      else ({ vm with brs := setBr vm.brs i .lost }, [], p.2)
    | _ => (vm, [], choices)        -- INACTIVE meanwhile: skipped by `_advance_head_front`
  | .member i j =>
    match vm.brs[i]? with
    | some (.multi ms need) =>
      match ms[j]? with
      | some (_, .merging) =>
        let p := pick q (mergingMembers i ms) choices
        if p.1 == q then
          if vm.orLevel then
            -- b_i continues: members deleted, `goto end` → or-level merge: MERGING
            ({ vm with brs := setBr vm.brs i .merging }, [.branch i], p.2)
          else ({ vm with brs := [], done := true }, [], p.2)
        else ({ vm with brs := setBr vm.brs i (.multi (setMember ms j .lost) need) }, [], p.2)
      | _ => (vm, [], choices)
    | _ => (vm, [], choices)

/-- the merging loop as a FIFO queue (heads promoted during a pass are handled in the next pass) -/
def mergeLoop : Nat → VM → List QItem → List Nat → VM × List Nat
  | 0, vm, _, ch => (vm, ch)
  | _, vm, [], ch => (vm, ch)
  | fuel + 1, vm, q :: queue, ch =>
    if vm.done then (vm, ch)
    else
      let r := mergeStep vm q ch
      mergeLoop fuel r.1 (queue ++ r.2.1) r.2.2

/-! ### one external event, a sequence of events -/

def stepEvent (vm : VM) (e : Nat) (choices : List Nat) : VM × Bool × List Nat :=
  if vm.done then (vm, false, choices)
  else
    let r := p1Brs e 0 vm.brs
    let vm1 := { vm with brs := r.1 }
    let m := mergeLoop (2 * r.2.length + 2 * vm.brs.length + 2) vm1 r.2 choices
    (m.1, m.1.done, m.2)

def runVM : VM → List Nat → List Nat → List Bool
  | _, [], _ => []
  | vm, e :: es, ch =>
    let r := stepEvent vm e ch
    r.2.1 :: runVM r.1 es r.2.2

/-- per received event: does the root head reach the marker while processing it? -/
def vmMarkers (d : Clauses) (es : List Nat) (choices : List Nat) : List Bool := runVM (init d) es choices

/-! ### where the heads are in the element list (for the head-level comparison with the interpreter) -/

open NemoVerif.GroupExpand in
/-- positions of the `ForkHead`, `match`, `WaitForHeads` elements of an expanded group, in list order -/
def scanPositions : List Prim → Nat → List Nat × List Nat × List Nat
  | [], _ => ([], [], [])
  | x :: rest, k =>
    let r := scanPositions rest (k + 1)
    match x with
    | .fork _ _ => (k :: r.1, r.2.1, r.2.2)
    | .matchEv _ => (r.1, k :: r.2.1, r.2.2)
    | .wait _ => (r.1, r.2.1, k :: r.2.2)
    | _ => r

/-- heads of one branch as (position, status) with status 0 = ACTIVE, 1 = MERGING, 2 = INACTIVE;
    `mi fi wi` = how many match / fork / wait elements precede the branch's code -/
def renderMembers (mpos : List Nat) (wp : Nat) : Nat → List (Nat × MLoc) → List (Nat × Nat)
  | _, [] => []
  | mi, (_, l) :: rest =>
    (match l with
      | .atMatch => (mpos.getD mi 0, 0)
      | .atWait => (wp, 0)
      | .merging => (wp + 1, 1)
      | .lost => (wp + 1, 2)) :: renderMembers mpos wp (mi + 1) rest

def renderBrs (fpos mpos wpos : List Nat) (orMerge : Nat) (top : Bool) : Nat → Nat → Nat → List Br → List (Nat × Nat)
  | _, _, _, [] => []
  | mi, fi, wi, .single _ :: rest => (mpos.getD mi 0, 0) :: renderBrs fpos mpos wpos orMerge top (mi + 1) fi wi rest
  | mi, fi, wi, .multi ms _ :: rest =>
    (fpos.getD fi 0, 2) :: renderMembers mpos (wpos.getD wi 0) mi ms ++
      renderBrs fpos mpos wpos orMerge top (mi + ms.length) (fi + 1) (wi + 1) rest
  | mi, fi, wi, .merging :: rest => (orMerge, 1) :: renderBrs fpos mpos wpos orMerge top mi fi wi rest
  | mi, fi, wi, .lost :: rest => (orMerge, 2) :: renderBrs fpos mpos wpos orMerge top mi fi wi rest

/-- all heads of the flow between two events: (position relative to the first element of the group, status) -/
def renderHeads (d : Clauses) (vm : VM) : List (Nat × Nat) :=
  let p := (GroupExpand.expandClauses d 0).1
  if vm.done then [(p.length + 1, 0)]       -- the root waits on the element after the marker
  else
    let sc := scanPositions p 0
    if vm.orLevel then
      (sc.1.getD 0 0, 2) :: renderBrs sc.1 sc.2.1 sc.2.2 (p.length - 2) true 0 1 0 vm.brs
    else
      -- no or-level: the single branch head is the root itself
      renderBrs sc.1 sc.2.1 sc.2.2 (p.length - 2) false 0 0 0 vm.brs

/-- markers and head snapshots after every event -/
def traceVM (d : Clauses) : VM → List Nat → List Nat → List (Bool × List (Nat × Nat))
  | _, [], _ => []
  | vm, e :: es, ch =>
    let r := stepEvent vm e ch
    (r.2.1, renderHeads d r.1) :: traceVM d r.1 es r.2.2

end NemoVerif.GroupVM
