/-
  C18 — model of `nemoguardrails/streaming.py :: StreamingHandler` (pattern-stripping state machine),
  in the REPAIRED form of `fixes/C18-streaming-chunk-invariance.diff` (on the unpatched tree the
  three defects are `open` findings; the code as it is lives in `Models/StreamAsIs.lean`).

  Strings are `List Char`.  `push` mirrors `push_chunk`, `process` mirrors `_process` (non-buffering
  branch), `forward` mirrors `_forward` (queue / `pipe_to` target: both receive the same items in the
  same order), `removeSuffixAtEnd` mirrors `_remove_suffix_at_end`, `endLlm` mirrors `on_llm_end`.
  Python's `if self.prefix:` / `if self.suffix:` treat `None` and `""` alike: both are `[]` here.

  `min(completion.find(s) for s in stop if s in completion)` is written down as `cutMin` and PROVED equal
  to the left-to-right scan `cutStop` used by `processStr` (returns the text before the first position
  where any stop sequence starts).
-/
namespace NemoVerif.Stream

abbrev Str := List Char

structure Cfg where
  pfx : Str
  suffix : Str
  stop : List Str
  deriving Repr, DecidableEq

/-- handler state: `self.prefix`, `self.current_chunk`, `self.completion`, everything forwarded so
    far (`None` = `none`), `streaming_finished_event.is_set()` -/
structure St where
  pfx : Str
  cur : Str
  completion : Str
  out : List (Option Str)
  finished : Bool
  deriving Repr, DecidableEq

def init (cfg : Cfg) : St := { pfx := cfg.pfx, cur := [], completion := [], out := [], finished := false }

/-- does some stop sequence start at the head of `t`? -/
def stopHere (stops : List Str) (t : Str) : Bool := stops.any (fun s => s.isPrefixOf t)

/-- the text before the earliest occurrence of any stop sequence, `none` if there is none -/
def cutStop (stops : List Str) : Str → Option Str
  | [] => if stopHere stops [] then some [] else none
  | c :: t => if stopHere stops (c :: t) then some [] else (cutStop stops t).map (c :: ·)

/-! the same cut written as in the source: `stop_positions = [completion.find(s) for s in self.stop if s in completion]`,
    `completion[: min(stop_positions)]` — proved equal to `cutStop` (`Lemmas/StreamFind.lean`, `C18.cut_is_min_find`) -/

/-- `t.find(p)`: the first index at which `p` occurs in `t` (`none` = -1) -/
def findStr (p : Str) : Str → Option Nat
  | [] => if p.isPrefixOf [] then some 0 else none
  | c :: t => if p.isPrefixOf (c :: t) then some 0 else (findStr p t).map (· + 1)

/-- `[completion.find(stop_chunk) for stop_chunk in self.stop if stop_chunk in completion]` -/
def stopPositions (stops : List Str) (t : Str) : List Nat := stops.filterMap (fun p => findStr p t)

/-- `min(stop_positions)` -/
def minList : List Nat → Nat
  | [] => 0
  | [a] => a
  | a :: b :: r => min a (minList (b :: r))

/-- `if stop_positions: completion = completion[: min(stop_positions)]` -/
def cutMin (stops : List Str) (t : Str) : Option Str :=
  match stopPositions stops t with
  | [] => none
  | ps => some (t.take (minList ps))

/-- `text[: -len(suffix)]` if `suffix and text.endswith(suffix)` -/
def stripSuffix (sfx t : Str) : Str :=
  if sfx ≠ [] ∧ sfx.isSuffixOf t then t.take (t.length - sfx.length) else t

/-- `_chunks` of `push_chunk`: the suffix (if any) followed by the stop sequences -/
def pats (cfg : Cfg) : List Str := (if cfg.suffix ≠ [] then [cfg.suffix] else []) ++ cfg.stop

/-- `skip_processing`: the current chunk ends with a non-empty prefix (`_chunk[0:_len+1]`) of a pattern -/
def holds (ps : List Str) (cur : Str) : Bool :=
  ps.any (fun p => (List.range p.length).any (fun l => (p.take (l + 1)).isSuffixOf cur))

/-- `_forward` -/
def forward (s : St) (chunk : Option Str) : St := { s with out := s.out ++ [chunk] }

/-- concatenation of the delivered chunks -/
def delivered (s : St) : Str := (s.out.map (fun o => o.getD [])).flatten

/-- `_process(chunk)` for a string chunk, `enable_buffer = False` -/
def processStr (cfg : Cfg) (s : St) (c : Str) : St :=
  let comp := s.completion ++ c
  match cutStop cfg.stop comp with
  | some u =>
    let cut := stripSuffix cfg.suffix u
    let s1 : St := { s with completion := cut }
    let s2 := if cut.length > s.completion.length then forward s1 (some (cut.drop s.completion.length)) else s1
    { s2 with cur := [], finished := true }
  | none =>
    let s1 := forward { s with completion := comp } (some c)
    if c = [] then { s1 with finished := true } else s1

/-- `_process(chunk)` -/
def process (cfg : Cfg) (s : St) (chunk : Option Str) : St :=
  match chunk with
  | none => { forward s none with finished := true }
  | some c => processStr cfg s c

/-- `_remove_suffix_at_end` (returns the new `current_chunk`) -/
def removeSuffixAtEnd (cfg : Cfg) (completion cur : Str) : Str :=
  if cfg.suffix ≠ [] ∧ cfg.suffix.isSuffixOf cur ∧ (cutStop cfg.stop (completion ++ cur)).isNone then
    cur.take (cur.length - cfg.suffix.length)
  else cur

def isEnd (chunk : Option Str) : Bool :=
  match chunk with
  | none => true
  | some c => c.isEmpty

/-- `await self._process(self.current_chunk); self.current_chunk = ""` (`_process` never reads
    `current_chunk`, so the value it holds during the call is immaterial) -/
def release (cfg : Cfg) (s : St) (cur : Str) : St := { processStr cfg s cur with cur := [] }

/-- the part of `push_chunk` after the prefix has been dealt with -/
def pushBody (cfg : Cfg) (s : St) (chunk : Option Str) : St :=
  if cfg.suffix ≠ [] ∨ cfg.stop ≠ [] then
    let cur := s.cur ++ chunk.getD []
    if holds (pats cfg) cur ∧ ¬ isEnd chunk then { s with cur := cur }
    else release cfg s (if isEnd chunk then removeSuffixAtEnd cfg s.completion cur else cur)
  else process cfg s chunk

/-- `push_chunk(chunk)` -/
def push (cfg : Cfg) (s : St) (chunk : Option Str) : St :=
  if s.finished then s
  else if s.pfx ≠ [] then
    let cur := s.cur ++ chunk.getD []
    if ¬ s.pfx.isPrefixOf cur then { s with cur := cur }
    else
      let rest := cur.drop s.pfx.length
      let s1 : St := { s with cur := [], pfx := [] }
      if rest = [] then s1 else pushBody cfg s1 (some rest)
  else pushBody cfg s chunk

/-- `on_llm_end` -/
def endLlm (cfg : Cfg) (s : St) : St :=
  let s1 := if s.cur ≠ [] then release cfg s (removeSuffixAtEnd cfg s.completion s.cur) else s
  { processStr cfg s1 [] with pfx := [] }

/-- how the caller signals the end of the generation -/
inductive EndProto where
  | empty        -- push_chunk("")
  | none         -- push_chunk(None)
  | llmEnd       -- on_llm_end(...)
  | emptyLlmEnd  -- push_chunk("") followed by on_llm_end(...)
  deriving Repr, DecidableEq

def EndProto.hasLlmEnd : EndProto → Bool
  | .llmEnd | .emptyLlmEnd => true
  | _ => false

def finish (cfg : Cfg) (s : St) : EndProto → St
  | .empty => push cfg s (some [])
  | .none => push cfg s none
  | .llmEnd => endLlm cfg s
  | .emptyLlmEnd => endLlm cfg (push cfg s (some []))

def feed (cfg : Cfg) (s : St) (cs : List Str) : St := cs.foldl (fun s c => push cfg s (some c)) s

/-- one whole generation: the chunks, then the end-of-stream protocol -/
def run (cfg : Cfg) (cs : List Str) (e : EndProto) : St := finish cfg (feed cfg (init cfg) cs) e

/-- `on_llm_new_token`: an empty first token is ignored -/
def viaTokens (cs : List Str) : List Str :=
  match cs with
  | [] :: r => r
  | _ => cs

/-- `pipe_to` mode: every forwarded item is pushed into a second, unconfigured handler; its queue is
    what the consumer sees (items after the first end marker are dropped there) -/
def pipeTarget (items : List (Option Str)) : List (Option Str) :=
  let c0 : Cfg := { pfx := [], suffix := [], stop := [] }
  (items.foldl (fun s it => push c0 s it) (init c0)).out

/-- `pipe_to` into a handler that has its OWN configuration `cfg2` (two-stage pipe): its final state -/
def pipeTargetCfg (cfg2 : Cfg) (items : List (Option Str)) : St :=
  items.foldl (fun s it => push cfg2 s it) (init cfg2)

/-! ### specification (written from the property statement) -/

/-- cut at the first stop sequence, then remove the suffix -/
def cutAndStrip (cfg : Cfg) (t : Str) : Str :=
  stripSuffix cfg.suffix ((cutStop cfg.stop t).getD t)

/-- "the text with the configured prefix and suffix removed and cut at the first stop sequence".
    A text that does not start with the prefix: nothing is delivered (`push_chunk` end markers) /
    `on_llm_end` flushes the whole text (as implemented; interpretation, see design notes). -/
def spec (cfg : Cfg) (text : Str) (e : EndProto) : Str :=
  if cfg.pfx = [] then cutAndStrip cfg text
  else if cfg.pfx.isPrefixOf text then cutAndStrip cfg (text.drop cfg.pfx.length)
  else if e.hasLlmEnd then cutAndStrip cfg text else []

end NemoVerif.Stream
