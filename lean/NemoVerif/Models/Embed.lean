/-
  Embed — executable model of the embedding cache wrapper and of request batching.

  Mirrors (read off the source, same branch structure):
    nemoguardrails/embeddings/cache.py   `cache_embeddings.wrapper_decorator`, `EmbeddingsCache.get/set`
                                         (str and list overloads), `CacheStore.get/set`
    nemoguardrails/embeddings/basic.py   `BasicEmbeddingsIndex._batch_get_embeddings`, `_run_batch`,
                                         `_get_embeddings`, the shared fields created in `__init__`

  `α` texts, `κ` cache keys, `β` vectors.  The key generator `g : α → κ` and the embedding model
  `f : α → β` (pointwise: `encode_async docs = docs.map f`) are parameters; nothing is assumed about
  them in this file.  Python dicts are insertion-ordered association lists (`Dict`).

  asyncio is cooperative: the code between two suspension points runs atomically.  Each atomic
  section of a request task / batch task / direct `_get_embeddings` call is one labelled step of the
  transition system `step`; timers (`max_batch_hold`) and completions of the embedding model are
  environment steps, i.e. the labels `take _ true` and `finish`/`dend` may be taken at any time.
  Core Lean only (this file is linked into the driver).
-/
namespace NemoVerif.Embed

/-! ### insertion-ordered dict -/

abbrev Dict (κ ν : Type) := List (κ × ν)

namespace Dict
variable {κ ν : Type} [DecidableEq κ]

/-- `d.get(k)` -/
def get? : Dict κ ν → κ → Option ν
  | [], _ => none
  | (k', v) :: r, k => if k' = k then some v else get? r k

/-- `d[k] = v` (in place if present, else appended) -/
def set : Dict κ ν → κ → ν → Dict κ ν
  | [], k, v => [(k, v)]
  | (k', v') :: r, k, v => if k' = k then (k', v) :: r else (k', v') :: set r k v

/-- `del d[k]` -/
def erase (d : Dict κ ν) (k : κ) : Dict κ ν := d.filter (fun p => !(p.1 == k))

def keys (d : Dict κ ν) : List κ := d.map Prod.fst
def vals (d : Dict κ ν) : List ν := d.map Prod.snd

/-- `d.update(o)` -/
def update (d o : Dict κ ν) : Dict κ ν := o.foldl (fun acc p => acc.set p.1 p.2) d

end Dict

/-! ### the cache wrapper (`cache.py`) -/

section Cache
variable {α κ β : Type} [DecidableEq α] [DecidableEq κ]

/-- `EmbeddingsCache.get(text: str)` : `store.get(key_generator.generate_key(text))` -/
def cacheGet (g : α → κ) (store : Dict κ β) (t : α) : Option β := store.get? (g t)

/-- `EmbeddingsCache.get(texts: list)` : dict keyed by text of the hits -/
def cacheHit (g : α → κ) (store : Dict κ β) (c : Dict α β) (t : α) : Dict α β :=
  match cacheGet g store t with
  | some v => c.set t v     -- `if result is not None: cached[text] = result`
  | none => c

def cacheGetList (g : α → κ) (store : Dict κ β) (texts : List α) : Dict α β :=
  texts.foldl (cacheHit g store) []

/-- `EmbeddingsCache.set(texts: list, values)` : `for text, value in zip(texts, values): store.set(key(text), value)` -/
def cacheSetList (g : α → κ) (store : Dict κ β) (texts : List α) (vals : List β) : Dict κ β :=
  (texts.zip vals).foldl (fun s p => s.set (g p.1) p.2) store

/-- locals of `wrapper_decorator` that are alive across `await func(self, uncached_texts)` -/
structure Pending (α β : Type) where
  texts : List α
  cached : Dict α β
  uncached : List α

/-- first atomic section of the wrapper with the cache enabled: look-ups and the split -/
def callBegin (g : α → κ) (store : Dict κ β) (texts : List α) : Pending α β :=
  let cached := cacheGetList g store texts
  { texts := texts, cached := cached, uncached := texts.filter (fun t => (cached.get? t).isNone) }

/-- second atomic section (after the model answered `fresh` for `uncached`): store, re-read, re-order.
    `store` is the store as it is *now* (other calls may have written to it in between). -/
def callEnd (g : α → κ) (store : Dict κ β) (p : Pending α β) (fresh : List β) : Dict κ β × List (Option β) :=
  let store' := if p.uncached.isEmpty then store else cacheSetList g store p.uncached fresh
  let cached' := p.cached.update (cacheGetList g store' p.uncached)
  (store', p.texts.map (fun t => cached'.get? t))

/-- cache configuration as the wrapper sees it: `enabled`, and whether the store object built by
    `EmbeddingsCache.from_config` outlives the call (`filesystem`, any shared store) or is created
    empty per call (`in_memory`: `from_config` instantiates a new `InMemoryCacheStore` every time). -/
structure CacheCfg where
  enabled : Bool
  persistent : Bool
  deriving Repr, DecidableEq

/-- the store a call sees -/
def view (cfg : CacheCfg) (store : Dict κ β) : Dict κ β := if cfg.persistent then store else []

def beginCall (cfg : CacheCfg) (g : α → κ) (store : Dict κ β) (texts : List α) : Pending α β :=
  if cfg.enabled then callBegin g (view cfg store) texts
  else { texts := texts, cached := [], uncached := texts }

def endCall (cfg : CacheCfg) (g : α → κ) (store : Dict κ β) (p : Pending α β) (fresh : List β) :
    Dict κ β × List (Option β) :=
  if cfg.enabled then
    let r := callEnd g (view cfg store) p fresh
    (if cfg.persistent then r.1 else store, r.2)
  else (store, fresh.map some)

/-- one whole un-interleaved call of the decorated `_get_embeddings` with a pointwise model `f` -/
def cachedCall (cfg : CacheCfg) (g : α → κ) (f : α → β) (store : Dict κ β) (texts : List α) :
    Dict κ β × List (Option β) :=
  let p := beginCall cfg g store texts
  endCall cfg g store p (p.uncached.map f)

/-- a sequence of calls threading the store -/
def cachedCalls (cfg : CacheCfg) (g : α → κ) (f : α → β) : Dict κ β → List (List α) → Dict κ β × List (List (Option β))
  | store, [] => (store, [])
  | store, ts :: rest =>
    let r := cachedCall cfg g f store ts
    let rr := cachedCalls cfg g f r.1 rest
    (rr.1, r.2 :: rr.2)

/-! ### several indexes in one process (`BasicEmbeddingsIndex` objects with their own model and cache configuration)

Every index has its own embedding model `f`, key generator `g` and cache configuration; the store it reads and
writes is identified by a location `loc` (the `cache_dir` of a `FilesystemCacheStore`, the database of a shared
store).  Two indexes with the same `loc` read and write THE SAME entries — the key is derived from the text
only, the model is not part of it.  `in_memory` stores are not shared with anybody: `from_config` builds a new
empty store object per call (`persistent = false`; the location is then never read). -/

structure IndexCfg (α κ β : Type) where
  cfg : CacheCfg
  g : α → κ
  f : α → β
  loc : Nat

/-- content of every store location -/
abbrev Stores (κ β : Type) := Dict Nat (Dict κ β)

def storeAt (st : Stores κ β) (l : Nat) : Dict κ β := (Dict.get? st l).getD []

/-- one whole call of the decorated `_get_embeddings` of index number `i` -/
def multiCall (ixs : List (IndexCfg α κ β)) (st : Stores κ β) (i : Nat) (texts : List α) :
    Stores κ β × List (Option β) :=
  match ixs[i]? with
  | none => (st, [])
  | some ix =>
    let r := cachedCall ix.cfg ix.g ix.f (storeAt st ix.loc) texts
    (Dict.set st ix.loc r.1, r.2)

/-- any sequence of calls of any of the indexes (an interleaving of the indexes' call sequences) -/
def multiCalls (ixs : List (IndexCfg α κ β)) : Stores κ β → List (Nat × List α) → Stores κ β × List (List (Option β))
  | st, [] => (st, [])
  | st, (i, ts) :: rest =>
    let r := multiCall ixs st i ts
    let rr := multiCalls ixs r.1 rest
    (rr.1, r.2 :: rr.2)

/-- The wrapper's two atomic sections separately (the model is awaited in between, other indexes' and the
    same index's calls run meanwhile): `begin i texts` opens a call, `finish k` completes the k-th open call
    with the model's answer. -/
inductive MLabel (α : Type) where
  | begin (i : Nat) (texts : List α)
  | finish (k : Nat)

structure MState (α κ β : Type) where
  stores : Stores κ β
  /-- open calls: index number and the locals alive across the await -/
  pending : List (Nat × Pending α β)
  /-- completed calls, newest first: index number, texts, returned vectors -/
  returned : List (Nat × List α × List (Option β))

def mstep (ixs : List (IndexCfg α κ β)) (s : MState α κ β) : MLabel α → Option (MState α κ β)
  | .begin i texts =>
    match ixs[i]? with
    | none => none
    | some ix => some { s with pending := s.pending ++ [(i, beginCall ix.cfg ix.g (storeAt s.stores ix.loc) texts)] }
  | .finish k =>
    match s.pending[k]? with
    | none => none
    | some (i, p) =>
      match ixs[i]? with
      | none => none
      | some ix =>
        let r := endCall ix.cfg ix.g (storeAt s.stores ix.loc) p (p.uncached.map ix.f)
        some { stores := Dict.set s.stores ix.loc r.1, pending := s.pending.eraseIdx k,
               returned := (i, p.texts, r.2) :: s.returned }

def mrun (ixs : List (IndexCfg α κ β)) : MState α κ β → List (MLabel α) → Option (MState α κ β)
  | s, [] => some s
  | s, l :: ls => match mstep ixs s l with
    | some s' => mrun ixs s' ls
    | none => none

end Cache

/-! ### request batching (`basic.py`) -/

/-- program counter + locals of one `_batch_get_embeddings(text)` task -/
inductive RPc (β : Type) where
  | ready                         -- about to (re-)evaluate `while len(self._req_queue) >= self.max_batch_size`
  | waitSub                       -- suspended in `await self._current_batch_submitted.wait()`
  | waitFin (ev : Nat) (id : Nat) -- suspended in `await <finished event ev>.wait()`, local `req_id = id`
  | done (r : Option β)           -- returned `r`
  | spin                          -- `wait()` on a set event inside the `while`: busy loop that never yields
  | crashed                       -- KeyError / AttributeError
  deriving Repr, DecidableEq

structure Req (α β : Type) where
  text : α
  pc : RPc β

/-- program counter + locals of one `_run_batch()` task -/
inductive BPc (α β : Type) where
  | created                                             -- scheduled by `ensure_future`, not started
  | waiting (fe : Nat)                                  -- in `asyncio.wait([sleep(hold), <full event fe>.wait()])`
  | running (ev : Option Nat) (ids : List Nat) (p : Pending α β)  -- in `await self._get_embeddings(batch)`
  | done
  | crashed

/-- a direct call `_get_embeddings(texts)` (non-batched `search`, `add_item(s)`) -/
inductive DPc (α β : Type) where
  | ready
  | running (p : Pending α β)
  | done (res : List (Option β))

structure Direct (α β : Type) where
  texts : List α
  pc : DPc α β

structure State (α κ β : Type) where
  queue : Dict Nat α              -- _req_queue
  results : Dict Nat (Option β)   -- _req_results
  idx : Nat                       -- _req_idx
  finEv : Option Nat              -- _current_batch_finished_event (identity of the Event object)
  fullEv : Option Nat             -- _current_batch_full_event
  submitted : Bool                -- _current_batch_submitted.is_set()
  finSet : List Nat               -- finished-Event objects that are set
  fullSet : List Nat              -- full-Event objects that are set
  nextEv : Nat                    -- Event objects created so far
  store : Dict κ β                -- the persistent cache store
  reqs : List (Req α β)
  batches : List (BPc α β)
  directs : List (Direct α β)
  log : List α                    -- ghost (never read by `step`): text of request id k

inductive Label where
  | enter (i : Nat)               -- request i: loop test, enqueue, maybe start a batch, wait
  | collect (i : Nat)             -- request i resumed after its finished event: read + delete own result
  | bstart (b : Nat)              -- batch task b: first section (sets up the two waits)
  | take (b : Nat) (timeout : Bool)  -- batch task b resumed by the timer (environment) or the full event
  | finish (b : Nat)              -- embedding model answered (environment): store results, set the event
  | dbegin (d : Nat)              -- direct call: first section of the cache wrapper
  | dend (d : Nat)                -- direct call: model answered, second section
  deriving Repr, DecidableEq

section Batch
variable {α κ β : Type} [DecidableEq α] [DecidableEq κ]

def init (reqTexts : List α) (directTexts : List (List α)) (store : Dict κ β) : State α κ β :=
  { queue := [], results := [], idx := 0, finEv := none, fullEv := none, submitted := false,
    finSet := [], fullSet := [], nextEv := 0, store := store,
    reqs := reqTexts.map (fun t => { text := t, pc := .ready }),
    batches := [],
    directs := directTexts.map (fun ts => { texts := ts, pc := .ready }),
    log := [] }

def setReq (s : State α κ β) (i : Nat) (r : Req α β) (pc : RPc β) : State α κ β :=
  { s with reqs := s.reqs.set i { r with pc := pc } }

/-- `result = self._req_results[req_id]; del self._req_results[req_id]; return result` -/
def collectAt (s : State α κ β) (i : Nat) (r : Req α β) (id : Nat) : State α κ β :=
  match s.results.get? id with
  | some v => setReq { s with results := s.results.erase id } i r (.done v)
  | none => setReq s i r .crashed

/-- `await <ev>.wait()` followed by the read: `Event.wait` returns at once when the event is set -/
def awaitFin (s : State α κ β) (i : Nat) (r : Req α β) (ev id : Nat) : State α κ β :=
  if ev ∈ s.finSet then collectAt s i r id else setReq s i r (.waitFin ev id)

/-- lines 238-240 of basic.py: `req_id = self._req_idx; self._req_idx += 1; self._req_queue[req_id] = text` -/
def enq1 (s : State α κ β) (t : α) : State α κ β :=
  { s with idx := s.idx + 1, queue := s.queue.set s.idx t, log := s.log ++ [t] }

/-- lines 242-246: start a batch if none is collecting -/
def enq2 (s : State α κ β) : State α κ β :=
  if s.finEv.isNone then
    { s with finEv := some s.nextEv, fullEv := some (s.nextEv + 1), nextEv := s.nextEv + 2,
             submitted := false, batches := s.batches ++ [.created] }
  else s

/-- lines 249-253: signal "full"; the finished event the request is going to wait on
    (`none` = `AttributeError` on a `None` event) -/
def enq3 (max : Nat) (s : State α κ β) : State α κ β × Option Nat :=
  if s.queue.length ≥ max then
    match s.fullEv with
    | some e => ({ s with fullSet := e :: s.fullSet }, s.finEv)
    | none => (s, none)
  else (s, s.finEv)

def enqueue (max : Nat) (s : State α κ β) (t : α) : State α κ β × Option Nat :=
  enq3 max (enq2 (enq1 s t))

def stepEnter (max : Nat) (s : State α κ β) (i : Nat) : Option (State α κ β) :=
  match s.reqs[i]? with
  | none => none
  | some r =>
    match r.pc with
    | .ready =>
      if s.queue.length ≥ max then
        some (setReq s i r (if s.submitted then .spin else .waitSub))
      else
        let id := s.idx
        match enqueue max s r.text with
        | (s2, some ev) => some (awaitFin s2 i r ev id)
        | (s2, none) => some (setReq s2 i r .crashed)
    | _ => none

def stepCollect (s : State α κ β) (i : Nat) : Option (State α κ β) :=
  match s.reqs[i]? with
  | none => none
  | some r =>
    match r.pc with
    | .waitFin ev id => if ev ∈ s.finSet then some (collectAt s i r id) else none
    | _ => none

def stepBstart (s : State α κ β) (b : Nat) : Option (State α κ β) :=
  match s.batches[b]? with
  | some .created =>
    match s.fullEv with
    | some fe => some { s with batches := s.batches.set b (.waiting fe) }
    | none => some { s with batches := s.batches.set b .crashed }
  | _ => none

/-- `Event.set()` on `_current_batch_submitted`: every task suspended in its `wait()` becomes runnable -/
def wake (r : Req α β) : Req α β :=
  match r.pc with
  | .waitSub => { r with pc := .ready }
  | _ => r

def stepTake (cfg : CacheCfg) (g : α → κ) (s : State α κ β) (b : Nat) (timeout : Bool) : Option (State α κ β) :=
  match s.batches[b]? with
  | some (.waiting fe) =>
    if timeout || decide (fe ∈ s.fullSet) then
      some { s with
        finEv := none,
        queue := [],
        submitted := true,
        reqs := s.reqs.map wake,
        batches := s.batches.set b (.running s.finEv s.queue.keys (beginCall cfg g s.store s.queue.vals)) }
    else none
  | _ => none

/-- `for i in range(len(embeddings)): self._req_results[batch_ids[i]] = embeddings[i]` -/
def writeResults (res : Dict Nat (Option β)) (ids : List Nat) (embs : List (Option β)) : Dict Nat (Option β) :=
  (ids.zip embs).foldl (fun r p => r.set p.1 p.2) res

def stepFinish (cfg : CacheCfg) (g : α → κ) (f : α → β) (s : State α κ β) (b : Nat) : Option (State α κ β) :=
  match s.batches[b]? with
  | some (.running ev ids p) =>
    let r := endCall cfg g s.store p (p.uncached.map f)
    let s1 : State α κ β := { s with store := r.1, results := writeResults s.results ids r.2 }
    match ev with
    | some e => some { s1 with finSet := e :: s1.finSet, batches := s1.batches.set b .done }
    | none => some { s1 with batches := s1.batches.set b .crashed }
  | _ => none

def stepDbegin (cfg : CacheCfg) (g : α → κ) (s : State α κ β) (d : Nat) : Option (State α κ β) :=
  match s.directs[d]? with
  | some dt =>
    match dt.pc with
    | .ready => some { s with directs := s.directs.set d { dt with pc := .running (beginCall cfg g s.store dt.texts) } }
    | _ => none
  | none => none

def stepDend (cfg : CacheCfg) (g : α → κ) (f : α → β) (s : State α κ β) (d : Nat) : Option (State α κ β) :=
  match s.directs[d]? with
  | some dt =>
    match dt.pc with
    | .running p =>
      let r := endCall cfg g s.store p (p.uncached.map f)
      some { s with store := r.1, directs := s.directs.set d { dt with pc := .done r.2 } }
    | _ => none
  | none => none

/-- one atomic section; `none` = the label is not enabled in `s` -/
def step (cfg : CacheCfg) (max : Nat) (g : α → κ) (f : α → β) (s : State α κ β) : Label → Option (State α κ β)
  | .enter i => stepEnter max s i
  | .collect i => stepCollect s i
  | .bstart b => stepBstart s b
  | .take b timeout => stepTake cfg g s b timeout
  | .finish b => stepFinish cfg g f s b
  | .dbegin d => stepDbegin cfg g s d
  | .dend d => stepDend cfg g f s d

/-- states reachable from the initial state of an index whose store holds `store0`,
    for a given population of request tasks and direct calls, under ANY schedule -/
inductive Reachable (cfg : CacheCfg) (max : Nat) (g : α → κ) (f : α → β)
    (reqTexts : List α) (directTexts : List (List α)) (store0 : Dict κ β) : State α κ β → Prop where
  | init : Reachable cfg max g f reqTexts directTexts store0 (init reqTexts directTexts store0)
  | step {s s' : State α κ β} (l : Label) :
      Reachable cfg max g f reqTexts directTexts store0 s → step cfg max g f s l = some s' →
      Reachable cfg max g f reqTexts directTexts store0 s'

/-- replay of an observed schedule: `none` as soon as a label is not enabled -/
def run (cfg : CacheCfg) (max : Nat) (g : α → κ) (f : α → β) : State α κ β → List Label → Option (State α κ β)
  | s, [] => some s
  | s, l :: ls => match step cfg max g f s l with
    | some s' => run cfg max g f s' ls
    | none => none

end Batch

end NemoVerif.Embed
