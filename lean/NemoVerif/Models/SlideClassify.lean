/-
  C10 — `SlideClassify`: the classification of CoreVM's primitive elements (`CoreVM.Prim`) into the control-flow
  alphabet of `SlideGraph` (`SlideGraph.Elem`), IN LEAN.

  `harness/translate/c10.py::classify_flow` does the same on the Python objects (plus a few special cases for constant
  `Goto` conditions that CoreVM does not have).  `classifyPrim` mirrors what `CoreVM.slideStep` does per element kind; it
  is chosen so that the step-labelling lemma `Lemmas/SlideStepVM.lean::slideStep_moves_along_edge` is TRUE:

    * `send` is classified `step true` (successor `u+1`) whatever the event is: `slideStep` either stops (action event —
      not a move) or goes to `u+1` (internal event).  Whether the event is internal is not known statically when the
      spec has a `varName` / `members`.
    * `Break` / `Continue` / `CatchPatternFailure` / `ForkHead` labels that do not resolve raise `KeyError` in CoreVM
      (`labelPos`) when they are used — no move — so any target keeps the lemma true.
-/
import NemoVerif.Models.CoreVM
import NemoVerif.Models.SlideGraph

namespace NemoVerif.CoreVM
open NemoVerif NemoVerif.CoreIndex

/-- sliding-relevant classification of one CoreVM element of flow `cfg` -/
def classifyPrim (cfg : FlowCfg) : Prim → SlideGraph.Elem
  | .matchOp _ _ => .wait false
  | .otherOp _ => .wait false
  | .sendOp _ => .step true
  | .newAction _ => .step true
  | .label name => if name = "start_new_flow_instance" then .restartLabel else .step false
  | .goto _ l => .goto (cfg.label l)
  | .fork _ labels => .fork (labels.filterMap cfg.label)
  | .merge _ => .merge
  | .waitHeads _ => .waitHeads
  | .assign _ _ => .step true
  | .ret _ => .ret
  | .abort => .abort
  | .brk l => .jump (l.bind cfg.label)
  | .cont l => .jump (l.bind cfg.label)
  | .glob _ => .step false
  | .catchFail none => .catchPop
  | .catchFail (some l) => .catchPush ((cfg.label l).getD 0)
  | .beginScope _ => .step true
  | .endScope _ => .step true
  | .priority _ => .step true
  | .log _ => .step true
  | .print _ => .step true
  | .other => .step false

/-- the sliding program of one flow -/
def classify (cfg : FlowCfg) : SlideGraph.Prog := cfg.elements.toList.map (classifyPrim cfg)

/-- every name on the catch stack of a head is the label of some `CatchPatternFailure(label)` element of the flow
    (`catch_pattern_failure_label` is only ever appended to by such an element of the SAME flow; forked heads copy it) -/
def CatchNamesOk (cfg : FlowCfg) (hx : HeadX) : Prop :=
  ∀ l ∈ hx.catchLabels, Prim.catchFail (some l) ∈ cfg.elements.toList

/-- `(findInst ix f).bind (·.findHead h)`: the index-relevant data of head `k` -/
def headOf (s : VM) (k : Key) : Option Head := (findInst s.ixs.ix k.1).bind (·.findHead k.2)

/-- `flow_id` per instance: all that `cfgOfInst` reads of `Rest.fx` -/
def fxIds (fx : List (FUid × InstX)) : List (FUid × String) := fx.map fun p => (p.1, p.2.flowId)

/-! ### token abstraction of a CoreVM state (`RoundMachine`) -/

end NemoVerif.CoreVM
