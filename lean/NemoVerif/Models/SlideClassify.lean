/-
  C10 — `SlideClassify`: the classification of CoreVM's primitive elements (`CoreVM.Prim`) into the control-flow
  alphabet of `SlideGraph` (`SlideGraph.Elem`), IN LEAN.

  `harness/translate/c10.py::classify_flow` does the same on the Python objects (plus a few special cases for constant
  `Goto` conditions that CoreVM does not have).  `classifyPrim` mirrors what `CoreVM.slideStep` does per element kind; it
  is chosen so that the step-labelling lemma `Lemmas/SlideStepVM.lean::slideStep_moves_along_edge` is TRUE:

    * `send` is classified `step true` (successor `u+1`) whatever the event is: `slideStep` either stops (action event —
      not a move) or goes to `u+1` (internal event).  Whether the event is internal is not known statically when the
      spec has a `varName` / `members`.
    * `Break` / `Continue` / `CatchPatternFailure` / `ForkHead` labels that do not resolve raise `KeyError` in CoreVM
      (`labelPos`) when they are used — no move — so any target keeps the lemma true.
-/
import NemoVerif.Models.CoreVM
import NemoVerif.Models.SlideGraph
import NemoVerif.Models.RoundMachine

namespace NemoVerif.CoreVM
open NemoVerif NemoVerif.CoreIndex

/-- sliding-relevant classification of one CoreVM element of flow `cfg` -/
def classifyPrim (cfg : FlowCfg) : Prim → SlideGraph.Elem
  | .matchOp _ _ => .wait false
  | .otherOp _ => .wait false
  | .sendOp _ => .step true
  | .newAction _ => .step true
  | .label name => if name = "start_new_flow_instance" then .restartLabel else .step false
  | .goto _ l => .goto (cfg.label l)
  | .fork _ labels => .fork (labels.filterMap cfg.label)
  | .merge _ => .merge
  | .waitHeads _ => .waitHeads
  | .assign _ _ => .step true
  | .ret _ => .ret
  | .abort => .abort
  | .brk l => .jump (l.bind cfg.label)
  | .cont l => .jump (l.bind cfg.label)
  | .glob _ => .step false
  | .catchFail none => .catchPop
  | .catchFail (some l) => .catchPush ((cfg.label l).getD 0)
  | .beginScope _ => .step true
  | .endScope _ => .step true
  | .priority _ => .step true
  | .log _ => .step true
  | .print _ => .step true
  | .other => .step false

/-- the sliding program of one flow -/
def classify (cfg : FlowCfg) : SlideGraph.Prog := cfg.elements.toList.map (classifyPrim cfg)

/-- every name on the catch stack of a head is the label of some `CatchPatternFailure(label)` element of the flow
    (`catch_pattern_failure_label` is only ever appended to by such an element of the SAME flow; forked heads copy it) -/
def CatchNamesOk (cfg : FlowCfg) (hx : HeadX) : Prop :=
  ∀ l ∈ hx.catchLabels, Prim.catchFail (some l) ∈ cfg.elements.toList

/-- `(findInst ix f).bind (·.findHead h)`: the index-relevant data of head `k` -/
def headOf (s : VM) (k : Key) : Option Head := (findInst s.ixs.ix k.1).bind (·.findHead k.2)

/-- `flow_id` per instance: all that `cfgOfInst` reads of `Rest.fx` -/
def fxIds (fx : List (FUid × InstX)) : List (FUid × String) := fx.map fun p => (p.1, p.2.flowId)

/-- element kinds for which one `slideStep` is "evaluate something, then `head.position = …`" (everything except
    `ForkHead`, `MergeHeads`, `EndScope`) -/
def Prim.slides : Prim → Bool
  | .fork _ _ => false
  | .merge _ => false
  | .endScope _ => false
  | _ => true

/-! ### vocabulary of the step-labelling lemma (`Lemmas/SlideStepVM.lean`) -/

/-- the state a run ends in (normal return or exception) -/
def resSt {α : Type} : EStateM.Result VMErr VM α → VM
  | .ok _ s => s
  | .error _ s => s

/-- what a statement that is not an index write leaves alone: the index component, the program, and the flow id of
    every instance (all that `cfgOfInst` reads) -/
structure Frame (s s' : VM) : Prop where
  ixs : s'.ixs = s.ixs
  prog : s'.r.prog = s.r.prog
  ids : fxIds s'.r.fx = fxIds s.r.fx

/-- `x` never changes the index component, the program or an instance's flow id — whether it returns or raises -/
structure KeepsFr {α : Type} (x : M α) : Prop where
  frame : ∀ s, Frame s (resSt (x s))

/-- what `cfgOfInst f` returns, as a function of `Rest` -/
def cfgOf (r : Rest) (f : FUid) : Option FlowCfg := (OMap.lookup f (fxIds r.fx)).bind r.prog.find

/-- verdict on one run, for head `k` that had data `hd` in a state where the flow's config was `cfg`:
    * normal return `a`: config unchanged, the head exists with the same status, and `T a (new position)`;
    * Python exception: config unchanged, the head exists with the same status, and it either did not move or sits on
      an element INSIDE the flow (it was moved onto a match element whose name evaluation raised);
    * model-level stops (`outOfFuel`, `unsupported`, `guardFailed`): nothing is claimed. -/
def LandsR {α : Type} (k : Key) (cfg : FlowCfg) (hd : Head) (T : α → Nat → Prop) : EStateM.Result VMErr VM α → Prop
  | .ok a s' => cfgOf s'.r k.1 = some cfg ∧ ∃ hd', headOf s' k = some hd' ∧ hd'.status = hd.status ∧ T a hd'.pos
  | .error (.py _ _) s' => cfgOf s'.r k.1 = some cfg ∧
      ∃ hd', headOf s' k = some hd' ∧ hd'.status = hd.status ∧ (hd'.pos = hd.pos ∨ hd'.pos < cfg.elements.size)
  | .error _ _ => True

/-- `LandsR` for every state in which head `k` has data `hd` and the flow's config is `cfg` -/
structure Lands {α : Type} (k : Key) (cfg : FlowCfg) (hd : Head) (T : α → Nat → Prop) (x : M α) : Prop where
  run : ∀ s, cfgOf s.r k.1 = some cfg → headOf s k = some hd → LandsR k cfg hd T (x s)

/-! ### the token level (`RoundMachine`): simple elements, the global effect of their step, the token abstraction -/

open NemoVerif.RoundMachine

/-- `Frame` plus: the queue of internal events is unchanged -/
structure FrameQ (s s' : VM) : Prop where
  ixs : s'.ixs = s.ixs
  prog : s'.r.prog = s.r.prog
  ids : fxIds s'.r.fx = fxIds s.r.fx
  queue : s'.r.queue = s.r.queue

/-- `x` changes neither what `KeepsFr` protects nor the queue of internal events -/
structure KeepsQ {α : Type} (x : M α) : Prop where
  frame : ∀ s, FrameQ s (resSt (x s))

/-- element kinds whose `slideStep` only evaluates, writes contexts / head extras, and moves the head: no internal event
    is pushed, no other head or instance is touched -/
def Prim.simple : Prim → Bool
  | .assign _ _ | .log _ | .print _ | .glob _ | .other | .goto _ _ | .brk _ | .cont _ => true
  | .priority _ | .beginScope _ | .catchFail _ | .ret _ | .newAction _ => true
  | .label n => n != "start_new_flow_instance"
  | _ => false

/-- what such a step does to the state, as far as the token abstraction can see: only the position (and ghost `elem`)
    of head `k` changes -/
structure Moved (k : Key) (hd : Head) (p : Nat) (s s' : VM) : Prop where
  prog : s'.r.prog = s.r.prog
  ids : fxIds s'.r.fx = fxIds s.r.fx
  queue : s'.r.queue = s.r.queue
  insts : (s'.ixs.ix.insts = s.ixs.ix.insts ∧ hd.pos = p) ∨
    ∃ nm, s'.ixs.ix.insts = s.ixs.ix.insts.map fun i =>
      if i.uid = k.1 then i.modifyHead k.2 (fun x => { x with pos := p, elem := nm }) else i

/-- every normal return of `x` is "loop goes on, no new heads" after a pure move of head `k` to a position in `P` -/
structure SimpleMove (k : Key) (hd : Head) (P : Nat → Prop) (x : M (Bool × List Key)) : Prop where
  run : ∀ s b s', headOf s k = some hd → x s = .ok b s' → b = (false, []) ∧ ∃ p, P p ∧ Moved k hd p s s'

/-- sliding elements that `RoundMachine.headOutcomes` treats by its default rule "follow an edge, push `emit`" -/
def plainElem : SlideGraph.Elem → Bool
  | .step _ | .goto _ | .jump _ | .ret | .catchPush _ | .catchPop => true
  | _ => false

/-- kind of a queued internal event (`idx` numbers the flows of the `RProg`) -/
def evKindOf (idx : String → Option Nat) (e : Event) : EvKind :=
  if e.ev.name = "StartFlow" then
    match lookupArg "flow_id" e.ev.args with
    | some (.str g) => (match idx g with | some n => .start n | none => .plain)
    | _ => .plain
  else if e.ev.name = "UnhandledEvent" then .unhandled
  else .plain

def headToken (n : Nat) (b : Bool) (hd : Head) : Option Token :=
  if hd.status ≠ .inactive then some (Token.head n hd.pos b) else none

/-- tokens of one instance: every head that is not INACTIVE, when the instance listens and its flow is in the `RProg` -/
def instTokens (idx : String → Option Nat) (ids : List (FUid × String)) (i : Inst) : List Token :=
  if i.status.listening then
    match (OMap.lookup i.uid ids).bind idx with
    | some n => i.heads.filterMap (headToken n (decide (i.status = .started)))
    | none => []
  else []

/-- the token multiset (as a list) that represents a CoreVM state inside a round -/
def absTokens (idx : String → Option Nat) (s : VM) : List Token :=
  s.r.queue.map (fun e => Token.ev (evKindOf idx e)) ++ s.ixs.ix.insts.flatMap (instTokens idx (fxIds s.r.fx))

end NemoVerif.CoreVM
