/-
  A small dataflow IR for the generation modules (C17, "LLM text is never used as a template").

  The translator (harness/translate/c17.py) turns every function of
    actions/llm/generation.py, actions/v2_x/generation.py, llm/taskmanager.py
  that contains a template sink into a `Prog`: assignments `v := f(srcs) ∪ consts`, sinks
  `render id (template expression)`, sequencing, two-way branching and loops.  Variables are numbered
  per function.  `consts` are the provenance classes that the expression introduces by itself
  (`llm` for the result of `llm_call`, `lit` for a literal, `config`/`context`/`history` for the roots
  the translator recognises).

  Concrete semantics (`Run o`): for a provenance class `o`, an environment says which variables MAY
  carry text of class `o`; a run resolves every branch and every loop count and lists, per executed
  sink, whether the template expression may carry `o`.
  Abstract interpreter (`absI o`): flow-sensitive may-analysis with strong updates, join at branches,
  and for loops a candidate invariant obtained by three unrollings that is then CHECKED to be stable
  (otherwise the `ok` flag is false and nothing is claimed).
-/
namespace NemoVerif.DataflowIR

inductive Origin where
  | lit | config | context | history | llm | param | rendered | other
  deriving DecidableEq, Repr

inductive Prog where
  | skip
  | assign (v : Nat) (srcs : List Nat) (consts : List Origin)
  | render (id : Nat) (srcs : List Nat) (consts : List Origin)
  | seq (a b : Prog)
  | ite (a b : Prog)
  | loop (b : Prog)
  deriving Repr

abbrev Env := Nat → Bool

def carries (o : Origin) (e : Env) (srcs : List Nat) (consts : List Origin) : Bool :=
  consts.contains o || srcs.any e

def Env.set (e : Env) (v : Nat) (b : Bool) : Env := fun x => if x = v then b else e x

/-- all runs of a program, for provenance class `o` -/
inductive Run (o : Origin) : Prog → Env → Env → List (Nat × Bool) → Prop where
  | skip (e) : Run o .skip e e []
  | assign (e v srcs consts) : Run o (.assign v srcs consts) e (e.set v (carries o e srcs consts)) []
  | render (e id srcs consts) : Run o (.render id srcs consts) e e [(id, carries o e srcs consts)]
  | seq {a b e e1 e2 l1 l2} : Run o a e e1 l1 → Run o b e1 e2 l2 → Run o (.seq a b) e e2 (l1 ++ l2)
  | iteL {a b e e1 l} : Run o a e e1 l → Run o (.ite a b) e e1 l
  | iteR {a b e e1 l} : Run o b e e1 l → Run o (.ite a b) e e1 l
  | loopDone {b} (e) : Run o (.loop b) e e []
  | loopStep {b e e1 e2 l1 l2} : Run o b e e1 l1 → Run o (.loop b) e1 e2 l2 → Run o (.loop b) e e2 (l1 ++ l2)

/-! ## abstract interpreter -/

structure AbsRes where
  tainted : List Nat
  sites : List (Nat × Bool)
  ok : Bool
  deriving Repr

def subset (a b : List Nat) : Bool := a.all (fun x => b.contains x)

/-- duplicate-free union (keeps the analysis state small under nested loops) -/
def uni (a b : List Nat) : List Nat := b.foldl (fun acc x => if acc.contains x then acc else x :: acc) a

def carriesA (o : Origin) (t : List Nat) (srcs : List Nat) (consts : List Origin) : Bool :=
  consts.contains o || srcs.any (fun x => t.contains x)

def absI (o : Origin) : Prog → List Nat → AbsRes
  | .skip, t => ⟨t, [], true⟩
  | .assign v srcs consts, t =>
    if carriesA o t srcs consts then ⟨uni t [v], [], true⟩ else ⟨t.filter (fun x => x != v), [], true⟩
  | .render id srcs consts, t => ⟨t, [(id, carriesA o t srcs consts)], true⟩
  | .seq a b, t =>
    let ra := absI o a t
    let rb := absI o b ra.tainted
    ⟨rb.tainted, ra.sites ++ rb.sites, ra.ok && rb.ok⟩
  | .ite a b, t =>
    let ra := absI o a t
    let rb := absI o b t
    ⟨uni ra.tainted rb.tainted, ra.sites ++ rb.sites, ra.ok && rb.ok⟩
  | .loop b, t =>
    let s1 := uni t (absI o b t).tainted
    let s2 := uni s1 (absI o b s1).tainted
    let s3 := uni s2 (absI o b s2).tainted
    let r := absI o b s3
    ⟨s3, r.sites, r.ok && subset r.tainted s3⟩

/-- the check evaluated on generated data: analysis conclusive and no sink's template may carry `o` -/
def safe (o : Origin) (p : Prog) (init : List Nat) : Bool :=
  let r := absI o p init
  r.ok && r.sites.all (fun s => !s.2)

/-- the sinks whose template may carry `o` (for the evidence / notes) -/
def flagged (o : Origin) (p : Prog) (init : List Nat) : List Nat :=
  ((absI o p init).sites.filter (fun s => s.2)).map (·.1)

structure Func where
  file : String
  name : String
  prog : Prog
  /-- variables that may carry LLM text on entry (e.g. `events`: the history contains earlier completions) -/
  initLlm : List Nat
  /-- human-readable sink table: (site id, callee, template expression, provenance classes found) -/
  sinks : List (Nat × String × String × List Origin)
  deriving Repr

end NemoVerif.DataflowIR
