/-
  C01 / C02 / C03 — `PipelineCtx`: the TWO contexts of the Colang 1.0 runtime, at the level of events.

  The Colang 1.0 runtime keeps no state between calls: everything is recomputed from the event list.
  * the FLOWS' context (`flows.py::compute_next_steps`) is rebuilt by replaying the history *as the
    flows see it* — `apply_history_alterations` removes every turn that ended with `hide_prev_turn`
    (an action failed, the internal-error text was returned);
  * the ACTIONS' context (`flows.py::compute_context(events)`, used by
    `runtime.py::_process_start_action` for the `context` argument of rail actions, for `$var` action
    parameters and for `create event StartUtteranceBotAction(script=$bot_message)`) is accumulated
    from ALL `ContextUpdate` events, hidden turns included.

  A `set` statement executed by `sliding.py::slide` changes the flows' context and is published as a
  `ContextUpdate` (that is how the action side learns it); the result of `$x = execute …` is published
  as a `ContextUpdate` only if it differs from the context the flows see
  (`_process_start_action`, "we check if at least one key changed").

  This file mirrors exactly that machinery for the two variables the rails work on (`$user_message`,
  `$bot_message`) and runs the rail loops of `llm_flows.co` on top of it, with two kinds of rails:
  action rails (the library shape `$allowed = execute check` / `$var = execute mask`: they read the
  ACTION side) and pure-Colang rails (`if … in $var`: they read the FLOW side).

  `drop = true` is the model of the seeded change "slide does not publish a `set` that re-assigns the
  value the variable already has" (used only for the kernel-checked counterexample).
-/
import NemoVerif.Models.Pipeline

namespace NemoVerif.PipelineCtx
open NemoVerif NemoVerif.Pipeline

inductive Var where
  | userMessage | botMessage
  deriving Repr, DecidableEq

/-- The events that matter for the two contexts (newest first in all lists below). -/
inductive Ev where
  | user                          -- UtteranceUserActionFinished: where `hide_prev_turn` cuts
  | set (v : Var) (x : Text)      -- a `set` element executed by `slide` while (re)playing the event before it
  | update (v : Var) (x : Text)   -- ContextUpdate
  | hide                          -- hide_prev_turn
  | other                         -- any other event
  deriving Repr, DecidableEq

/-- `apply_history_alterations`, the cut: drop everything back to and including the last user utterance.
    (The code asserts that there is one; on a history without one the model returns `[]`.) -/
def cutUser : List Ev → List Ev
  | [] => []
  | .user :: r => r
  | _ :: r => cutUser r

/-- `apply_history_alterations` on a newest-first event list: the history the flows see. -/
def visOf : List Ev → List Ev
  | [] => []
  | .hide :: r => cutUser (visOf r)
  | e :: r => e :: visOf r

/-- `compute_context`: the latest `ContextUpdate` of the variable. -/
def lookupU (v : Var) : List Ev → Option Text
  | [] => none
  | .update w x :: r => if w = v then some x else lookupU v r
  | _ :: r => lookupU v r

/-- The context of the replayed flows: `ContextUpdate` events and the `set`s re-executed by `slide`. -/
def lookupF (v : Var) : List Ev → Option Text
  | [] => none
  | .update w x :: r => if w = v then some x else lookupF v r
  | .set w x :: r => if w = v then some x else lookupF v r
  | _ :: r => lookupF v r

/-- action side: `compute_context(events)` -/
def actCtx (es : List Ev) (v : Var) : Option Text := lookupU v es
/-- `compute_context(apply_history_alterations(events))` -/
def visCtx (es : List Ev) (v : Var) : Option Text := lookupU v (visOf es)
/-- flow side: the context of the flows replayed on the visible history -/
def flowCtx (es : List Ev) (v : Var) : Option Text := lookupF v (visOf es)

def hasHide : List Ev → Bool
  | [] => false
  | .hide :: _ => true
  | _ :: r => hasHide r

/-- `slide`, element `set`: the flows' context is updated and the update is recorded
    (`state.context_updates`), which `compute_next_steps` turns into a `ContextUpdate` event.
    `drop`: the seeded variant that records only values that differ from the flows' context. -/
def slideSet (drop : Bool) (v : Var) (x : Text) (es : List Ev) : List Ev :=
  if drop && flowCtx es v == some x then .set v x :: es
  else .update v x :: .set v x :: es

/-- `_process_start_action` for `$v = execute …` returning `w`: `ContextUpdate` only if the value differs
    from the context the flows see (`visible_context`, computed without the hidden turns if there are
    any), then `InternalSystemActionFinished`. -/
def actionResult (v : Var) (w : Text) (es : List Ev) : List Ev :=
  let visible := if hasHide es then visCtx es v else actCtx es v
  if visible == some w then .other :: es else .other :: .update v w :: es

structure Rail where
  id : Nat
  /-- a pure-Colang rail: the verdict is computed by the flow from ITS view of the variable -/
  pure : Bool
  deriving Repr, DecidableEq

/-- what the rail is shown: action rails read `compute_context(events)`, pure rails the flows' context -/
def shown (r : Rail) (v : Var) (es : List Ev) : Text :=
  ((if r.pure then flowCtx es v else actCtx es v).getD "")

/-- The `while $i < len($flows)` loop of `run input rails` / `run output rails` over the event list.
    An action rail that lets the text through ends with `$var = execute …mask`, whose result is the
    text it was given (accept) or the rewritten text; a pure rail may assign the variable itself.
    Returns the calls (rail id, text shown), the result and the events. -/
def railsE (drop : Bool) (var : Var) (verd : Nat → Text → Verdict) : List Rail → List Ev → List (Nat × Text) × Res × List Ev
  | [], es => ([], .pass ((actCtx es var).getD ""), es)
  | r :: rs, es =>
    let x := shown r var es
    match verd r.id x with
    | .accept =>
      let es' := if r.pure then .other :: es else actionResult var x (.other :: es)
      let (cs, res, es'') := railsE drop var verd rs es'
      ((r.id, x) :: cs, res, es'')
    | .rewrite w =>
      let es' := if r.pure then slideSet drop var w (.other :: es) else actionResult var w (.other :: es)
      let (cs, res, es'') := railsE drop var verd rs es'
      ((r.id, x) :: cs, res, es'')
    | .reject => ([(r.id, x)], .blocked, .other :: es)
    | .fault => ([(r.id, x)], .faulted, .hide :: .other :: es)
    | .escape => ([(r.id, x)], .escaped, es)

/-- What one turn does with the two variables. -/
structure TurnObs where
  inCalls : List (Nat × Text)
  /-- the text of `UserMessage(text=$user_message)` (what every dialog / generation step is given) -/
  userMsg : Option Text
  outCalls : List (Nat × Text)
  /-- the script of `StartUtteranceBotAction(script=$bot_message)` of `process bot message` -/
  uttered : Option Text
  deriving Repr, DecidableEq

/-- The oracles of a turn at this level: texts, verdicts, and a fault of the dialog stage
    (dialog action / `retrieve_relevant_chunks`), which hides the turn before a bot message exists. -/
structure TurnE where
  user : Text
  bot : Text
  vin : Nat → Text → Verdict
  vout : Nat → Text → Verdict
  dialogFault : Bool

/-- `process bot message` for `BotMessage(text)`: `$bot_message = $event.text`, `do run output rails`,
    `create event StartUtteranceBotAction(script=$bot_message)` (an action: the parameter is resolved on
    the action side). -/
def outStageE (drop : Bool) (outRails : List Rail) (vout : Nat → Text → Verdict) (text : Text) (es : List Ev) :
    List (Nat × Text) × Option Text × List Ev :=
  let es1 := slideSet drop .botMessage text (.other :: es)
  match railsE drop .botMessage vout outRails es1 with
  | (cs, .pass _, es2) => (cs, some ((actCtx es2 .botMessage).getD ""), .other :: es2)
  | (cs, _, es2) => (cs, none, es2)

/-- `process user input` (`$user_message = $event["final_transcript"]`, `do run input rails`,
    `create event UserMessage(text=$user_message)`), the dialog stage, `process bot message`. -/
def turnE (drop : Bool) (inRails outRails : List Rail) (t : TurnE) (es : List Ev) : TurnObs × List Ev :=
  let es1 := slideSet drop .userMessage t.user (.user :: es)
  match railsE drop .userMessage t.vin inRails es1 with
  | (ics, .pass _, es2) =>
    let um := (actCtx es2 .userMessage).getD ""
    if t.dialogFault then
      ({ inCalls := ics, userMsg := some um, outCalls := [], uttered := none }, .hide :: .other :: es2)
    else
      let (ocs, utt, es3) := outStageE drop outRails t.vout t.bot (.other :: es2)
      ({ inCalls := ics, userMsg := some um, outCalls := ocs, uttered := utt }, es3)
  | (ics, _, es2) => ({ inCalls := ics, userMsg := none, outCalls := [], uttered := none }, es2)

def convE (drop : Bool) (inRails outRails : List Rail) : List Ev → List TurnE → List TurnObs
  | _, [] => []
  | es, t :: ts =>
    let r := turnE drop inRails outRails t es
    r.1 :: convE drop inRails outRails r.2 ts

/-! ## Generation options of a call (Colang 1.0)

`options={"rails": {"input": False}}` of a call is recorded as `ContextUpdate(generation_options=…)` in front of
the call's events; `process user input` / `process bot message` run the rails only `if $generation_options is
None or $generation_options.rails.input` (`.output`).  A call without options records nothing (messages API)
or the defaults (state API: `GenerationOptions()` is created to return a `GenerationResponse`) — either way all
rails are enabled for it.  So the configuration a turn runs under is that of ITS call. -/

/-- the rails enabled for one call -/
structure CallOpts where
  input : Bool := true
  output : Bool := true
  deriving Repr, DecidableEq

def callCfg (cfg : Cfg) (o : CallOpts) : Cfg :=
  { cfg with inRails := if o.input then cfg.inRails else [], outRails := if o.output then cfg.outRails else [] }

/-- a conversation whose calls carry their own generation options -/
def convV1P (cfg : Cfg) : HistV1 → List (CallOpts × Turn) → List (List Step × Reply × HistV1)
  | _, [] => []
  | h, (o, t) :: ts =>
    let r := turnV1 (callCfg cfg o) h t
    r :: convV1P cfg r.2.2 ts

def convEP (drop : Bool) (inRails outRails : List Rail) : List Ev → List (CallOpts × TurnE) → List TurnObs
  | _, [] => []
  | es, (o, t) :: ts =>
    let r := turnE drop (if o.input then inRails else []) (if o.output then outRails else []) t es
    r.1 :: convEP drop inRails outRails r.2 ts

end NemoVerif.PipelineCtx
