/-
  `Lifetime` — function-level model of the flow/action life-time machinery of the Colang 2.x
  interpreter (`nemoguardrails/colang/v2_x/runtime/statemachine.py`, `flows.py`):

    `_abort_flow`, `_finish_flow`, the `EndScope` branch of `slide`, `_update_action_status_by_event`
    (+ `Action.process_event`), `_is_reference_activated_flow`, `_is_child_activated_flow`,
    `_get_reference_activated_flow_instance` and the `StartFlow` branch of
    `_process_internal_events_without_default_matchers` (activation bookkeeping), the
    `start_new_flow_instance` label of `slide`, and the end-of-flow decision of `_advance_head_front`
    (immediate-finish guard of activated flows).

  Abstractions (stated in design_notes/C06.md): heads are abstracted to their number; event
  arguments other than the ones the functions read are dropped; the internal queue is a list (deque:
  `push` = append, `pushLeft` = cons); dict look-ups that raise `KeyError` / `list.remove` raising
  `ValueError` are `Except` errors; the Python recursion of `_abort_flow` over children takes fuel
  (`Err.fuel` is kept apart from the Python exception classes).
  Core Lean only (linked into the driver).
-/
namespace NemoVerif.Lifetime

inductive FStatus | waiting | starting | started | stopping | stopped | finished
  deriving DecidableEq, Repr, Inhabited

inductive AStatus | initialized | starting | started | stopping | finished
  deriving DecidableEq, Repr, Inhabited

/-- `is_listening_flow` -/
def FStatus.listening : FStatus → Bool
  | .waiting | .started | .starting => true
  | _ => false

/-- `is_inactive_flow` -/
def FStatus.inactive : FStatus → Bool
  | .waiting | .stopped | .finished => true
  | _ => false

/-- STARTING or STARTED: the only states in which a `Stop…` event may be generated -/
def AStatus.running : AStatus → Bool
  | .starting | .started => true
  | _ => false

structure Flow where
  flowId : Nat
  parent : Option Nat
  children : List Nat
  status : FStatus
  activated : Nat
  nis : Bool                                   -- new_instance_started
  actionUids : List Nat
  scopes : List (Nat × List Nat × List Nat)    -- scope name ↦ (flow uids, action uids), insertion order
  heads : Nat                                  -- number of heads (abstracted)
  isMain : Bool                                -- flow_id == "main"
  deriving Repr, Inhabited

structure Action where
  status : AStatus
  count : Int                                  -- flow_scope_count
  deriving Repr, Inhabited, DecidableEq

/-- internal events (the arguments the modelled functions read or write) -/
inductive IEv
  | old (i : Nat)                              -- an event that was in the queue before (opaque)
  | flowFailed (uid : Nat)
  | flowFinished (uid : Nat)
  | flowStarted (uid : Nat)
  /-- `flow_state.start_event(..)` of instance `inst`, `source_flow_instance_uid := source` -/
  | startFlow (flowId : Nat) (source : Nat) (activated : Nat) (inst : Nat)
  deriving DecidableEq, Repr, Inhabited

/-- outgoing (UMIM) events -/
inductive OEv
  | old (i : Nat)
  | stop (action : Nat)
  | start (action : Nat)
  deriving DecidableEq, Repr, Inhabited

inductive Err
  | key       -- KeyError (state.flow_states[..] / state.actions[..])
  | value     -- ValueError (list.remove(x): x not in list)
  | runtime   -- ColangRuntimeError (scope does not exist)
  | fuel      -- model recursion budget exhausted (not a Python exception)
  deriving DecidableEq, Repr, Inhabited

structure State where
  flows : Nat → Option Flow
  actions : Nat → Option Action
  order : List Nat                             -- iteration order of `state.flow_states`
  queue : List IEv                             -- `state.internal_events`
  out : List OEv                               -- `state.outgoing_events`
  /-- uids of the instances that are being aborted / finished further up the call stack: the `in_progress` set of the
      REPAIRED `_abort_flow` (fixes/C06-activation-cycle.diff), threaded through the state.  Read and written only by
      `abortFlowV` / `finishFlowV` (Models/LifetimeV.lean); the as-is functions below never touch it. -/
  busy : List Nat := []

/-! ### primitive state updates -/

def setFlow (s : State) (u : Nat) (f : Flow) : State :=
  { s with flows := fun v => if v = u then some f else s.flows v }

def modFlow (s : State) (u : Nat) (g : Flow → Flow) : State :=
  match s.flows u with
  | some f => setFlow s u (g f)
  | none => s

def setAction (s : State) (a : Nat) (x : Action) : State :=
  { s with actions := fun v => if v = a then some x else s.actions v }

/-- `_push_internal_event` -/
def push (s : State) (e : IEv) : State := { s with queue := s.queue ++ [e] }

/-- `_push_left_internal_event` -/
def pushLeft (s : State) (e : IEv) : State := { s with queue := e :: s.queue }

def emit (s : State) (e : OEv) : State := { s with out := s.out ++ [e] }

/-! ### `Action.process_event` / `_update_action_status_by_event` -/

/-- What `Action.process_event` reads of an event: the action uid and the results of its substring
    tests on the event name (computed by Python's `in` in the harness). -/
structure AEv where
  uid : Nat
  isAction : Bool     -- "Action" in name
  started : Bool      -- "ActionStarted" in name
  updated : Bool      -- "ActionUpdated" in name
  finished : Bool     -- "ActionFinished" in name
  start : Bool        -- "Start" in name
  stop : Bool         -- "Stop" in name
  deriving Repr, Inhabited

/-- the `Stop<Name>` event of action `a` (action names end in `Action`, contain neither `Start` nor `Stop`) -/
def AEv.stopOf (a : Nat) : AEv := ⟨a, true, false, false, false, false, true⟩
def AEv.startOf (a : Nat) : AEv := ⟨a, true, false, false, false, true, false⟩

/-- `Action.process_event` (status and `flow_scope_count`; the context update is not modelled) -/
def processEvent (x : Action) (uid : Nat) (e : AEv) : Action :=
  if e.isAction && e.uid == uid then
    if e.started then { x with status := .started }
    else if e.updated then x
    else if e.finished then { status := .finished, count := 0 }
    else if e.start then { status := .starting, count := 1 }
    else if e.stop then { x with status := .stopping }
    else x
  else x

/-- inner loop of `_update_action_status_by_event` over `flow_state.action_uids` -/
def updActs (e : AEv) : State → List Nat → State
  | s, [] => s
  | s, a :: as =>
    match s.actions a with
    | some x => if x.status != .finished then updActs e (setAction s a (processEvent x a e)) as else updActs e s as
    | none => updActs e s as

/-- outer loop of `_update_action_status_by_event` over `state.flow_states.values()` -/
def updFlows (e : AEv) : State → List Nat → State
  | s, [] => s
  | s, u :: us =>
    match s.flows u with
    | some f => if f.status.listening then updFlows e (updActs e s f.actionUids) us else updFlows e s us
    | none => updFlows e s us

def updateActionStatusByEvent (s : State) (e : AEv) : State := updFlows e s s.order

/-- `_generate_umim_event` for an action event: append to `outgoing_events`, then update action states -/
def generateUmim (s : State) (o : OEv) (e : AEv) : State :=
  updateActionStatusByEvent (emit s o) e

/-! ### the "abort all started actions that have not finished yet" loop
    (identical in `_abort_flow`, `_finish_flow` and the `EndScope` branch) -/

def stopAction1 (s : State) (a : Nat) : Except Err State :=
  match s.actions a with
  | none => .error .key
  | some x =>
    if x.status.running then
      let x1 : Action := { x with count := x.count - 1 }
      if x1.count == 0 then
        .ok (generateUmim (setAction s a { x1 with status := .stopping }) (.stop a) (AEv.stopOf a))
      else .ok (setAction s a x1)
    else .ok s

def stopActions : State → List Nat → Except Err State
  | s, [] => .ok s
  | s, a :: as =>
    match stopAction1 s a with
    | .ok s1 => stopActions s1 as
    | .error e => .error e

/-! ### activated-flow predicates -/

/-- `_is_reference_activated_flow` (raises KeyError when the parent instance is gone) -/
def isRefActivated (s : State) (f : Flow) : Except Err Bool :=
  if f.activated > 0 then
    match f.parent with
    | none => .ok false
    | some p =>
      match s.flows p with
      | none => .error .key
      | some pf => .ok (f.flowId != pf.flowId)
  else .ok false

/-- `_is_child_activated_flow` -/
def isChildActivated (s : State) (f : Flow) : Bool :=
  f.activated > 0 &&
    match f.parent with
    | none => false
    | some p =>
      match s.flows p with
      | none => false
      | some pf => f.flowId == pf.flowId

/-! ### `_abort_flow` / `_finish_flow` -/

/-- "Abort all activated child flows" loop of the deactivation branch (`rec s c` = `_abort_flow(state, child, ms, True)`) -/
def deactLoop (rec : State → Nat → Except Err State) (fid : Nat) : State → List Nat → Except Err State
  | s, [] => .ok s
  | s, c :: cs =>
    match s.flows c with
    | none => .error .key
    | some cf =>
      if cf.flowId == fid then
        match rec s c with
        | .ok s1 => deactLoop rec fid (modFlow s1 c fun f => { f with activated := 0 }) cs
        | .error e => .error e
      else deactLoop rec fid s cs

/-- "Abort/deactivate all running child flows" loop -/
def childLoop (rec : State → Nat → Except Err State) : State → List Nat → Except Err State
  | s, [] => .ok s
  | s, c :: cs =>
    match s.flows c with
    | none => childLoop rec s cs
    | some cf =>
      if !isChildActivated s cf then
        match rec s c with
        | .ok s1 => childLoop rec s1 cs
        | .error e => .error e
      else childLoop rec s cs

/-- first statement block of both functions: reference-count decrement of a reference activated flow.
    Result: the new state and whether the function returns right away. -/
def deactivatePhase (rec : State → Nat → Except Err State) (s : State) (u : Nat) (d : Bool) :
    Except Err (State × Bool) :=
  match s.flows u with
  | none => .error .key
  | some f =>
    match (if d then isRefActivated s f else .ok false) with
    | .error e => .error e
    | .ok false => .ok (s, false)
    | .ok true =>
      let s1 := setFlow s u { f with activated := f.activated - 1 }
      if f.activated - 1 == 0 then
        match deactLoop rec f.flowId s1 f.children with
        | .ok s2 => .ok (s2, false)
        | .error e => .error e
      else .ok (s1, true)

/-- `state.flow_states[parent].child_flow_uids.remove(uid)` guarded as in the source -/
def removeFromParent (s : State) (u : Nat) : Except Err State :=
  match s.flows u with
  | none => .error .key
  | some f =>
    if f.activated == 0 then
      match f.parent with
      | none => .ok s
      | some p =>
        match s.flows p with
        | none => .ok s
        | some pf =>
          if u ∈ pf.children then .ok (setFlow s p { pf with children := pf.children.erase u })
          else .error .value
    else .ok s

/-- "Restart the flow if it is an activated flow" -/
def restart (s : State) (u : Nat) (d : Bool) : Except Err State :=
  match s.flows u with
  | none => .error .key
  | some f =>
    if !d && f.activated > 0 && !f.nis then
      let src : Except Err Nat :=
        match f.parent with
        | none => .ok u
        | some p =>
          match s.flows p with
          | none => .error .key
          | some pf => .ok (if pf.flowId == f.flowId then p else u)
      match src with
      | .error e => .error e
      | .ok src =>
        let s1 := pushLeft s (.startFlow f.flowId src f.activated u)
        .ok (modFlow s1 u fun f => { f with nis := true })
    else .ok s

/-- "Avoid restarting an activated flow that failed before it was started": `new_instance_started := True`
    when the instance is still STARTING and activated (statement added to `_abort_flow` by /repo a75cc62) -/
def markNoRestart (s : State) (u : Nat) : State :=
  match s.flows u with
  | some f => if f.status == .starting && f.activated > 0 then setFlow s u { f with nis := true } else s
  | none => s

/-- the part of `_abort_flow` after the deactivation block -/
def abortBody (rec : State → Nat → Except Err State) (s : State) (u : Nat) (d : Bool) : Except Err State :=
  match s.flows u with
  | none => .error .key
  | some f =>
    if !f.status.listening && f.status != .stopping then .ok s
    else
      match childLoop rec (markNoRestart s u) f.children with
      | .error e => .error e
      | .ok s1 =>
        match s1.flows u with
        | none => .error .key
        | some f1 =>
          match stopActions s1 f1.actionUids with
          | .error e => .error e
          | .ok s2 =>
            let s3 := modFlow s2 u fun f => { f with heads := 0 }
            match removeFromParent s3 u with
            | .error e => .error e
            | .ok s4 =>
              let s5 := modFlow s4 u fun f => { f with status := .stopped }
              let s6 := push s5 (.flowFailed u)
              restart s6 u d

/-- `_abort_flow(state, flow_states[u], matching_scores, deactivate_flow = d)` -/
def abortFlow : Nat → State → Nat → Bool → Except Err State
  | 0, _, _, _ => .error .fuel
  | n + 1, s, u, d =>
    match deactivatePhase (fun s c => abortFlow n s c true) s u d with
    | .error e => .error e
    | .ok (s1, true) => .ok s1
    | .ok (s1, false) => abortBody (fun s c => abortFlow n s c true) s1 u d

/-- the part of `_finish_flow` after the deactivation block -/
def finishBody (rec : State → Nat → Except Err State) (s : State) (u : Nat) (d : Bool) : Except Err State :=
  match s.flows u with
  | none => .error .key
  | some f =>
    if !f.status.listening then .ok s
    else
      match childLoop rec s f.children with
      | .error e => .error e
      | .ok s1 =>
        match s1.flows u with
        | none => .error .key
        | some f1 =>
          match stopActions s1 f1.actionUids with
          | .error e => .error e
          | .ok s2 =>
            let s3 := modFlow s2 u fun f => { f with heads := 0 }
            if f1.isMain then
              -- main flow: fresh head, status WAITING, return
              .ok (modFlow s3 u fun f => { f with heads := 1, status := .waiting })
            else
              let s4 := modFlow s3 u fun f => { f with status := .finished }
              match removeFromParent s4 u with
              | .error e => .error e
              | .ok s5 =>
                let s6 := push s5 (.flowFinished u)
                restart s6 u d

/-- `_finish_flow(state, flow_states[u], matching_scores, deactivate_flow = d)`; fuel `n + 1` allows
    nested `_abort_flow` calls of depth `n` -/
def finishFlow (n : Nat) (s : State) (u : Nat) (d : Bool) : Except Err State :=
  match deactivatePhase (fun s c => abortFlow n s c true) s u d with
  | .error e => .error e
  | .ok (s1, true) => .ok s1
  | .ok (s1, false) => finishBody (fun s c => abortFlow n s c true) s1 u d

/-! ### `EndScope` branch of `slide` -/

def scopeLookup (name : Nat) : List (Nat × List Nat × List Nat) → Option (List Nat × List Nat)
  | [] => none
  | (k, v) :: rest => if k == name then some v else scopeLookup name rest

def scopeErase (name : Nat) : List (Nat × List Nat × List Nat) → List (Nat × List Nat × List Nat)
  | [] => []
  | (k, v) :: rest => if k == name then rest else (k, v) :: scopeErase name rest

/-- "stop all started flows in scope": `_abort_flow(state, child, head.matching_scores)` for listening ones -/
def scopeFlowLoop (rec : State → Nat → Except Err State) : State → List Nat → Except Err State
  | s, [] => .ok s
  | s, c :: cs =>
    match s.flows c with
    | none => scopeFlowLoop rec s cs
    | some cf =>
      if cf.status.listening then
        match rec s c with
        | .ok s1 => scopeFlowLoop rec s1 cs
        | .error e => .error e
      else scopeFlowLoop rec s cs

def endScope (n : Nat) (s : State) (u : Nat) (name : Nat) : Except Err State :=
  match s.flows u with
  | none => .error .key
  | some f =>
    match scopeLookup name f.scopes with
    | none => .error .runtime
    | some (fl, al) =>
      let s1 := setFlow s u { f with scopes := scopeErase name f.scopes }
      match scopeFlowLoop (fun s c => abortFlow n s c false) s1 fl with
      | .error e => .error e
      | .ok s2 => stopActions s2 al

/-! ### activation bookkeeping: `StartFlow` in `_process_internal_events_without_default_matchers` -/

/-- "is not a reference instance" test of `_get_reference_activated_flow_instance` (negated) -/
def isReferenceCandidate (s : State) (f : Flow) : Bool :=
  !(f.activated == 0 ||
    match f.parent with
    | none => true                                        -- `None not in state.flow_states`
    | some p =>
      match s.flows p with
      | none => true
      | some pf => f.flowId == pf.flowId)

/-- `_get_reference_activated_flow_instance`: first instance of the flow (in `flow_id_states` order)
    that is a reference instance and whose parameters equal the event's (`pm` = oracle table of the
    instances whose parameters match, computed on the Python values) -/
def getRefActivated (s : State) (fid : Nat) (pm : Nat → Bool) : List Nat → Option Nat
  | [] => none
  | u :: us =>
    match s.flows u with
    | none => getRefActivated s fid pm us
    | some f =>
      if f.flowId == fid && isReferenceCandidate s f && pm u then some u
      else getRefActivated s fid pm us

inductive StartRes
  | ignored                          -- unknown flow id or "main"
  | reused (inst : Nat)              -- an already activated reference instance was re-activated
  | create (source : Nat)            -- a new instance is created; `source_flow_instance_uid` it is started with
  deriving DecidableEq, Repr

/-- the `StartFlow` branch: `known` = flow id has a config and is not "main"; `act` = truthiness of the
    event's `activated` argument; `hasInst` = `flow_id in state.flow_id_states` -/
def processStartFlow (s : State) (fid : Nat) (known act hasInst : Bool) (source : Nat) (pm : Nat → Bool) :
    Except Err (State × StartRes) :=
  if !known then .ok (s, .ignored)
  else
    let started := if act && hasInst then getRefActivated s fid pm s.order else none
    match s.flows source with
    | none => .error .key
    | some sf =>
      let isActivatedChild := fid == sf.flowId
      -- REPAIRED behaviour (fixes/C06-start-after-parent-ended.diff): a StartFlow whose sender has finished or
      -- failed in the meantime is dropped (unless it is the restart of an activated flow, whose sender is the
      -- ended reference instance of the same flow — and then only while that instance is still activated).
      -- The unpatched code goes on and creates an orphan instance.
      let isRestart := isActivatedChild && act
      if ((sf.status == .stopped || sf.status == .finished) && !isRestart) || (isRestart && sf.activated == 0) then .ok (s, .ignored)
      else
      match started with
      | some r =>
        if !isActivatedChild then
          match s.flows r with
          | none => .error .key
          | some rf =>
            let s1 := setFlow s r { rf with activated := rf.activated + 1 }
            let s2 := modFlow s1 source fun f => { f with children := f.children ++ [r] }
            .ok (push s2 (.flowStarted r), .reused r)
        else .ok (s, .create r)
      | none => .ok (s, .create source)

/-! ### `start_new_flow_instance` label of `slide` -/

def labelRestart (s : State) (u : Nat) : Except Err State :=
  match s.flows u with
  | none => .error .key
  | some f =>
    if f.status != .started then .ok s
    else .ok (modFlow (pushLeft s (.startFlow f.flowId u f.activated u)) u fun f => { f with nis := true })

/-! ### end-of-flow decision of `_advance_head_front` (head reached the end of the flow) -/

inductive EndAct | finish | abort | park
  deriving DecidableEq, Repr

/-- `status` = flow status after `slide` returned with `head.position >= len(elements)`;
    result: new status, whether a `FlowStarted` event is pushed, what happens to the instance
    (`park` = head set INACTIVE, neither `_finish_flow` nor `_abort_flow` is called). -/
def endDecision (status : FStatus) (activated : Nat) : FStatus × Bool × EndAct :=
  if status == .stopping then (status, false, .abort)
  else if status == .starting then
    if activated > 0 then (.started, true, .park) else (.started, true, .finish)
  else (status, false, .finish)

end NemoVerif.Lifetime
