/-
  ConflictLink — from the matching phase of one internal event to the input of `_resolve_action_conflicts`.

  The matching phase is the model of C10 (`Models/ErrContain.lean`, repaired tree): `scanLookup false` = the loop over
  `head_candidates` with `_compute_event_matching_score` as an oracle (`Cand.score`: pos / zero / neg / err), computing
  `heads_matching`, `heads_failing`, `heads_erroring`; afterwards failing heads without a catch label and erroring heads
  have their flows aborted, and `heads_matching` (+ caught failing heads) is handed to `_advance_head_front`, whose
  actionable results are what `run_to_completion` later passes to `_resolve_action_conflicts`.
  `_advance_head_front` itself is abstracted by `info` (which candidate ends on which action head).
-/
import NemoVerif.Models.ErrContain
import NemoVerif.Models.Conflict

namespace NemoVerif.ConflictLink
open NemoVerif.ErrContain NemoVerif.Conflict

/-- the heads handed to `_advance_head_front`: `heads_matching`, then the failing heads that have a catch label -/
def advancedHeads (caught : Cand → Bool) (out : MatchOut) : List Cand :=
  out.matching ++ out.failing.filter caught

/-- flows aborted after the scan: failing heads without a catch label (`_abort_flow(state, flow_state, [])`), then the
    erroring heads (`abortErroring` is the generic "abort the flow of every candidate of the list") -/
def postScan (caught : Cand → Bool) (s : St) (out : MatchOut) : St :=
  abortErroring (abortErroring s (out.failing.filter (fun c => !caught c))) out.erroring

/-- flows aborted by `postScan` -/
def abortedByPhase (caught : Cand → Bool) (out : MatchOut) : List Nat :=
  (out.failing.filter (fun c => !caught c)).map (·.fuid) ++ out.erroring.map (·.fuid)

/-- the actionable heads this event contributes to `_resolve_action_conflicts`: `info c` = the head of candidate `c`
    as `HeadInfo` when advancing it ends on an action -/
def conflictInputs (info : Cand → Option HeadInfo) (caught : Cand → Bool) (out : MatchOut) : List HeadInfo :=
  (advancedHeads caught out).filterMap info

end NemoVerif.ConflictLink
