/-
  C11 — model of `nemoguardrails/colang/v2_x/runtime/serialization.py`
  (`encode_to_dict`, `json.dumps`/`json.loads`, `decode_from_dict`), function level.

  Object universe `PV` = the Python values a Colang 2.x `State` can hold, one constructor per
  `isinstance` branch of `encode_to_dict` (in the order of the Python `if/elif` chain):

      list | str/int/float/None (bool ⊂ int) | functools.partial | dict (string keys: JSON object;
      otherwise an item list, repair d13eeb5) | dataclass | RailsConfig | SpecType | Action | datetime
      | Enum | deque | tuple | set | re.Pattern (repair d13eeb5) | anything else (raises)

  `J` = the JSON value type.  `json.dumps ∘ json.loads` is the identity on `J`; what `json.dumps` does
  *on the way in* is modelled where it happens: dict keys are stringified (`keyStr`: `1 ↦ "1"`,
  `None ↦ "null"`, `True ↦ "true"`, a tuple key raises `TypeError`), tuples inside the **raw**
  `Action.to_dict()` payload become arrays, every other non-JSON value inside that raw payload raises
  `TypeError` (`rawDump`).

  Two encoders are given:
    * `encode`  — the sharing-free reading (no object occurs twice): `refs` plays no role;
    * `encodeS` — the `refs` discipline over identity-labelled values (`Lab`): an object met a second
      time becomes `{"__type":"ref","__id":i}`, objects are registered **after** their children
      (post-order, `refs[obj_id] = value` is the last statement of the Python function), lists and
      scalars are never registered.
  Not modelled (ASSUMPTIONS in harness/props/C11.py): float dict keys, key collisions after
  stringification (`{1: .., "1": ..}`), `RailsConfig.model_validate` (identity on the dump).
-/
import NemoVerif.Generated.C11

namespace NemoVerif.Serialize

/-- members of a tuple used as a dict key -/
inductive Atom where
  | none
  | bool (b : Bool)
  | int (i : Int)
  | str (s : String)
  deriving DecidableEq, Repr, Inhabited

/-- Python dict keys: the hashable scalars and flat tuples of them (float keys and nested tuples are
    outside the model). `json.dumps` stringifies the scalars and rejects tuples (`keyStr`); since the
    repair d13eeb5 `encode_to_dict` no longer sends non-string keys through JSON object keys. -/
inductive Key where
  | none
  | bool (b : Bool)
  | int (i : Int)
  | str (s : String)
  | tuple (xs : List Atom)
  deriving DecidableEq, Repr, Inhabited

/-- A Python `float`: a finite dyadic `m / 2^e` (`+0.0` is `fin 0 0`), `-0.0` (JSON keeps the sign: `-0.0` is written
    and read back as such), and the three non-finite values.  CPython's `json.dumps` writes the latter as the
    NON-STANDARD tokens `NaN`, `Infinity`, `-Infinity` — unless it is called with `allow_nan=False`, then it raises
    `ValueError("Out of range float values are not JSON compliant")` — and `json.loads` reads the three tokens back.
    Structural equality is the save/restore notion of "same value" (`nan` is restored as `nan`, although `nan != nan`
    in Python). -/
inductive Flt where
  | fin (m : Int) (e : Nat)
  | negZero
  | nan
  | inf (neg : Bool)
  deriving DecidableEq, Repr, Inhabited

/-- `math.isfinite` -/
def Flt.isFinite : Flt → Bool
  | .fin _ _ | .negZero => true
  | .nan | .inf _ => false

inductive PV where
  | none : PV
  | bool : Bool → PV
  | int : Int → PV
  | flt : Flt → PV                       -- float (finite dyadic, -0.0, nan, ±inf)
  | str : String → PV
  | list : List PV → PV
  | tuple : List PV → PV
  | set : List PV → PV                   -- in iteration order
  | deque : List PV → PV
  | dict : List (Key × PV) → PV
  | data : String → List (Key × PV) → PV -- dataclass instance: class name, fields in `__dataclass_fields__` order
  | railsConfig : List (Key × PV) → PV   -- `obj.model_dump()`
  | specType : String → PV               -- `SpecType` member, by value
  | enum : String → String → PV          -- class name, member name
  | datetime : String → PV               -- isoformat()
  | action : String → String → Option String → String → PV → PV → Int → PV
      -- uid, name, flow_uid, status name, context, start_event_arguments, flow_scope_count
  | partialFn : PV                       -- functools.partial (head callbacks)
  | regex : String → Int → PV            -- re.Pattern: pattern, flags
  | cmp : String → PV → PV               -- eval.ComparisonExpression: name of its constructor, reference value
  | other : String → PV                  -- any other class
  deriving Repr, Inhabited

inductive J where
  | null : J
  | bool : Bool → J
  | int : Int → J
  | flt : Flt → J                        -- number token incl. `-0.0` and the non-standard `NaN`/`Infinity`/`-Infinity`
  | str : String → J
  | arr : List J → J
  | obj : List (String × J) → J
  deriving Repr, Inhabited

inductive Err where
  | unhandledType (cls : String)   -- Exception("Unhandled type in encode_to_dict: …")
  | typeError                      -- json.dumps: not JSON serializable / bad key; constructor mismatch
  | keyError                       -- missing "value"/"__class"/unknown enum member
  | unknownType (t : String)       -- Exception("Unknown d_type: …")
  | missingRef (id : Nat)          -- Exception("Could not find reference …")
  | cyclic                         -- RecursionError (fuel exhausted in `encodeS`)
  | valueError                     -- json.dumps(allow_nan=False) on a non-finite float
  deriving Repr, DecidableEq, Inhabited

/-- `json.dumps` key coercion. -/
def keyStr : Key → Except Err String
  | .none => .ok "null"
  | .bool true => .ok "true"
  | .bool false => .ok "false"
  | .int i => .ok (toString i)
  | .str s => .ok s
  | .tuple _ => .error .typeError

/-! ### the text layer, for the values standard JSON has no token for
  `J` abstracts the JSON text (`json.loads ∘ json.dumps` is the identity on `J`); for the non-finite floats that identity is NOT
  part of RFC 8259 but a CPython convention, so it is modelled: the encoder (`float.__repr__` is bypassed, `json.encoder.floatstr`)
  writes `NaN` / `Infinity` / `-Infinity`, the scanner (`json.scanner`, `parse_constant` default) reads exactly these three
  constants back.  Tied to the interpreter's json module on every run (case kind `tokens`). -/

/-- the token `json.dumps(allow_nan=True)` writes for a non-finite float (`none`: written as an ordinary number) -/
def nonFiniteToken : Flt → Option String
  | .nan => some "NaN"
  | .inf false => some "Infinity"
  | .inf true => some "-Infinity"
  | .fin _ _ | .negZero => none

/-- `json.loads`: the constants of the scanner -/
def parseConstant (tok : String) : Option Flt :=
  if tok = "NaN" then some .nan
  else if tok = "Infinity" then some (.inf false)
  else if tok = "-Infinity" then some (.inf true)
  else none

/-- `json.dumps` on a float, with the `allow_nan` argument the call in `state_to_json` really passes
    (`Generated.C11.dumpsAllowNan`, read off the source on every run; CPython's default is `True`). -/
def dumpFlt (f : Flt) : Except Err J :=
  if f.isFinite || NemoVerif.Generated.C11.dumpsAllowNan then .ok (.flt f) else .error .valueError

def wrap (t : String) (v : J) : J := .obj [("__type", .str t), ("value", v)]

def Atom.toJ : Atom → J
  | .none => .null
  | .bool b => .bool b
  | .int i => .int i
  | .str s => .str s

def Atom.toPV : Atom → PV
  | .none => .none
  | .bool b => .bool b
  | .int i => .int i
  | .str s => .str s

/-- the key as a Python value (what `encode_to_dict(k, refs)` is called with) -/
def Key.toPV : Key → PV
  | .none => .none
  | .bool b => .bool b
  | .int i => .int i
  | .str s => .str s
  | .tuple xs => .tuple (xs.map Atom.toPV)

/-- `encode_to_dict(k, refs)` for a key (`encodeKey_spec`: equals `encode k.toPV`) -/
def encodeKey : Key → J
  | .none => .null
  | .bool b => .bool b
  | .int i => .int i
  | .str s => .str s
  | .tuple xs => wrap "tuple" (.arr (xs.map Atom.toJ))

def atomOfPV : PV → Option Atom
  | .none => some .none
  | .bool b => some (.bool b)
  | .int i => some (.int i)
  | .str s => some (.str s)
  | _ => none

def atomsOfPVs : List PV → Option (List Atom)
  | [] => some []
  | x :: xs => match atomOfPV x, atomsOfPVs xs with
    | some a, some as => some (a :: as)
    | _, _ => none

/-- using a decoded value as a dict key: unhashable values raise `TypeError` -/
def keyOfPV : PV → Except Err Key
  | .none => .ok .none
  | .bool b => .ok (.bool b)
  | .int i => .ok (.int i)
  | .str s => .ok (.str s)
  | .tuple xs => match atomsOfPVs xs with
    | some as => .ok (.tuple as)
    | none => .error .typeError
  | _ => .error .typeError

def Key.isStr : Key → Bool
  | .str _ => true
  | _ => false

def keyName : Key → String
  | .str s => s
  | _ => ""

/-- `all(isinstance(k, str) for k in obj)` -/
def allStr : List (Key × PV) → Bool
  | [] => true
  | (k, _) :: rest => k.isStr && allStr rest

/-- the reference value of a comparison is an int/float (bool ⊂ int), written raw -/
def numJ : PV → Option J
  | .int i => some (.int i)
  | .flt f => some (.flt f)
  | .bool b => some (.bool b)
  | _ => none

def numOfJ : J → Option PV
  | .int i => some (.int i)
  | .flt f => some (.flt f)
  | .bool b => some (.bool b)
  | _ => none

def optStrJ : Option String → J
  | some s => .str s
  | none => .null

/-! ### `json.dumps` of a raw (un-encoded) Python value — what happens to `Action.to_dict()` -/
mutual
def rawDump : PV → Except Err J
  | .none => .ok .null
  | .bool b => .ok (.bool b)
  | .int i => .ok (.int i)
  | .flt f => dumpFlt f
  | .str s => .ok (.str s)
  | .list xs => do let ys ← rawDumpList xs; pure (.arr ys)
  | .tuple xs => do let ys ← rawDumpList xs; pure (.arr ys)
  | .dict kvs => do let o ← rawDumpKvs kvs; pure (.obj o)
  | _ => .error .typeError
def rawDumpList : List PV → Except Err (List J)
  | [] => .ok []
  | x :: xs => do let y ← rawDump x; let ys ← rawDumpList xs; pure (y :: ys)
def rawDumpKvs : List (Key × PV) → Except Err (List (String × J))
  | [] => .ok []
  | (k, v) :: rest => do
      let y ← rawDump v
      let ks ← keyStr k
      let ys ← rawDumpKvs rest
      pure ((ks, y) :: ys)
end

/-! ### `encode_to_dict` followed by `json.dumps`, sharing-free -/
mutual
def encode : PV → Except Err J
  | .list xs => do let ys ← encodeList xs; pure (.arr ys)
  | .str s => .ok (.str s)
  | .int i => .ok (.int i)
  | .bool b => .ok (.bool b)
  | .flt f => dumpFlt f
  | .none => .ok .null
  | .partialFn => .ok .null
  | .dict kvs =>
      if allStr kvs then do let o ← encodeVals kvs; pure (wrap "dict" (.obj o))
      else do let items ← encodeItems kvs; pure (.obj [("__type", .str "dict"), ("items", .arr items)])
  | .data cls kvs => do let o ← encodeKvs kvs; pure (wrap cls (.obj o))
  | .railsConfig kvs => do let o ← encodeKvs kvs; pure (wrap "RailsConfig" (.obj o))
  | .specType v => .ok (wrap "SpecType" (.str v))
  | .action uid name fu st ctx args sc => do
      -- repair fixes/C11-action-payload.diff: every field goes through `encode_to_dict`
      -- (before it, the raw `to_dict()` went to `json.dumps`: `rawDump`)
      let c ← encode ctx
      let a ← encode args
      pure (wrap "Action" (.obj [("uid", .str uid), ("name", .str name), ("flow_uid", optStrJ fu),
        ("status", .str st), ("context", c), ("start_event_arguments", a), ("flow_scope_count", .int sc)]))
  | .datetime iso => .ok (wrap "datetime" (.str iso))
  | .enum cls name => .ok (.obj [("__type", .str "enum"), ("__class", .str cls), ("value", .str name)])
  | .deque xs => do let ys ← encodeList xs; pure (wrap "deque" (.arr ys))
  | .tuple xs => do let ys ← encodeList xs; pure (wrap "tuple" (.arr ys))
  | .set xs => do let ys ← encodeList xs; pure (wrap "set" (.arr ys))
  | .regex p f => .ok (.obj [("__type", .str "regex"), ("pattern", .str p), ("flags", .int f)])
  | .cmp op v =>
      -- repair fixes/C11-comparison.diff: `obj.name in COMPARISON_OPERATORS`
      if NemoVerif.Generated.C11.comparisonOps.contains op then
        match numJ v with
        | some j => .ok (.obj [("__type", .str "comparison"), ("op", .str op), ("value", j)])
        | none => .error .typeError
      else .error (.unhandledType "ComparisonExpression")
  | .other c => .error (.unhandledType c)
def encodeList : List PV → Except Err (List J)
  | [] => .ok []
  | x :: xs => do let y ← encode x; let ys ← encodeList xs; pure (y :: ys)
def encodeKvs : List (Key × PV) → Except Err (List (String × J))
  | [] => .ok []
  | (k, v) :: rest => do
      let y ← encode v
      let ks ← keyStr k
      let ys ← encodeKvs rest
      pure ((ks, y) :: ys)
/-- `{k: encode_to_dict(v, refs) for k, v in obj.items()}` when every key is a string -/
def encodeVals : List (Key × PV) → Except Err (List (String × J))
  | [] => .ok []
  | (k, v) :: rest => do
      let y ← encode v
      let ys ← encodeVals rest
      pure ((keyName k, y) :: ys)
/-- `[[encode_to_dict(k, refs), encode_to_dict(v, refs)] for k, v in obj.items()]` -/
def encodeItems : List (Key × PV) → Except Err (List J)
  | [] => .ok []
  | (k, v) :: rest => do
      let y ← encode v
      let ys ← encodeItems rest
      pure (.arr [encodeKey k, y] :: ys)
end

/-! ### `decode_from_dict` (after `json.loads`) -/

/-- `d["__type"]` when present and a string. -/
def typeTag : List (String × J) → Option String
  | [] => none
  | (k, v) :: rest => if k = "__type" then (match v with | .str s => some s | _ => some "?") else typeTag rest

def strField (k : String) : List (String × J) → Except Err String
  | [] => .error .keyError
  | (k', v) :: rest => if k' = k then (match v with | .str s => .ok s | _ => .error .typeError) else strField k rest

def intField (k : String) : List (String × J) → Except Err Int
  | [] => .error .keyError
  | (k', v) :: rest => if k' = k then (match v with | .int i => .ok i | _ => .error .typeError) else intField k rest

def fieldJ (k : String) : List (String × J) → Option J
  | [] => none
  | (k', v) :: rest => if k' = k then some v else fieldJ k rest

/-- `"items" in d` -/
def hasKey (k : String) : List (String × J) → Bool
  | [] => false
  | (k', _) :: rest => k' == k || hasKey k rest

def natField (k : String) : List (String × J) → Option Nat
  | [] => none
  | (k', v) :: rest => if k' = k then (match v with | .int i => some i.toNat | _ => none) else natField k rest

def lookupPV (k : String) : List (Key × PV) → Except Err PV
  | [] => .error .keyError
  | (k', v) :: rest => if k' = Key.str k then .ok v else lookupPV k rest

/-- `k[0] == "_"` -/
def isPrivate (k : String) : Bool := k.toList.head? == some '_'

/-- Would `cls(**{k: v for k in keys if k[0] != "_"})` be accepted by the dataclass constructor?
    Every public key must be an `init` field and every `init` field without default must be given.
    The field table is generated from the current source. -/
def ctorOk (cls : String) (keys : List String) : Bool :=
  match NemoVerif.Generated.C11.dataclasses.find? (·.1 == cls) with
  | none => false
  | some (_, fields) =>
    (keys.all fun k => isPrivate k || fields.any fun f => f.1 == k && f.2.1) &&
    (fields.all fun f => !f.2.1 || f.2.2 || isPrivate f.1 || keys.contains f.1)

def enumOk (cls name : String) : Bool :=
  match NemoVerif.Generated.C11.enums.find? (·.1 == cls) with
  | none => false
  | some (_, members) => members.contains name

def isDataclassName (t : String) : Bool := NemoVerif.Generated.C11.nameToClass.contains t

/-- `Action.from_dict(d)` on a decoded plain dict. -/
def actionFromDict (kvs : List (Key × PV)) : Except Err PV := do
  let name ← lookupPV "name" kvs
  let args ← lookupPV "start_event_arguments" kvs
  let fu ← lookupPV "flow_uid" kvs
  let uid ← lookupPV "uid" kvs
  let st ← lookupPV "status" kvs
  let ctx ← lookupPV "context" kvs
  let sc ← lookupPV "flow_scope_count" kvs
  match uid, name, st, sc with
  | .str uid, .str name, .str st, .int sc =>
    if enumOk "ActionStatus" st then
      match fu with
      | .none => .ok (.action uid name none st ctx args sc)
      | .str f => .ok (.action uid name (some f) st ctx args sc)
      | _ => .error .typeError
    else .error .keyError
  | _, _, _, _ => .error .typeError

mutual
def decode : J → Except Err PV
  | .null => .ok .none
  | .bool b => .ok (.bool b)
  | .int i => .ok (.int i)
  | .flt f => .ok (.flt f)
  | .str s => .ok (.str s)
  | .arr xs => do let ys ← decodeList xs; pure (.list ys)
  | .obj kvs =>
    match typeTag kvs with
    | none => do let o ← decodePlain kvs; pure (.dict o)
    | some t =>
      if t = "ref" then .error (.missingRef ((natField "__id" kvs).getD 0))
      else if t = "enum" then do
        let cls ← strField "__class" kvs
        let name ← strField "value" kvs
        if enumOk cls name then pure (.enum cls name) else .error .keyError
      else if t = "RailsConfig" then do let o ← decodeItemsAtValue kvs; pure (.railsConfig o)
      else if t = "SpecType" then do
        let v ← strField "value" kvs
        if NemoVerif.Generated.C11.specTypeValues.contains v then pure (.specType v) else .error .keyError
      else if t = "Action" then do
        match ← decodeAtValue kvs with
        | .dict d => actionFromDict d
        | _ => .error .typeError
      else if isDataclassName t then do
        match ← decodeAtValue kvs with
        | .dict args => if ctorOk t (args.map fun kv => keyName kv.1) then pure (.data t args) else .error .typeError
        | _ => .error .typeError
      else if t = "datetime" then do let v ← strField "value" kvs; pure (.datetime v)
      else if t = "deque" then do
        match ← decodeAtValue kvs with
        | .list xs => pure (.deque xs)
        | _ => .error .typeError
      else if t = "tuple" then do
        match ← decodeAtValue kvs with
        | .list xs => pure (.tuple xs)
        | _ => .error .typeError
      else if t = "dict" then
        if hasKey "items" kvs then do let o ← decodePairsAtItems kvs; pure (.dict o)
        else do let o ← decodeItemsAtValue kvs; pure (.dict o)
      else if t = "regex" then do
        let p ← strField "pattern" kvs
        let f ← intField "flags" kvs
        pure (.regex p f)
      else if t = "comparison" then do
        let op ← strField "op" kvs
        if NemoVerif.Generated.C11.comparisonOps.contains op then
          match (fieldJ "value" kvs).bind numOfJ with
          | some v => pure (.cmp op v)
          | none => .error .typeError
        else .error .keyError
      else if t = "set" then do
        match ← decodeAtValue kvs with
        | .list xs => pure (.set xs)
        | _ => .error .typeError
      else .error (.unknownType t)
def decodeList : List J → Except Err (List PV)
  | [] => .ok []
  | x :: xs => do let y ← decode x; let ys ← decodeList xs; pure (y :: ys)
/-- `{k: decode_from_dict(v) for k, v in d.items()}` -/
def decodePlain : List (String × J) → Except Err (List (Key × PV))
  | [] => .ok []
  | (k, v) :: rest => do let y ← decode v; let ys ← decodePlain rest; pure ((Key.str k, y) :: ys)
/-- `decode_from_dict(d["value"])` -/
def decodeAtValue : List (String × J) → Except Err PV
  | [] => .error .keyError
  | (k, v) :: rest => if k = "value" then decode v else decodeAtValue rest
/-- `{k: decode_from_dict(v) for k, v in d["value"].items()}` -/
def decodeItemsAtValue : List (String × J) → Except Err (List (Key × PV))
  | [] => .error .keyError
  | (k, v) :: rest =>
    if k = "value" then
      match v with
      | .obj inner => decodePlain inner
      | _ => .error .typeError
    else decodeItemsAtValue rest
/-- `{decode_from_dict(k): decode_from_dict(v) for k, v in d["items"]}` -/
def decodePairsAtItems : List (String × J) → Except Err (List (Key × PV))
  | [] => .error .keyError
  | (k, v) :: rest =>
    if k = "items" then
      match v with
      | .arr items => decodePairs items
      | _ => .error .typeError
    else decodePairsAtItems rest
def decodePairs : List J → Except Err (List (Key × PV))
  | [] => .ok []
  | p :: rest =>
    match p with
    | .arr [kj, vj] => do
      let kp ← decode kj
      let k ← keyOfPV kp
      let v ← decode vj
      let r ← decodePairs rest
      pure ((k, v) :: r)
    | _ => .error .typeError
end

/-! ### The values the encoder accepts (`EncShape`) and the ones it also gives back (`Encodable`) -/

def Key.dumpable : Key → Bool
  | .tuple _ => false
  | _ => true

mutual
/-- `json.dumps` accepts the raw value. -/
def RawShape : PV → Bool
  | .none | .bool _ | .int _ | .str _ => true
  | .flt f => f.isFinite || NemoVerif.Generated.C11.dumpsAllowNan
  | .list xs => RawShapeList xs
  | .tuple xs => RawShapeList xs
  | .dict kvs => RawShapeKvs kvs
  | _ => false
def RawShapeList : List PV → Bool
  | [] => true
  | x :: xs => RawShape x && RawShapeList xs
def RawShapeKvs : List (Key × PV) → Bool
  | [] => true
  | (k, v) :: rest => RawShape v && k.dumpable && RawShapeKvs rest
end

mutual
/-- raw value that `json.dumps`/`json.loads`/`decode_from_dict` give back unchanged: JSON-native,
    string keys, no `"__type"` key (a raw dict with that key would be re-interpreted by the decoder). -/
def RawOk : PV → Bool
  | .none | .bool _ | .int _ | .flt _ | .str _ => true
  | .list xs => RawOkList xs
  | .dict kvs => RawOkKvs kvs
  | _ => false
def RawOkList : List PV → Bool
  | [] => true
  | x :: xs => RawOk x && RawOkList xs
def RawOkKvs : List (Key × PV) → Bool
  | [] => true
  | (k, v) :: rest => RawOk v && k.isStr && k != Key.str "__type" && RawOkKvs rest
end

mutual
/-- exactly the values on which `state_to_json` does not raise (see `encode_total_iff`). -/
def EncShape : PV → Bool
  | .none | .bool _ | .int _ | .str _ | .partialFn => true
  | .flt f => f.isFinite || NemoVerif.Generated.C11.dumpsAllowNan
  | .specType _ | .datetime _ | .enum _ _ => true
  | .list xs | .tuple xs | .set xs | .deque xs => EncShapeList xs
  | .dict kvs => EncShapeVals kvs
  | .data _ kvs | .railsConfig kvs => EncShapeKvs kvs
  | .action _ _ _ _ ctx args _ => EncShape ctx && EncShape args
  | .regex _ _ => true
  | .cmp op v => NemoVerif.Generated.C11.comparisonOps.contains op && (numJ v).isSome
  | .other _ => false
def EncShapeList : List PV → Bool
  | [] => true
  | x :: xs => EncShape x && EncShapeList xs
def EncShapeKvs : List (Key × PV) → Bool
  | [] => true
  | (k, v) :: rest => EncShape v && k.dumpable && EncShapeKvs rest
def EncShapeVals : List (Key × PV) → Bool
  | [] => true
  | (_, v) :: rest => EncShape v && EncShapeVals rest
end

def reservedTags : List String := ["ref", "enum", "RailsConfig", "SpecType", "Action"]

/-- no field is called `__type` (the decoder would take the field dict for a typed wrapper). -/
def noTypeKey : List (Key × PV) → Bool
  | [] => true
  | (k, _) :: rest => k != Key.str "__type" && noTypeKey rest

mutual
/-- the values that survive the round trip unchanged: additionally string keys only, known classes
    whose constructor accepts the encoded fields, known enum members, JSON-native action payloads,
    and no `functools.partial` (callbacks are dropped on purpose and re-created by `json_to_state`). -/
def Encodable : PV → Bool
  | .none | .bool _ | .int _ | .flt _ | .str _ => true
  | .datetime _ => true
  | .specType v => NemoVerif.Generated.C11.specTypeValues.contains v
  | .enum cls name => enumOk cls name
  | .list xs | .tuple xs | .set xs | .deque xs => EncodableList xs
  | .dict kvs => EncodableVals kvs
  | .railsConfig kvs => EncodableKvs kvs
  | .regex _ _ => true
  | .data cls kvs =>
      EncodableKvs kvs && noTypeKey kvs && isDataclassName cls && !reservedTags.contains cls
        && ctorOk cls (kvs.map fun kv => keyName kv.1)
  | .action _ _ _ st ctx args _ => Encodable ctx && Encodable args && enumOk "ActionStatus" st
  | .cmp op v => NemoVerif.Generated.C11.comparisonOps.contains op && (numJ v).isSome
  | .partialFn | .other _ => false
def EncodableList : List PV → Bool
  | [] => true
  | x :: xs => Encodable x && EncodableList xs
def EncodableKvs : List (Key × PV) → Bool
  | [] => true
  | (k, v) :: rest => Encodable v && k.isStr && EncodableKvs rest
def EncodableVals : List (Key × PV) → Bool
  | [] => true
  | (_, v) :: rest => Encodable v && EncodableVals rest
end


/-! ### what the round trip really returns (`norm`) and when (`Decodable`) -/

/-- what a dict key looks like after `json.dumps`/`json.loads` -/
def normKey : Key → Key
  | .none => .str "null"
  | .bool true => .str "true"
  | .bool false => .str "false"
  | .int i => .str (toString i)
  | .str s => .str s
  | .tuple xs => .tuple xs

mutual
/-- raw `Action.to_dict()` payload after the JSON round trip: tuples are lists, keys are strings -/
def rawNorm : PV → PV
  | .list xs => .list (rawNormList xs)
  | .tuple xs => .list (rawNormList xs)
  | .dict kvs => .dict (rawNormKvs kvs)
  | v => v
def rawNormList : List PV → List PV
  | [] => []
  | x :: xs => rawNorm x :: rawNormList xs
def rawNormKvs : List (Key × PV) → List (Key × PV)
  | [] => []
  | (k, v) :: rest => (normKey k, rawNorm v) :: rawNormKvs rest
end

mutual
/-- the value `json_to_state ∘ state_to_json` really returns (before the callbacks are re-created):
    keys stringified, `functools.partial` dropped, raw action payloads JSON-normalised. -/
def norm : PV → PV
  | .partialFn => .none
  | .list xs => .list (normList xs)
  | .tuple xs => .tuple (normList xs)
  | .set xs => .set (normList xs)
  | .deque xs => .deque (normList xs)
  | .dict kvs => .dict (normVals kvs)
  | .data cls kvs => .data cls (normKvs kvs)
  | .railsConfig kvs => .railsConfig (normKvs kvs)
  | .action uid name fu st ctx args sc => .action uid name fu st (norm ctx) (norm args) sc
  | v => v
def normList : List PV → List PV
  | [] => []
  | x :: xs => norm x :: normList xs
def normKvs : List (Key × PV) → List (Key × PV)
  | [] => []
  | (k, v) :: rest => (normKey k, norm v) :: normKvs rest
def normVals : List (Key × PV) → List (Key × PV)
  | [] => []
  | (k, v) :: rest => (k, norm v) :: normVals rest
end

/-- the key is accepted by `json.dumps` and does not read `"__type"` afterwards -/
def keyPlain (k : Key) : Bool :=
  match keyStr k with
  | .ok s => s != "__type"
  | .error _ => false

def plainKeys : List (Key × PV) → Bool
  | [] => true
  | (k, _) :: rest => keyPlain k && plainKeys rest

mutual
/-- raw payload the decoder does not re-interpret: dumpable and no key that reads `"__type"` -/
def RawPlain : PV → Bool
  | .none | .bool _ | .int _ | .flt _ | .str _ => true
  | .list xs => RawPlainList xs
  | .tuple xs => RawPlainList xs
  | .dict kvs => RawPlainKvs kvs
  | _ => false
def RawPlainList : List PV → Bool
  | [] => true
  | x :: xs => RawPlain x && RawPlainList xs
def RawPlainKvs : List (Key × PV) → Bool
  | [] => true
  | (k, v) :: rest => RawPlain v && keyPlain k && RawPlainKvs rest
end

mutual
/-- the encoder accepts the value and the decoder knows every class/member it mentions -/
def Decodable : PV → Bool
  | .none | .bool _ | .int _ | .flt _ | .str _ | .partialFn | .datetime _ => true
  | .specType v => NemoVerif.Generated.C11.specTypeValues.contains v
  | .enum cls name => enumOk cls name
  | .list xs | .tuple xs | .set xs | .deque xs => DecodableList xs
  | .dict kvs => DecodableVals kvs
  | .railsConfig kvs => DecodableKvs kvs
  | .regex _ _ => true
  | .data cls kvs =>
      DecodableKvs kvs && plainKeys kvs && isDataclassName cls && !reservedTags.contains cls
        && ctorOk cls ((normKvs kvs).map fun kv => keyName kv.1)
  | .action _ _ _ st ctx args _ => Decodable ctx && Decodable args && enumOk "ActionStatus" st
  | .cmp op v => NemoVerif.Generated.C11.comparisonOps.contains op && (numJ v).isSome
  | .other _ => false
def DecodableList : List PV → Bool
  | [] => true
  | x :: xs => Decodable x && DecodableList xs
def DecodableKvs : List (Key × PV) → Bool
  | [] => true
  | (k, v) :: rest => Decodable v && k.dumpable && DecodableKvs rest
def DecodableVals : List (Key × PV) → Bool
  | [] => true
  | (_, v) :: rest => Decodable v && DecodableVals rest
end


end NemoVerif.Serialize
