/-
  C20 — model of the guardrails server (`nemoguardrails/server/api.py`, `server/datastore/*`).

  Strings are `List Char` (code points, as Python `str`).

  * `splitOn`, `joinSep`, `pjoin`, `initialSlashes`, `normpath`, `abspath`, `lcp`, `commonprefix`
    mirror `str.split`, `str.join`, `posixpath.join/normpath/abspath`, `genericpath.commonprefix`
    (POSIX flavour; tied by differential execution against the real `os.path`).
  * `Alt`, `search` — the fragment of `re.search` the config-id test uses: an alternation of
    character classes and literal strings (the translator parses the regex of the current source with
    Python's own regex parser into `Generated.C20.rejectAlts`).
  * `checkId`, `loadAll`, `getRails` mirror `_get_rails` (cache lookup by the joined key first,
    single-config mode, per id: compute path, regex test, common-prefix test, `from_path`; the key
    enters the cache only after the whole loop succeeded).
  * `validate`, `step`, `run` mirror `RequestBody` validation and `chat_completion` (config id
    defaulting, fixed replies, thread look-up `stored ++ new`, write-back `used ++ [reply]`,
    streaming mode leaves the store untouched).  Messages are an abstract type `M`.
-/
import NemoVerif.Generated.C20

namespace NemoVerif.Server
open NemoVerif.Generated.C20

abbrev Str := List Char

/-! ### string helpers -/

/-- Python `s.split(sep)` for a one-character separator (always at least one piece). -/
def splitOn (sep : Char) : Str → List Str
  | [] => [[]]
  | c :: cs =>
    if c = sep then [] :: splitOn sep cs
    else match splitOn sep cs with
      | [] => [[c]]
      | h :: t => (c :: h) :: t

/-- Python `sep.join(parts)`. -/
def joinSep (sep : Str) : List Str → Str
  | [] => []
  | [a] => a
  | a :: b :: rest => a ++ sep ++ joinSep sep (b :: rest)

def endsWithSlash (a : Str) : Bool := a.getLast? == some '/'

/-- `posixpath.join(a, b)`. -/
def pjoin (a b : Str) : Str :=
  if b.head? = some '/' then b
  else if a = [] ∨ endsWithSlash a = true then a ++ b
  else a ++ '/' :: b

/-- `initial_slashes` of `posixpath.normpath`: 0, 1, or 2 (exactly two leading slashes are kept). -/
def initialSlashes (p : Str) : Nat :=
  if ['/'].isPrefixOf p then
    (if ['/', '/'].isPrefixOf p && !['/', '/', '/'].isPrefixOf p then 2 else 1)
  else 0

def dot : Str := ['.']
def dotdot : Str := ['.', '.']

/-- one iteration of the component loop of `normpath`; `st` is `new_comps` reversed. -/
def normStep (init : Nat) (st : List Str) (comp : Str) : List Str :=
  if comp = [] ∨ comp = dot then st
  else if comp ≠ dotdot ∨ (init = 0 ∧ st = []) ∨ st.head? = some dotdot then comp :: st
  else st.tail

/-- `posixpath.normpath`. -/
def normpath (p : Str) : Str :=
  if p = [] then dot
  else
    let init := initialSlashes p
    let comps := (splitOn '/' p).foldl (normStep init) []
    let r := List.replicate init '/' ++ joinSep ['/'] comps.reverse
    if r = [] then dot else r

/-- `posixpath.abspath` with the current directory made explicit. -/
def abspath (cwd p : Str) : Str :=
  normpath (if p.head? = some '/' then p else pjoin cwd p)

/-- longest common prefix of two strings. -/
def lcp : Str → Str → Str
  | a :: as, b :: bs => if a = b then a :: lcp as bs else []
  | _, _ => []

/-- `os.path.commonprefix(list)`. -/
def commonprefix : List Str → Str
  | [] => []
  | a :: rest => rest.foldl lcp a

/-! ### the regex fragment -/

inductive Alt where
  | cls (cs : List Char)
  | lit (s : Str)
  deriving Repr, DecidableEq

/-- does the alternative match at the beginning of `s`? -/
def Alt.matchAt : Alt → Str → Bool
  | .cls cs, c :: _ => cs.contains c
  | .cls _, [] => false
  | .lit l, s => l.isPrefixOf s

/-- `re.search(rx, s) is not None` for `rx` an alternation of `Alt`s. -/
def search (rx : List Alt) : Str → Bool
  | [] => rx.any (fun a => a.matchAt [])
  | c :: s => rx.any (fun a => a.matchAt (c :: s)) || search rx s

def altOfGenerated (p : Bool × List Char) : Alt := if p.1 then .cls p.2 else .lit p.2

/-- the regex of the current source. -/
def rejectRx : List Alt := rejectAlts.map altOfGenerated

/-- `re.search(r"[\\/]|(\.\.)", config_id)` -/
def bad (id : Str) : Bool := search rejectRx id

/-! ### `_get_rails` -/

inductive LoadErr where
  | invalidIds      -- single-config mode, ids ≠ [single_config_id]
  | invalidId       -- the regex matched
  | notAllowed      -- the common-prefix test failed
  | fromPathFailed  -- `RailsConfig.from_path` raised ValueError
  deriving Repr, DecidableEq

/-- the per-id checks of the loop, in the order of the code (the path is computed first, then the
    regex test, then the common-prefix test). -/
def checkId (base id : Str) : Except LoadErr Str :=
  let full := normpath (pjoin base id)
  if bad id then .error .invalidId
  else if commonprefix [full, base] ≠ base then .error .notAllowed
  else .ok full

/-- the `for config_id in config_ids` loop. Returns the paths handed to `RailsConfig.from_path` (in
    order, including a call that raised) and whether the loop completed. `pathOk p = false` models a
    `from_path` that raises `ValueError`. -/
def loadAll (base : Str) (pathOk : Str → Bool) : List Str → List Str × Except LoadErr Unit
  | [] => ([], .ok ())
  | id :: rest =>
    match checkId base id with
    | .error e => ([], .error e)
    | .ok full =>
      if pathOk full then
        let r := loadAll base pathOk rest
        (full :: r.1, r.2)
      else ([full], .error .fromPathFailed)

structure Cfg where
  root : Str                 -- app.rails_config_path
  cwd : Str                  -- os.getcwd()
  single : Option Str        -- some single_config_id  iff  app.single_config_mode
  default : Option Str       -- app.default_config_id
  hasStore : Bool            -- a DataStore is registered
  streaming : Bool           -- llm_rails.config.streaming_supported and main_llm_supports_streaming
  deriving Repr

def Cfg.base (c : Cfg) : Str := abspath c.cwd c.root

/-- `llm_rails_instances`: cache key ↦ the paths whose configurations were combined. -/
abbrev Cache := List (Str × List Str)

def lookup {V : Type} (k : Str) : List (Str × V) → Option V
  | [] => none
  | (k', v) :: rest => if k' = k then some v else lookup k rest

def cacheKey (ids : List Str) : Str := joinSep keySep ids

structure RailsRes where
  calls : List Str                              -- paths given to from_path by this call
  res : Except LoadErr (Str × List Str)         -- (cache key, paths of the instance that serves)
  cache : Cache
  deriving Repr

/-- single-config mode: only `[single_config_id]` is accepted and the root itself (`""`) is loaded. -/
def effectiveIds (cfg : Cfg) (ids : List Str) : Except LoadErr (List Str) :=
  match cfg.single with
  | some sid => if ids = [sid] then .ok [[]] else .error .invalidIds
  | none => .ok ids

/-- `_get_rails` after a cache miss. The key enters the cache only when the whole loop succeeded. -/
def loadFresh (cfg : Cfg) (pathOk : Str → Bool) (cache : Cache) (ids : List Str) : RailsRes :=
  match effectiveIds cfg ids with
  | .error e => { calls := [], res := .error e, cache := cache }
  | .ok ids' =>
    match (loadAll cfg.base pathOk ids').2 with
    | .error e => { calls := (loadAll cfg.base pathOk ids').1, res := .error e, cache := cache }
    | .ok () =>
      { calls := (loadAll cfg.base pathOk ids').1,
        res := .ok (cacheKey ids, (loadAll cfg.base pathOk ids').1),
        cache := (cacheKey ids, (loadAll cfg.base pathOk ids').1) :: cache }

/-- `_get_rails(config_ids)`. -/
def getRails (cfg : Cfg) (pathOk : Str → Bool) (cache : Cache) (ids : List Str) : RailsRes :=
  match lookup (cacheKey ids) cache with
  | some paths => { calls := [], res := .ok (cacheKey ids, paths), cache := cache }
  | none => loadFresh cfg pathOk cache ids

/-! ### `RequestBody` and `chat_completion` -/

structure Req (M : Type) where
  configId : Option Str
  configIds : Option (List Str)
  threadId : Option Str
  /-- the `{"role": "context", …}` message that `if body.context:` inserts, if any -/
  context : Option M
  messages : List M
  stream : Bool

inductive Resp (M : Type) where
  | unprocessable                         -- HTTP 422 (RequestBody validation)
  | noConfig                              -- GuardrailsConfigurationError (HTTP 500)
  | couldNotLoad (ids : List Str)         -- the fixed 'Could not load …' reply
  | threadTooShort
  | internalError                         -- "Internal server error."
  | streaming (used : List M)
  | ok (reply : M) (used : List M) (served : List Str)
  deriving Repr

structure State (M : Type) where
  cache : Cache := []
  store : List (Str × List M) := []       -- the DataStore (most recent binding first)
  loads : List Str := []                  -- every path handed to RailsConfig.from_path so far (ghost)
  turn : Nat := 0

def State.get {M : Type} (s : State M) (k : Str) : Option (List M) := lookup k s.store

def threadKey (tid : Str) : Str := threadPrefix ++ tid

/-- `Field(min_length=…, max_length=…)` of `RequestBody.thread_id`. -/
def threadIdOk : Option Str → Bool
  | none => true
  | some t => decide (fieldMinThread ≤ t.length) && decide (t.length ≤ fieldMaxThread)

/-- the validators of `RequestBody`: `none` = HTTP 422; `some ids?` = `body.config_ids`. -/
def validate {M : Type} (r : Req M) : Option (Option (List Str)) :=
  if r.configId.isSome ∧ r.configIds.isSome then none
  else if threadIdOk r.threadId = false then none
  else match r.configIds, r.configId with
    | some ids, _ => some (some ids)
    | none, some id => if id = [] then some none else some (some [id])
    | none, none => some none

/-- the messages of the request as the handler sees them (`messages.insert(0, context message)`). -/
def newMsgs {M : Type} (r : Req M) : List M :=
  (match r.context with | some c => [c] | none => []) ++ r.messages

/-- The LLM side: `gen turn servedPaths messages` = `none` when `generate_async` raises. -/
abbrev Gen (M : Type) := Nat → List Str → List M → Option M

/-- `config_ids = body.config_ids`, falling back to `[app.default_config_id]`; `none` = the
    `GuardrailsConfigurationError` branch. -/
def resolveIds (cfg : Cfg) : Option (List Str) → Option (List Str)
  | some (i :: is) => some (i :: is)
  | _ => match cfg.default with
    | some d => if d = [] then none else some [d]
    | none => none

/-- the `if body.thread_id:` block: the datastore key (if any) and the messages used for the turn. -/
def threadPart {M : Type} (cfg : Cfg) (s : State M) (r : Req M) : Except (Resp M) (Option Str × List M) :=
  match r.threadId with
  | none => .ok (none, newMsgs r)
  | some t =>
    if t = [] then .ok (none, newMsgs r)
    else if cfg.hasStore = false then .error .internalError
    else if t.length < handlerMinThread then .error .threadTooShort
    else .ok (some (threadKey t), (s.get (threadKey t)).getD [] ++ newMsgs r)

/-- the second `try` block of `chat_completion`, once the rails instance is known. -/
def finishTurn {M : Type} (cfg : Cfg) (gen : Gen M) (s : State M) (r : Req M) (served : List Str) : Resp M × State M :=
  match threadPart cfg s r with
  | .error e => (e, s)
  | .ok (key?, used) =>
    if r.stream = true ∧ cfg.streaming = true then (.streaming used, s)
    else match gen s.turn served used with
      | none => (.internalError, s)
      | some reply =>
        (.ok reply used served,
          match key? with
          | some k => { s with store := (k, used ++ [reply]) :: s.store }
          | none => s)

def State.tick {M : Type} (s : State M) : State M := { s with turn := s.turn + 1 }

/-- bookkeeping of one `_get_rails` call. -/
def State.withRails {M : Type} (s : State M) (g : RailsRes) : State M :=
  { s with cache := g.cache, loads := s.loads ++ g.calls }

/-- `try: llm_rails = _get_rails(config_ids) except ValueError: <fixed reply>`, then the turn. -/
def afterRails {M : Type} (cfg : Cfg) (gen : Gen M) (s : State M) (r : Req M) (ids : List Str) (g : RailsRes) : Resp M × State M :=
  match g.res with
  | .error _ => (.couldNotLoad ids, s.withRails g)
  | .ok (_, served) => finishTurn cfg gen (s.withRails g) r served

/-- One request through `chat_completion`. -/
def step {M : Type} (cfg : Cfg) (pathOk : Str → Bool) (gen : Gen M) (s : State M) (r : Req M) : Resp M × State M :=
  match validate r with
  | none => (.unprocessable, s.tick)
  | some ids? =>
    match resolveIds cfg ids? with
    | none => (.noConfig, s.tick)
    | some ids => afterRails cfg gen s.tick r ids (getRails cfg pathOk s.cache ids)

/-- A sequence of requests. -/
def run {M : Type} (cfg : Cfg) (pathOk : Str → Bool) (gen : Gen M) : State M → List (Req M) → List (Resp M) × State M
  | s, [] => ([], s)
  | s, r :: rs =>
    let a := step cfg pathOk gen s r
    let b := run cfg pathOk gen a.2 rs
    (a.1 :: b.1, b.2)

end NemoVerif.Server
