/-
  C17 (phase 5) — the response assembly of `LLMRails.generate_async`
  (nemoguardrails/rails/llm/llmrails.py, the two `for event in new_events` loops and the construction of `new_message`).

  This code runs AFTER the runtime returned, outside every try/except: whatever it raises leaves `generate`.  The texts it
  looks at are LLM-produced (the `script` of a `StartUtteranceBotAction` event is the bot message the LLM wrote; in 2.x the
  `final_script`; event type names can come from an LLM-written flow), so the loop is part of "arbitrary LLM output never
  breaks a turn".

  Same branch structure as the code; the literals and the SHAPE of the statement that removes a message come from the source
  (`Generated/C17Assembly.lean : spec`, translator `harness/translate/c17.py::assembly`).
-/
import NemoVerif.Py.Str

namespace NemoVerif.LlmAssemble
open NemoVerif.Py NemoVerif.Py.Str

/-- how the control script removes the last collected message: `responses = responses[0:-1]` (a slice: total) or
    `responses.pop()` / `del responses[-1]` (IndexError on an empty list) -/
inductive RemoveOp where
  | sliceDropLast
  | pop
  deriving Repr, DecidableEq

structure Spec where
  utterType : Str
  removeScript : Str
  removeOp : RemoveOp
  excSuffix : Str
  joinSep : Str
  finishedType : Str
  argExcluded : List Str
  guarded : Bool
  deriving Repr

/-- an event as far as the assembly looks at it: its type, the optional keys it indexes (`event["script"]`,
    `event["final_script"]`, `event["action_uid"]` raise KeyError when absent), the other keys (2.x tool-call arguments),
    and an identity (`exception = event`, `response_events.append(event)` keep the event itself) -/
structure Ev where
  id : Nat
  type : Str
  script : Option Str := none
  finalScript : Option Str := none
  actionUid : Option Str := none
  keys : List Str := []
  deriving Repr, DecidableEq

/-! ### Colang 1.0 -/

structure St1 where
  responses : List Str := []
  exception : Option Ev := none
  deriving Repr

def removeLast (op : RemoveOp) (rs : List Str) : Except PyErr (List Str) :=
  match op with
  | .sliceDropLast => .ok rs.dropLast
  | .pop => if rs.isEmpty then .error .indexError else .ok rs.dropLast

/-- one iteration of `for event in new_events` (1.0) -/
def step1 (sp : Spec) (st : St1) (e : Ev) : Except PyErr St1 :=
  if e.type = sp.utterType then
    match e.script with
    | none => .error .keyError
    | some s =>
      if s = sp.removeScript then
        match removeLast sp.removeOp st.responses with
        | .ok rs => .ok { st with responses := rs }
        | .error x => .error x
      else .ok { st with responses := st.responses ++ [s] }
  else if endsWith e.type sp.excSuffix then .ok { st with exception := some e }
  else .ok st

def loop1 (sp : Spec) : St1 → List Ev → Except PyErr St1
  | st, [] => .ok st
  | st, e :: es =>
    match step1 sp st e with
    | .ok st' => loop1 sp st' es
    | .error x => .error x

/-- `new_message` -/
inductive Msg where
  | assistant (content : Str)
  | exception (ev : Ev)
  deriving Repr, DecidableEq

def messageOf (sp : Spec) (st : St1) : Msg :=
  match st.exception with
  | some e => .exception e
  | none => .assistant (join sp.joinSep st.responses)

/-- the 1.0 branch: loop + message -/
def assembleResponses (sp : Spec) (evs : List Ev) : Except PyErr Msg :=
  match loop1 sp {} evs with
  | .ok st => .ok (messageOf sp st)
  | .error x => .error x

/-! #### the specification the loop is compared with (independent of `RemoveOp`): a stack of scripts -/

def specStep (sp : Spec) (rs : List Str) (e : Ev) : List Str :=
  if e.type = sp.utterType then
    match e.script with
    | none => rs
    | some s => if s = sp.removeScript then rs.dropLast else rs ++ [s]
  else rs

def specResponses (sp : Spec) (evs : List Ev) : List Str := evs.foldl (specStep sp) []

/-- every utterance event carries its `script` (what the 1.0 runtime guarantees for the events it creates) -/
def scriptsPresent (sp : Spec) (evs : List Ev) : Prop := ∀ e ∈ evs, e.type = sp.utterType → e.script.isSome = true

/-! ### Colang 2.x -/

/-- the longest prefix of `s` that ends with `pat` (greedy `.*` followed by `pat`) -/
def longestPrefixEnding (pat : Str) : Str → Option Str
  | [] => if pat.isEmpty then some [] else none
  | c :: cs =>
    match longestPrefixEnding pat cs with
    | some p => some (c :: p)
    | none => if pat.isPrefixOf (c :: cs) then some pat else none

/-- group 1 of `re.match(r"Start(.*Action)", t)`: `.` does not match a newline, `.*` is greedy -/
def startActionName (t : Str) : Option Str :=
  if "Start".toList.isPrefixOf t then
    longestPrefixEnding "Action".toList ((t.drop 5).takeWhile (· != '\n'))
  else none

structure ToolCall where
  id : Str
  name : Str
  args : List Str
  deriving Repr, DecidableEq

structure St2 where
  responses : List Str := []
  toolCalls : List ToolCall := []
  events : List Ev := []
  deriving Repr

def step2 (sp : Spec) (st : St2) (e : Ev) : Except PyErr St2 :=
  match startActionName e.type with
  | some name =>
    match e.actionUid with
    | none => .error .keyError
    | some uid => .ok { st with toolCalls := st.toolCalls ++ [{ id := uid, name := name, args := e.keys.filter (fun k => !sp.argExcluded.contains k) }] }
  | none =>
    if e.type = sp.finishedType then
      match e.finalScript with
      | none => .error .keyError
      | some s => .ok { st with responses := st.responses ++ [s] }
    else .ok { st with events := st.events ++ [e] }

def loop2 (sp : Spec) : St2 → List Ev → Except PyErr St2
  | st, [] => .ok st
  | st, e :: es =>
    match step2 sp st e with
    | .ok st' => loop2 sp st' es
    | .error x => .error x

structure Msg2 where
  content : Str
  toolCalls : List ToolCall
  events : List Ev
  deriving Repr

def assembleResponsesV2 (sp : Spec) (evs : List Ev) : Except PyErr Msg2 :=
  match loop2 sp {} evs with
  | .ok st => .ok { content := join sp.joinSep st.responses, toolCalls := st.toolCalls, events := st.events }
  | .error x => .error x

/-- what the 2.x runtime guarantees for the events it creates: a `Start…Action` event has its `action_uid`, a finished
    utterance its `final_script` -/
def keysPresent (sp : Spec) (evs : List Ev) : Prop :=
  ∀ e ∈ evs, ((startActionName e.type).isSome = true → e.actionUid.isSome = true) ∧
    ((startActionName e.type).isSome = false → e.type = sp.finishedType → e.finalScript.isSome = true)

end NemoVerif.LlmAssemble
