/-
  Conflict — executable model of `_resolve_action_conflicts`
  (nemoguardrails/colang/v2_x/runtime/statemachine.py), branch for branch:

    * `len(actionable_heads) == 1` shortcut (no `random.choice`, the head advances, its event is generated);
    * grouping by `flow_state.loop_id` in insertion order (`head_groups` dict)            → `groupsOf` (foldl `addHead`);
    * `sorted(group, key = matching_scores + [1.0]*(max_length-len), reverse=True)`        → `ordered` (stable, descending);
    * `equal_heads_index` = first index whose UNPADDED vector differs from `ordered[0]`'s → `tieSet` (`takeWhile`);
    * `random.choice(ordered_heads[:equal_heads_index])`                                   → explicit `choices : List Nat`;
    * the loop over `ordered_heads`: `head == picked_head` (uid equality) skipped; `winning_event.is_equal(competing_event)`
      (name + arguments) ⇒ co-winner (action references re-pointed: `flow_scope_count += 1` per context variable that
      holds the competing action, duplicate action deleted); else `catch_pattern_failure_label` ⇒ forwarded to the label and
      advancing; else `_abort_flow`.

  Scores are elements of a linear order; the model uses `Int` and the padding value `one` is a parameter: the harness
  maps the floats of a case to their rank (an order isomorphism onto an initial segment of `Int`), so float rounding
  stays outside the model.  Python list comparison = `lexLe`.
  Core Lean only (the driver links this file).
-/
namespace NemoVerif.Conflict

/-- What `_resolve_action_conflicts` reads of a head. -/
structure HeadInfo where
  uid : Nat                 -- FlowHead.uid (FlowHead.__eq__ compares uids)
  flow : Nat                -- head.flow_state_uid
  loop : Nat                -- flow_state.loop_id
  scores : List Int         -- head.matching_scores (ranks)
  ev : Nat                  -- key of (event name, arguments) of get_event_from_element: equal keys ⇔ Event.is_equal
  act : Option Nat          -- action_uid when the event is an ActionEvent with a truthy action_uid
  nrefs : Nat               -- number of context variables of the flow that hold that Action object
  isStart : Bool            -- the event is the `Start…Action` event of that action (generating it sets flow_scope_count := 1)
  catchLbl : Bool           -- head.catch_pattern_failure_label is non-empty
  owns : Bool               -- the action uid is in the flow's `action_uids` (false: the flow only holds a reference to an action of another flow)
deriving DecidableEq, Repr, Inhabited

inductive Fate where
  | picked    -- the winner of its group: event generated, head advancing
  | cowin     -- event equal to the winner's: advancing, nothing generated
  | caught    -- loser with a catch label: re-positioned to the label, advancing
  | aborted   -- loser: `_abort_flow` on its flow
deriving DecidableEq, Repr, Inhabited

/-- Python `list <= list` on score vectors. -/
def lexLe : List Int → List Int → Bool
  | [], _ => true
  | _ :: _, [] => false
  | a :: as, b :: bs => if a < b then true else if b < a then false else lexLe as bs

/-- `matching_scores + [1.0] * (n - len(matching_scores))` -/
def padTo (one : Int) (n : Nat) (v : List Int) : List Int := v ++ List.replicate (n - v.length) one

/-- `max(len(head.matching_scores) for head in group)` -/
def maxLen : List HeadInfo → Nat
  | [] => 0
  | h :: hs => max h.scores.length (maxLen hs)

/-- `a` may stand before `b` in the descending order: key a ≥ key b. -/
def keyGe (one : Int) (n : Nat) (a b : HeadInfo) : Bool :=
  lexLe (padTo one n b.scores) (padTo one n a.scores)

/-- insertion into a list sorted w.r.t. `le`, BEFORE the first element `y` with `le x y`
    (`x` stood before all of them in the input ⇒ stable). -/
def insertBy {α : Type} (le : α → α → Bool) (x : α) : List α → List α
  | [] => [x]
  | y :: ys => if le x y then x :: y :: ys else y :: insertBy le x ys

/-- stable sort (insertion sort from the right); equal to `List.mergeSort` (Lemmas/Conflict.lean). -/
def sortStable {α : Type} (le : α → α → Bool) : List α → List α
  | [] => []
  | x :: xs => insertBy le x (sortStable le xs)

/-- `ordered_heads` -/
def ordered (one : Int) (g : List HeadInfo) : List HeadInfo := sortStable (keyGe one (maxLen g)) g

/-- `ordered_heads[:equal_heads_index]` -/
def tieSet : List HeadInfo → List HeadInfo
  | [] => []
  | h0 :: rest => (h0 :: rest).takeWhile (fun h => h.scores == h0.scores)

/-- `_is_same_event_for_conflict(state, winning_event, competing_event)` — REPAIRED behaviour
    (fixes/C05-identical-event-of-different-actions.diff): equal name + arguments, and when the two events belong to two
    DIFFERENT action instances they only agree if they start the action.  The source as it is tests `Event.is_equal`
    alone (`sameEvAsIs`). -/
def sameEv (w h : HeadInfo) : Bool :=
  h.ev == w.ev &&
    (match w.act, h.act with
     | some b, some a => a == b || w.isStart
     | _, _ => true)

/-- `winning_event.is_equal(competing_event)` of the unpatched source -/
def sameEvAsIs (w h : HeadInfo) : Bool := h.ev == w.ev

/-- what happens to a head other than the picked one -/
def fateOf (w h : HeadInfo) : Fate :=
  if sameEv w h then .cowin else if h.catchLbl then .caught else .aborted

/-- the same with the unpatched co-winner test -/
def fateOfAsIs (w h : HeadInfo) : Fate :=
  if sameEvAsIs w h then .cowin else if h.catchLbl then .caught else .aborted

/-- one `for group in head_groups.values()` iteration; `c` is the outcome of `random.choice` (index mod size). -/
def resolveGroup (one : Int) (g : List HeadInfo) (c : Nat) : List (HeadInfo × Fate) :=
  match ordered one g with
  | [] => []
  | h0 :: rest =>
    let o := h0 :: rest
    let tie := tieSet o
    let w := tie.getD (c % tie.length) h0
    (w, .picked) :: (o.filter (fun h => h.uid != w.uid)).map (fun h => (h, fateOf w h))

/-- `head_groups` update for one head -/
def addHead : List (Nat × List HeadInfo) → HeadInfo → List (Nat × List HeadInfo)
  | [], h => [(h.loop, [h])]
  | (l, g) :: gs, h => if l = h.loop then (l, g ++ [h]) :: gs else (l, g) :: addHead gs h

/-- `head_groups` (insertion-ordered dict) -/
def groupsOf (hs : List HeadInfo) : List (Nat × List HeadInfo) := hs.foldl addHead []

/-- position of loop `l` in the insertion order of `head_groups` = index of the `random.choice` call of its group -/
def loopIndex (hs : List HeadInfo) (l : Nat) : Nat := ((groupsOf hs).map (·.1)).idxOf l

/-- the k-th group consumes the k-th choice -/
def resolveGroups (one : Int) : List (Nat × List HeadInfo) → List Nat → List (HeadInfo × Fate)
  | [], _ => []
  | (_, g) :: gs, cs => resolveGroup one g (cs.headD 0) ++ resolveGroups one gs cs.tail

/-- `_resolve_action_conflicts`: every input head with its fate, in processing order. -/
def resolveFates (one : Int) (hs : List HeadInfo) (cs : List Nat) : List (HeadInfo × Fate) :=
  match hs with
  | [] => []
  | [h] => [(h, .picked)]
  | _ => resolveGroups one (groupsOf hs) cs

/-! ### observable outcome derived from the fates -/

/-- returned `advancing_heads` (uids, in order) -/
def advancing (fs : List (HeadInfo × Fate)) : List Nat :=
  (fs.filter (fun p => p.2 != .aborted)).map (·.1.uid)

/-- calls of `_generate_action_event_from_actionable_element`: (head uid, event key) -/
def generated (fs : List (HeadInfo × Fate)) : List (Nat × Nat) :=
  (fs.filter (fun p => p.2 == .picked)).map (fun p => (p.1.uid, p.1.ev))

/-- calls of `_abort_flow` (flow uids, in order) -/
def abortedFlows (fs : List (HeadInfo × Fate)) : List Nat :=
  (fs.filter (fun p => p.2 == .aborted)).map (·.1.flow)

/-- heads re-positioned to their catch label -/
def caughtHeads (fs : List (HeadInfo × Fate)) : List Nat :=
  (fs.filter (fun p => p.2 == .caught)).map (·.1.uid)

/-- sizes of the candidate lists handed to `random.choice`, in call order -/
def tieSizes (one : Int) (hs : List HeadInfo) : List Nat :=
  match hs with
  | [] => []
  | [_] => []
  | _ => (groupsOf hs).map (fun p => (tieSet (ordered one p.2)).length)

/-! ### `state.actions`: uid ↦ flow_scope_count -/

abbrev ActTbl := List (Nat × Nat)

def incr (b n : Nat) (t : ActTbl) : ActTbl := t.map (fun p => if p.1 = b then (p.1, p.2 + n) else p)
def del (a : Nat) (t : ActTbl) : ActTbl := t.filter (fun p => p.1 != a)
def setCount (b n : Nat) (t : ActTbl) : ActTbl := t.map (fun p => if p.1 = b then (p.1, n) else p)
def scopeOf (b : Nat) (t : ActTbl) : Option Nat := (t.find? (fun p => p.1 == b)).map (·.2)

/-- `_generate_action_event_from_actionable_element(picked)`: a generated `Start…Action` event makes
    `Action.process_event` set `flow_scope_count = 1` -/
def pickedEffect (w : HeadInfo) (t : ActTbl) : ActTbl :=
  match w.act with
  | some b => if w.isStart then setCount b 1 t else t
  | none => t

/-- the co-winner branch: both events are ActionEvents with an action uid.
    REPAIRED behaviour (fixes/C05-shared-action-cowin.diff): nothing to re-point when both heads already hold the
    same action; the code as it is runs `del state.actions[uid]` on the shared action (`cowinEffectAsIs`).
    REPAIRED behaviour (fixes/C05-cowin-on-borrowed-action.diff): nothing to re-point either when the competing flow does not
    OWN its action (`owns = false`: the uid is not in `action_uids`); the code as it is raises `ValueError` in
    `action_uids.index(...)` after having re-pointed the context (`borrowedRaisesAsIs`). -/
def cowinEffect (w h : HeadInfo) (t : ActTbl) : ActTbl :=
  match w.act, h.act with
  | some b, some a => if a = b then t else if h.owns then del a (incr b h.nrefs t) else t
  | _, _ => t

/-- `competing_flow_state.action_uids.index(competing_event.action_uid)` of the unpatched source raises `ValueError`:
    the co-winner branch is entered for two different action instances and the competing flow does not own its action -/
def borrowedRaisesAsIs (w h : HeadInfo) : Bool :=
  match w.act, h.act with
  | some b, some a => a != b && !h.owns
  | _, _ => false

/-- outcome of one co-winner step of the source as it is -/
inductive StepRes where
  | ok (t : ActTbl)
  | valueError      -- `list.index`: the uid is not in `action_uids`
  | keyError        -- `state.actions[uid]` / `del state.actions[uid]`: the uid is not in `state.actions`
deriving DecidableEq, Repr

/-- The co-winner branch of the source AS IT IS, with its three look-ups that can raise:
    `state.actions[winning_event.action_uid]` (inside the context loop, only when the competing flow holds a reference),
    `competing_flow_state.action_uids.index(competing uid)` (`ValueError` when the flow does not own the action) and
    `del state.actions[competing uid]` (`KeyError` when it is gone).  (The uid-equality guard of the first repair is in.) -/
def cowinStepAsIs (w h : HeadInfo) (t : ActTbl) : StepRes :=
  match w.act, h.act with
  | some b, some a =>
    if a = b then .ok t
    else if h.nrefs > 0 && (scopeOf b t).isNone then .keyError
    else if !h.owns then .valueError
    else if (scopeOf a t).isNone then .keyError
    else .ok (del a (incr b h.nrefs t))
  | _, _ => .ok t

/-- the co-winner branch of the unpatched source -/
def cowinEffectAsIs (w h : HeadInfo) (t : ActTbl) : ActTbl :=
  match w.act, h.act with
  | some b, some a => del a (incr b h.nrefs t)
  | _, _ => t

/-- effects on `state.actions` of the fates in processing order (`cw` = winner of the current group) -/
def applyFates : Option HeadInfo → List (HeadInfo × Fate) → ActTbl → ActTbl
  | _, [], t => t
  | _, (w, .picked) :: r, t => applyFates (some w) r (pickedEffect w t)
  | some w, (h, .cowin) :: r, t => applyFates (some w) r (cowinEffect w h t)
  | cw, _ :: r, t => applyFates cw r t

/-- number of context references re-pointed to the winner's action: Σ nrefs over the co-winners that own an action -/
def cowinRefs (fs : List (HeadInfo × Fate)) : Nat :=
  ((fs.filter (fun p => p.2 == .cowin && p.1.act.isSome && p.1.owns)).map (·.1.nrefs)).sum

/-- (flow uid, old action uid, new action uid) replacements in `action_uids` / context -/
def repoints : Option HeadInfo → List (HeadInfo × Fate) → List (Nat × Nat × Nat)
  | _, [] => []
  | _, (w, .picked) :: r => repoints (some w) r
  | some w, (h, .cowin) :: r =>
    match w.act, h.act with
    | some b, some a => if a = b || !h.owns then repoints (some w) r else (h.flow, a, b) :: repoints (some w) r
    | _, _ => repoints (some w) r
  | cw, _ :: r => repoints cw r

/-! ### the matcher's scores behind the ranks

  One entry of `matching_scores` is the result of `_compute_event_comparison_score`:
  `Match.eventScore … = .pos k prio`, i.e. the number `prio · (num/den)^k` with `k` = number of unmentioned parameters,
  `num/den` the fuzzy-match base of the source (Generated.C04: 9/10) and `prio = m / 2^e` the flow priority
  (`none` = no scaling).  `mlt` compares two such numbers EXACTLY (integer cross-multiplication, no floats). -/

structure MScore where
  k : Nat
  prio : Option (Int × Nat)
deriving DecidableEq, Repr, Inhabited

def MScore.pnum (s : MScore) : Int := match s.prio with | none => 1 | some (m, _) => m
def MScore.pexp (s : MScore) : Nat := match s.prio with | none => 0 | some (_, e) => e

/-- value a < value b, where value s = pnum / 2^pexp · (num/den)^k -/
def mlt (num den : Nat) (a b : MScore) : Prop :=
  a.pnum * ((num ^ a.k * den ^ b.k * 2 ^ b.pexp : Nat) : Int) < b.pnum * ((num ^ b.k * den ^ a.k * 2 ^ a.pexp : Nat) : Int)

instance (num den : Nat) (a b : MScore) : Decidable (mlt num den a b) := by unfold mlt; infer_instance

/-- three-way exact comparison (driver: validates the float order the harness ranks by) -/
def mcmp (num den : Nat) (a b : MScore) : Int :=
  if mlt num den a b then -1 else if mlt num den b a then 1 else 0

/-- the perfect, unscaled match: 1.0 — the value `_resolve_action_conflicts` pads with -/
def MScore.perfect : MScore := ⟨0, none⟩

end NemoVerif.Conflict
