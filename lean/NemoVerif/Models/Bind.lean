/-
  C08 — model of flow-call binding in the Colang 2.x interpreter.

  Layer 1 (function level, mirrors `statemachine.py` statement for statement):
    * `createFlowInstance`  ~ `create_flow_instance`   (shared-context guard, named/default loop,
                                                         positional `$i` loop, return members)
    * `startFlow`           ~ `_start_flow`            (parent link keys, positional → context loop
                                                         over `enumerate(flow_state.arguments)`,
                                                         surplus check on `$last_idx+1`)
    * `assignCtx`, `globalCtx`, `returnCtx` ~ `slide` branches `Assignment`, `Global`, `Return`
    * `evalVar` / `eval`    ~ `_get_eval_context` + the `$var` lookup of `eval_expression`
    * `finishedArgs`        ~ `FlowState.finished_event` / `_create_out_event`
    * `captureReturn`       ~ the expansion of `$x = await f(..)`:
                              `match $ref.Finished() as $e ; $x = $e.arguments.return_value`
  Layer 2: `exec`, a synchronous mini interpreter for the program fragment the end-to-end
  generator produces (assign / global / return / send / block / call in the forms await, start,
  activate), built from the layer-1 functions.  It is compared event for event and context for
  context with the real `run_to_completion`.

  The binding functions model the REPAIRED code (fixes/C08-reserved-parameter-names-v2.diff:
  `flow_argument_key` / `flow_parameter_name`); `bindNamedAsIs` / `createFlowInstanceAsIs` keep the
  unrepaired lookup by bare parameter name for the counterexample and for the correspondence on an
  unpatched tree.

  Dict keys.  Python keys are strings; the positional keys are `f"${idx}"`.  The model uses the
  sum type `Key` (`pos i` for the string `"$i"`, `arg n` for `"$n"` with `n` an internal flow event
  argument name, `name s` for every other string) so that
  "`$i` is not a parameter name and `$i ≠ $j`" are constructor facts instead of facts about
  decimal printing.  The driver converts at the boundary (`"$" ++ canonical decimal` ↦ `pos`).

  Contexts are association lists in insertion order (`enumerate(flow_state.arguments)` makes the
  order of `arguments` observable).  Values are immutable: sharing of list objects between caller
  and callee (which the real code has) cannot be expressed here — see design_notes/C08.md.
-/
import NemoVerif.Py.Val
import NemoVerif.Models.Match

namespace NemoVerif.Bind
open NemoVerif

inductive Key where
  | name : String → Key
  | pos : Nat → Key
  | arg : String → Key     -- the string "$<name>" for a parameter named like an internal flow event argument
  deriving DecidableEq, Repr, Inhabited

/-- `INTERNAL_FLOW_EVENT_ARGUMENTS` (colang_ast.py, repaired tree): the StartFlow arguments the
    interpreter sets itself (`FlowState.start_event`, `slide`, the expansion of start/activate). -/
def reservedNames : List String :=
  ["flow_id", "flow_instance_uid", "activated", "source_flow_instance_uid", "source_head_uid", "flow_hierarchy_position"]

/-- `flow_argument_key`: the key under which the argument for parameter `n` travels in flow event
    arguments and in `FlowState.arguments` — `"$n"` when `n` collides with an internal argument. -/
def argKey (n : String) : Key := if n ∈ reservedNames then .arg n else .name n

/-- `flow_parameter_name`, the inverse on keys. -/
def paramOfKey : Key → Key
  | .arg n => .name n
  | k => k

abbrev Ctx := List (Key × Val)

def lookup (k : Key) : Ctx → Option Val
  | [] => none
  | (k', v) :: r => if k' = k then some v else lookup k r

/-- Python `d[k] = v` on an insertion-ordered dict: overwrite in place or append. -/
def set (k : Key) (v : Val) : Ctx → Ctx
  | [] => [(k, v)]
  | (k', v') :: r => if k' = k then (k', v) :: r else (k', v') :: set k v r

def has (k : Key) (c : Ctx) : Bool := (lookup k c).isSome

def keys (c : Ctx) : List Key := c.map (·.1)

/-- `d.update(new)` -/
def update (c new : Ctx) : Ctx := new.foldl (fun acc kv => set kv.1 kv.2 acc) c

/-! ### Expressions (the fragment the generated programs use) -/

inductive Expr where
  | lit : Val → Expr
  | var : String → Expr
  | list1 : Expr → Expr
  | list2 : Expr → Expr → Expr
  deriving Repr, Inhabited

def globalKey (x : String) : Key := .name ("_global_" ++ x)

/-- `$x` inside an expression evaluated for a flow with context `c`, global context `g`:
    `_get_eval_context` links every `_global_x` key to `state.context[x]`, and `eval_expression`
    prefers `_global_x` over `x`; unknown variables are `None`. -/
def evalVar (g c : Ctx) (x : String) : Val :=
  if has (globalKey x) c then (lookup (.name x) g).getD .none else (lookup (.name x) c).getD .none

def eval (g c : Ctx) : Expr → Val
  | .lit v => v
  | .var x => evalVar g c x
  | .list1 a => .list [eval g c a]
  | .list2 a b => .list [eval g c a, eval g c b]

/-! ### Layer 1 -/

structure Param where
  name : String
  dflt : Option Expr
  deriving Repr, Inhabited

/-- `eval_expression(param.default_value_expr, {}) if param.default_value_expr else None`:
    the default is evaluated in the EMPTY context. -/
def Param.dfltVal (p : Param) : Val :=
  match p.dflt with
  | some e => eval [] [] e
  | none => .none

inductive Err where
  | ctxShared   -- ColangRuntimeError "Context cannot be shared to flows with parameters"
  | tooMany     -- ColangRuntimeError "To many parameters provided in start of flow"
  | keyError    -- KeyError (source_flow_instance_uid / source_head_uid / parent instance missing)
  | other
  deriving DecidableEq, Repr, Inhabited

structure Inst where
  flowId : String
  arguments : Ctx
  context : Ctx
  parent : Option Val := none
  deriving Repr, Inhabited

/-- first loop of `create_flow_instance`: named argument (looked up under `flow_argument_key`), else
    default, else None; written to `arguments` (same key) and to `context` (parameter name).
    State = (arguments, context). -/
def bindNamed (ev : Ctx) : List Param → Ctx × Ctx → Ctx × Ctx
  | [], s => s
  | p :: ps, (a, c) =>
    let v := match lookup (argKey p.name) ev with
      | some v => v
      | none => p.dfltVal
    bindNamed ev ps (set (argKey p.name) v a, set (.name p.name) v c)

/-- the same loop as the code is WITHOUT the repair: the bare parameter name is looked up in the
    whole StartFlow event -/
def bindNamedAsIs (ev : Ctx) : List Param → Ctx × Ctx → Ctx × Ctx
  | [], s => s
  | p :: ps, (a, c) =>
    let v := match lookup (.name p.name) ev with
      | some v => v
      | none => p.dfltVal
    bindNamedAsIs ev ps (set (.name p.name) v a, set (.name p.name) v c)

/-- second loop: `$idx` present ⇒ `arguments[flow_argument_key(param.name)] = arguments["$idx"] = val`
    (context untouched). -/
def bindPos (ev : Ctx) : List Param → Nat → Ctx → Ctx
  | [], _, a => a
  | p :: ps, i, a =>
    match lookup (.pos i) ev with
    | some v => bindPos ev ps (i + 1) (set (.pos i) v (set (argKey p.name) v a))
    | none => bindPos ev ps (i + 1) a

def bindPosAsIs (ev : Ctx) : List Param → Nat → Ctx → Ctx
  | [], _, a => a
  | p :: ps, i, a =>
    match lookup (.pos i) ev with
    | some v => bindPosAsIs ev ps (i + 1) (set (.pos i) v (set (.name p.name) v a))
    | none => bindPosAsIs ev ps (i + 1) a

/-- third loop: return members get their default (or None) in the context. -/
def bindRet : List Param → Ctx → Ctx
  | [], c => c
  | m :: ms, c => bindRet ms (set (.name m.name) m.dfltVal c)

def dictToCtx (kvs : List (String × Val)) : Ctx := kvs.map fun kv => (Key.name kv.1, kv.2)

def startCtx (params : List Param) (ev : Ctx) : Except Err Ctx :=
  match lookup (.name "context") ev with
  | some shared =>
    if !params.isEmpty then .error .ctxShared
    else match shared with
      | .dict kvs => .ok (dictToCtx kvs)
      | _ => .error .other
  | none => .ok []

def createFlowInstance (flowId : String) (params rets : List Param) (ev : Ctx) : Except Err Inst :=
  match startCtx params ev with
  | .error e => .error e
  | .ok c0 =>
    let r := bindNamed ev params ([], c0)
    .ok { flowId := flowId, arguments := bindPos ev params 0 r.1, context := bindRet rets r.2 }

def createFlowInstanceAsIs (flowId : String) (params rets : List Param) (ev : Ctx) : Except Err Inst :=
  match startCtx params ev with
  | .error e => .error e
  | .ok c0 =>
    let r := bindNamedAsIs ev params ([], c0)
    .ok { flowId := flowId, arguments := bindPosAsIs ev params 0 r.1, context := bindRet rets r.2 }

/-- The loop of `_start_flow` over `enumerate(flow_state.arguments)`; returns the new context and
    `last_idx + 1`. -/
def startLoop (ev : Ctx) : List Key → Nat → Ctx → Ctx × Nat
  | [], idx, c => (c, idx)
  | a :: rest, idx, c =>
    match lookup (.pos idx) ev with
    | some v => startLoop ev rest (idx + 1) (set (paramOfKey a) v c)
    | none => (c, idx + 1)

def startFlow (isMain : Bool) (ev : Ctx) (f : Inst) : Except Err Inst :=
  if isMain then .ok f
  else match lookup (.name "source_flow_instance_uid") ev, lookup (.name "source_head_uid") ev with
    | some p, some _ =>
      let r := startLoop ev (keys f.arguments) 0 f.context
      if has (.pos r.2) ev then .error .tooMany
      else .ok { f with context := r.1, parent := some p }
    | _, _ => .error .keyError

/-- `slide`, branch `Assignment`: `if f"_global_{key}" in flow_state.context: state.context[key] = v
    else: flow_state.context[key] = v`.  Returns (globals, context). -/
def assignCtx (key : String) (v : Val) (g c : Ctx) : Ctx × Ctx :=
  if has (globalKey key) c then (set (.name key) v g, c) else (g, set (.name key) v c)

/-- `slide`, branch `Global`. -/
def globalCtx (x : String) (g c : Ctx) : Ctx × Ctx :=
  (if has (.name x) g then g else set (.name x) .none g, set (globalKey x) .none c)

def returnKey : Key := .name "_return_value"

/-- `slide`, branch `Return`. -/
def returnCtx (v : Val) (c : Ctx) : Ctx := set returnKey v c

/-- `FlowState.finished_event(..)`: `_create_out_event` with `args = {"return_value": ..}` when
    `_return_value` is in the context. -/
def finishedArgs (uid : Val) (f : Inst) : Ctx :=
  let base : Ctx := [(.name "source_flow_instance_uid", uid), (.name "flow_instance_uid", uid), (.name "flow_id", .str f.flowId)]
  let a := update base f.arguments
  match lookup returnKey f.context with
  | some v => set (.name "return_value") v a
  | none => a

/-- `$x = $ref.arguments.return_value` evaluated on the matched Finished event; `none` = the
    attribute does not exist (the calling flow fails with ColangValueError). -/
def captureReturn (x : String) (evArgs : Ctx) (g c : Ctx) : Option (Ctx × Ctx) :=
  match lookup (.name "return_value") evArgs with
  | some v => some (assignCtx x v g c)
  | none => none

/-! ### structural equality used for the FlowStarted handshake -/

mutual
def Val.beq : Val → Val → Bool
  | .none, .none => true
  | .bool a, .bool b => a == b
  | .int a, .int b => a == b
  | .flt m e, .flt m' e' => m == m' && e == e'
  | .str a, .str b => a == b
  | .list xs, .list ys => beqList xs ys
  | .set xs, .set ys => beqList xs ys
  | .dict xs, .dict ys => beqKvs xs ys
  | .regex a, .regex b => a == b
  | .cmp o v, .cmp o' v' => o == o' && Val.beq v v'
  | .ref k u, .ref k' u' => k == k' && u == u'
  | _, _ => false
def beqList : List Val → List Val → Bool
  | [], [] => true
  | x :: xs, y :: ys => Val.beq x y && beqList xs ys
  | _, _ => false
def beqKvs : List (String × Val) → List (String × Val) → Bool
  | [], [] => true
  | (k, x) :: xs, (k', y) :: ys => k == k' && Val.beq x y && beqKvs xs ys
  | _, _ => false
end

/-! ### Layer 2: synchronous mini interpreter -/

inductive CallForm where
  | await | start | activate
  deriving DecidableEq, Repr, Inhabited

inductive Stmt where
  | assign (key : String) (e : Expr)
  | global (x : String)
  | ret (e : Expr)
  | send (name : String) (args : List (String × Expr))
  | block                                   -- `match Never()`
  | call (form : CallForm) (retVar : Option String) (flow : String) (pos : List Expr) (named : List (String × Expr))
  deriving Repr, Inhabited

structure FlowDef where
  params : List Param
  rets : List Param
  body : List Stmt
  deriving Repr, Inhabited

structure St where
  insts : List (Nat × Inst) := []     -- creation order
  globals : Ctx := []
  out : List (String × List (String × Val)) := []
  next : Nat := 0
  deriving Repr, Inhabited

inductive Outcome where
  | finished | blocked | failed | outOfFuel | error (e : Err)
  deriving DecidableEq, Repr, Inhabited

def findInst (u : Nat) : List (Nat × Inst) → Option Inst
  | [] => none
  | (u', f) :: r => if u' = u then some f else findInst u r

def replaceInst (u : Nat) (f : Inst) : List (Nat × Inst) → List (Nat × Inst)
  | [] => []
  | (u', f') :: r => if u' = u then (u', f) :: r else (u', f') :: replaceInst u f r

def St.ctxOf (s : St) (u : Nat) : Ctx := ((findInst u s.insts).map (·.context)).getD []

def St.setCtx (s : St) (u : Nat) (g c : Ctx) : St :=
  match findInst u s.insts with
  | some f => { s with insts := replaceInst u { f with context := c } s.insts, globals := g }
  | none => { s with globals := g }

def St.evalIn (s : St) (u : Nat) (e : Expr) : Val := eval s.globals (s.ctxOf u) e

def uidVal (u : Nat) : Val := .str ("#" ++ toString u)

def posArgs (g c : Ctx) : List Expr → Nat → Ctx
  | [], _ => []
  | e :: es, i => (.pos i, eval g c e) :: posArgs g c es (i + 1)

/-- the user-written part of the call arguments, evaluated in the caller (dict semantics: a
    repeated name keeps its first position and the last value); the transformer renames a named
    argument that collides with an internal flow event argument (`flow_argument_key`) -/
def userArgs (g c : Ctx) (pos : List Expr) (named : List (String × Expr)) : Ctx :=
  update (posArgs g c pos 0) (named.map fun ne => (argKey ne.1, eval g c ne.2))

/-- arguments of the `FlowStarted` pattern (`element.spec.arguments` after the expansion added
    `flow_id` and `flow_instance_uid`) -/
def matchArgs (ua : Ctx) (flow : String) (n : Nat) : Ctx :=
  set (.name "flow_instance_uid") (uidVal n) (set (.name "flow_id") (.str flow) ua)

/-- arguments of the `StartFlow` event as `create_flow_instance` / `_start_flow` receive them -/
def startArgs (ua : Ctx) (form : CallForm) (flow : String) (n caller : Nat) : Ctx :=
  let a := matchArgs ua flow n
  let a := if form = .activate then set (.name "activated") (.bool true) a else a
  let a := set (.name "source_flow_instance_uid") (uidVal caller) a
  let a := set (.name "source_head_uid") (.str "#head") a
  set (.name "flow_hierarchy_position") (.str "#pos") a

/-! The two internal-event matches of a call go through the C04 matcher model (`Match.eventScore`
    = `_compute_event_comparison_score`, partial-match rules included): the reference events are built
    the way `get_event_from_element` builds them (`Match.refEvent`), the events the way
    `_create_out_event` does (`Match.FlowObj.matchEvent`). -/

def keyStr : Key → String
  | .name s => s
  | .pos i => "$" ++ toString i
  | .arg n => "$" ++ n

def toDict (c : Ctx) : List (String × Val) := c.map fun kv => (keyStr kv.1, kv.2)

/-- the `FlowState` of instance `n` as event construction reads it -/
def flowObj (n : Nat) (f : Inst) : Match.FlowObj :=
  { uid := "#" ++ toString n, flowId := f.flowId, args := toDict f.arguments, returnValue := lookup returnKey f.context }

/-- `_compute_event_comparison_score(state, event, ref_event) > 0` (no regex values occur in this
    fragment, no actions) -/
def evMatches (ev ref : Option Match.Ev) : Bool :=
  match ev, ref with
  | some e, some r =>
    match Match.eventScore (fun _ _ => false) (fun _ => none) e r none with
    | .pos _ _ => true
    | _ => false
  | _, _ => false

/-- does the caller's `match FlowStarted(<call arguments>)` (pattern `pat`, evaluated at match time)
    accept the FlowStarted event of instance `n`? -/
def handshake (pat : Ctx) (n : Nat) (f : Inst) : Bool :=
  evMatches ((flowObj n f).matchEvent "Started" []) (Match.refEvent (.bare "FlowStarted" false (toDict pat)))

/-- does the caller's `match $ref.Finished()` accept the FlowFinished event of instance `n`?  (the
    reference event is built from the same instance at match time) -/
def finishedMatch (n : Nat) (f : Inst) : Bool :=
  evMatches ((flowObj n f).matchEvent "Finished" []) (Match.refEvent (.flowRef (flowObj n f) "Finished" []))

def findFlow (name : String) : List (String × FlowDef) → Option FlowDef
  | [] => none
  | (n, d) :: r => if n = name then some d else findFlow name r

/-- Run the rest `body` of instance `u`.  One unit of fuel per statement. -/
def exec (flows : List (String × FlowDef)) : Nat → St → Nat → List Stmt → St × Outcome
  | 0, s, _, _ => (s, .outOfFuel)
  | _ + 1, s, _, [] => (s, .finished)
  | fuel + 1, s, u, stmt :: rest =>
    match stmt with
    | .assign k e =>
      let (g, c) := assignCtx k (s.evalIn u e) s.globals (s.ctxOf u)
      exec flows fuel (s.setCtx u g c) u rest
    | .global x =>
      let (g, c) := globalCtx x s.globals (s.ctxOf u)
      exec flows fuel (s.setCtx u g c) u rest
    | .ret e =>
      (s.setCtx u s.globals (returnCtx (s.evalIn u e) (s.ctxOf u)), .finished)
    | .send name args =>
      exec flows fuel { s with out := s.out ++ [(name, args.map fun ke => (ke.1, s.evalIn u ke.2))] } u rest
    | .block => (s, .blocked)
    | .call form retVar flow pos named =>
      match findFlow flow flows with
      | none => (s, .blocked)        -- StartFlow for an unknown flow: FlowStarted never arrives
      | some d =>
        let n := s.next
        let ua := userArgs s.globals (s.ctxOf u) pos named
        let ev := startArgs ua form flow n u
        match createFlowInstance flow d.params d.rets ev with
        | .error e => (s, .error e)
        | .ok f0 =>
          match startFlow false ev f0 with
          | .error e => ({ s with insts := s.insts ++ [(n, f0)], next := n + 1 }, .error e)
          | .ok f1 =>
            let s1 : St := { s with insts := s.insts ++ [(n, f1)], next := n + 1 }
            let (s2, oc) := exec flows fuel s1 n d.body
            match oc with
            | .outOfFuel => (s2, .outOfFuel)
            | .error e => (s2, .error e)
            | .failed => (s2, .blocked)   -- callee failed: FlowStarted/Finished never arrive
            | _ =>
              let f2 := (findInst n s2.insts).getD f1
              -- the FlowStarted pattern is evaluated when the event is matched, i.e. AFTER the callee's
              -- synchronous run (a global it re-assigned is seen with its new value)
              let pat := matchArgs (userArgs s2.globals (s2.ctxOf u) pos named) flow n
              if !handshake pat n f2 then (s2, .blocked)
              else if form ≠ .await then exec flows fuel s2 u rest
              else if oc = .blocked then (s2, .blocked)
              else if !finishedMatch n f2 then (s2, .blocked)
              else match retVar with
                | none => exec flows fuel s2 u rest
                | some x =>
                  match captureReturn x (finishedArgs (uidVal n) f2) s2.globals (s2.ctxOf u) with
                  | none => (s2, .failed)
                  | some (g, c) => exec flows fuel (s2.setCtx u g c) u rest

/-- Program entry: instance 0 is `main` (created with `create_flow_instance(main, .., {})`). -/
def runMain (flows : List (String × FlowDef)) (fuel : Nat) (mainBody : List Stmt) : St × Outcome :=
  match createFlowInstance "main" [] [] [] with
  | .error e => ({}, .error e)
  | .ok f => exec flows fuel { insts := [(0, f)], next := 1 } 0 mainBody

end NemoVerif.Bind

namespace NemoVerif.Bind.Heap
open NemoVerif

/-! ### Reference-semantics side model (open finding `inplace-mutation-of-passed-container`)

  The main model treats values as immutable.  The real interpreter stores the *object* it finds in
  the StartFlow event in `FlowState.arguments` / `context`, so a list passed as an argument is one
  Python object referenced by caller and callee.  This small model has just enough structure to
  state that: variables hold addresses, the heap holds the lists. -/

structure HSt where
  heap : List (Nat × List Val)
  vars : List ((Nat × String) × Nat)      -- (instance uid, variable) ↦ address

def cell (a : Nat) : List (Nat × List Val) → Option (List Val)
  | [] => none
  | (a', l) :: r => if a' = a then some l else cell a r

def addrOf (u : Nat) (x : String) : List ((Nat × String) × Nat) → Option Nat
  | [] => none
  | ((u', x'), a) :: r => if u' = u ∧ x' = x then some a else addrOf u x r

def read (s : HSt) (u : Nat) (x : String) : Option (List Val) :=
  match addrOf u x s.vars with
  | some a => cell a s.heap
  | none => none

/-- what `create_flow_instance` does with a list argument: the parameter refers to the SAME object -/
def bindByRef (s : HSt) (caller callee : Nat) (arg param : String) : HSt :=
  match addrOf caller arg s.vars with
  | some a => { s with vars := ((callee, param), a) :: s.vars }
  | none => s

def updCell (a : Nat) (v : Val) : List (Nat × List Val) → List (Nat × List Val)
  | [] => []
  | (a', l) :: r => if a' = a then (a', l ++ [v]) :: updCell a v r else (a', l) :: updCell a v r

/-- `$z = $x.append(v)` evaluated in instance `u`: the object is mutated in place -/
def appendInPlace (s : HSt) (u : Nat) (x : String) (v : Val) : HSt :=
  match addrOf u x s.vars with
  | some a => { s with heap := updCell a v s.heap }
  | none => s

end NemoVerif.Bind.Heap
