/-
  C07 — the element list that `expand_elements` produces for a `when` statement on groups.

  `expandWhen` mirrors
    nemoguardrails/colang/v2_x/lang/expansion.py :: _expand_when_stmt_element
  after ALL passes of `expand_elements`, as the code is (including its duplications):

    BeginScope s ; ForkHead u [init_a, init_b, …]
    per case i (`when g_i` / `or when g_i`), with `d_i = normalize g_i`:
      label init_i ; CatchPatternFailure fail_i ; ForkHead gu_i [group_i_0, …]      (one label per and-clause of d_i)
      per and-clause j of d_i:
        label group_i_j
        <start blocks of the FLOW atoms of the clause>                                (`start {spec_and: […]}`, `_expand_start_element`)
        <match {spec_and: [$ref.Finished() | event …]}>                               (and-template of `_expand_match_element`, or one plain match)
        goto case_i
        label case_i ; MergeHeads u ; CatchPatternFailure None ; EndScope s ; <body_i> ; goto end         -- emitted once PER CLAUSE
        label fail_i ; WaitForHeads |d_i| ; CatchPatternFailure None ; goto else                           -- (the code appends them inside the clause loop)
      label else ; WaitForHeads #cases ; MergeHeads u ; EndScope s ; (Abort | goto else_stmt ; label else_stmt ; <else body>) ; label end
                                                                                       -- emitted once PER CASE (inside the case loop)

  The flow atoms are deep-copied before `ref` is set (repair of /repo 483823b), so a flow atom that lands in several
  clauses gets its own start block and its own reference in each of them — `whenMatchItems` / `startBlocks` allocate
  fresh references per clause.

  `readBackWhen` is the checker run on the REAL element list; `Lemmas/GroupExpandWhen.lean` proves that it inverts the mirror.
  The bodies of the cases and the else body are opaque, already expanded element lists (parameters).
-/
import NemoVerif.Models.GroupExpandAwait
namespace NemoVerif.GroupExpand
open NemoVerif.Dnf

/-! ### the and-template over arbitrary match elements (events and `$ref.Finished()` mixed) -/

def isMatchPrim : Prim → Bool
  | .matchEv _ => true
  | .matchFin _ => true
  | _ => false

def andItemsP (e : Nat) : List Nat → List Prim → List Prim
  | l :: ls, m :: ms => .label l :: m :: .goto e :: andItemsP e ls ms
  | _, _ => []

/-- `match {"_type": "spec_and", "elements": ms}` -/
def expandAndP (ms : List Prim) (k : Nat) : List Prim × Nat :=
  match ms with
  | [m] => ([m], k)
  | _ =>
    let ls := freshLabels (k + 3) ms.length
    ([.catchPF (some (k + 1)), .fork k ls] ++ andItemsP (k + 2) ls ms ++ andTrailer k (k + 1) (k + 2) ms.length,
     k + 3 + ms.length)

/-- `group_match_elements[case][group]`: a flow atom is matched through the reference its start block assigns
    (`k`, `k+1`, `k+2` = names of that block), an event atom directly -/
def whenMatchItems (isFlow : Nat → Bool) : List Nat → Nat → List Prim
  | [], _ => []
  | a :: as, k =>
    if isFlow a then .matchFin (k + 2) :: whenMatchItems isFlow as (k + 3)
    else .matchEv a :: whenMatchItems isFlow as k

/-- one and-clause: start its flows, then wait for all its atoms -/
def expandWhenClause (isFlow : Nat → Bool) (c : List Nat) (k : Nat) : List Prim × Nat :=
  let fl := c.filter isFlow
  let r := expandAndP (whenMatchItems isFlow c k) (k + 3 * fl.length)
  (startBlocks fl k ++ r.1, r.2)

/-- statement-level names: scope, cases fork uid, else label, else-statement label, end label -/
structure WNames where
  s : Nat
  u : Nat
  elseL : Nat
  elseS : Nat
  endL : Nat
  deriving Repr, DecidableEq

/-- what follows the clause's match inside the clause loop (emitted once per clause, as the code does) -/
def whenGroupTail (nm : WNames) (caseL failL nGroups : Nat) (body : List Prim) : List Prim :=
  [.goto caseL, .label caseL, .merge nm.u, .catchPF none, .endScope nm.s] ++ body ++
    [.goto nm.endL, .label failL, .wait nGroups, .catchPF none, .goto nm.elseL]

def whenGroups (isFlow : Nat → Bool) (nm : WNames) (caseL failL nGroups : Nat) (body : List Prim) :
    List Nat → Clauses → Nat → List Prim × Nat
  | l :: ls, c :: cs, k =>
    let r := expandWhenClause isFlow c k
    let rest := whenGroups isFlow nm caseL failL nGroups body ls cs r.2
    (.label l :: r.1 ++ whenGroupTail nm caseL failL nGroups body ++ rest.1, rest.2)
  | _, _, k => ([], k)

/-- the else group and the end label (emitted once per case, as the code does) -/
def whenElse (nm : WNames) (nCases : Nat) (els : Option (List Prim)) : List Prim :=
  [.label nm.elseL, .wait nCases, .merge nm.u, .endScope nm.s] ++
    (match els with
      | none => [.abort]
      | some b => [.goto nm.elseS, .label nm.elseS] ++ b) ++
    [.label nm.endL]

/-- one case; fresh names: `k` failure label, `k+1` case label, `k+2` fork uid of the clauses, then the clause labels -/
def whenCase (isFlow : Nat → Bool) (nm : WNames) (nCases : Nat) (els : Option (List Prim))
    (initL : Nat) (d : Clauses) (body : List Prim) (k : Nat) : List Prim × Nat :=
  let ls := freshLabels (k + 3) d.length
  let gs := whenGroups isFlow nm (k + 1) k d.length body ls d (k + 3 + d.length)
  (.label initL :: .catchPF (some k) :: .fork (k + 2) ls :: gs.1 ++ whenElse nm nCases els, gs.2)

def whenCases (isFlow : Nat → Bool) (nm : WNames) (nCases : Nat) (els : Option (List Prim)) :
    List Nat → List (Clauses × List Prim) → Nat → List Prim × Nat
  | l :: ls, c :: cs, k =>
    let r := whenCase isFlow nm nCases els l c.1 c.2 k
    let rest := whenCases isFlow nm nCases els ls cs r.2
    (r.1 ++ rest.1, rest.2)
  | _, _, k => ([], k)

def expandWhenClauses (isFlow : Nat → Bool) (cases : List (Clauses × List Prim)) (els : Option (List Prim)) (k : Nat) :
    List Prim × Nat :=
  let nm : WNames := { s := k, u := k + 1, elseL := k + 2, elseS := k + 3, endL := k + 4 }
  let ls := freshLabels (k + 5) cases.length
  let cs := whenCases isFlow nm cases.length els ls cases (k + 5 + cases.length)
  (.beginScope k :: .fork (k + 1) ls :: cs.1, cs.2)

/-- the final element list for `when g_0 <body_0> or when g_1 <body_1> … [else <els>]` -/
def expandWhen (isFlow : Nat → Bool) (cases : List (G × List Prim)) (els : Option (List Prim)) : List Prim :=
  (expandWhenClauses isFlow (cases.map fun c => (toDnf (normalize c.1), c.2)) els 0).1

/-! ### reading it back -/

def readAndItemsP : List Nat → List Prim → Option (List (Prim × Nat) × List Prim)
  | [], ps => some ([], ps)
  | l :: ls, .label l' :: m :: .goto e :: ps =>
    if l == l' && isMatchPrim m then
      match readAndItemsP ls ps with
      | some (xs, rest) => some ((m, e) :: xs, rest)
      | none => none
    else none
  | _, _ => none

def readAndP : List Prim → Option (List Prim × List Prim)
  | .matchEv a :: ps => some ([.matchEv a], ps)
  | .matchFin r :: ps => some ([.matchFin r], ps)
  | .catchPF (some f) :: .fork u ls :: ps =>
    match readAndItemsP ls ps with
    | some (items, .label f' :: .merge u1 :: .catchPF none :: .abort :: .label e :: .wait n :: .merge u2 :: .catchPF none :: rest) =>
      if f' == f && u1 == u && u2 == u && n == ls.length && items.all (fun x => x.2 == e)
      then some (items.map (·.1), rest) else none
    | _ => none
  | _ => none

/-- the atoms a clause waits for: an event directly, a flow through the reference of the NEXT unused start block
    (every started flow is awaited exactly once, in order) -/
def itemsToClause : List (Nat × Nat) → List Prim → Option (List Nat)
  | [], [] => some []
  | st, .matchEv a :: ms =>
    match itemsToClause st ms with
    | some c => some (a :: c)
    | none => none
  | (a, r) :: st, .matchFin r' :: ms =>
    if r == r' then
      match itemsToClause st ms with
      | some c => some (a :: c)
      | none => none
    else none
  | _, _ => none

def readWhenClause (ps : List Prim) : Option (List Nat × List Prim) :=
  let st := readStarts ps
  match readAndP st.2 with
  | some (ms, rest) =>
    match itemsToClause st.1 ms with
    | some c => some (c, rest)
    | none => none
  | none => none

def stripPrefix : List Prim → List Prim → Option (List Prim)
  | [], ps => some ps
  | b :: bs, p :: ps => if b = p then stripPrefix bs ps else none
  | _ :: _, [] => none

/-- what a clause segment jumps to: (case label, end label, else label) -/
abbrev WTargets := Nat × Nat × Nat

def readWhenGroups (s u failL n : Nat) (body : List Prim) : List Nat → List Prim → Option (List (List Nat × WTargets) × List Prim)
  | [], ps => some ([], ps)
  | l :: ls, .label l' :: ps =>
    if l == l' then
      match readWhenClause ps with
      | some (c, .goto c1 :: .label c2 :: .merge u' :: .catchPF none :: .endScope s' :: ps1) =>
        if c1 == c2 && u' == u && s' == s then
          match stripPrefix body ps1 with
          | some (.goto e :: .label f :: .wait n' :: .catchPF none :: .goto el :: ps2) =>
            if f == failL && n' == n then
              match readWhenGroups s u failL n body ls ps2 with
              | some (xs, r) => some ((c, (c1, e, el)) :: xs, r)
              | none => none
            else none
          | _ => none
        else none
      | _ => none
    else none
  | _, _ => none

/-- the else group: returns (else label, end label) -/
def readWhenElse (s u nCases : Nat) (els : Option (List Prim)) : List Prim → Option ((Nat × Nat) × List Prim)
  | .label el :: .wait n :: .merge u' :: .endScope s' :: ps =>
    if n == nCases && u' == u && s' == s then
      match els with
      | none =>
        match ps with
        | .abort :: .label e :: rest => some ((el, e), rest)
        | _ => none
      | some b =>
        match ps with
        | .goto x :: .label x' :: ps1 =>
          if x == x' then
            match stripPrefix b ps1 with
            | some (.label e :: rest) => some ((el, e), rest)
            | _ => none
          else none
        | _ => none
    else none
  | _ => none

/-- one case: its clauses and its (else label, end label) -/
def readWhenCase (s u nCases : Nat) (els : Option (List Prim)) (initL : Nat) (body : List Prim) :
    List Prim → Option ((Clauses × (Nat × Nat)) × List Prim)
  | .label i :: .catchPF (some failL) :: .fork _ ls :: ps =>
    if i == initL then
      match readWhenGroups s u failL ls.length body ls ps with
      | some (items, ps1) =>
        match readWhenElse s u nCases els ps1 with
        | some ((el, e), rest) =>
          -- every clause jumps to the same case label, to this end label and (on failure) to this else label
          if items.all (fun x => x.2.1 == (items.head?.map (·.2.1)).getD 0 && x.2.2.1 == e && x.2.2.2 == el)
          then some ((items.map (·.1), (el, e)), rest) else none
        | none => none
      | none => none
    else none
  | _ => none

def readWhenCases (s u nCases : Nat) (els : Option (List Prim)) :
    List Nat → List (List Prim) → List Prim → Option (List (Clauses × (Nat × Nat)) × List Prim)
  | [], [], ps => some ([], ps)
  | l :: ls, body :: bodies, ps =>
    match readWhenCase s u nCases els l body ps with
    | some (x, ps1) =>
      match readWhenCases s u nCases els ls bodies ps1 with
      | some (xs, r) => some (x :: xs, r)
      | none => none
    | none => none
  | _, _, _ => none

/-- per case the clauses it implements (the bodies and the else body are given) -/
def readBackWhen (bodies : List (List Prim)) (els : Option (List Prim)) : List Prim → Option (List Clauses)
  | .beginScope s :: .fork u ls :: ps =>
    match readWhenCases s u ls.length els ls bodies ps with
    | some (xs, []) =>
      -- all cases share one else label and one end label
      if xs.all (fun x => x.2 == (xs.head?.map (·.2)).getD (0, 0)) then some (xs.map (·.1)) else none
    | _ => none
  | _ => none

end NemoVerif.GroupExpand
