/-
  V1Mut — the one place where the Colang 1.0 flow interpreter MUTATES the flow configs it is given:
  `sliding.py::slide` writes `_active_label` / `_active_label_data` into every element dict it passes while an
  "active label" (`_label` of an element passed earlier in the same slide) is set.  The flow configs live in the
  runtime instance and are shared by all later `compute_next_steps` calls, so "the decision is a function of the
  event history alone" needs this mutation to be invisible.

  `MElem` = an element together with the two private keys involved: `_label` (read, never written) and
  `_active_label` (written, never read by `slide`, `_is_match` — which skips keys starting with `_` —,
  `_is_actionable`, `_record_next_step`, `_step_to_event`).  `slideM` = `V1Interp.slide` with the mutation;
  it returns the mutated element list as well.  (`_active_label_data` travels with `_active_label`; it is
  folded into the same field.)
-/
import NemoVerif.Models.V1Interp
namespace NemoVerif.V1Mut
open NemoVerif.V1Interp

structure MElem where
  el : Elem
  /-- `_label` -/
  label : Option String := none
  /-- `_active_label` as written by earlier slides -/
  activeLabel : Option String := none
  deriving Repr, DecidableEq, Inhabited

/-- `pattern_item["_active_label"] = active_label` on the element at index `i` -/
def markAt : List MElem → Nat → Option String → List MElem
  | [], _, _ => []
  | m :: r, 0, a => { m with activeLabel := a } :: r
  | m :: r, i + 1, a => m :: markAt r i a

def proj (code : List MElem) : List Elem := code.map (·.el)

/-- Python truthiness of `active_label` (a non-empty string) -/
def truthyLabel : Option String → Bool
  | some s => s != ""
  | none => false

/-- `if "_label" in pattern_item: active_label = pattern_item["_label"]` -/
def nextAct (code : List MElem) (h : Int) (act : Option String) : Option String :=
  match (code[h.toNat]?).bind (·.label) with
  | some l => some l
  | none => act

/-- `if active_label: pattern_item["_active_label"] = active_label` -/
def markIf (code : List MElem) (h : Int) (act : Option String) : List MElem :=
  if truthyLabel act then markAt code h.toNat act else code

/-- `slide` with the mutation; `act` is the local `active_label` -/
def slideM : Nat → List MElem → SSt → Int → Int → Option String → SRes × List MElem
  | 0, code, _, _, _, _ => (.oof, code)
  | f + 1, code, st, h, prev, act =>
    if h = code.length ∨ h < 0 then (.fin st (-1 * (prev + 1)), code)
    else
      match sstep (proj (markIf code h (nextAct code h act))) st h with
      | .next st' h' => slideM f (markIf code h (nextAct code h act)) st' h' h (nextAct code h act)
      | .stop => (.at st h, markIf code h (nextAct code h act))
      | .err => (.err, markIf code h (nextAct code h act))

/-- the flow config the interpreter's other functions see -/
structure MCfg where
  cfg : FlowCfg
  elems : List MElem

def MCfg.view (m : MCfg) : FlowCfg := { m.cfg with elems := proj m.elems }

end NemoVerif.V1Mut
