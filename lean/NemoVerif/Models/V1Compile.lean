/-
  C12 (Colang 1.0 part) — flow elements with their relative offsets, the in-bounds checker, and a model of
  the CoYML → elements compiler (`_extract_elements`, `_resolve_gotos`, `_process_ellipsis` in
  nemoguardrails/colang/v1_0/lang/coyml_parser.py).  Offsets are consumed by
  colang/v1_0/runtime/sliding.py::slide (`head += _next | _next_else | _next_on_break | _next_on_continue`,
  `head = _next` for absolute jumps) and runtime/flows.py (`elements[head + branch_head]`).
-/
namespace NemoVerif.V1Compile

inductive Kind where
  | ifK | whileK | jump | branch | label | goto
  | simple (s : String)    -- every other `_type` (UserIntent, run_action, set, check, break, continue, stop, any, meta, ...)
  deriving DecidableEq, Repr

structure Elem where
  kind : Kind
  next : Option Int := none          -- `_next`
  nextElse : Option Int := none      -- `_next_else`
  onBreak : Option Int := none       -- `_next_on_break`
  onContinue : Option Int := none    -- `_next_on_continue`
  branchHeads : List Int := []       -- `branch_heads`
  absolute : Bool := false           -- `_absolute`
  name : Option String := none       -- label name / goto target (before `_resolve_gotos`)
  ellipsis : Bool := false           -- `set` whose expression is "..."
  raw : Bool := false                -- a `then` / `else` / `do` / `elements` key is still present
  deriving DecidableEq, Repr

/-! ### the in-bounds property and its checker -/

def InB (len i : Nat) (off : Int) : Prop := 0 ≤ (i : Int) + off ∧ (i : Int) + off ≤ (len : Int)

/-- element `e` at index `i` of a flow with `len` elements is well-formed -/
structure OkAt (len i : Nat) (e : Elem) : Prop where
  next : ∀ off, e.next = some off →
    if e.absolute then (off = -1 ∨ (0 ≤ off ∧ off ≤ (len : Int))) else InB len i off
  nextElse : ∀ off, e.nextElse = some off → InB len i off
  onBreak : ∀ off, e.onBreak = some off → InB len i off
  onContinue : ∀ off, e.onContinue = some off → InB len i off
  /-- `elements[head + branch_head]` is an index access: strictly inside -/
  heads : ∀ off ∈ e.branchHeads, 0 ≤ (i : Int) + off ∧ (i : Int) + off < (len : Int)
  /-- fields that `slide` reads without a default -/
  reqIf : e.kind = .ifK → e.nextElse.isSome = true
  reqWhile : e.kind = .whileK → e.onBreak.isSome = true
  reqJump : e.kind = .jump → e.next.isSome = true
  noRaw : e.raw = false
  /-- only `return` (a jump) is absolute -/
  absJump : e.absolute = true → e.kind = .jump

/-- segment `seg` placed at index `start` of a flow of length `len` -/
def OkIn (len start : Nat) (seg : List Elem) : Prop :=
  ∀ j e, seg[j]? = some e → OkAt len (start + j) e

/-- every relative jump / branch offset lands inside the flow -/
def OffsetsInBounds (es : List Elem) : Prop := OkIn es.length 0 es

/-- no `label` / `goto` element survives `_resolve_gotos` -/
def Resolved (es : List Elem) : Prop := ∀ e ∈ es, e.kind ≠ .label ∧ e.kind ≠ .goto

def inB (len i : Nat) (off : Int) : Bool := decide (0 ≤ (i : Int) + off) && decide ((i : Int) + off ≤ (len : Int))

def optAll (o : Option Int) (f : Int → Bool) : Bool :=
  match o with
  | some x => f x
  | none => true

def okAt (len i : Nat) (e : Elem) : Bool :=
  optAll e.next (fun off =>
    if e.absolute then (off == -1 || (decide (0 ≤ off) && decide (off ≤ (len : Int)))) else inB len i off) &&
  optAll e.nextElse (inB len i) && optAll e.onBreak (inB len i) && optAll e.onContinue (inB len i) &&
  e.branchHeads.all (fun off => decide (0 ≤ (i : Int) + off) && decide ((i : Int) + off < (len : Int))) &&
  (e.kind != .ifK || e.nextElse.isSome) && (e.kind != .whileK || e.onBreak.isSome) &&
  (e.kind != .jump || e.next.isSome) && !e.raw && (!e.absolute || e.kind == .jump)

def okFrom (len : Nat) : Nat → List Elem → Bool
  | _, [] => true
  | i, e :: r => okAt len i e && okFrom len (i + 1) r

def offsetsInBounds (es : List Elem) : Bool := okFrom es.length 0 es

def resolved (es : List Elem) : Bool := es.all fun e => e.kind != .label && e.kind != .goto

/-- the checker run on the real compiler's output -/
def v1Closed (es : List Elem) : Bool := offsetsInBounds es && resolved es

/-- index of the first element that is not well-formed (for replays) -/
def firstBad (len : Nat) : Nat → List Elem → Option Nat
  | _, [] => none
  | i, e :: r => if okAt len i e && e.kind != .label && e.kind != .goto then firstBad len (i + 1) r else some i

/-! ### the compiler model -/

/-- source items (CoYML after `_dict_to_element`); a maximal run of consecutive list items is one `branches` node -/
inductive Item where
  | simple (kind : String)            -- any non-control element
  | setEllipsis                       -- `$x = ...`
  | ret                               -- `return`  →  {"_type": "jump", "_next": "-1", "_absolute": True}
  | label (n : String)
  | goto (n : String)
  | ifS (thenB elseB : List Item)
  | whileS (body : List Item)
  | anyS (children : List String)     -- `any` / `or`: the element followed by its children
  | branches (bs : List (List Item))

def jump (off : Int) : Elem := { kind := .jump, next := some off }

/-- the `for j in range(n)` loop of the WHILE case: break / continue offsets for every element of the body
    that does not belong to an inner loop -/
def markLoop (n : Nat) : Nat → List Elem → List Elem
  | _, [] => []
  | j, e :: r =>
    (if e.onBreak.isNone then
      { e with onBreak := some ((n : Int) + 1 - (j : Int)), onContinue := some (-(j : Int) - 1) }
     else e) :: markLoop n (j + 1) r

/-- branches, each followed by its jump to the end of the whole branch block -/
def branchTail : List (List Elem) → List Elem
  | [] => []
  | p :: ps => p ++ [jump (1 + ((branchTail ps).length : Int))] ++ branchTail ps

def branchHeadsFrom : Nat → List (List Elem) → List Int
  | _, [] => []
  | pos, p :: ps => (pos : Int) :: branchHeadsFrom (pos + p.length + 1) ps

def branchBlock (paths : List (List Elem)) : List Elem :=
  { kind := .branch, branchHeads := branchHeadsFrom 1 paths } :: branchTail paths

def ifBlock (te fe : List Elem) : List Elem :=
  if fe.isEmpty then
    { kind := .ifK, nextElse := some ((te.length : Int) + 1) } :: te
  else
    { kind := .ifK, nextElse := some ((te.length : Int) + 2) } :: te ++ [jump ((fe.length : Int) + 1)] ++ fe

def whileBlock (d : List Elem) : List Elem :=
  { kind := .whileK, onBreak := some ((d.length : Int) + 2) } :: markLoop d.length 0 d ++ [jump (-((d.length : Int) + 1))]

mutual
  /-- `_extract_elements` -/
  def compile : List Item → List Elem
    | [] => []
    | it :: rest => compileItem it ++ compile rest
  def compileItem : Item → List Elem
    | .simple k => [{ kind := .simple k }]
    | .setEllipsis => [{ kind := .simple "set", ellipsis := true }]
    | .ret => [{ kind := .jump, next := some (-1), absolute := true }]
    | .label n => [{ kind := .label, name := some n }]
    | .goto n => [{ kind := .goto, name := some n }]
    | .ifS t f => ifBlock (compile t) (compile f)
    | .whileS b => whileBlock (compile b)
    | .anyS cs => { kind := .simple "any" } :: cs.map fun k => { kind := .simple k }
    | .branches bs => branchBlock (compileBranches bs)
  def compileBranches : List (List Item) → List (List Elem)
    | [] => []
    | b :: bs => compile b :: compileBranches bs
end

/-- first pass of `_resolve_gotos`: `checkpoint_idx` (a second definition of a name is an error) -/
def checkpoints : Nat → List Elem → List (String × Nat) → Except String (List (String × Nat))
  | _, [], acc => .ok acc
  | i, e :: r, acc =>
    if e.kind = .label then
      match e.name with
      | some n => if (acc.lookup n).isSome then .error s!"Checkpoint {n} already defined" else checkpoints (i + 1) r ((n, i) :: acc)
      | none => .error "label without name"
    else checkpoints (i + 1) r acc

/-- the rewriting of both passes, element by element -/
def resolveFrom (tbl : List (String × Nat)) : Nat → List Elem → Except String (List Elem)
  | _, [] => .ok []
  | i, e :: r =>
    match resolveFrom tbl (i + 1) r with
    | .error m => .error m
    | .ok r' =>
      if e.kind = .label then .ok ({ e with kind := .jump, next := some 1 } :: r')
      else if e.kind = .goto then
        match e.name.bind (fun n => List.lookup n tbl) with
        | some k => .ok ({ e with kind := .jump, next := some ((k : Int) - (i : Int)) } :: r')
        | none => .error "Checkpoint not defined."
      else .ok (e :: r')

def resolveGotos (es : List Elem) : Except String (List Elem) :=
  match checkpoints 0 es [] with
  | .error m => .error m
  | .ok tbl => resolveFrom tbl 0 es

/-- `_process_ellipsis`: `$x = ...` becomes a fresh `run_action` element (every other key is dropped) -/
def processEllipsis (es : List Elem) : List Elem :=
  es.map fun e => if e.kind = .simple "set" ∧ e.ellipsis = true then { kind := .simple "run_action" } else e

/-- `parse_flow_elements` -/
def compileFull (items : List Item) : Except String (List Elem) :=
  match resolveGotos (compile items) with
  | .error m => .error m
  | .ok es => .ok (processEllipsis es)

/-- `_process_start_flow` (colang/v1_0/runtime/runtime.py): the generated body is parsed like any flow, then
    `flow["elements"].insert(0, {"_type": "start_flow", "flow_id": flow_id})` — AFTER the offsets were computed -/
def startFlowElem : Elem := { kind := .simple "start_flow" }

def dynamicFlow (items : List Item) : Except String (List Elem) :=
  match compileFull items with
  | .ok es => .ok (startFlowElem :: es)
  | .error m => .error m

end NemoVerif.V1Compile
