/-
  C07 — the element list that `expand_elements` produces for `match <group>`.

  `expandMatch` mirrors the group branches of
    nemoguardrails/colang/v2_x/lang/expansion.py :: _expand_match_element
  over two passes of `expand_elements`: the first pass normalises the group and emits either the
  and-template (one clause) or the or-template whose branches are `match <and-group dict>`; the second
  pass expands every such branch with the and-template again (`Theorems.C07.normalize_clause_fixed`: the
  second normalisation returns the clause unchanged).

  `readBack` is a checker for the *real* element list: it accepts exactly the fork/merge/wait templates
  (labels of the fork = labels of the branches in order, every branch jumps to the one end label, the
  catch label is the failure label, merge uids = fork uid, `WaitForHeads.number` = number of heads) and
  returns the clauses the list implements: one forked head per clause, inside a clause one forked head per
  atom.  `Dnf.markers` is the behaviour of such a list seen from outside.

  Names (fork uids and labels) are `Nat`s; the real ones are fresh uuids, both sides are renamed by order
  of first appearance before they are compared.
-/
import NemoVerif.Models.Dnf
namespace NemoVerif.GroupExpand
open NemoVerif.Dnf

inductive Prim where
  | matchEv (a : Nat)                       -- SpecOp(op="match", spec=<single Spec>)
  | label (l : Nat)
  | goto (l : Nat)                          -- Goto(label=l) (expression "True")
  | fork (uid : Nat) (labels : List Nat)    -- ForkHead
  | merge (uid : Nat)                       -- MergeHeads
  | wait (n : Nat)                          -- WaitForHeads(number=n)
  | catchPF (l : Option Nat)                -- CatchPatternFailure(label)
  | abort
  | other
  -- produced by `await <group of flows>` only (Models/GroupExpandAwait.lean):
  | assignUid (v a : Nat)                   -- `$_instance_uid_v = '(f<a>){uid()}'`
  | sendStart (a v : Nat)                   -- send StartFlow(flow_id='f<a>', flow_instance_uid='{$_instance_uid_v}')
  | matchStarted (a v x : Nat)              -- match FlowStarted(same arguments) as $_flow_event_ref_x   (internal)
  | assignRef (r x : Nat)                   -- `$_ref_r = $_flow_event_ref_x.flow`
  | matchFin (r : Nat)                      -- match $_ref_r.Finished()
  | beginScope (s : Nat)
  | endScope (s : Nat)
  -- body of a `when` case (Models/GroupExpandWhen.lean): `send <marker event n>()`
  | send (n : Nat)
  deriving Repr, BEq, DecidableEq, Inhabited

/-- `for idx, element in enumerate(and_group["elements"]): label; match; goto end` -/
def andItems (e : Nat) : List Nat → List Nat → List Prim
  | l :: ls, a :: as => .label l :: .matchEv a :: .goto e :: andItems e ls as
  | _, _ => []

def freshLabels (k n : Nat) : List Nat := (List.range n).map fun i => k + i

def andTrailer (u f e n : Nat) : List Prim :=
  [.label f, .merge u, .catchPF none, .abort, .label e, .wait n, .merge u, .catchPF none]

def orTrailer (u f e n : Nat) : List Prim :=
  [.label f, .wait n, .merge u, .catchPF none, .abort, .label e, .merge u, .catchPF none]

/-- `_expand_match_element` on a group whose normal form is the single clause `c`;
    `k` = next fresh name; returns the elements and the next fresh name. -/
def expandAnd (c : List Nat) (k : Nat) : List Prim × Nat :=
  match c with
  | [a] => ([.matchEv a], k)
  | _ =>
    let ls := freshLabels (k + 3) c.length
    ([.catchPF (some (k + 1)), .fork k ls] ++ andItems (k + 2) ls c ++ andTrailer k (k + 1) (k + 2) c.length,
     k + 3 + c.length)

/-- or-template branches after the second pass: `label group_i; <and-template of clause i>; goto end` -/
def orItems (e : Nat) : List Nat → Clauses → Nat → List Prim × Nat
  | l :: ls, c :: cs, k =>
    let r := expandAnd c k
    let rest := orItems e ls cs r.2
    (.label l :: r.1 ++ .goto e :: rest.1, rest.2)
  | _, _, k => ([], k)

def expandClauses (d : Clauses) (k : Nat) : List Prim × Nat :=
  match d with
  | [c] => expandAnd c k
  | _ =>
    let ls := freshLabels (k + 3) d.length
    let items := orItems (k + 2) ls d (k + 3 + d.length)
    ([.catchPF (some (k + 1)), .fork k ls] ++ items.1 ++ orTrailer k (k + 1) (k + 2) d.length, items.2)

/-- the final element list for `match g` -/
def expandMatch (g : G) : List Prim := (expandClauses (toDnf (normalize g)) 0).1

/-! ### reading a template back -/

/-- branches of an and-template: per fork label `label l; match a; goto e`; returns (atom, goto target) -/
def readAndItems : List Nat → List Prim → Option (List (Nat × Nat) × List Prim)
  | [], ps => some ([], ps)
  | l :: ls, .label l' :: .matchEv a :: .goto e :: ps =>
    if l == l' then
      match readAndItems ls ps with
      | some (xs, r) => some ((a, e) :: xs, r)
      | none => none
    else none
  | _, _ => none

/-- one clause: a plain match or an and-template -/
def readAnd : List Prim → Option (List Nat × List Prim)
  | .matchEv a :: ps => some ([a], ps)
  | .catchPF (some f) :: .fork u ls :: ps =>
    match readAndItems ls ps with
    | some (items, .label f' :: .merge u1 :: .catchPF none :: .abort :: .label e :: .wait n :: .merge u2 :: .catchPF none :: rest) =>
      if f' == f && u1 == u && u2 == u && n == ls.length && items.all (fun x => x.2 == e)
      then some (items.map (·.1), rest) else none
    | _ => none
  | _ => none

/-- branches of an or-template: per fork label `label l; <clause>; goto e`; returns (clause, goto target) -/
def readOrItems : List Nat → List Prim → Option (List (List Nat × Nat) × List Prim)
  | [], ps => some ([], ps)
  | l :: ls, .label l' :: ps =>
    if l == l' then
      match readAnd ps with
      | some (c, .goto e :: ps') =>
        match readOrItems ls ps' with
        | some (xs, r) => some ((c, e) :: xs, r)
        | none => none
      | _ => none
    else none
  | _, _ => none

def readGroup : List Prim → Option (Clauses × List Prim)
  | .matchEv a :: ps => some ([[a]], ps)
  | .catchPF (some f) :: .fork u ls :: ps =>
    match readOrItems ls ps with
    | some (items, .label f' :: .wait n :: .merge u1 :: .catchPF none :: .abort :: .label e :: .merge u2 :: .catchPF none :: rest) =>
      -- or-template: the failure path waits for all branch heads, the end label merges at the first arrival
      if f' == f && u1 == u && u2 == u && n == ls.length && items.all (fun x => x.2 == e)
      then some (items.map (·.1), rest) else none
    | some (items, .label f' :: .merge u1 :: .catchPF none :: .abort :: .label e :: .wait n :: .merge u2 :: .catchPF none :: rest) =>
      -- and-template at top level: the end label waits for all heads
      if f' == f && u1 == u && u2 == u && n == ls.length && items.all (fun x => x.2 == e && x.1.length == 1)
      then some ([items.flatMap (·.1)], rest) else none
    | _ => none
  | _ => none

/-- the clauses implemented by a complete element list -/
def readBack (ps : List Prim) : Option Clauses :=
  match readGroup ps with
  | some (d, []) => some d
  | _ => none

/-- all `label` names are different (needed for `element_labels` look-ups to be unambiguous) -/
def labelNames : List Prim → List Nat
  | [] => []
  | .label l :: ps => l :: labelNames ps
  | _ :: ps => labelNames ps

def labelsDistinct (ps : List Prim) : Bool := (labelNames ps).eraseDups.length == (labelNames ps).length

end NemoVerif.GroupExpand
