/-
  V1Ref — the SOURCE-LEVEL reference semantics of a followed Colang 1.0 dialog flow with subflow calls, as executable
  definitions (used by the theorems of C14 — `next_step_is_flow_statement_with_do` — and, through the driver, compared
  with the real `compute_next_steps` on every generated history that follows a flow):
  `unwindS` (continue the innermost flow; while a flow runs to its end its caller continues after the `do`) and
  `followAllK` (histories).  Built on `V1Struct.runS` / `exec` / `execFrom`.  No interpreter state, no element lists.
-/
import NemoVerif.Models.V1Struct
namespace NemoVerif.V1Follow
open NemoVerif.V1Interp NemoVerif.V1Struct

def ctxDec (upd : Ctx) : List Decision := if upd.isEmpty then [] else [Decision.ctx upd]

/-- the decision a step statement stands for: its element's event if the element is actionable
    (`bot x` ↦ BotIntent x, `execute a` ↦ StartInternalSystemAction a; `user`, `do`, `bot ...` ↦ nothing) -/
def stepDec (s : Step) : List Decision :=
  if isActionable (elemOf s) then (stepToEvent (elemOf s)).toList else []

end NemoVerif.V1Follow

namespace NemoVerif.V1Stack
open NemoVerif.V1Interp NemoVerif.V1Struct NemoVerif.V1Follow

inductive OutU where
  | done (st : SSt) (ctr : Nat) (stk : List SFrame) (who : Option (Nat × String × Step))
  | stuck

/-- the structured unwinding: resume the top caller after its `do`; while the resumed flow runs to its end, go on
    with its own caller -/
def unwindS (lib : Lib) (f : Nat) : SSt → Nat → List SFrame → OutU
  | st, ctr, [] => .done st ctr [] none
  | st, ctr, fr :: rest =>
    match runS lib f SUB_FUEL fr.uid fr.name st ctr fr.body (some fr.addr) with
    | .fell st' ctr' => unwindS lib f st' ctr' rest
    | .wait st' ctr' a callee frames who => .done st' ctr' (frames ++ { fr with addr := a, callee := callee } :: rest) (some who)
    | _ => .stuck

end NemoVerif.V1Stack

namespace NemoVerif.V1StackFollow
open NemoVerif.V1Interp NemoVerif.V1Struct NemoVerif.V1Follow NemoVerif.V1Stack

/-- structured state of a followed flow with calls: context, the uid counter (frames are named by it), the stack of
    waiting frames (innermost first, `[]` = idle), and what is decided after the last event -/
structure SK where
  ctx : Ctx
  ctr : Nat
  stk : List SFrame
  dec : List Decision
  deriving Repr

def whoDec : Option (Nat × String × Step) → List Decision
  | some w => stepDec w.2.2
  | none => []

def outcomeK : OutU → Option SK
  | .done st ctr stk who => some { ctx := st.ctx, ctr := ctr, stk := stk, dec := ctxDec st.upd ++ whoDec who }
  | .stuck => none

def followGeneralK (lib : Lib) (id : String) (p : Prog) (i0 : String) (f : Nat) (S : SK) (ev : Event) : Option SK :=
  if ev == .botIntent "stop" then none else
  match S.stk with
  | [] =>
    if isMatch (.userIntent i0) ev then
      outcomeK (unwindS lib f ⟨S.ctx.withEvent ev, []⟩ (S.ctr + 1) [{ uid := S.ctr, name := id, body := p, addr := .here, callee := none }])
    else some { S with ctx := S.ctx.withEvent ev, dec := [] }
  | top :: rest =>
    match stepAt top.body top.addr with
    | some s =>
      if ev.triggers [] then
        (if isMatch (elemOf s) ev then outcomeK (unwindS lib f ⟨S.ctx.withEvent ev, []⟩ S.ctr (top :: rest)) else none)
      else some { S with ctx := S.ctx.withEvent ev, dec := stepDec s }
    | none => none

def followStepK (lib : Lib) (id : String) (p : Prog) (i0 : String) (f : Nat) (S : SK) (ev : Event) : Option SK :=
  match ev with
  | .startAction => some S
  | .contextUpdate d => some { S with ctx := S.ctx.update d, dec := [] }
  | .hidePrevTurn => none
  | ev => followGeneralK lib id p i0 f S ev

def followAllK (lib : Lib) (id : String) (p : Prog) (i0 : String) (f : Nat) : SK → List Event → Option SK
  | S, [] => some S
  | S, ev :: rest => match followStepK lib id p i0 f S ev with
    | some S' => followAllK lib id p i0 f S' rest
    | none => none

end NemoVerif.V1StackFollow
