/-
  C13 — `TextLayout`: the CHARACTER level of the Colang 2.x lexer's layout rules, so that the `layout_*` theorems can be
  stated for source text instead of for pre-segmented pieces.

  `seg o` scans a text (a `List Char`) from left to right, the way Lark's lexer does (one match per token, at the current
  position, `re.match` on the remaining text), and emits the `Layout.Piece`s:

    * the *body* terminals (names, strings, keywords, brackets …, and the multi-line ones: `LONG_STRING`, `_AND` / `_OR` with
      the line break they absorb, `STRING` with `...\s*` in front) are NOT modelled: the lexer's decision at a token start is an
      **oracle** `o : remaining text → Option (type, length)` — `some` = "a body terminal wins here, of this type and length",
      `none` = "no body terminal matches / a layout terminal wins".  Being a function of the remaining text is exactly what
      `re.match(pattern, text, pos)` of a scanner without look-behind is;
    * the *layout* terminals are concrete, as written in colang.lark (shapes enforced by the translator):
        `_NEWLINE: (/\r?\n[\t ]*/)+`  one maximal run — after its first line break the run goes on through blanks and further
                                     (CR)LF **without asking the oracle again** (positions inside a token are not token starts);
        `" "` (and `"\t"` when ignored)  one piece per blank (whether it is ignored is decided by `Layout.go`);
        `COMMENT: /#[^\n]*/`          up to, not including, the next `\n` (a `\r` before it belongs to the comment).
      A lone `\r`, or any other character the oracle does not claim, is `UnexpectedCharacters` (`Err.badChar`).

  `skip` counts the characters of the current token that are still to be passed over (structural recursion on the text).
  `lexLayout` = `seg` then `Layout.layout`: source text → the token stream handed to the LALR parser.
  `source` = `_apply_pre_parsing_expansions` (`PreExpand`, line level) → `"\n".join` → `+ "\n"` → `lexLayout`: what
  `ColangParser.parse_content` feeds to Lark, from the raw file content.
-/
import NemoVerif.Models.Layout
import NemoVerif.Models.PreExpand

namespace NemoVerif.TextLayout
open NemoVerif.Layout

abbrev Str := List Char

/-- the lexer's decision for body terminals at the beginning of the remaining text: `(type, length)` -/
abbrev Oracle := Str → Option (String × Nat)

def wsChar : Ws → Char
  | .sp => ' '
  | .tab => '\t'

def wsChars (l : List Ws) : Str := l.map wsChar

/-- `"\n"` / `"\r\n"` -/
def eol (cr : Bool) : Str := if cr then ['\r', '\n'] else ['\n']

/-- the text of a `COMMENT` starting at `s` (`s` begins with `#`): everything before the next `\n` -/
def commentText (s : Str) : Str := s.takeWhile (· != '\n')

/-- `inRun`: the previous piece belongs to a `_NEWLINE` run that is still open. -/
def seg (o : Oracle) : Bool → Nat → Str → Except Err (List Piece)
  | _, _, [] => .ok []
  | inRun, skip + 1, _ :: r => seg o inRun skip r
  | inRun, 0, c :: r =>
    -- continuation of an open `_NEWLINE` run: `[\t ]*` and further `\r?\n`
    if inRun && c == ' ' then (seg o true 0 r).map (.ws .sp :: ·)
    else if inRun && c == '\t' then (seg o true 0 r).map (.ws .tab :: ·)
    else if inRun && c == '\n' then (seg o true 0 r).map (.nl false :: ·)
    else if inRun && c == '\r' && r.head? == some '\n' then (seg o true 1 r).map (.nl true :: ·)
    else
      -- a token start: body terminals first (the oracle), then the layout terminals
      match o (c :: r) with
      | some (ty, n) =>
        if n = 0 then .error .badChar
        else (seg o false (n - 1) r).map (.tok ty (String.ofList ((c :: r).take n)) :: ·)
      | none =>
        if c == '\n' then (seg o true 0 r).map (.nl false :: ·)
        else if c == '\r' && r.head? == some '\n' then (seg o true 1 r).map (.nl true :: ·)
        else if c == ' ' then (seg o false 0 r).map (.ws .sp :: ·)
        else if c == '\t' then (seg o false 0 r).map (.ws .tab :: ·)
        else if c == '#' then
          (seg o false ((commentText (c :: r)).length - 1) r).map (.comment (String.ofList (commentText (c :: r))) :: ·)
        else .error .badChar

/-- scanning the prefix `a` of `a ++ s` (the oracle sees the rest of `a` followed by `s`): pieces, and the state at the seam -/
def segPre (o : Oracle) : Bool → Nat → Str → Str → Except Err (List Piece × Bool × Nat)
  | inRun, skip, [], _ => .ok ([], inRun, skip)
  | inRun, skip + 1, _ :: r, s => segPre o inRun skip r s
  | inRun, 0, c :: r, s =>
    if inRun && c == ' ' then (segPre o true 0 r s).map fun p => (.ws .sp :: p.1, p.2)
    else if inRun && c == '\t' then (segPre o true 0 r s).map fun p => (.ws .tab :: p.1, p.2)
    else if inRun && c == '\n' then (segPre o true 0 r s).map fun p => (.nl false :: p.1, p.2)
    else if inRun && c == '\r' && (r ++ s).head? == some '\n' then (segPre o true 1 r s).map fun p => (.nl true :: p.1, p.2)
    else
      match o (c :: r ++ s) with
      | some (ty, n) =>
        if n = 0 then .error .badChar
        else (segPre o false (n - 1) r s).map fun p => (.tok ty (String.ofList ((c :: r ++ s).take n)) :: p.1, p.2)
      | none =>
        if c == '\n' then (segPre o true 0 r s).map fun p => (.nl false :: p.1, p.2)
        else if c == '\r' && (r ++ s).head? == some '\n' then (segPre o true 1 r s).map fun p => (.nl true :: p.1, p.2)
        else if c == ' ' then (segPre o false 0 r s).map fun p => (.ws .sp :: p.1, p.2)
        else if c == '\t' then (segPre o false 0 r s).map fun p => (.ws .tab :: p.1, p.2)
        else if c == '#' then
          (segPre o false ((commentText (c :: r ++ s)).length - 1) r s).map fun p =>
            (.comment (String.ofList (commentText (c :: r ++ s))) :: p.1, p.2)
        else .error .badChar

/-- source text → token stream of lexer + indenter -/
def lexLayout (c : Cfg) (o : Oracle) (text : Str) : Except Err (List Tok) :=
  (seg o false 0 text).bind (layout c)

/-- `"\n".join(lines)` -/
def joinNL : List Str → Str
  | [] => []
  | [l] => l
  | l :: ls => l ++ '\n' :: joinNL ls

/-- every line followed by `"\n"` (= `joinNL ls ++ "\n"` for a non-empty list) -/
def unlines : List Str → Str
  | [] => []
  | l :: ls => l ++ '\n' :: unlines ls

/-- the `"\r"` a line of a CRLF file ends with (lines are `content.split("\n")`) -/
def crChars (cr : Bool) : Str := if cr then ['\r'] else []

/-- raw file content (as `content.split("\n")`) → token stream: pre-parsing expansion, join, final `"\n"`, lexer, indenter -/
def source (c : Cfg) (o : Oracle) (lines : List Str) : Except Err (List Tok) :=
  lexLayout c o (joinNL (PreExpand.preExpand lines) ++ ['\n'])

/-- an oracle given as a table of token starts (offset from the beginning of a text of length `total`): used by the driver -/
def tableOracle (total : Nat) (table : List (Nat × String × Nat)) : Oracle := fun s =>
  let pos := total - s.length
  match table.find? (fun e => e.1 == pos) with
  | some e => some e.2
  | none => none

/-- text-level "indentation × k": every blank that belongs to the run of blanks directly after a line break (`b` = we are in such a
    run) is repeated `k` times -/
def scaleText (k : Nat) : Bool → Str → Str
  | _, [] => []
  | b, c :: r =>
    if c = '\n' then '\n' :: scaleText k true r
    else if b && (c = ' ' || c = '\t') then List.replicate k c ++ scaleText k true r
    else c :: scaleText k false r

/-- lines of a file: the first line as it is, every further line in "after a line break" mode -/
def scaleLines (k : Nat) : List Str → List Str
  | [] => []
  | l :: ls => l :: ls.map (scaleText k true)

/-- what scaling needs of one raw line: no line break inside, and if it is a `...` line, what follows the dots does not begin with a blank
    (the region of the open finding `eol-comment-pre-expansion-v2`: that rest stays behind on a line of its own) -/
def ScaleLineOK (l : Str) : Prop :=
  (∀ ch ∈ l, ch ≠ '\n') ∧ ∀ sp rest, PreExpand.matchDots l = some (sp, rest) → rest.head? ≠ some ' ' ∧ rest.head? ≠ some '\t'

/-- the statements the `...` is rewritten to begin with neither a blank nor contain a line break (generated data) -/
def ExpansionOK : Prop := ∀ e ∈ PreExpand.expansion, (∀ ch ∈ e, ch ≠ '\n') ∧ e.head? ≠ some ' ' ∧ e.head? ≠ some '\t'

/-- a toy tokenizer for non-vacuity examples: every `a` is a one-character NAME -/
def toyOracle : Oracle := fun s => match s with | 'a' :: _ => some ("NAME", 1) | _ => none

end NemoVerif.TextLayout
