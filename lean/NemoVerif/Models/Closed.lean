/-
  C12 (Colang 2.x part) — primitive programs, the closedness checker and the model of the label
  look-ups that `slide` performs (nemoguardrails/colang/v2_x/runtime/statemachine.py).

  `Prim L` is what is left of a flow after `expand_elements` reached its fix-point, as far as closedness is
  concerned (expressions, event specs and source positions are dropped).  `L` is the type of labels / uids:
  `String` for programs dumped from the real compiler, a structured `(kind, counter)` pair in `Models/Expand.lean`.
-/
namespace NemoVerif.Closed

inductive Prim (L : Type) where
  | label (n : L)                       -- Label(name)
  | goto (l : L)                        -- Goto(label, expression) with a real condition
  | jump (l : L)                        -- Goto(label) whose expression is the constant "True": unconditional
  | fork (uid : L) (labels : List L)    -- ForkHead(fork_uid, labels)
  | merge (uid : L)                     -- MergeHeads(fork_uid)
  | waitHeads (n : Nat)                 -- WaitForHeads(number)
  | catchFail (l : Option L)            -- CatchPatternFailure(label | None)
  | brk (l : Option L)                  -- Break(label | None)
  | cont (l : Option L)                 -- Continue(label | None)
  | beginScope (n : L)                  -- BeginScope(name)
  | endScope (n : L)                    -- EndScope(name)
  | abort                               -- Abort()
  | ret                                 -- Return(expression)
  | specOp (op : String) (group : Bool) (retVar : Bool)  -- SpecOp(op, spec is a group dict?, return_var_name set?)
  | assign (nld : Bool)                 -- Assignment (is the expression an NLD `...` instruction?)
  | other (kind : String)               -- Log, Print, Priority, Global, Meta, ... (sliding elements without targets)
  | composite (kind : String)           -- If / While / When / anything `expand_elements` must have removed
  deriving DecidableEq, Repr

variable {L : Type}

/-- every label / uid an element makes `slide` look up in `FlowConfig.element_labels` -/
def Prim.targets : Prim L → List L
  | .goto l => [l]
  | .jump l => [l]
  | .fork _ ls => ls
  | .catchFail (some l) => [l]
  | .brk (some l) => [l]
  | .cont (some l) => [l]
  | _ => []

/-- the element kinds on which `expand_elements` returns "nothing to expand" (its fix-point) -/
def Prim.isPrimitive : Prim L → Bool
  | .specOp op g rv => !g && !rv && (op == "send" || op == "match" || op == "_new_action_instance")
  | .assign nld => !nld
  | .composite _ => false
  | _ => true

/-! ### `initialize_flow`: `element_labels.update({name: idx})` for every Label, in order.
    The association list is kept newest-first, so `List.lookup` = dict semantics (last occurrence wins). -/

def labelsFrom : Nat → List (Prim L) → List (L × Nat) → List (L × Nat)
  | _, [], acc => acc
  | i, .label n :: r, acc => labelsFrom (i + 1) r ((n, i) :: acc)
  | i, _ :: r, acc => labelsFrom (i + 1) r acc

def labelTable (p : List (Prim L)) : List (L × Nat) := labelsFrom 0 p []

def lookupLabel [DecidableEq L] (p : List (Prim L)) (l : L) : Option Nat := (labelTable p).lookup l

/-- specification of the look-up: index of the last `Label l` -/
def lastLabel [DecidableEq L] (l : L) : List (Prim L) → Option Nat
  | [] => none
  | e :: r =>
    match lastLabel l r with
    | some i => some (i + 1)
    | none => if e = .label l then some 0 else none

/-! ### The checker -/

def targetsDefined [DecidableEq L] (p : List (Prim L)) : Bool :=
  p.all fun e => e.targets.all fun l => p.contains (.label l)

def allPrimitive (p : List (Prim L)) : Bool := p.all Prim.isPrimitive

/-- every `MergeHeads(u)` is preceded by a `ForkHead(u, _)` (`seen` = fork uids met so far) -/
def mergeForkOK [DecidableEq L] : List L → List (Prim L) → Bool
  | _, [] => true
  | seen, .fork u _ :: r => mergeForkOK (u :: seen) r
  | seen, .merge u :: r => seen.contains u && mergeForkOK seen r
  | seen, _ :: r => mergeForkOK seen r

/-- every `EndScope(n)` is preceded by a `BeginScope(n)` -/
def scopeOpenedOK [DecidableEq L] : List L → List (Prim L) → Bool
  | _, [] => true
  | seen, .beginScope n :: r => scopeOpenedOK (n :: seen) r
  | seen, .endScope n :: r => seen.contains n && scopeOpenedOK seen r
  | seen, _ :: r => scopeOpenedOK seen r

/-- every `BeginScope(n)` is followed by an `EndScope(n)` -/
def scopeClosedOK [DecidableEq L] : List (Prim L) → Bool
  | [] => true
  | .beginScope n :: r => r.contains (.endScope n) && scopeClosedOK r
  | _ :: r => scopeClosedOK r

def closed [DecidableEq L] (p : List (Prim L)) : Bool :=
  targetsDefined p && allPrimitive p && mergeForkOK [] p && scopeOpenedOK [] p && scopeClosedOK p

/-- first reason why `closed` fails (for replays; not used by theorems) -/
def whyNotClosed [DecidableEq L] (p : List (Prim L)) : String :=
  if !targetsDefined p then "dangling-target"
  else if !allPrimitive p then "composite-left"
  else if !mergeForkOK [] p then "merge-without-fork"
  else if !scopeOpenedOK [] p then "endscope-without-beginscope"
  else if !scopeClosedOK p then "scope-never-closed"
  else "closed"

/-! ### The declarative property -/

structure Closed (p : List (Prim L)) : Prop where
  /-- every goto / fork / failure-handler / break / continue target is a label of the same flow -/
  targets : ∀ e ∈ p, ∀ l ∈ e.targets, Prim.label l ∈ p
  /-- only primitives remain -/
  primitive : ∀ e ∈ p, e.isPrimitive = true
  /-- a merge refers to a fork that precedes it -/
  merge_fork : ∀ pre u post, p = pre ++ .merge u :: post → ∃ ls, Prim.fork u ls ∈ pre
  /-- a scope is only closed after it was opened -/
  scope_opened : ∀ pre n post, p = pre ++ .endScope n :: post → Prim.beginScope n ∈ pre
  /-- every opened scope is closed -/
  scope_closed : ∀ pre n post, p = pre ++ .beginScope n :: post → Prim.endScope n ∈ post

/-! ### Model of the label look-ups of `slide` (jump resolution only)

  A head is a position and its stack of failure-handler labels (`catch_pattern_failure_label`, top first).
  `step` mirrors the branches of `slide` that read `flow_config.element_labels`:
  Goto (guarded by `in`; an unknown label only logs "Invalid label" — outcome `invalidLabel`),
  ForkHead (`element_labels[label]` for every label), Abort (`element_labels[catch[-1]] + 1`),
  Break/Continue (`element_labels[element.label] + 1`), CatchPatternFailure (push / pop), and the two places of
  `run_to_completion` that send a failing / losing head to `element_labels[catch_pattern_failure_label[-1]]`.
  Scopes are tracked per head like `head.scope_uids` (BeginScope raises when the name is already held).  -/

structure Head (L : Type) where
  pos : Nat
  handlers : List L
  scopes : List L := []     -- `head.scope_uids`
  deriving Repr, DecidableEq

inductive Step (L : Type) where
  | next (hs : List (Head L))   -- the head(s) that continue
  | finished                    -- position = len(elements), Return, Abort without handler
  | keyError                    -- `element_labels[...]` raised KeyError
  | invalidLabel                -- Goto to an unknown label (warning, falls through)
  | popEmpty                    -- `catch_pattern_failure_label.pop(-1)` on an empty list (IndexError)
  | scopeError                  -- BeginScope(n) while n is in `head.scope_uids` (ColangRuntimeError "already opened in this head")
  deriving Repr, DecidableEq

def jumpTo [DecidableEq L] (p : List (Prim L)) (h : Head L) (l : L) : Step L :=
  match lookupLabel p l with
  | some i => .next [{ h with pos := i + 1 }]
  | none => .keyError

def lookupAll [DecidableEq L] (p : List (Prim L)) : List L → Option (List Nat)
  | [] => some []
  | l :: ls =>
    match lookupLabel p l, lookupAll p ls with
    | some i, some is => some (i :: is)
    | _, _ => none

def step [DecidableEq L] (p : List (Prim L)) (h : Head L) (cond : Bool) : Step L :=
  match p[h.pos]? with
  | none => .finished
  | some e =>
    match e with
    | .goto l =>
      if cond then
        match lookupLabel p l with
        | some i => .next [{ h with pos := i + 1 }]
        | none => .invalidLabel
      else .next [{ h with pos := h.pos + 1 }]
    | .jump l =>
      match lookupLabel p l with
      | some i => .next [{ h with pos := i + 1 }]
      | none => .invalidLabel
    | .fork _ ls =>
      match lookupAll p ls with
      | some is => .next (is.map fun i => { pos := i, handlers := h.handlers, scopes := h.scopes })
      | none => .keyError
    | .abort =>
      match h.handlers with
      | l :: _ => jumpTo p h l
      | [] => .finished
    | .brk (some l) => jumpTo p h l
    | .cont (some l) => jumpTo p h l
    | .catchFail (some l) => .next [{ h with pos := h.pos + 1, handlers := l :: h.handlers }]
    | .catchFail none =>
      match h.handlers with
      | _ :: c => .next [{ h with pos := h.pos + 1, handlers := c }]
      | [] => .popEmpty
    | .specOp _ _ _ =>
      -- `cond = false`: the pattern failed / the head lost an action conflict (run_to_completion):
      -- `head.position = element_labels[catch_pattern_failure_label[-1]]`, or the flow is aborted
      if cond then .next [{ h with pos := h.pos + 1 }]
      else
        match h.handlers with
        | l :: _ =>
          match lookupLabel p l with
          | some i => .next [{ h with pos := i }]
          | none => .keyError
        | [] => .finished
    | .beginScope n =>
      if n ∈ h.scopes then .scopeError else .next [{ h with pos := h.pos + 1, scopes := n :: h.scopes }]
    | .endScope n => .next [{ h with pos := h.pos + 1, scopes := h.scopes.erase n }]
    | .ret => .finished
    | _ => .next [{ h with pos := h.pos + 1 }]

/-- a head that `slide` can hold: inside the flow, every handler label on its stack is defined -/
def HeadOK (p : List (Prim L)) (h : Head L) : Prop :=
  h.pos ≤ p.length ∧ ∀ l ∈ h.handlers, Prim.label l ∈ p

/-- heads reachable from the start of the flow by any sequence of `step`s (any branch outcomes) -/
inductive Reach [DecidableEq L] (p : List (Prim L)) : Head L → Prop where
  | start : Reach p { pos := 0, handlers := [], scopes := [] }
  | step (h : Head L) (c : Bool) (hs : List (Head L)) (h' : Head L) :
      Reach p h → step p h c = .next hs → h' ∈ hs → Reach p h'

/-- executable path follower: at each step an outcome for the condition and the index of the continuing head -/
def runPath [DecidableEq L] (p : List (Prim L)) : Head L → List (Bool × Nat) → Option (Head L)
  | h, [] => some h
  | h, (c, k) :: rest =>
    match step p h c with
    | .next hs =>
      match hs[k]? with
      | some h' => runPath p h' rest
      | none => none
    | _ => none

/-! ### a checkable certificate for path-level safety

  `closedUnder p S`: the finite set of heads `S` contains the start head, is closed under every `step` (both outcomes of
  every condition, every fork child) and no member's step is a failed look-up or the scope error.  Any such `S` is an
  inductive invariant, so it proves the property for ALL executions (`Lemmas/Closed.lean::closedUnder_sound`); `explore`
  merely searches for one (its result is not trusted, it is checked). -/

def startHead : Head L := { pos := 0, handlers := [], scopes := [] }

def closedUnder [DecidableEq L] (p : List (Prim L)) (S : List (Head L)) : Bool :=
  S.contains startHead &&
  S.all fun h => [true, false].all fun c =>
    match step p h c with
    | .next hs => hs.all fun h' => S.contains h'
    | .keyError => false
    | .invalidLabel => false
    | .scopeError => false
    | _ => true

def explore [DecidableEq L] (p : List (Prim L)) : Nat → List (Head L) → List (Head L) → List (Head L)
  | 0, _, seen => seen
  | _, [], seen => seen
  | f + 1, h :: w, seen =>
    let succs := [true, false].flatMap fun c =>
      match step p h c with
      | .next hs => hs
      | _ => []
    let new := (succs.filter fun x => !seen.contains x).eraseDups
    explore p f (new ++ w) (new ++ seen)

/-- the proved path-level checker: no failed look-up and no "scope already opened" on any execution -/
def pathSafe [DecidableEq L] (p : List (Prim L)) (fuel : Nat) : Bool :=
  closedUnder p (explore p fuel [startHead] [startHead])

/-! ### path-level safety by a state annotation (one state per position)

  `St` = what a head carries besides its position.  An annotated program gives every element the state in which a head
  ARRIVES at it; `okStep R e st nxt` says that executing `e` in state `st` is safe, leaves the state `nxt` for the next
  element, and that every label the step may jump to accepts the state the head then has (`R l st`: "every occurrence
  of `Label l` is annotated with `st`").  `Lemmas/Closed.lean::annot_sound`: a closed program with such an annotation
  starting in `([], [])` is safe on every execution. -/

structure St (L : Type) where
  h : List L      -- catch_pattern_failure_label, top first
  s : List L      -- scope_uids
  deriving DecidableEq, Repr

abbrev APrim (L : Type) := Prim L × St L

def okStep [DecidableEq L] (R : L → St L → Prop) (e : Prim L) (st nxt : St L) : Prop :=
  match e with
  | .label _ => nxt = st
  | .goto l => R l st ∧ nxt = st
  | .jump l => R l st
  | .fork _ ls => ∀ l ∈ ls, R l st
  | .abort => ∀ l rest, st.h = l :: rest → R l st
  | .brk (some l) => R l st
  | .cont (some l) => R l st
  | .catchFail (some l) => nxt = ⟨l :: st.h, st.s⟩
  | .catchFail none => ∀ x rest, st.h = x :: rest → nxt = ⟨rest, st.s⟩
  | .specOp _ _ _ => nxt = st ∧ ∀ l rest, st.h = l :: rest → R l st
  | .beginScope n => n ∉ st.s ∧ nxt = ⟨st.h, n :: st.s⟩
  | .endScope n => nxt = ⟨st.h, st.s.erase n⟩
  | .ret => True
  | _ => nxt = st

/-- the state in which the first element of `ap` is entered (`ex` if there is none) -/
def entryOf (ap : List (APrim L)) (ex : St L) : St L :=
  match ap with
  | [] => ex
  | (_, st) :: _ => st

def Chain [DecidableEq L] (R : L → St L → Prop) : List (APrim L) → St L → Prop
  | [], _ => True
  | (e, st) :: r, ex => okStep R e st (entryOf r ex) ∧ Chain R r ex

/-- every occurrence of `Label l` in `W` is annotated with `st` -/
def LabSt (W : List (APrim L)) (l : L) (st : St L) : Prop := ∀ st', (Prim.label l, st') ∈ W → st' = st

/-- the real expansion (labels shortened) of `while c: when Ev(): send ..  else: send ..` — witness program of the open
    finding `2.x:scope-reopened`; the harness compares it with what `expand_elements` produces on every run -/
def whenElseInLoop : List (Prim String) :=
  [.label "wb", .goto "we",
   .beginScope "s", .fork "cf" ["init_a"],
   .label "init_a", .catchFail (some "fail_a"), .fork "gf" ["group_a_0"],
   .label "group_a_0", .specOp "match" false false, .jump "case_a",
   .label "case_a", .merge "cf", .catchFail none, .endScope "s", .specOp "send" false false, .jump "when_end",
   .label "fail_a", .waitHeads 1, .catchFail none, .jump "when_else",
   .label "when_else", .waitHeads 1, .jump "when_else_stmt",
   .label "when_else_stmt", .specOp "send" false false,
   .label "when_end",
   .jump "wb", .label "we"]

end NemoVerif.Closed
