/-
  C12 (Colang 1.0, phase 5) — what the RUNTIME holds: `RuntimeV1_0._load_flow_config`
  (nemoguardrails/colang/v1_0/runtime/runtime.py) takes the elements `parse_flow_elements` produced, and

      if elements and elements[0].get("_type") == "meta":   …   elements = elements[1:]

  i.e. it removes the LEADING `meta` element (the flow-level meta data: subflow / extension / priority / …) AFTER all
  relative offsets were computed.  Every other element — also a `meta` element at the head of an `if` / `while` / `when`
  block, which `_extract_elements` counted when it computed the offsets spanning it — stays where it is.
  `FlowConfig.elements` of `runtime.flow_configs` is the list `slide` / `compute_next_state` execute.
-/
import NemoVerif.Models.V1Compile

namespace NemoVerif.V1Compile

def metaKind : Kind := .simple "meta"

def isMeta (e : Elem) : Bool := e.kind == metaKind

/-- `_load_flow_config`: the elements the runtime holds -/
def loadFlow : List Elem → List Elem
  | [] => []
  | e :: r => if isMeta e then r else e :: r

/-- the flow the runtime holds for a flow of the configuration: `parse_flow_elements` then `_load_flow_config` -/
def loadedFlow (items : List Item) : Except String (List Elem) :=
  match compileFull items with
  | .ok es => .ok (loadFlow es)
  | .error m => .error m

/-- a (wrong) loader that filters out EVERY meta element — for the counterexample `filter_all_meta_counterexample` -/
def loadFlowFilterAll (es : List Elem) : List Elem := es.filter fun e => !isMeta e

end NemoVerif.V1Compile
