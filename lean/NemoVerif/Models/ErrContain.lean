/-
  C10 — `ErrContain`: what `_advance_head_front` (statemachine.py) does with ONE head, in particular its
  `try: slide(...) … except Exception` block, the `start_new_flow_instance` label, the immediate-finish
  guard for activated flows, and the restart logic at the end of `_abort_flow` / `_finish_flow`; plus
  the per-event matching phase of `run_to_completion` (the loop over `head_candidates` that calls
  `_compute_event_matching_score`).

  State = the list of flow-instance records + the internal event deque.  Control flow inside `slide`
  comes from `SlideGraph.slide`; expressions are the same oracle.

  Deliberately NOT modelled (documented in design_notes/C10.md): the recursive clean-up of child
  flows and actions inside `_abort_flow`/`_finish_flow` (lifetimes are C06's subject), the
  `deactivate_flow=True` branch (only reached from that recursion), the matcher index (C09), the
  recursive `_advance_head_front(new_heads)` on freshly forked heads (the same function on other
  heads of the SAME instance; forked heads are recorded, not advanced), `_log_action_or_intents`.

  Two variants are kept side by side:
    * `asIs`     — the code of the pinned tree,
    * `repaired` — with fixes/C10-*.diff applied: (i) an activated flow that is aborted while still
                   STARTING is not restarted, (ii) an exception raised by `_compute_event_matching_score`
                   for one candidate head fails that head's flow only.
-/
import NemoVerif.Models.SlideGraph

namespace NemoVerif.ErrContain
open NemoVerif.SlideGraph

inductive FStatus where
  | waiting | starting | started | stopping | stopped | finished
  deriving DecidableEq, Repr, Inhabited

inductive HStatus where
  | active | inactive | merging
  deriving DecidableEq, Repr, Inhabited

structure HeadRec where
  uid : Nat
  pos : Nat
  status : HStatus
  cstack : List Nat
  deriving DecidableEq, Repr, Inhabited

structure Inst where
  uid : Nat
  flowId : Nat
  status : FStatus
  activated : Nat
  newInstanceStarted : Bool
  parent : Option Nat
  children : List Nat
  heads : List HeadRec
  deriving DecidableEq, Repr, Inhabited

/-- internal events, as far as containment / restart speak about them -/
inductive IEv where
  | startFlow (flowId source : Nat)
  | flowStarted (uid : Nat)
  | flowFinished (uid : Nat)
  | flowFailed (uid : Nat)
  | colangError
  | other (tag : Nat)
  deriving DecidableEq, Repr, Inhabited

structure St where
  insts : List Inst
  /-- `state.internal_events` (a deque; index 0 = left) -/
  queue : List IEv
  deriving DecidableEq, Repr, Inhabited

inductive Variant where
  | asIs | repaired
  deriving DecidableEq, Repr, Inhabited

/-- flow id of the main flow (`flow_state.flow_id == "main"`) -/
def mainFlow : Nat := 0

def find (s : St) (uid : Nat) : Option Inst := s.insts.find? (·.uid == uid)

def modify (s : St) (uid : Nat) (g : Inst → Inst) : St :=
  { s with insts := s.insts.map fun i => if i.uid == uid then g i else i }

def pushRight (s : St) (e : IEv) : St := { s with queue := s.queue ++ [e] }
def pushLeft (s : St) (e : IEv) : St := { s with queue := e :: s.queue }

/-- `is_listening_flow` -/
def isListening : FStatus → Bool
  | .waiting | .started | .starting => true
  | _ => false

/-- source uid of the restart `StartFlow`: the parent if it is an instance of the same flow -/
def restartSource (s : St) (f : Inst) : Nat :=
  match f.parent with
  | some p =>
    match find s p with
    | some pi => if pi.flowId == f.flowId then p else f.uid
    | none => f.uid   -- Python: KeyError; instances always have their parent in `flow_states` here
  | none => f.uid

/-- the tail of `_abort_flow` / `_finish_flow`: restart an activated flow once
    (`f` = the Python object `flow_state`; `activated`, `new_instance_started`, `flow_id`, `parent_uid` are not
    written between the entry of the function and this point) -/
def restartIfActivated (s : St) (f : Inst) : St :=
  if f.activated > 0 && !f.newInstanceStarted then
    modify (pushLeft s (.startFlow f.flowId (restartSource s f))) f.uid fun i => { i with newInstanceStarted := true }
  else s

/-- remove the flow from its parent's `child_flow_uids` (only when not activated) -/
def unlinkFromParent (s : St) (f : Inst) : St :=
  if f.activated == 0 then
    match f.parent with
    | some p => modify s p fun i => { i with children := i.children.erase f.uid }
    | none => s
  else s

def abortCore (s : St) (f : Inst) : St :=
  let s := modify s f.uid fun i => { i with heads := [] }
  let s := unlinkFromParent s f
  let s := modify s f.uid fun i => { i with status := .stopped }
  let s := pushRight s (.flowFailed f.uid)
  restartIfActivated s f

/-- `_abort_flow(state, flow_state, scores)` with `deactivate_flow=False`, without the child/action clean-up. -/
def abortFlow (s : St) (uid : Nat) : St :=
  match find s uid with
  | none => s
  | some f =>
    if !isListening f.status && f.status != .stopping then s
    else abortCore s f

def finishCore (s : St) (f : Inst) : St :=
  let s := modify s f.uid fun i => { i with heads := [] }
  if f.flowId == mainFlow then
    modify s f.uid fun i => { i with heads := [{ uid := 0, pos := 0, status := .active, cstack := [] }], status := .waiting }
  else
    let s := modify s f.uid fun i => { i with status := .finished }
    let s := unlinkFromParent s f
    let s := pushRight s (.flowFinished f.uid)
    restartIfActivated s f

/-- `_finish_flow(state, flow_state, scores)` with `deactivate_flow=False`, without the child/action clean-up. -/
def finishFlow (s : St) (uid : Nat) : St :=
  match find s uid with
  | none => s
  | some f =>
    if !isListening f.status then s
    else finishCore s f

/-- is the element a place where a head "waits" for `all_heads_are_waiting`? (`WaitForHeads`, or a match
    element; internal matches are classified `.step`-free `wait` by the translator only if not internal) -/
def isWaitElem (p : Prog) (pos : Nat) : Bool :=
  match p[pos]? with
  | some (.wait _) => true
  | some .waitHeads => true
  | _ => false

/-- number of `start_new_flow_instance` labels passed by a run (all but a stopping last position move on) -/
def restartLabelHits (p : Prog) (trace : List Nat) : Nat :=
  (trace.filter fun u => p[u]? == some Elem.restartLabel).length

def setHead (i : Inst) (h : HeadRec) : Inst :=
  { i with heads := i.heads.map fun x => if x.uid == h.uid then h else x }

/-- The `slide` call that `_advance_head_front` makes for head `huid` of instance `fuid`
    (`none`: the head is skipped — INACTIVE, flow not listening, or MERGING with events pending). -/
def slideOf (progs : Nat → Prog) (s : St) (fuid huid : Nat) (o : Nat → Ans) (fuel : Nat) : Option (Inst × HeadRec × Run) :=
  match find s fuid with
  | none => none
  | some f =>
    match f.heads.find? (·.uid == huid) with
    | none => none
    | some h =>
      if h.status == .inactive || !isListening f.status then none
      else if h.status == .merging && !s.queue.isEmpty then none
      else
        let pos := if h.status == .active then h.pos + 1 else h.pos
        some (f, h, slide (progs f.flowId) o fuel 0 { pos := pos, cstack := h.cstack })

/-- status of the flow while `slide` runs: WAITING becomes STARTING first -/
def entryStatus (f : Inst) : FStatus := if f.status == .waiting then .starting else f.status

/-- repaired tree only (fixes/C10-activated-fail-restart-guard.diff): an activated flow that is aborted
    while still STARTING (it never reached a waiting statement) is marked so that `_abort_flow` does not restart it -/
def failGuard (v : Variant) (st0 : FStatus) (f : Inst) (fuid : Nat) (s : St) : St :=
  match v with
  | .asIs => s
  | .repaired =>
    if st0 == .starting && f.activated > 0 then modify s fuid fun i => { i with newInstanceStarted := true } else s

/-- The body of the `for head in heads` loop of `_advance_head_front` for one head. -/
def advanceOne (v : Variant) (progs : Nat → Prog) (s : St) (fuid huid : Nat) (o : Nat → Ans) (fuel : Nat) : St :=
  match slideOf progs s fuid huid o fuel with
  | none => s
  | some (f, h, run) =>
    let p := progs f.flowId
    let st0 := entryStatus f
    let s := modify s fuid fun i => { i with status := st0 }
    match run.stop with
    | none => s   -- out of fuel: no statement about the result (never the case for acyclic flows, see C10 T1)
    | some .error =>
      -- except Exception: push ColangError, flow_aborted = True
      -- (effects of `slide` before the raising element on this instance's own record are irrelevant: the record is wiped by the abort)
      let s := pushRight s .colangError
      abortFlow (failGuard v st0 f fuid s) fuid
    | some stop =>
      -- effects of slide on the instance: label restarts (only in STARTED), head position/status, STOPPING
      let hits := if st0 == .started then restartLabelHits p run.trace else 0
      let s := if hits > 0 then
          modify (pushLeft s (.startFlow f.flowId fuid)) fuid fun i => { i with newInstanceStarted := true }
        else s
      let hstat : HStatus := match stop with
        | .forked _ => .inactive
        | .merging => .merging
        | _ => h.status
      let newHeads : List HeadRec := match stop with
        | .forked ts => ts.map fun t => { uid := 0, pos := t, status := .active, cstack := run.final.cstack }
        | _ => []
      let h' : HeadRec := { h with pos := run.final.pos, status := hstat, cstack := run.final.cstack }
      let st1 := if run.final.stopping then FStatus.stopping else st0
      let s := modify s fuid fun i => { setHead i h' with heads := (setHead i h').heads ++ newHeads, status := st1 }
      let atEnd := decide (run.final.pos ≥ p.length)
      let flowAborted := atEnd && st1 == .stopping
      let flowFinished := atEnd && st1 != .stopping
      let allWaiting := !atEnd &&
        ((match find s fuid with | some i => i.heads | none => []).all fun (x : HeadRec) => x.status == HStatus.inactive || isWaitElem p x.pos)
      if flowFinished || allWaiting then
        if st1 == .starting then
          let s := modify s fuid fun i => { i with status := .started }
          let s := pushRight s (.flowStarted fuid)
          -- "Avoid an activated flow that was just started from finishing since this would end in an infinite loop"
          if flowFinished && f.activated > 0 then
            modify s fuid fun i => setHead i { h' with status := .inactive }
          else if flowFinished then finishFlow s fuid
          else s
        else if flowFinished then finishFlow s fuid
        else s
      else if flowAborted then
        abortFlow (failGuard v st0 f fuid s) fuid
      else s

/-! ### the matching phase of `run_to_completion` for one internal event -/

/-- outcome of `_compute_event_matching_score` for one candidate head (an oracle for this model) -/
inductive Score where
  | pos (k : Nat)   -- > 0
  | zero
  | neg             -- < 0: mismatch
  | err             -- the call raised (evaluating the match arguments, comparison type error, bad regex, …)
  deriving DecidableEq, Repr, Inhabited

structure Cand where
  fuid : Nat
  huid : Nat
  score : Score
  deriving DecidableEq, Repr, Inhabited

structure MatchOut where
  matching : List Cand
  failing : List Cand
  erroring : List Cand
  deriving DecidableEq, Repr, Inhabited

/-- the pinned tree: the first raising candidate propagates out of `run_to_completion` (`none`) -/
def matchPhaseAsIs : List Cand → Option MatchOut
  | [] => some { matching := [], failing := [], erroring := [] }
  | c :: cs =>
    match c.score with
    | .err => none
    | sc =>
      match matchPhaseAsIs cs with
      | none => none
      | some r =>
        match sc with
        | .pos _ => some { r with matching := c :: r.matching }
        | .neg => some { r with failing := c :: r.failing }
        | _ => some r

/-- repaired: a raising candidate is recorded, the loop goes on -/
def matchPhaseRepaired : List Cand → MatchOut
  | [] => { matching := [], failing := [], erroring := [] }
  | c :: cs =>
    let r := matchPhaseRepaired cs
    match c.score with
    | .err => { r with erroring := c :: r.erroring }
    | .pos _ => { r with matching := c :: r.matching }
    | .neg => { r with failing := c :: r.failing }
    | .zero => r

/-- repaired: one ColangError per raising candidate is queued while scanning (in candidate order) … -/
def queueErrors (s : St) (errs : List Cand) : St :=
  errs.foldl (fun s _ => pushRight s .colangError) s

/-- … and the raising heads' flows are aborted after the scan (like `heads_failing`). -/
def abortErroring (s : St) (errs : List Cand) : St :=
  errs.foldl (fun s c => abortFlow s c.fuid) s


/-! ### the candidate scan with its head look-ups (`flow_state.heads[head_uid]`) -/

/-- `state.flow_states[flow_state_uid].heads[head_uid]` succeeds -/
def headPresent (s : St) (c : Cand) : Bool :=
  match find s c.fuid with
  | some f => f.heads.any (·.uid == c.huid)
  | none => false

/-- The loop over `head_candidates` including the look-up of every candidate's head in the CURRENT state
    (`none` = the look-up raised KeyError, which leaves `run_to_completion`).
    `abortInLoop = false`: the repaired tree — a raising candidate is collected in `heads_erroring`, its flow is aborted
    after the loop (`abortErroring`);  `abortInLoop = true`: the rejected alternative (seeded change C10-b) that aborts
    the flow right away, inside the loop. -/
def scanLookup (abortInLoop : Bool) : St → List Cand → Option (St × MatchOut)
  | s, [] => some (s, { matching := [], failing := [], erroring := [] })
  | s, c :: cs =>
    if !headPresent s c then none
    else
      match c.score with
      | .err =>
        let s1 := pushRight s .colangError
        let s2 := if abortInLoop then abortFlow s1 c.fuid else s1
        (scanLookup abortInLoop s2 cs).map fun r => (r.1, { r.2 with erroring := c :: r.2.erroring })
      | .pos _ => (scanLookup abortInLoop s cs).map fun r => (r.1, { r.2 with matching := c :: r.2.matching })
      | .neg => (scanLookup abortInLoop s cs).map fun r => (r.1, { r.2 with failing := c :: r.2.failing })
      | .zero => scanLookup abortInLoop s cs

end NemoVerif.ErrContain
