/-
  C07 — the element list that `expand_elements` produces for `await <group of flows>`.

  `expandAwait` mirrors the group branch of
    nemoguardrails/colang/v2_x/lang/expansion.py :: _expand_await_element
  after all passes of `expand_elements`: every flow of a clause is started
  (`_expand_start_element`: assign instance uid, send StartFlow, internal match FlowStarted, assign the reference),
  then the clause waits on `match <spec_and of $ref.Finished()>` (the and-template of `_expand_match_element`, or a
  plain match for one flow); several clauses are forked inside a scope whose failure path is
  `WaitForHeads(number of clauses)` → `EndScope` → `Abort` and whose end label merges and closes the scope
  (stopping the flows of the other clauses).

  `readBackAwait` is the checker run on the REAL element list; `Lemmas/GroupExpandAwait.lean` proves that it
  inverts the mirror.  At run time a flow's `Finished` event plays the role of atom `a`; a `Failed` event is a
  mismatch (score −1) of `match $ref.Finished()` and takes the failure path.
-/
import NemoVerif.Models.GroupExpand
namespace NemoVerif.GroupExpand
open NemoVerif.Dnf

/-- `start f<a> as $_ref_r` fully expanded; uses the fresh names `k`, `k+1`, `k+2` -/
def startBlocks : List Nat → Nat → List Prim
  | [], _ => []
  | a :: as, k =>
    .assignUid k a :: .sendStart a k :: .matchStarted a k (k + 1) :: .assignRef (k + 2) (k + 1) :: startBlocks as (k + 3)

def startRefs : List Nat → Nat → List Nat
  | [], _ => []
  | _ :: as, k => (k + 2) :: startRefs as (k + 3)

def andItemsFin (e : Nat) : List Nat → List Nat → List Prim
  | l :: ls, r :: rs => .label l :: .matchFin r :: .goto e :: andItemsFin e ls rs
  | _, _ => []

/-- `match {"_type": "spec_and", "elements": [$r.Finished() …]}` -/
def expandAndFin (rs : List Nat) (k : Nat) : List Prim × Nat :=
  match rs with
  | [r] => ([.matchFin r], k)
  | _ =>
    let ls := freshLabels (k + 3) rs.length
    ([.catchPF (some (k + 1)), .fork k ls] ++ andItemsFin (k + 2) ls rs ++ andTrailer k (k + 1) (k + 2) rs.length,
     k + 3 + rs.length)

/-- one clause: start all its flows, then wait for all of them to finish -/
def expandAwaitClause (c : List Nat) (k : Nat) : List Prim × Nat :=
  let r := expandAndFin (startRefs c k) (k + 3 * c.length)
  (startBlocks c k ++ r.1, r.2)

def awaitItems (e : Nat) : List Nat → Clauses → Nat → List Prim × Nat
  | l :: ls, c :: cs, k =>
    let r := expandAwaitClause c k
    let rest := awaitItems e ls cs r.2
    (.label l :: r.1 ++ .goto e :: rest.1, rest.2)
  | _, _, k => ([], k)

def awaitTrailer (s u f e n : Nat) : List Prim :=
  [.label f, .wait n, .catchPF none, .endScope s, .abort, .label e, .merge u, .catchPF none, .endScope s]

def expandAwaitClauses (d : Clauses) (k : Nat) : List Prim × Nat :=
  match d with
  | [c] => expandAwaitClause c k
  | _ =>
    let ls := freshLabels (k + 4) d.length
    let items := awaitItems (k + 3) ls d (k + 4 + d.length)
    ([.beginScope k, .catchPF (some (k + 1)), .fork (k + 2) ls] ++ items.1 ++ awaitTrailer k (k + 2) (k + 1) (k + 3) d.length,
     items.2)

/-- the final element list for `await g` -/
def expandAwait (g : G) : List Prim := (expandAwaitClauses (toDnf (normalize g)) 0).1

/-! ### reading it back -/

/-- leading start blocks: (flow, reference) pairs -/
def readStarts : List Prim → List (Nat × Nat) × List Prim
  | .assignUid v a :: .sendStart a1 v1 :: .matchStarted a2 v2 x :: .assignRef r x1 :: ps =>
    if a1 == a && a2 == a && v1 == v && v2 == v && x1 == x then
      ((a, r) :: (readStarts ps).1, (readStarts ps).2)
    else ([], .assignUid v a :: .sendStart a1 v1 :: .matchStarted a2 v2 x :: .assignRef r x1 :: ps)
  | ps => ([], ps)

def readAndItemsFin : List Nat → List Prim → Option (List (Nat × Nat) × List Prim)
  | [], ps => some ([], ps)
  | l :: ls, .label l' :: .matchFin r :: .goto e :: ps =>
    if l == l' then
      match readAndItemsFin ls ps with
      | some (xs, rest) => some ((r, e) :: xs, rest)
      | none => none
    else none
  | _, _ => none

def readAndFin : List Prim → Option (List Nat × List Prim)
  | .matchFin r :: ps => some ([r], ps)
  | .catchPF (some f) :: .fork u ls :: ps =>
    match readAndItemsFin ls ps with
    | some (items, .label f' :: .merge u1 :: .catchPF none :: .abort :: .label e :: .wait n :: .merge u2 :: .catchPF none :: rest) =>
      if f' == f && u1 == u && u2 == u && n == ls.length && items.all (fun x => x.2 == e)
      then some (items.map (·.1), rest) else none
    | _ => none
  | _ => none

/-- one clause: the flows it starts, provided it then waits for exactly their references -/
def readAwaitClause (ps : List Prim) : Option (List Nat × List Prim) :=
  let st := readStarts ps
  match readAndFin st.2 with
  | some (rs, rest) => if rs == st.1.map (·.2) then some (st.1.map (·.1), rest) else none
  | none => none

def readAwaitItems : List Nat → List Prim → Option (List (List Nat × Nat) × List Prim)
  | [], ps => some ([], ps)
  | l :: ls, .label l' :: ps =>
    if l == l' then
      match readAwaitClause ps with
      | some (c, .goto e :: ps') =>
        match readAwaitItems ls ps' with
        | some (xs, r) => some ((c, e) :: xs, r)
        | none => none
      | _ => none
    else none
  | _, _ => none

def readAwaitGroup : List Prim → Option (Clauses × List Prim)
  | .beginScope s :: .catchPF (some f) :: .fork u ls :: ps =>
    match readAwaitItems ls ps with
    | some (items, .label f' :: .wait n :: .catchPF none :: .endScope s1 :: .abort :: .label e :: .merge u1 :: .catchPF none :: .endScope s2 :: rest) =>
      if f' == f && u1 == u && s1 == s && s2 == s && n == ls.length && items.all (fun x => x.2 == e)
      then some (items.map (·.1), rest) else none
    | _ => none
  | ps =>
    match readAwaitClause ps with
    | some (c, rest) => some ([c], rest)
    | none => none

def readBackAwait (ps : List Prim) : Option Clauses :=
  match readAwaitGroup ps with
  | some (d, []) => some d
  | _ => none

end NemoVerif.GroupExpand
