/-
  C12 (Colang 2.x part) — model of `expand_elements` (nemoguardrails/colang/v2_x/lang/expansion.py) for the
  control-flow subset: if / elif / else, while / break / continue over statements that expansion leaves alone.

  Labels are structured `(prefix, n)` pairs where `n` is the value of the `new_var_uuid()` counter; the
  driver renders them as `prefix ++ toString n`, the harness compares with the real output up to renaming of
  the uid part by first occurrence.

  The real procedure is an iterated fix-point: `_expand_if_element` expands its bodies WITHOUT the enclosing
  loop's labels and sets `elements_changed`, so that the next pass of the enclosing `expand_elements(body,
  (begin, end))` fills `Break.label` / `Continue.label` of everything that still has `label=None`; inner loops
  were completely expanded (their own fix-point) before they are spliced in.  The net effect — a `break` /
  `continue` gets the labels of the innermost enclosing `while`, also through `if` — is what the structural
  recursion below computes directly; the agreement of both is checked by differential execution.
-/
import NemoVerif.Models.Closed
namespace NemoVerif.Expand
open NemoVerif.Closed

abbrev Lbl := String × Nat

inductive Stmt where
  | send                      -- `send Ev(..)` single event          → SpecOp(op="send")
  | matchEv                   -- `match Ev(..)` single event         → SpecOp(op="match")
  | assign                    -- `$x = expr` (no NLD)                → Assignment
  | other (kind : String)     -- log / print / priority / global / pass ...
  | ret
  | abort
  | brk
  | cont
  | ifS (thenB elseB : List Stmt)   -- `else_elements` None or [] = no else; `elif` is an `If` nested in the else
  | whileS (body : List Stmt)

mutual
  def expand (cb : Option (Lbl × Lbl)) : List Stmt → Nat → List (Prim Lbl) × Nat
    | [], c => ([], c)
    | s :: r, c =>
      let a := expandStmt cb s c
      let b := expand cb r a.2
      (a.1 ++ b.1, b.2)
  def expandStmt (cb : Option (Lbl × Lbl)) : Stmt → Nat → List (Prim Lbl) × Nat
    | .send, c => ([.specOp "send" false false], c)
    | .matchEv, c => ([.specOp "match" false false], c)
    | .assign, c => ([.assign false], c)
    | .other k, c => ([.other k], c)
    | .ret, c => ([.ret], c)
    | .abort, c => ([.abort], c)
    | .brk, c => ([.brk (cb.map (·.2))], c)
    | .cont, c => ([.cont (cb.map (·.1))], c)
    | .whileS b, c =>
      -- label_uid = new_var_uuid(); [begin_label, goto_end] + body + [goto_begin, end_label]
      let bl : Lbl := ("_while_begin_", c)
      let el : Lbl := ("_while_end_", c)
      let body := expand (some (bl, el)) b (c + 1)
      ([.label bl, .goto el] ++ body.1 ++ [.goto bl, .label el], body.2)
    | .ifS t f, c =>
      -- two uids are drawn even when there is no else branch
      let elseL : Lbl := ("if_else_body_label_", c)
      let endL : Lbl := ("if_end_label_", c + 1)
      let te := expand cb t (c + 2)
      if f.isEmpty then
        ([.goto endL] ++ te.1 ++ [.label endL], te.2)
      else
        let fe := expand cb f te.2
        ([.goto elseL] ++ te.1 ++ [.goto endL, .label elseL] ++ fe.1 ++ [.label endL], fe.2)
end

/-- `initialize_flow`: top level, no enclosing loop -/
def expandFlow (ss : List Stmt) : List (Prim Lbl) := (expand none ss 0).1

def labelsOf : List (Prim Lbl) → List Lbl
  | [] => []
  | .label n :: r => n :: labelsOf r
  | _ :: r => labelsOf r

end NemoVerif.Expand
