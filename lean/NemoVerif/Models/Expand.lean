/-
  C12 (Colang 2.x part) — model of `expand_elements` (nemoguardrails/colang/v2_x/lang/expansion.py):
  if / elif / else, while / break / continue, match / send / start / await groups (fork / merge / wait templates),
  start / await / activate / deactivate of flows and actions, NLD assignment, when / or when / else (repaired else path).
  Groups enter as their disjunctive normal form (`normalize_element_groups` is C07's subject; the harness computes it
  with the real function).  Not modelled: the aliasing of AST objects between the copies the real compiler makes of a
  then-body (one per group of its case) and of an else-body (one per case): a `break`/`continue` inside a loop inside
  such a copy keeps the label of the FIRST copy; here every copy is self-contained (the differential skips those ASTs).

  Labels are structured `(prefix, n)` pairs where `n` is the value of the `new_var_uuid()` counter; the
  driver renders them as `prefix ++ toString n`, the harness compares with the real output up to renaming of
  the uid part by first occurrence.

  The real procedure is an iterated fix-point: `_expand_if_element` expands its bodies WITHOUT the enclosing
  loop's labels and sets `elements_changed`, so that the next pass of the enclosing `expand_elements(body,
  (begin, end))` fills `Break.label` / `Continue.label` of everything that still has `label=None`; inner loops
  were completely expanded (their own fix-point) before they are spliced in.  The net effect — a `break` /
  `continue` gets the labels of the innermost enclosing `while`, also through `if` — is what the structural
  recursion below computes directly; the agreement of both is checked by differential execution.
-/
import NemoVerif.Models.Closed
namespace NemoVerif.Expand
open NemoVerif.Closed

abbrev Lbl := String × Nat

/-! ### generators: a piece of output that draws uids from the counter -/

abbrev Gen := Nat → List (Prim Lbl) × Nat

def genConst (ps : List (Prim Lbl)) : Gen := fun c => (ps, c)

/-! ### atoms of spec groups (after `normalize_element_groups`, which is C07's subject) -/

inductive AtomK where
  | ev        -- an event, or anything with members (`$ref.Finished()`): only matched
  | flow      -- SpecType.FLOW, members None: started, then `$ref.Finished()` is matched
  | action    -- SpecType.ACTION, members None
  deriving DecidableEq, Repr

structure Atom where
  k : AtomK
  ref : Bool        -- `as $r` given
  deriving DecidableEq, Repr

abbrev Clause := List Atom
abbrev DNF := List Clause

def pSend : Prim Lbl := .specOp "send" false false
def pMatch : Prim Lbl := .specOp "match" false false
def pAssign : Prim Lbl := .assign false

/-- `_expand_start_element` on a single spec: flow → `$uid = ..; send StartFlow; match FlowStarted; $ref = ..`,
    action → `_new_action_instance; send Start` -/
def startAtom : AtomK → List (Prim Lbl)
  | .flow => [pAssign, pSend, pMatch, pAssign]
  | .action => [.specOp "_new_action_instance" false false, pSend]
  | .ev => []

def startAll (cl : Clause) : List (Prim Lbl) := cl.flatMap fun a => startAtom a.k

/-! ### the fork / merge / wait templates of `_expand_match_element`, `_expand_element_group`, `_expand_await_element` -/

inductive Variant where
  | andV      -- match and-group:   … fail: merge, catch None, abort; end: wait n, merge, catch None
  | orV       -- or-groups:         … fail: wait n, merge, catch None, abort; end: merge, catch None
  | scopedV   -- await or-groups:   begin scope … fail: wait n, catch None, end scope, abort; end: merge, catch None, end scope
  deriving DecidableEq, Repr

def itemLabels (pre : Nat → String) (c : Nat) : Nat → Nat → List Lbl
  | _, 0 => []
  | i, n + 1 => (pre i, c + i) :: itemLabels pre c (i + 1) n

/-- `label l_i; <body_i>; goto end` for every branch -/
def forkItems (e : Lbl) : List Lbl → List Gen → Gen
  | l :: ls, g :: gs, c =>
    let a := g c
    let r := forkItems e ls gs a.2
    (.label l :: a.1 ++ .jump e :: r.1, r.2)
  | _, _, c => ([], c)

def trailer (v : Variant) (u f e s : Lbl) (n : Nat) : List (Prim Lbl) :=
  match v with
  | .andV => [.label f, .merge u, .catchFail none, .abort, .label e, .waitHeads n, .merge u, .catchFail none]
  | .orV => [.label f, .waitHeads n, .merge u, .catchFail none, .abort, .label e, .merge u, .catchFail none]
  | .scopedV => [.label f, .waitHeads n, .catchFail none, .endScope s, .abort, .label e, .merge u, .catchFail none, .endScope s]

def header (v : Variant) (u f s : Lbl) (ls : List Lbl) : List (Prim Lbl) :=
  (match v with | .scopedV => [.beginScope s] | _ => []) ++ [.catchFail (some f), .fork u ls]

/-- uids: fork `c`, failure label `c+1`, end label `c+2`, scope `c+3`, branch labels `c+4 …`, then the bodies -/
def forkTemplate (v : Variant) (pre : Nat → String) (gens : List Gen) : Gen := fun c =>
  let n := gens.length
  let u : Lbl := ("", c)
  let f : Lbl := ("failure_label_", c + 1)
  let e : Lbl := ("end_label_", c + 2)
  let s : Lbl := ("scope_", c + 3)
  let ls := itemLabels pre (c + 4) 0 n
  let items := forkItems e ls gens (c + 4 + n)
  (header v u f s ls ++ items.1 ++ trailer v u f e s n, items.2)

def eventPre (i : Nat) : String := "event_" ++ toString i ++ "_"
def groupPre (i : Nat) : String := "group_" ++ toString i ++ "_"

/-- `match` on an and-group of `n` specs (second pass of `_expand_match_element`) -/
def matchClause (n : Nat) : Gen :=
  if n ≤ 1 then genConst [pMatch]
  else forkTemplate .andV eventPre ((List.replicate n (genConst [pMatch])))

/-- a group: one clause is emitted inline, several clauses go through the or-template -/
def orGroup (v : Variant) (bodies : List Gen) : Gen :=
  match bodies with
  | [b] => b
  | _ => forkTemplate v groupPre bodies

def matchGroup (d : List Nat) : Gen := orGroup .orV (d.map matchClause)
def sendGroup (d : List Nat) : Gen := orGroup .orV (d.map fun n => genConst (List.replicate n pSend))
def startGroup (d : DNF) : Gen := orGroup .orV (d.map fun cl => genConst (startAll cl))

def refAssigns (cl : Clause) : List (Prim Lbl) := (cl.filter fun a => a.ref).map fun _ => pAssign

/-- a clause of `await`: start everything, match all `Finished()`, copy the references -/
def awaitClause (cl : Clause) : Gen := fun c =>
  let m := matchClause cl.length c
  (startAll cl ++ m.1 ++ refAssigns cl, m.2)

def awaitGroup (d : DNF) : Gen := orGroup .scopedV (d.map awaitClause)

/-- a group of a `when` case: only flows / actions are started, the references are copied only if something was started -/
def whenClause (cl : Clause) : Gen := fun c =>
  let started := cl.filter fun a => a.k != .ev
  let m := matchClause cl.length c
  (startAll started ++ m.1 ++ (if started.isEmpty then [] else refAssigns started), m.2)

def caseLetter (i : Nat) : String := String.singleton (Char.ofNat (97 + i))

/-- the groups of one `when` case; the then-body is expanded once PER GROUP (`thenG` draws new uids each time) -/
def whenGroups (S : Nat) (u : Lbl) (i : Nat) (ng : Nat) (thenG : Gen) : Nat → List Clause → Gen
  | _, [], c => ([], c)
  | g, cl :: cls, c =>
    let L := caseLetter i
    let body := whenClause cl c
    let th := thenG body.2
    let rest := whenGroups S u i ng thenG (g + 1) cls th.2
    ([.label ("group_" ++ L ++ "_" ++ toString g ++ "_label_", S)] ++ body.1 ++
      [.jump ("case_" ++ L ++ "_label_", S), .label ("case_" ++ L ++ "_label_", S), .merge u, .catchFail none,
       .endScope ("scope_", S)] ++ th.1 ++
      [.jump ("when_end_label_", S), .label ("failure_case_" ++ L ++ "_label_", S), .waitHeads ng, .catchFail none,
       .jump ("when_else_label_", S)] ++ rest.1, rest.2)

def groupLabelsOf (S : Nat) (i : Nat) : Nat → Nat → List Lbl
  | _, 0 => []
  | g, n + 1 => ("group_" ++ caseLetter i ++ "_" ++ toString g ++ "_label_", S) :: groupLabelsOf S i (g + 1) n

/-- the else group, emitted once PER CASE (repaired version, /repo 3c50707: merge the case heads and close the scope) -/
def whenElse (S : Nat) (u : Lbl) (ncases : Nat) (hasElse : Bool) (elseG : Gen) : Gen := fun c =>
  let el := if hasElse then elseG c else ([], c)
  ([.label ("when_else_label_", S), .waitHeads ncases, .merge u, .endScope ("scope_", S)] ++
    (if hasElse then [.jump ("when_else_statement_label_", S), .label ("when_else_statement_label_", S)] ++ el.1 else [.abort]) ++
    [.label ("when_end_label_", S)], el.2)

/-- one case: `label init; catch failure_case; fork groups; <groups>; <else group>` -/
def whenCase (S : Nat) (u : Lbl) (i ncases : Nat) (gu : Lbl) (d : DNF) (hasElse : Bool) (thenG elseG : Gen) : Gen := fun c =>
  let L := caseLetter i
  let gs := whenGroups S u i d.length thenG 0 d c
  let el := whenElse S u ncases hasElse elseG gs.2
  ([.label ("init_case_" ++ L ++ "_label_", S), .catchFail (some ("failure_case_" ++ L ++ "_label_", S)),
    .fork gu (groupLabelsOf S i 0 d.length)] ++ gs.1 ++ el.1, el.2)

def initLabelsOf (S : Nat) : Nat → Nat → List Lbl
  | _, 0 => []
  | i, n + 1 => ("init_case_" ++ caseLetter i ++ "_label_", S) :: initLabelsOf S (i + 1) n

inductive Stmt where
  | send                      -- `send Ev(..)` single event          → SpecOp(op="send")
  | matchEv                   -- `match Ev(..)` single event         → SpecOp(op="match")
  | assign                    -- `$x = expr` (no NLD)                → Assignment
  | other (kind : String)     -- log / print / priority / global / pass ...
  | ret
  | abort
  | brk
  | cont
  | ifS (thenB elseB : List Stmt)   -- `else_elements` None or [] = no else; `elif` is an `If` nested in the else
  | whileS (body : List Stmt)
  | matchG (d : List Nat)     -- `match <group>`: sizes of the clauses of the normalised group
  | sendG (d : List Nat)      -- `send <group>`
  | startS (d : DNF)          -- `start <spec or group>` of flows / actions
  | awaitOne (k : AtomK) (retVar : Bool)   -- `[$x =] await <single flow / action>`
  | awaitG (d : DNF)          -- `await <group>`
  | activateS (n : Nat)       -- `activate f1 and … fn`
  | deactivateS (n : Nat)
  | nld                       -- `$x = ..."instruction"`  → await GenerateValueAction
  | whenS (specs : List DNF) (thens : List (List Stmt)) (elseB : List Stmt) (hasElse : Bool)

mutual
  def expand (cb : Option (Lbl × Lbl)) : List Stmt → Nat → List (Prim Lbl) × Nat
    | [], c => ([], c)
    | s :: r, c =>
      let a := expandStmt cb s c
      let b := expand cb r a.2
      (a.1 ++ b.1, b.2)
  def expandStmt (cb : Option (Lbl × Lbl)) : Stmt → Nat → List (Prim Lbl) × Nat
    | .send, c => ([.specOp "send" false false], c)
    | .matchEv, c => ([.specOp "match" false false], c)
    | .assign, c => ([.assign false], c)
    | .other k, c => ([.other k], c)
    | .ret, c => ([.ret], c)
    | .abort, c => ([.abort], c)
    | .brk, c => ([.brk (cb.map (·.2))], c)
    | .cont, c => ([.cont (cb.map (·.1))], c)
    | .whileS b, c =>
      -- label_uid = new_var_uuid(); [begin_label, goto_end] + body + [goto_begin, end_label]
      let bl : Lbl := ("_while_begin_", c)
      let el : Lbl := ("_while_end_", c)
      let body := expand (some (bl, el)) b (c + 1)
      ([.label bl, .goto el] ++ body.1 ++ [.jump bl, .label el], body.2)
    | .ifS t f, c =>
      -- two uids are drawn even when there is no else branch
      let elseL : Lbl := ("if_else_body_label_", c)
      let endL : Lbl := ("if_end_label_", c + 1)
      let te := expand cb t (c + 2)
      if f.isEmpty then
        ([.goto endL] ++ te.1 ++ [.label endL], te.2)
      else
        let fe := expand cb f te.2
        ([.goto elseL] ++ te.1 ++ [.jump endL, .label elseL] ++ fe.1 ++ [.label endL], fe.2)
    | .matchG d, c => matchGroup d c
    | .sendG d, c => sendGroup d c
    | .startS d, c => startGroup d c
    | .awaitOne k rv, c => (startAtom k ++ [pMatch] ++ (if rv then [pAssign] else []), c)
    | .awaitG d, c => awaitGroup d c
    | .activateS n, c => ((List.replicate n [pAssign, pSend, pMatch]).flatten, c)
    | .deactivateS n, c => (List.replicate n pSend, c)
    | .nld, c => ([.specOp "_new_action_instance" false false, pSend, pMatch, pAssign], c)
    | .whenS specs thens els hasElse, c =>
      -- stmt_uid `c` is shared by the scope and every label; cases fork `c+1`; groups fork of case i `c+2+i`
      let u : Lbl := ("", c + 1)
      let cases := expandCases cb c u specs.length hasElse (fun k => expand cb els k) 0 specs thens (c + 2 + specs.length)
      ([.beginScope ("scope_", c), .fork u (initLabelsOf c 0 specs.length)] ++ cases.1, cases.2)
  /-- the cases of a `when`, in parallel over the specs and the then-bodies -/
  def expandCases (cb : Option (Lbl × Lbl)) (S : Nat) (u : Lbl) (ncases : Nat) (hasElse : Bool) (elseG : Gen) :
      Nat → List DNF → List (List Stmt) → Nat → List (Prim Lbl) × Nat
    | i, d :: ds, t :: ts, c =>
      let a := whenCase S u i ncases ("", S + 2 + i) d hasElse (fun k => expand cb t k) elseG c
      let r := expandCases cb S u ncases hasElse elseG (i + 1) ds ts a.2
      (a.1 ++ r.1, r.2)
    | _, _, _, c => ([], c)
end

mutual
  /-- shapes the parser guarantees: a `when` has at least one case, as many then-bodies as cases, and every case
      at least one group (on other inputs the real compiler raises IndexError or leaves the scope open) -/
  def wfList : List Stmt → Bool
    | [] => true
    | s :: r => wfStmt s && wfList r
  def wfStmt : Stmt → Bool
    | .ifS t f => wfList t && wfList f
    | .whileS b => wfList b
    | .whenS specs thens els _ =>
      !specs.isEmpty && specs.length == thens.length && specs.all (fun d => !d.isEmpty) && wfLists thens && wfList els
    | _ => true
  def wfLists : List (List Stmt) → Bool
    | [] => true
    | t :: ts => wfList t && wfLists ts
end

mutual
  /-- programs without `when` -/
  def whenFreeList : List Stmt → Bool
    | [] => true
    | s :: r => whenFreeStmt s && whenFreeList r
  def whenFreeStmt : Stmt → Bool
    | .ifS t f => whenFreeList t && whenFreeList f
    | .whileS b => whenFreeList b
    | .whenS _ _ _ _ => false
    | _ => true
end

def cbList : Option (Lbl × Lbl) → List Lbl
  | none => []
  | some (b, e) => [b, e]

/-- `initialize_flow`: top level, no enclosing loop -/
def expandFlow (ss : List Stmt) : List (Prim Lbl) := (expand none ss 0).1

def labelsOf : List (Prim Lbl) → List Lbl
  | [] => []
  | .label n :: r => n :: labelsOf r
  | _ :: r => labelsOf r

end NemoVerif.Expand
