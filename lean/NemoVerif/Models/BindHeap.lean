/-
  C08 — reference semantics: flow calls over a HEAP, with in-place mutation.

  `Models/Bind.lean` treats values as immutable trees.  The real interpreter stores Python *objects*:
  `create_flow_instance` / `_start_flow` move the objects they find in the StartFlow event into
  `FlowState.arguments` / `context` without looking at them, `Return` stores the object, the Finished
  event carries it, the caller's `$x = $e.arguments.return_value` binds it.  An expression statement such
  as `($bucket.append($item))` mutates the object a variable refers to.

  This file models exactly that:
    * every user value lives in a heap cell (`Heap = List Val`, address = index, allocation appends);
      contexts, `arguments` and event arguments hold ADDRESSES, encoded as `Val.int a` (`addr`) — the
      interpreter's own bookkeeping values (flow ids, uids, `activated`) stay immediate and are never
      `Val.int`, so `deref` is unambiguous;
    * the layer-1 functions of `Models/Bind.lean` (`createFlowInstance`, `startFlow`, `assignCtx`,
      `returnCtx`, `finishedArgs`, `captureReturn`) are reused AS THEY ARE on address-valued contexts:
      they never inspect the values they move, which is precisely "the callee's parameter refers to the
      object the caller passed" (the open finding `inplace-mutation-of-passed-container`);
    * a declared default is evaluated per instance (`eval_expression(default_value_expr, {})` builds a new
      object on every call): `allocDefaults` allocates a fresh cell per default and hands the binding
      functions parameters whose default is that address;
    * `hexec` is `exec` with the heap threaded through, the statement `mut` (in-place container methods,
      optionally through an index/key path) and a trace of callee ENTRY contexts (`Entry`).

  Fragment limits (checked against the real interpreter by differential execution, see design notes):
  a cell holds a tree without inner addresses — a composite expression `[$x, 1]` copies `$x` into the new
  list (Python shares the inner object); a `dict` variable read by an expression is shallow-copied
  (`AttributeDict(val)` in `eval_expression`), which for trees is a copy.
-/
import NemoVerif.Models.Bind

namespace NemoVerif.Bind
open NemoVerif

abbrev Heap := List Val

/-- an address as it is stored in contexts / arguments / events -/
def addr (a : Nat) : Val := .int (Int.ofNat a)

/-- the value an address-or-immediate stands for -/
def deref (h : Heap) : Val → Val
  | .int (.ofNat a) => h.getD a .none
  | v => v

def derefCtx (h : Heap) (c : Ctx) : Ctx := c.map fun kv => (kv.1, deref h kv.2)

def derefInst (h : Heap) (f : Inst) : Inst :=
  { f with arguments := derefCtx h f.arguments, context := derefCtx h f.context }

/-- a new object -/
def alloc (h : Heap) (v : Val) : Heap × Val := (h ++ [v], addr h.length)

/-- the VALUE of an expression (what an emitted event shows, what a composite expression copies) -/
def evalF (h : Heap) (g c : Ctx) : Expr → Val
  | .lit v => v
  | .var x => deref h (evalVar g c x)
  | .list1 a => .list [evalF h g c a]
  | .list2 a b => .list [evalF h g c a, evalF h g c b]

def isDict : Val → Bool
  | .dict _ => true
  | _ => false

/-- the OBJECT an expression evaluates to: a bare variable yields the object it refers to (a dict:
    a shallow copy — `AttributeDict(val)`), everything else builds a new object -/
def evalH (h : Heap) (g c : Ctx) : Expr → Heap × Val
  | .var x =>
    let r := evalVar g c x
    if isDict (deref h r) then alloc h (deref h r) else (h, r)
  | e => alloc h (evalF h g c e)

/-! ### in-place container methods -/

inductive PathKey where
  | idx (i : Nat)
  | key (k : String)
  deriving Repr, Inhabited

/-- a method call with evaluated arguments -/
inductive MethV where
  | append (v : Val) | extend (v : Val) | insert0 (v : Val) | pop | clear
  | update1 (k : String) (v : Val) | popKey (k : String)
  | add (v : Val) | discard (v : Val)
  deriving Repr, Inhabited

def setKv (k : String) (v : Val) : List (String × Val) → List (String × Val)
  | [] => [(k, v)]
  | (k', v') :: r => if k' = k then (k', v) :: r else (k', v') :: setKv k v r

def getKv (k : String) : List (String × Val) → Option Val
  | [] => none
  | (k', v) :: r => if k' = k then some v else getKv k r

def eraseKv (k : String) : List (String × Val) → List (String × Val)
  | [] => []
  | (k', v) :: r => if k' = k then r else (k', v) :: eraseKv k r

/-- the method applied to the object itself: (the object afterwards, the call's result); `none` = Python
    raises (wrong type, `pop` from an empty list) -/
def mutTop : MethV → Val → Option (Val × Val)
  | .append v, .list xs => some (.list (xs ++ [v]), .none)
  | .extend (.list ys), .list xs => some (.list (xs ++ ys), .none)
  | .insert0 v, .list xs => some (.list (v :: xs), .none)
  | .pop, .list xs =>
    match xs.getLast? with
    | some x => some (.list xs.dropLast, x)
    | none => none
  | .clear, .list _ => some (.list [], .none)
  | .update1 k v, .dict kvs => some (.dict (setKv k v kvs), .none)
  | .popKey k, .dict kvs => some (.dict (eraseKv k kvs), (getKv k kvs).getD .none)   -- `d.pop(k, None)`
  | .clear, .dict _ => some (.dict [], .none)
  | .add v, .set xs => some (.set (if xs.any (Val.beq v) then xs else xs ++ [v]), .none)
  | .discard v, .set xs => some (.set (xs.filter fun x => !Val.beq v x), .none)
  | .clear, .set _ => some (.set [], .none)
  | _, _ => none

def setNth (xs : List Val) (i : Nat) (v : Val) : List Val := xs.set i v

/-- the method applied to `obj[k1][k2]…` -/
def mutAt : List PathKey → MethV → Val → Option (Val × Val)
  | [], m, v => mutTop m v
  | .idx i :: p, m, .list xs =>
    match xs[i]? with
    | some x =>
      match mutAt p m x with
      | some (x', r) => some (.list (setNth xs i x'), r)
      | none => none
    | none => none
  | .key k :: p, m, .dict kvs =>
    match getKv k kvs with
    | some x =>
      match mutAt p m x with
      | some (x', r) => some (.dict (setKv k x' kvs), r)
      | none => none
    | none => none
  | _, _, _ => none

/-- a method call as written (argument expressions) -/
inductive Meth where
  | append (e : Expr) | extend (e : Expr) | insert0 (e : Expr) | pop | clear
  | update1 (k : String) (e : Expr) | popKey (k : String)
  | add (e : Expr) | discard (e : Expr)
  deriving Repr, Inhabited

def Meth.evalF (h : Heap) (g c : Ctx) : Meth → MethV
  | .append e => .append (Bind.evalF h g c e)
  | .extend e => .extend (Bind.evalF h g c e)
  | .insert0 e => .insert0 (Bind.evalF h g c e)
  | .pop => .pop
  | .clear => .clear
  | .update1 k e => .update1 k (Bind.evalF h g c e)
  | .popKey k => .popKey k
  | .add e => .add (Bind.evalF h g c e)
  | .discard e => .discard (Bind.evalF h g c e)

/-! ### programs -/

inductive HStmt where
  | assign (key : String) (e : Expr)
  | global (x : String)
  | ret (e : Expr)
  | send (name : String) (args : List (String × Expr))
  | block
  | call (form : CallForm) (retVar : Option String) (flow : String) (pos : List Expr) (named : List (String × Expr))
  /-- `($x[path].m(args))` (`ret = "_"`, what the parser makes of an expression statement) or
      `$ret = $x[path].m(args)` -/
  | mut (x : String) (path : List PathKey) (m : Meth) (ret : String)
  deriving Repr, Inhabited

structure HFlowDef where
  params : List Param
  rets : List Param
  body : List HStmt
  deriving Repr, Inhabited

/-- what a callee sees when it starts: its context right after `_start_flow`, as VALUES -/
structure Entry where
  uid : Nat
  flow : String
  ua : Ctx          -- the user-written call arguments (addresses) — decides which parameters were omitted
  ctx : Ctx         -- entry context, dereferenced in the heap of that moment
  deriving Repr, Inhabited

structure HSt where
  st : St := {}
  heap : Heap := []
  entries : List Entry := []
  deriving Repr, Inhabited

def findHFlow (name : String) : List (String × HFlowDef) → Option HFlowDef
  | [] => none
  | (n, d) :: r => if n = name then some d else findHFlow name r

/-- one fresh object per declared default: the parameters handed to the binding functions carry the
    address as their (literal) default.  Parameters without default keep `None` (immediate). -/
def allocDefaults (h : Heap) : List Param → Heap × List Param
  | [] => (h, [])
  | p :: ps =>
    match p.dflt with
    | some _ =>
      let r := allocDefaults (h ++ [p.dfltVal]) ps
      (r.1, { name := p.name, dflt := some (.lit (addr h.length)) } :: r.2)
    | none =>
      let r := allocDefaults h ps
      (r.1, p :: r.2)

def posArgsH (g c : Ctx) : Heap → List Expr → Nat → Heap × Ctx
  | h, [], _ => (h, [])
  | h, e :: es, i =>
    let r := evalH h g c e
    let r' := posArgsH g c r.1 es (i + 1)
    (r'.1, (.pos i, r.2) :: r'.2)

def namedArgsH (g c : Ctx) : Heap → List (String × Expr) → Heap × Ctx
  | h, [] => (h, [])
  | h, ne :: es =>
    let r := evalH h g c ne.2
    let r' := namedArgsH g c r.1 es
    (r'.1, (argKey ne.1, r.2) :: r'.2)

/-- the user-written call arguments as objects (evaluated in the caller, left to right) -/
def userArgsH (h : Heap) (g c : Ctx) (pos : List Expr) (named : List (String × Expr)) : Heap × Ctx :=
  let p := posArgsH g c h pos 0
  let n := namedArgsH g c p.1 named
  (n.1, update p.2 n.2)

def posArgsF (h : Heap) (g c : Ctx) : List Expr → Nat → Ctx
  | [], _ => []
  | e :: es, i => (.pos i, evalF h g c e) :: posArgsF h g c es (i + 1)

/-- the same arguments as VALUES (the caller's `FlowStarted` pattern is evaluated when it is matched) -/
def userArgsF (h : Heap) (g c : Ctx) (pos : List Expr) (named : List (String × Expr)) : Ctx :=
  update (posArgsF h g c pos 0) (named.map fun ne => (argKey ne.1, evalF h g c ne.2))

def HSt.setCtx (s : HSt) (u : Nat) (g c : Ctx) : HSt := { s with st := s.st.setCtx u g c }

def HSt.addInst (s : HSt) (n : Nat) (f : Inst) (h : Heap) : HSt :=
  { s with st := { s.st with insts := s.st.insts ++ [(n, f)], next := n + 1 }, heap := h }

/-- Run the rest `body` of instance `u` (mirror of `exec`, heap threaded through). -/
def hexec (flows : List (String × HFlowDef)) : Nat → HSt → Nat → List HStmt → HSt × Outcome
  | 0, s, _, _ => (s, .outOfFuel)
  | _ + 1, s, _, [] => (s, .finished)
  | fuel + 1, s, u, stmt :: rest =>
    match stmt with
    | .assign k e =>
      let r := evalH s.heap s.st.globals (s.st.ctxOf u) e
      let gc := assignCtx k r.2 s.st.globals (s.st.ctxOf u)
      hexec flows fuel { (s.setCtx u gc.1 gc.2) with heap := r.1 } u rest
    | .global x =>
      let gc := globalCtx x s.st.globals (s.st.ctxOf u)
      hexec flows fuel (s.setCtx u gc.1 gc.2) u rest
    | .ret e =>
      let r := evalH s.heap s.st.globals (s.st.ctxOf u) e
      ({ (s.setCtx u s.st.globals (returnCtx r.2 (s.st.ctxOf u))) with heap := r.1 }, .finished)
    | .send name args =>
      let ev := (name, args.map fun ke => (ke.1, evalF s.heap s.st.globals (s.st.ctxOf u) ke.2))
      hexec flows fuel { s with st := { s.st with out := s.st.out ++ [ev] } } u rest
    | .block => (s, .blocked)
    | .mut x path m ret =>
      match evalVar s.st.globals (s.st.ctxOf u) x with
      | .int (.ofNat a) =>
        match s.heap[a]? with
        | none => (s, .failed)
        | some cell =>
          match mutAt path (m.evalF s.heap s.st.globals (s.st.ctxOf u)) cell with
          | none => (s, .failed)
          | some (cell', res) =>
            let r := alloc (s.heap.set a cell') res
            let gc := assignCtx ret r.2 s.st.globals (s.st.ctxOf u)
            hexec flows fuel { (s.setCtx u gc.1 gc.2) with heap := r.1 } u rest
      | _ => (s, .failed)
    | .call form retVar flow pos named =>
      match findHFlow flow flows with
      | none => (s, .blocked)
      | some d =>
        let n := s.st.next
        let ua := userArgsH s.heap s.st.globals (s.st.ctxOf u) pos named
        let ev := startArgs ua.2 form flow n u
        let ps := allocDefaults ua.1 d.params
        let rs := allocDefaults ps.1 d.rets
        match createFlowInstance flow ps.2 rs.2 ev with
        | .error e => ({ s with heap := rs.1 }, .error e)
        | .ok f0 =>
          match startFlow false ev f0 with
          | .error e => (s.addInst n f0 rs.1, .error e)
          | .ok f1 =>
            let s1 : HSt := { (s.addInst n f1 rs.1) with
              entries := s.entries ++ [{ uid := n, flow := flow, ua := ua.2, ctx := derefCtx rs.1 f1.context }] }
            let r := hexec flows fuel s1 n d.body
            let s2 := r.1
            match r.2 with
            | .outOfFuel => (s2, .outOfFuel)
            | .error e => (s2, .error e)
            | .failed => (s2, .blocked)
            | oc =>
              let f2 := (findInst n s2.st.insts).getD f1
              let pat := matchArgs (userArgsF s2.heap s2.st.globals (s2.st.ctxOf u) pos named) flow n
              if !handshake pat n (derefInst s2.heap f2) then (s2, .blocked)
              else if form ≠ .await then hexec flows fuel s2 u rest
              else if oc = .blocked then (s2, .blocked)
              else if !finishedMatch n (derefInst s2.heap f2) then (s2, .blocked)
              else match retVar with
                | none => hexec flows fuel s2 u rest
                | some x =>
                  match captureReturn x (finishedArgs (uidVal n) f2) s2.st.globals (s2.st.ctxOf u) with
                  | none => (s2, .failed)
                  | some gc => hexec flows fuel (s2.setCtx u gc.1 gc.2) u rest

/-- `FlowState.start_event` as it is — the StartFlow event with which the interpreter restarts an activated flow
    (and starts a new instance at a `start_new_flow_instance` label): its own keys, then ALL entries of the
    finished instance's `arguments`, i.e. also the parameters the original caller omitted. -/
def restartArgs (f : Inst) (newUid parent : Val) : Ctx :=
  update [(.name "flow_instance_uid", newUid), (.name "flow_id", .str f.flowId),
          (.name "source_flow_instance_uid", parent), (.name "source_head_uid", .str "#head"),
          (.name "flow_hierarchy_position", .str "#pos"), (.name "activated", .bool true)] f.arguments

/-- `start_event` with fixes/C08-restart-reevaluates-omitted-defaults.diff: the keys recorded in
    `default_argument_keys` (parameters the start did not provide) are not handed on. -/
def restartArgsRepaired (f : Inst) (defaultKeys : List Key) (newUid parent : Val) : Ctx :=
  update [(.name "flow_instance_uid", newUid), (.name "flow_id", .str f.flowId),
          (.name "source_flow_instance_uid", parent), (.name "source_head_uid", .str "#head"),
          (.name "flow_hierarchy_position", .str "#pos"), (.name "activated", .bool true)]
    (f.arguments.filter fun kv => !defaultKeys.contains kv.1)

def runMainH (flows : List (String × HFlowDef)) (fuel : Nat) (mainBody : List HStmt) : HSt × Outcome :=
  match createFlowInstance "main" [] [] [] with
  | .error e => ({}, .error e)
  | .ok f => hexec flows fuel { st := { insts := [(0, f)], next := 1 } } 0 mainBody

end NemoVerif.Bind
