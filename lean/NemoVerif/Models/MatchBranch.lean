/-
  C05 (phase 6) — the branches of `_compute_event_comparison_score`, one per kind of triggering event, and the
  function's last step `if priority: match_score *= priority`.

  `Match.eventScore` (C04's model, imported unchanged) = `eventCore` (the specificity, one branch per event kind)
  followed by the priority scaling.  `scoreBranch` names the branch an (event, reference event) pair is scored by —
  the same names the translator `harness/translate/c05.py::score_branches` reads off the current source — and
  `scaleBy` is the last step on its own.  `eventScoreEarlyExit` is the function with an exit from the flow-id path of
  the StartFlow branch BEFORE the last step (the shape of an "optimised" branch): the counterexample theorem of
  `Theorems/C05.lean` shows that the per-branch statement is not true of every such function.
-/
import NemoVerif.Models.Match

namespace NemoVerif.MatchBranch
open NemoVerif NemoVerif.Match
open NemoVerif.Generated.C04

inductive ScoreBranch where
  | startFlowId    -- StartFlow matched by `match StartFlow(flow_id=…)` (and the implicit first statement of every flow)
  | startFlowAny   -- StartFlow matched by `match StartFlow(<parameters>)`: the start of any flow
  | internal       -- FlowStarted / FlowFinished / FlowFailed / UnhandledEvent / StopFlow / FinishFlow / …Log
  | umim           -- everything else: external (UMIM / custom) events and action events
  deriving DecidableEq, Repr, Inhabited

def ScoreBranch.name : ScoreBranch → String
  | .startFlowId => "startflow_id"
  | .startFlowAny => "startflow_any"
  | .internal => "internal"
  | .umim => "umim"

def ScoreBranch.all : List ScoreBranch := [.startFlowId, .startFlowAny, .internal, .umim]

/-- which branch of `_compute_event_comparison_score` scores the pair (same tests, same order as `eventCore`) -/
def scoreBranch (ev ref : Ev) : ScoreBranch :=
  if ev.name = evStartFlow ∧ ref.name = evStartFlow then
    (if (lookup "flow_id" ref.args).isSome then .startFlowId else .startFlowAny)
  else if ev.name ∈ internalEventsAll ∧ ref.name ∈ internalEventsAll then .internal
  else .umim

/-- the last step of the function: `if priority: match_score *= priority` (non-positive results left before it) -/
def scaleBy (p : Option (Int × Nat)) : EvRes → EvRes
  | .pos k _ => .pos k p
  | r => r

/-- `_compute_event_comparison_score` with an early exit from the flow-id path of the StartFlow branch: the value of
    the branch is returned as it is, the last step is skipped -/
def eventScoreEarlyExit (rx : Rx) (startArgs : String → Option (List (String × Val)))
    (ev ref : Ev) (priority : Option (Int × Nat)) : EvRes :=
  if scoreBranch ev ref = .startFlowId then eventCore rx startArgs ev ref
  else eventScore rx startArgs ev ref priority

end NemoVerif.MatchBranch
